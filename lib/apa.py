"""Apalache (symbolic, SMT) inductive-invariant checks used as *additional* evidence next to
the TLC-decided checks.  A result recorded here never decides a verdict: missing tool,
timeout or an unexpected outcome are recorded in the evidence and nothing else."""
import os, re, shutil, subprocess, time
import vlib


def available():
    return shutil.which("apalache-mc") is not None


def check(workdir, specfile, label, args, expect, timeout=300):
    """Run `apalache-mc check <args> <specfile>` in a scratch copy; expect = 'NoError' | 'Error'."""
    res = {"spec": os.path.relpath(specfile, vlib.VERIF), "check": label, "args": " ".join(args), "expected": expect}
    if not available():
        res["outcome"] = "tool-missing"
        return res
    d = os.path.join(workdir, "apalache", re.sub(r"[^A-Za-z0-9]+", "_", os.path.basename(specfile) + "_" + label))
    os.makedirs(d, exist_ok=True)
    shutil.copy(specfile, d)
    cmd = ["apalache-mc", "check"] + args + ["--out-dir=" + os.path.join(d, "out"), os.path.basename(specfile)]
    t0 = time.time()
    try:
        p = subprocess.run(cmd, cwd=d, capture_output=True, text=True, timeout=timeout)
        m = re.search(r"The outcome is: (\w+)", p.stdout)
        res["outcome"] = m.group(1) if m else "exit-%d" % p.returncode
    except subprocess.TimeoutExpired:
        res["outcome"] = "timeout"
    except Exception as ex:            # never let the additional evidence break a check
        res["outcome"] = "tool-error: %s" % str(ex)[:200]
    res["wall_s"] = round(time.time() - t0, 1)
    res["as_expected"] = res["outcome"] == expect
    shutil.rmtree(d, ignore_errors=True)
    return res


def inductive(workdir, specfile, extra=()):
    """The standard battery: base case, inductive step, invariant implies the safety
    statement, negative control (a broken Next must violate the invariant)."""
    c = ["--cinit=CInit"]
    jobs = [("base: Init => IndInv", c + ["--init=Init", "--inv=IndInv", "--length=0"], "NoError"),
            ("step: IndInv /\\ Next => IndInv'", c + ["--init=IndInit", "--inv=IndInv", "--length=1"], "NoError"),
            ("use: IndInv => Safe", c + ["--init=IndInit", "--inv=Safe", "--length=0"], "NoError"),
            ("negative control: IndInv /\\ NextCtl => IndInv' must fail",
             c + ["--init=IndInit", "--next=NextCtl", "--inv=IndInv", "--length=1"], "Error")]
    jobs += list(extra)
    return [(workdir, specfile, l, a, e) for l, a, e in jobs]
