"""Source of /verif/MANIFEST.json (regenerate with bin/mkmanifest)."""
CHECKS = {
 "C10": dict(
   engine="tlc-bip",
   technique="TLA+ monitor + implementation model checked exhaustively by TLC; TLC-generated transition cover and random histories replayed into the real BipBuffer; recorded traces validated by TLC against the monitor",
   text="Exhaustive TLC check of the index machine (BipImpl) composed with the property monitor (BipMon) for every buffer size in the tier's range and all argument values 0..size+1, unbounded history length (finite state). Every transition of that state graph is replayed on the real sonic.BipBuffer (shortest path + edge) and the recorded trace - offsets, lengths and token contents of every returned slice, getters after every call - is validated by TLC against the monitor; seeded random long histories on larger sizes are added. Verdicts come only from recorded real-code traces.",
   note="Trusted: TLC, the Go replay driver (offset from slice capacity, token writer), JSON trace I/O. Sizes above the tier's range are covered by random histories only.",
   design_ref="5/C10"),
}
NOT_YET = "check not built yet (work in progress; see DESIGN.md section 9)"
ENGINES = [
 {"name": "tlc-bip", "path": "spec/Bip", "serves_properties": ["C10"], "kind_free_text": "TLA+ specs BipMon/BipImpl/BipMonTrace + Go replay driver harness/internal/bip"},
]
HOOK_COMMITS = []
