"""Shared machinery of the /verif checks: building the Go harness against
/repo's working tree, running TLC (exhaustive check, generation, trace
validation), known-findings handling, evidence and verdict output."""
import json, os, re, shutil, subprocess, sys, time, glob, hashlib

VERIF = os.path.dirname(os.path.dirname(os.path.abspath(__file__)))
REPO = os.environ.get("VERIF_REPO", "/repo")
WORK = os.path.join(VERIF, ".work")
NCPU = os.cpu_count() or 4

GO_CANDIDATES = [
    "/root/go/pkg/mod/golang.org/toolchain@v0.0.1-go1.24.1.linux-amd64/bin/go",
    "/usr/local/bin/go1.26",
]


class Inconclusive(Exception):
    """Driver/tool trouble: exit 2, never a VIOLATION."""


def log(*a):
    print(*a, file=sys.stderr, flush=True)


# --------------------------------------------------------------------------
# Go harness
# --------------------------------------------------------------------------
def go_env():
    env = dict(os.environ)
    env.update(GOFLAGS="-mod=mod", GOPROXY="off", GOTOOLCHAIN="local", GOSUMDB="off")
    return env


def go_bin():
    for g in GO_CANDIDATES:
        if os.path.exists(g):
            return g
    return "go"


_built = {}


def build_harness(race=False):
    """go build -tags verif of the harness against /repo's current working tree."""
    key = "race" if race else "plain"
    if key in _built:
        return _built[key]
    hdir = os.path.join(VERIF, "harness")
    shutil.copyfile(os.path.join(REPO, "go.sum"), os.path.join(hdir, "go.sum"))
    modflag = []
    if REPO != "/repo":
        # development only: build against another checkout of the repository
        alt = open(os.path.join(hdir, "go.mod")).read().replace("=> /repo", "=> " + REPO)
        open(os.path.join(hdir, "go.alt.mod"), "w").write(alt)
        shutil.copyfile(os.path.join(REPO, "go.sum"), os.path.join(hdir, "go.alt.sum"))
        modflag = ["-modfile=go.alt.mod"]
    os.makedirs(os.path.join(WORK, "bin"), exist_ok=True)
    suffix = "" if REPO == "/repo" else "-" + hashlib.md5(REPO.encode()).hexdigest()[:6]
    out = os.path.join(WORK, "bin", "replay" + ("-race" if race else "") + suffix)
    cmd = [go_bin(), "build", "-tags", "verif"] + modflag
    if race:
        cmd += ["-race", "-gcflags=all=-d=checkptr=0"]
    cmd += ["-o", out, "./cmd/replay"]
    t0 = time.time()
    p = subprocess.run(cmd, cwd=hdir, env=go_env(), capture_output=True, text=True)
    if p.returncode != 0:
        # a tree that does not compile is not a property violation
        raise Inconclusive("harness build failed:\n" + p.stdout + p.stderr)
    log("[build] harness built in %.1fs" % (time.time() - t0))
    _built[key] = out
    return out


def time_wait_sockets():
    """Number of loopback TCP sockets in TIME_WAIT (they keep ephemeral ports occupied for 60 s)."""
    n = 0
    try:
        with open("/proc/net/tcp") as f:
            for line in f:
                parts = line.split()
                if len(parts) > 3 and parts[3] == "06":
                    n += 1
    except OSError:
        pass
    return n


TIME_WAIT_WAITED = [0.0]


def settle_ports(high=16000, low=9000, patience=75):
    """The drivers open tens of thousands of loopback connections; what the previous driver (or check) left in
    TIME_WAIT can use up the 28 k ephemeral ports ('bind: address already in use' in a set-up step). Wait until
    the kernel has expired them - this only delays, it decides nothing."""
    if time_wait_sockets() <= high:
        return
    t0 = time.time()
    while time_wait_sockets() > low and time.time() - t0 < patience:
        time.sleep(1)
    TIME_WAIT_WAITED[0] += time.time() - t0


def run_replay(args, timeout=600, race=False, env=None, check=True):
    """Run the replay binary; returns (summary dict or None, stdout)."""
    exe = build_harness(race=race)
    settle_ports()
    e = dict(os.environ)
    if env:
        e.update(env)
    try:
        p = subprocess.run([exe] + args, capture_output=True, text=True, timeout=timeout, env=e)
    except subprocess.TimeoutExpired:
        raise Inconclusive("replay %s timed out after %ss" % (args[:1], timeout))
    if p.returncode != 0 and check:
        raise Inconclusive("replay %s failed (rc %d):\n%s\n%s" % (args, p.returncode, p.stdout[-2000:], p.stderr[-4000:]))
    summ = None
    for line in p.stdout.splitlines():
        if line.startswith("SUMMARY "):
            summ = json.loads(line[8:])
    return summ, p.stdout


# --------------------------------------------------------------------------
# TLC
# --------------------------------------------------------------------------
class Tlc:
    def __init__(self, rc, outpath, wall):
        self.rc, self.outpath, self.wall = rc, outpath, wall
        self.generated = self.distinct = self.depth = 0
        self.violated = None      # name of violated invariant/property
        self.error = None         # other error text
        self.ok = False
        self.coverage_zero = []
        with open(outpath, errors="replace") as f:
            for line in f:
                if line.startswith("<<\"EDGE\""):
                    continue
                m = re.match(r"(\d+) states generated, (\d+) distinct states found", line)
                if m:
                    self.generated, self.distinct = int(m.group(1)), int(m.group(2))
                m = re.search(r"depth of the complete state graph search is (\d+)", line)
                if m:
                    self.depth = int(m.group(1))
                m = re.match(r"Error: Invariant (\S+) is violated", line)
                if m:
                    self.violated = m.group(1)
                m = re.match(r"Error: (Action property|Temporal properties) (.*)", line)
                if m and not self.violated:
                    self.violated = m.group(0)
                if line.startswith("Error: Deadlock reached"):
                    self.violated = "Deadlock"
                if line.startswith("Error:") and not self.violated and self.error is None and \
                        "behavior up to this point" not in line:
                    self.error = line.strip()
                if "Model checking completed. No error has been found" in line:
                    self.ok = True
                if "Finished in" in line and self.rc == 0 and not self.violated and self.error is None:
                    self.ok = True
        if self.violated:
            self.ok = False

    def lines(self, prefix):
        with open(self.outpath, errors="replace") as f:
            for line in f:
                if line.startswith(prefix):
                    yield line

    def tail(self, n=40):
        with open(self.outpath, errors="replace") as f:
            ls = [l for l in f if not l.startswith("<<\"EDGE\"")]
        return "".join(ls[-n:])


def prep_spec(specdir, workdir):
    """Copy a spec directory into a scratch directory (TLC litters)."""
    dst = os.path.join(workdir, "spec")
    if os.path.exists(dst):
        shutil.rmtree(dst)
    shutil.copytree(os.path.join(VERIF, "spec", specdir), dst)
    # shared modules
    common = os.path.join(VERIF, "spec", "common")
    if os.path.isdir(common):
        for f in os.listdir(common):
            shutil.copy(os.path.join(common, f), dst)
    return dst


def cfg_with(specwork, cfgname, consts=None, outname=None, drop=None, add=None):
    """Derive a cfg from a committed template, overriding CONSTANTS values."""
    text = open(os.path.join(specwork, cfgname)).read()
    for k, v in (consts or {}).items():
        text, n = re.subn(r"(?m)^(\s*%s\s*=\s*).*$" % re.escape(k), lambda m: m.group(1) + str(v), text)
        if n == 0:
            raise Inconclusive("constant %s not in %s" % (k, cfgname))
    for d in (drop or []):
        text = re.sub(r"(?m)^%s.*$\n?" % re.escape(d), "", text)
    for a in (add or []):
        text += "\n" + a + "\n"
    outname = outname or ("gen_" + hashlib.md5(text.encode()).hexdigest()[:8] + "_" + cfgname)
    with open(os.path.join(specwork, outname), "w") as f:
        f.write(text)
    return outname


def mc_module(specwork, base, consts, cfg_body, tag=None):
    """Generate <base>_<tag>.tla (EXTENDS base, one definition per constant) and a
    cfg that substitutes every constant (`K <- c_K`), for constants that a cfg
    cannot express (sequences, records). `consts` maps name -> TLA+ expression.
    Returns (module name, cfg name)."""
    tag = tag or hashlib.md5((repr(sorted(consts.items())) + cfg_body).encode()).hexdigest()[:8]
    mod = "%s_%s" % (base, tag)
    lines = ["---- MODULE %s ----" % mod, "EXTENDS %s" % base]
    for k, v in consts.items():
        lines.append("c_%s == %s" % (k, v))
    lines.append("====")
    with open(os.path.join(specwork, mod + ".tla"), "w") as f:
        f.write("\n".join(lines) + "\n")
    cfg = "CONSTANTS\n" + "".join("  %s <- c_%s\n" % (k, k) for k in consts) + cfg_body + "\n"
    with open(os.path.join(specwork, mod + ".cfg"), "w") as f:
        f.write(cfg)
    return mod, mod + ".cfg"


def tla(v):
    """Python value -> TLA+ expression (bool, int, str, list -> sequence, set/frozenset -> set)."""
    if isinstance(v, bool):
        return "TRUE" if v else "FALSE"
    if isinstance(v, int):
        return str(v)
    if isinstance(v, str):
        return '"%s"' % v
    if isinstance(v, (list, tuple)):
        return "<<" + ", ".join(tla(x) for x in v) + ">>"
    if isinstance(v, (set, frozenset)):
        return "{" + ", ".join(tla(x) for x in sorted(v)) + "}"
    raise TypeError(v)


_tlc_seq = [0]
_tlc_lock = __import__("threading").Lock()


def tlc(specwork, module, cfg, workers=1, timeout=600, simulate=None, depth=None, seed=None,
        env=None, extra=None, deque=False, xss=False, continue_=False):
    with _tlc_lock:
        _tlc_seq[0] += 1
        tag = "%s_%d" % (module, _tlc_seq[0])
    md = os.path.join(specwork, "md_" + tag)
    outpath = os.path.join(specwork, "out_" + tag + ".txt")
    # bounded heaps: checks run many JVMs side by side (the JVM's default of a quarter of the RAM each
    # ended in the kernel's OOM killer on a loaded machine)
    heap = os.environ.get("VERIF_TLC_HEAP") or ("2g" if (simulate is not None or workers <= 1) else ("4g" if workers <= 4 else "8g"))
    cmd = ["java", "-Xmx" + heap, "-XX:MinHeapFreeRatio=10", "-XX:MaxHeapFreeRatio=30", "-XX:+UseParallelGC", "-XX:ParallelGCThreads=%d" % (2 if workers <= 2 else min(workers, 8)), "-XX:TieredStopAtLevel=4"]
    if xss:
        cmd += ["-Xss512m"]
    if deque:
        cmd += ["-Dtlc2.tool.queue.IStateQueue=StateDeque"]
    cmd += ["-cp", "/opt/veriftools/tla/tla2tools.jar:/opt/veriftools/tla/CommunityModules-deps.jar", "tlc2.TLC",
            "-workers", str(workers), "-metadir", md, "-config", cfg, "-noGenerateSpecTE"]
    if continue_:
        cmd += ["-continue"]
    if simulate is not None:
        cmd += ["-simulate", "num=%d" % simulate]
        if depth:
            cmd += ["-depth", str(depth)]
    if seed is not None:
        cmd += ["-seed", str(seed)]
    cmd += (extra or [])
    cmd += [module + ".tla"]
    e = dict(os.environ)
    e.pop("JAVA_TOOL_OPTIONS", None)
    if env:
        e.update(env)
    t0 = time.time()
    with open(outpath, "w") as out:
        try:
            p = subprocess.run(cmd, cwd=specwork, stdout=out, stderr=subprocess.STDOUT, timeout=timeout, env=e)
            rc = p.returncode
        except subprocess.TimeoutExpired:
            rc = -99
    wall = time.time() - t0
    shutil.rmtree(md, ignore_errors=True)
    r = Tlc(rc, outpath, wall)
    if rc == -99:
        r.error = "timeout after %ss" % timeout
    elif rc < 0:
        r.error = "TLC killed by signal %d" % -rc
    elif rc != 0 and not r.error and "OutOfMemoryError" in open(outpath, errors="replace").read():
        r.error = "TLC out of heap (-Xmx%s)" % heap
    if (not xss) and r.error and "StackOverflow" in open(outpath, errors="replace").read():
        return tlc(specwork, module, cfg, workers, timeout, simulate, depth, seed, env, extra, deque, True, continue_)
    return r


EDGE_RE = re.compile(r'^<<"EDGE", (".*")>>\s*$')


def edges_to_file(tlc_result, path, limit=None, dedupe=True, pick=None):
    """Extract the generated histories printed by EmitEdge/EmitLeaf into a
    behaviours file (one JSON array per line). Returns the count."""
    seen = set()
    n = 0
    with open(path, "w") as out:
        for line in tlc_result.lines('<<"EDGE"'):
            m = EDGE_RE.match(line)
            if not m:
                continue
            try:
                s = json.loads(m.group(1))
            except Exception:
                continue
            if dedupe:
                h = hashlib.md5(s.encode()).digest()
                if h in seen:
                    continue
                seen.add(h)
            if pick is not None and not pick(n):
                n += 1
                continue
            out.write(s + "\n")
            n += 1
            if limit and n >= limit:
                break
    return n


BAD_RE = re.compile(r'^<<"BAD", (\d+), (\d+), "([^"]*)">>')


SID_RE = re.compile(r'"sid":(\d+)')


def split_trace(tracefile, k):
    """Split an ndjson trace into <= k files at scenario boundaries (sid change)."""
    with open(tracefile) as f:
        lines = f.readlines()
    if k <= 1 or len(lines) < 4000:
        return [tracefile], len(lines)
    target = (len(lines) + k - 1) // k
    parts, cur, last_sid = [], [], None
    for line in lines:
        m = SID_RE.search(line)
        sid = m.group(1) if m else last_sid
        if len(cur) >= target and sid != last_sid:
            parts.append(cur)
            cur = []
        cur.append(line)
        last_sid = sid
    if cur:
        parts.append(cur)
    files = []
    for i, part in enumerate(parts):
        fn = "%s.part%d" % (tracefile, i)
        with open(fn, "w") as f:
            f.writelines(part)
        files.append(fn)
    return files, len(lines)


def validate_trace(specwork, module, cfg, tracefile, timeout=900, extra_env=None, parallel=None):
    """Run a monitor trace spec over a recorded ndjson trace (split at scenario
    boundaries and validated by several TLC processes in parallel).
    Returns (bads, tlc_results) with bads = [(sid, i, key)]."""
    from concurrent.futures import ThreadPoolExecutor
    files, nlines = split_trace(tracefile, parallel or NCPU)

    def one(fn):
        env = {"TRACE": fn}
        if extra_env:
            env.update(extra_env)
        return tlc(specwork, module, cfg, workers=1, timeout=timeout, env=env)

    with ThreadPoolExecutor(max_workers=len(files)) as ex:
        results = list(ex.map(one, files))
    bads = []
    for r in results:
        for line in r.lines('<<"BAD"'):
            m = BAD_RE.match(line)
            if m:
                bads.append((int(m.group(1)), int(m.group(2)), m.group(3)))
        if not r.ok:
            raise Inconclusive("trace validation with %s did not complete: %s\n%s" % (module, r.error or r.violated, r.tail(30)))
    for fn in files:
        if fn != tracefile:
            os.remove(fn)
    bads.sort()
    return bads, results


# --------------------------------------------------------------------------
# known findings
# --------------------------------------------------------------------------
def known_findings():
    """known-findings.txt: `known: property=<id> key=<rule key> <text>` and
    `fixed: property=<id> <commit> <text>` (the latter suppress nothing)."""
    res = {}
    p = os.path.join(VERIF, "known-findings.txt")
    if not os.path.exists(p):
        return res
    for line in open(p):
        line = line.strip()
        m = re.match(r"known:\s+property=(\S+)\s+key=(\S+)\s+(.*)", line)
        if m:
            res[(m.group(1), m.group(2))] = m.group(3)
    return res


# --------------------------------------------------------------------------
# check context: evidence + verdict
# --------------------------------------------------------------------------
class Check:
    def __init__(self, pid, tier, seed, level="model_checking"):
        self.pid, self.tier, self.seed, self.level = pid, tier, seed, level
        self.t0 = time.time()
        self.work = os.path.join(WORK, "%s-%s-%d" % (pid, tier, os.getpid()))
        if os.path.exists(self.work):
            shutil.rmtree(self.work)
        os.makedirs(self.work)
        self.cov = {"states": 0, "transitions": 0, "traces_validated_against_impl": 0, "samples": [],
                    "evaluations": 0, "distinct_nontrivial": 0, "rule": "", "tlc_runs": [],
                    "impl_drift": [], "known_findings_seen": [], "model_findings": []}
        self.assumptions = []
        self.violations = []   # (key, replay path, text)
        self.known_seen = {}
        self.inconclusive = []

    def add_tlc(self, name, r, consts=None, exhaustive=True):
        self.cov["states"] += r.distinct
        self.cov["transitions"] += r.generated
        self.cov["tlc_runs"].append({"name": name, "constants": consts or {}, "distinct_states": r.distinct,
                                      "states_generated": r.generated, "depth": r.depth, "wall_s": round(r.wall, 1),
                                      "result": "ok" if r.ok else (r.violated or r.error or "rc=%s" % r.rc),
                                      "exhaustive": exhaustive})

    def sample(self, s, cap=6):
        if len(self.cov["samples"]) < cap:
            self.cov["samples"].append(s)

    def replay_path(self, name):
        d = os.path.join(VERIF, "evidence", "replays", self.pid)
        os.makedirs(d, exist_ok=True)
        return os.path.join(d, name)

    def report_bad(self, key, text, replay_obj, name=None):
        """A real-code trace was rejected by the monitor with rule `key`."""
        if not hasattr(self, "_kf"):
            self._kf = known_findings()
        kf = self._kf
        self.cov.setdefault("rejections_by_rule", {})
        self.cov["rejections_by_rule"][key] = self.cov["rejections_by_rule"].get(key, 0) + 1
        if (self.pid, key) in kf:
            if key not in self.known_seen:
                self.known_seen[key] = kf[(self.pid, key)]
            return False
        name = name or ("%s.json" % re.sub(r"[^A-Za-z0-9_.-]", "_", key))
        path = self.replay_path(name)
        if not any(v[0] == key for v in self.violations):
            if callable(replay_obj):
                replay_obj = replay_obj()
            with open(path, "w") as f:
                json.dump(replay_obj, f, indent=1)
            self.violations.append((key, path, text))
        return True

    def finish(self):
        wall = time.time() - self.t0
        self.cov["known_findings_seen"] = sorted(self.known_seen)
        if TIME_WAIT_WAITED[0] > 0:
            self.cov["waited_for_time_wait_sockets_s"] = round(TIME_WAIT_WAITED[0], 1)
        ev = {"property_id": self.pid, "tier": self.tier, "seed": self.seed, "level": self.level,
              "coverage": self.cov, "assumptions": self.assumptions, "wall_s": round(wall, 2),
              "violations": len(self.violations)}
        if self.inconclusive:
            ev["coverage"]["inconclusive"] = self.inconclusive
        os.makedirs(os.path.join(VERIF, "evidence"), exist_ok=True)
        with open(os.path.join(VERIF, "evidence", self.pid + ".json"), "w") as f:
            json.dump(ev, f, indent=1)
        shutil.rmtree(self.work, ignore_errors=True)
        for key, text in sorted(self.known_seen.items()):
            print("KNOWN-FINDING: property=%s %s [%s]" % (self.pid, text, key))
        for key, path, text in self.violations:
            print("VIOLATION property=%s replay=%s" % (self.pid, path))
            print("  rule=%s %s" % (key, text))
        if self.violations:
            return 1
        if self.inconclusive:
            for s in self.inconclusive:
                print("INCONCLUSIVE: " + s)
            return 2
        print("OK property=%s tier=%s seed=%d states=%d transitions=%d traces=%d wall=%.1fs" % (
            self.pid, self.tier, self.seed, self.cov["states"], self.cov["transitions"],
            self.cov["traces_validated_against_impl"], wall))
        return 0


def read_scenario(tracefile, sid):
    """All trace lines of one scenario (for replay files)."""
    out = []
    with open(tracefile) as f:
        for line in f:
            try:
                o = json.loads(line)
            except Exception:
                continue
            if o.get("sid") == sid:
                out.append(o)
            elif out:
                break
    return out


def nth_line(path, n):
    with open(path) as f:
        for i, line in enumerate(f, 1):
            if i == n:
                return line.rstrip("\n")
    return None
