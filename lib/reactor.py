"""Shared engine of the event-loop checks (C01, C03, C04, C14 and the
single-threaded part of C05): exhaustive TLC runs of ReactorImpl (narrow
configurations), transition cover / simulation as scenario generator, replay on
real descriptors (harness `rx`), trace validation against ReactorMon with the
property in focus."""
import json, os, random, hashlib
from concurrent.futures import ThreadPoolExecutor
import vlib

import re
EV_RE = re.compile(r'"ev":"([A-Za-z]+)"')

ALL = {"har", "C01", "C03", "C04", "C05", "C14"}

BASE = dict(Kinds=["sock", "pipeR"], NT=0, Limit=2, MaxOps=3, MaxCmds=5, HBudget=1, MaxData=1, MaxTick=0,
            MaxPosts=0, MaxDrain=3, Cmds={"read", "cancel", "close"}, Envs={"send", "peerclose"}, TickUs=4000,
            Class="gen", MaxHist=0, Focus=ALL,
            BUG_HupOnly=False, BUG_StaleTimer=False, BUG_CancelAfterClose=False, BUG_RegLeak=False,
            BUG_DelSkip=False, BUG_ZeroDelayClearsCancel=False, Late=set(), LateT=set())

CFG_BODY = ("SPECIFICATION Spec\nINVARIANTS TypeOK PendingExact DepthBound\nVIEW View\n"
            "ACTION_CONSTRAINT EmitAll\nCHECK_DEADLOCK FALSE")
SIM_BODY = ("SPECIFICATION Spec\nINVARIANTS TypeOK PendingExact DepthBound\n"
            "CONSTRAINT EmitLeaf\nCHECK_DEADLOCK FALSE")


def consts(over):
    c = dict(BASE)
    c.update(over)
    return c


def _focus_env(focus):
    return {"FOCUS_C%02d" % i: ("1" if ("C%02d" % i) in focus else "0") for i in (1, 3, 4, 5, 14)}


TIMING_RULES = ("never-completed", "not-fired", "not-run", "stuck")


def replay_and_validate(ck, sw, name, beh, focus, label, env=None):
    """Replay a behaviours file on the real code, validate the trace, report
    rejections of the focused property. Timing-dependent rejections are
    re-executed with growing margins before they count."""
    trace = os.path.join(ck.work, "trace_%s.ndjson" % name)
    summ = parallel_replay(beh, trace, env)
    bads, _ = vlib.validate_trace(sw, "ReactorMonTrace", "ReactorMonTrace.cfg", trace,
                                  extra_env=_focus_env(focus), timeout=1500)
    ck.cov["evaluations"] += summ["scenarios"]
    ck.cov["distinct_nontrivial"] += summ["nontrivial"]
    ck.cov["traces_validated_against_impl"] += summ["scenarios"] - len({b[0] for b in bads})
    # how often each kind of event (= antecedent of the monitor's rules) occurred in real traces
    counts = ck.cov.setdefault("real_trace_event_counts", {})
    with open(trace) as f:
        for line in f:
            m = EV_RE.search(line)
            if m:
                counts[m.group(1)] = counts.get(m.group(1), 0) + 1
    if summ.get("drift"):
        ck.cov["impl_drift"].append({"config": label, "scenarios_differing_from_model_prediction": summ["drift"],
                                     "of": summ["scenarios"], "first": summ.get("first_drift")})
    confirmed = []
    rechecked = {}
    for sid, i, key in bads:
        if any(t in key for t in TIMING_RULES):
            # "did not happen within the budget": believe it only if it recurs with larger margins
            if key in rechecked:
                ok = rechecked[key]
            else:
                ok = True
                one = os.path.join(ck.work, "re_%s_%d.jsonl" % (name, sid))
                with open(one, "w") as f:
                    f.write(vlib.nth_line(beh, sid) + "\n")
                for slow in (2, 4, 8):
                    t2 = one + ".trace%d" % slow
                    e2 = dict(env or {})
                    e2["VERIF_SLOW"] = str(slow)
                    vlib.run_replay(["rx", "-in", one, "-out", t2], timeout=600, env=e2)
                    b2, _ = vlib.validate_trace(sw, "ReactorMonTrace", "ReactorMonTrace.cfg", t2,
                                                extra_env=_focus_env(focus), parallel=1)
                    if not any(k == key for _, _, k in b2):
                        ok = False
                        break
                rechecked[key] = ok
            if not ok:
                # the scenario was re-executed with larger margins and the monitor accepted it
                ck.cov.setdefault("transient_timing_observations", []).append(
                    {"rule": key, "scenario": sid, "config": label})
                continue
        if key.startswith("har"):
            ck.inconclusive.append("harness sanity rule %s fired at event %d of scenario %d (%s)" % (key, i, sid, label))
            continue
        confirmed.append((sid, i, key))
        ck.report_bad(key, "event-loop trace rejected at event %d of scenario %d (%s)" % (i, sid, label),
                      lambda sid=sid, i=i, key=key: {
                          "property": ck.pid, "component": "rx", "rule": key, "event": i,
                          "behaviour": json.loads(vlib.nth_line(beh, sid)),
                          "trace": vlib.read_scenario(trace, sid)})
    if len(ck.cov["samples"]) < 3 and summ["scenarios"]:
        k = max(1, summ["scenarios"] // 2)
        ck.sample({"config": label, "scenario": k,
                   "trace_excerpt": [compact(e) for e in vlib.read_scenario(trace, k)[:40]]})
    return confirmed


def parallel_replay(beh, trace, env=None, maxpar=6):
    """Replay a behaviours file with several driver processes (each owns its IO
    contexts and descriptors); scenario numbers stay global via -sidbase."""
    lines = open(beh).readlines()
    k = max(1, min(maxpar, len(lines) // 400))
    if k == 1:
        summ, _ = vlib.run_replay(["rx", "-in", beh, "-out", trace], timeout=1500, env=env)
        return summ
    per = (len(lines) + k - 1) // k
    jobs = []
    for j in range(k):
        part = lines[j * per:(j + 1) * per]
        if not part:
            continue
        pb = "%s.p%d" % (beh, j)
        with open(pb, "w") as f:
            f.writelines(part)
        jobs.append((pb, "%s.p%d" % (trace, j), j * per))
    with ThreadPoolExecutor(max_workers=len(jobs)) as ex:
        res = list(ex.map(lambda a: vlib.run_replay(["rx", "-in", a[0], "-out", a[1], "-sidbase", str(a[2])],
                                                    timeout=1500, env=env)[0], jobs))
    tot = {"component": "rx", "scenarios": 0, "events": 0, "nontrivial": 0, "drift": 0}
    with open(trace, "w") as out:
        for (pb, pt, _), s in zip(jobs, res):
            for key in ("scenarios", "events", "nontrivial", "drift"):
                tot[key] += s[key]
            if s.get("first_drift") and "first_drift" not in tot:
                tot["first_drift"] = s["first_drift"]
            with open(pt) as f:
                for line in f:
                    out.write(line)
            os.remove(pb)
            os.remove(pt)
    return tot


def compact(e):
    return {k: v for k, v in e.items() if v not in (0, "", []) and k not in ("c", "sid")}


def run_config(ck, sw, idx, name, over, focus, sample=None, sim=None, workers=4, timeout=900, env=None):
    """One narrow configuration: exhaustive TLC run (+ cover) or simulation."""
    c = consts(over)
    c["Focus"] = set(focus) | {"har"}
    if sim:
        mod, cfg = vlib.mc_module(sw, "ReactorImpl", {k: vlib.tla(v) for k, v in c.items()}, SIM_BODY)
        r = vlib.tlc(sw, mod, cfg, workers=1, simulate=sim, depth=400, seed=ck.seed * 100 + idx, timeout=timeout)
        if r.violated or (r.error and "timeout" not in (r.error or "")):
            raise vlib.Inconclusive("ReactorImpl simulation %s: %s\n%s" % (name, r.violated or r.error, r.tail()))
        ck.add_tlc("ReactorImpl simulation: " + name, r, _show(over), exhaustive=False)
    else:
        mod, cfg = vlib.mc_module(sw, "ReactorImpl", {k: vlib.tla(v) for k, v in c.items()}, CFG_BODY)
        r = vlib.tlc(sw, mod, cfg, workers=workers, timeout=timeout)
        if not r.ok:
            raise vlib.Inconclusive("ReactorImpl %s: %s\n%s" % (name, r.violated or r.error, r.tail()))
        ck.add_tlc("ReactorImpl exhaustive: " + name, r, _show(over))
    mf = {}
    for line in r.lines('<<"MODELBAD"'):
        k = line.split('"')[3]
        mf[k] = mf.get(k, 0) + 1
    for k, v in mf.items():
        ck.cov["model_findings"].append({"config": name, "rule": k, "histories": v})
    beh = os.path.join(ck.work, "beh_%d.jsonl" % idx)
    total = vlib.edges_to_file(r, beh)
    if total == 0:
        raise vlib.Inconclusive("no histories generated for " + name)
    if sample and total > sample:
        # stratified sample: every distinct suffix of three commands (with the frame that issued them)
        # is represented before any stratum gets a second member
        rnd = random.Random(ck.seed * 7919 + idx)
        strata = {}
        with open(beh) as fi:
            for n, line in enumerate(fi):
                strata.setdefault(signature(json.loads(line)), []).append(n)
        for v in strata.values():
            rnd.shuffle(v)
        keep, rounds = set(), 0
        keys = sorted(strata)
        while len(keep) < sample:
            added = False
            for k in keys:
                if rounds < len(strata[k]):
                    keep.add(strata[k][rounds])
                    added = True
                    if len(keep) >= sample:
                        break
            if not added:
                break
            rounds += 1
        ck.cov.setdefault("strata", 0)
        ck.cov["strata"] += len(strata)
        tmp = beh + ".all"
        os.rename(beh, tmp)
        with open(tmp) as fi, open(beh, "w") as fo:
            for n, line in enumerate(fi):
                if n in keep:
                    fo.write(line)
        os.remove(tmp)
    ck.cov.setdefault("generated_histories", 0)
    ck.cov["generated_histories"] += total
    return replay_and_validate(ck, sw, "c%d" % idx, beh, focus, name, env=env)


CMD_EVS = {"Call", "CancelB", "CloseB", "PostE", "TSchedB", "TCancelE", "TCloseE", "Env", "PollB"}


def signature(h, k=3):
    """The last k commands of a history, each with the kind of frame that issued it."""
    stack, cmds = [], []
    for e in h:
        ev = e["ev"]
        if ev in ("CbB", "TFireB", "PostRunB"):
            stack.append(ev)
        elif ev in ("CbE", "TFireE", "PostRunE"):
            if stack:
                stack.pop()
        elif ev in CMD_EVS and e.get("note") != "drain":
            cmds.append((ev, e.get("api", ""), e.get("o", 0), e.get("t", 0), e.get("dir", ""),
                         stack[-1] if stack else "top"))
    return tuple(cmds[-k:])


def _show(over):
    return {k: (sorted(v) if isinstance(v, (set, frozenset)) else v) for k, v in over.items()}


def run_configs(ck, configs, focus, par=4, env=None):
    """configs: list of dict(name=, over=, sample=, sim=)."""
    vlib.build_harness()
    sw = vlib.prep_spec("Reactor", ck.work)

    def one(a):
        idx, c = a
        return run_config(ck, sw, idx, c["name"], c["over"], focus, sample=c.get("sample"), sim=c.get("sim"),
                          workers=c.get("workers", 4), timeout=c.get("timeout", 900), env=env)

    with ThreadPoolExecutor(max_workers=par) as ex:
        for f in [ex.submit(one, a) for a in enumerate(configs)]:
            f.result()
    ck.cov["tlc_runs"].sort(key=lambda r: r["name"])
    return sw


def scripted(ck, sw, name, histories, focus, label, env=None):
    """Replay hand-built histories (same JSON format as the model's)."""
    beh = os.path.join(ck.work, "scripted_%s.jsonl" % name)
    with open(beh, "w") as f:
        for h in histories:
            f.write(json.dumps(h) + "\n")
    return replay_and_validate(ck, sw, "s_" + name, beh, focus, label, env=env)


Z = dict(ev="", o=0, op=0, dir="", api="", err="", n=0, depth=0, t=0, d=0, ts=0, pending=0, posted=0,
         dispatched=0, sched=[], h=0, cls="", lim=0, kinds=[], note="")


def E(ev, **kw):
    e = dict(Z)
    e["ev"] = ev
    e.update(kw)
    return e


def replay_file(ck, path, focus):
    vlib.build_harness()
    sw = vlib.prep_spec("Reactor", ck.work)
    obj = json.load(open(path))
    scripted(ck, sw, "replay", [obj["behaviour"]], focus, "replay of " + os.path.basename(path))
