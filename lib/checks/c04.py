"""C04 timer guarantees: never early, at most once, never after cancel/close."""
import reactor

LEVEL = "model_checking"
FOCUS = {"C04"}

MANIFEST = dict(
    engine="tlc-reactor", path="spec/Reactor",
    engine_text="TLA+ specs ReactorMon/ReactorImpl/ReactorMonTrace + Go driver harness/internal/rx on real descriptors",
    technique="TLA+ model of sonic.Timer (state machine, timerfd arm/expiry, read interest, repeating closure) sharing the poll batch with I/O objects, checked exhaustively by TLC against a timer monitor; generated scenarios replayed with real timerfds in real time; traces with monotonic stamps validated by TLC",
    text="ReactorImpl models Timer.state/cancelled, the timerfd (armed ticks, unread expiration), its read interest and position in the epoll ready list, ScheduleOnce/ScheduleRepeating/Cancel/Close/Scheduled issued from top level and from callbacks of other timers and of I/O objects dispatched in the same batch. TLC checks all bounded command sequences against the monitor (early fire, double fire, fire after Cancel/Close, schedule while scheduled, revival after Close, Scheduled() lying, due timer not firing). The scenarios are replayed with real timers (tick = 2 ms of real time); the monitor judges 'never early' from monotonic microsecond stamps taken before the scheduling call and at callback entry.",
    note="Trusted: TLC, the Go driver, Go's monotonic clock vs the timerfd clock over a few milliseconds. Lateness is allowed by the property; 'did not fire' is a bounded-time observation re-run 3 times with growing margins before it counts.",
    design_ref="5/C04")


def configs(tier):
    q = tier == "quick"
    n = 1500 if q else 20000
    mc = 5 if q else 6
    base = dict(TickUs=2000)
    return [
        dict(name="sock handler cancels and re-arms a timer that expired in the same batch, then more", sample=3 * n,
             over=dict(base, Kinds=["sock"], NT=1, MaxTick=3, Cmds={"read", "tonce", "tcancel"}, Envs={"send", "tick"},
                       MaxCmds=10, MaxOps=1, HBudget=2)),
        dict(name="one timer: once/repeating/cancel/close/re-schedule life cycle", sample=2 * n,
             over=dict(base, Kinds=[], NT=1, MaxTick=2, Cmds={"tonce", "trep", "tcancel", "tclose", "tzero"}, Envs={"tick"},
                       MaxCmds=5, HBudget=2)),
        dict(name="two timers: once/cancel/close/re-schedule from each other's callbacks", sample=n,
             over=dict(base, Kinds=[], NT=2, MaxTick=3, Cmds={"tonce", "tcancel", "tclose"}, Envs={"tick"}, MaxCmds=mc)),
        dict(name="two timers: repeating, cancel inside own callback", sample=n,
             over=dict(base, Kinds=[], NT=2, MaxTick=3, Cmds={"trep", "tcancel", "tclose"}, Envs={"tick"}, MaxCmds=mc)),
        dict(name="timers + sock ready in the same poll batch", sample=n,
             over=dict(base, Kinds=["sock"], NT=2, MaxTick=2, Cmds={"read", "tonce", "tcancel", "tclose"},
                       Envs={"send", "tick"}, MaxCmds=mc, MaxOps=2)),
        dict(name="a callback closes its timer, creates the successor (which gets the released descriptor number) and schedules it", sample=n,
             over=dict(base, Kinds=[], NT=2, LateT={2}, MaxTick=2, Envs={"tick"}, HBudget=3,
                       Cmds={"tonce", "tclose", "tnew"} if q else {"tonce", "trep", "tclose", "tnew"}, MaxCmds=6 if q else 7)),
    ] + ([] if q else [
        dict(name="timer and conn replaced inside handlers", sample=n,
             over=dict(base, Kinds=["sock", "sock"], Late={2}, NT=2, LateT={2}, MaxTick=2, MaxOps=2,
                       Cmds={"read", "close", "open", "tonce", "tclose", "tnew"}, Envs={"send", "tick"}, MaxCmds=7, HBudget=3)),
        dict(name="random long timer scenarios", sim=2000,
             over=dict(base, Kinds=["sock", "pipeR"], NT=3, MaxTick=8, MaxOps=8, MaxCmds=22, HBudget=2,
                       Cmds={"read", "cancel", "close", "tonce", "trep", "tcancel", "tclose"}, Envs={"send", "peerclose", "tick"})),
    ])


def run(ck):
    ck.cov["rule"] = ("scenario = history of a command-issuing transition of an exhaustive ReactorImpl timer configuration "
                      "(seeded sample in the quick tier) replayed in real time; non-trivial = a callback ran nested inside another")
    reactor.run_configs(ck, configs(ck.tier), FOCUS, env={"VERIF_TICKUS": "2000"})
    ck.cov["exhaustive"] = False


def replay(ck, path):
    reactor.replay_file(ck, path, FOCUS)
