"""C17 WebSocket reads and writes in flight together: exhaustive WsAsyncImpl
(asynchronous paths of the Stream over the adapter's single write record,
always-deferred transport completions, partial writes, the single flush in
flight with its waiters, completion callbacks that issue follow-up calls,
coalesced peer frames, two write-side calls in flight) composed with the
WsSessionMon monitor; its transition covers are replayed (1) on a scripted
transport with deferred completions and (2) on the real sonic.AsyncAdapter
over loopback TCP after a real handshake, with real partial writes forced by
minimal socket buffers; recorded traces are validated by TLC with the C17
rules of the shared monitor in focus."""
import json, os, random
import vlib
from checks import wsval

LEVEL = "model_checking"

MANIFEST = dict(
   engine="tlc-wsasync", path="spec/WsSession",
   technique="TLA+ monitor + implementation model checked exhaustively by TLC; TLC-generated schedules replayed into the real websocket.Stream over a scripted deferred-completion transport and over the real AsyncAdapter on loopback TCP; recorded traces validated by TLC against the monitor",
   text="Exhaustive TLC check of WsAsyncImpl - AsyncNextFrame/AsyncNextMessage/AsyncWrite/AsyncWriteFrame/AsyncClose/AsyncFlush at callback granularity, pendingFrames, the shared write buffer, AsyncFlush popping one frame per transport write, the adapter's single write/read records, transport writability/readability and partial acceptance as environment steps - composed with the completion and wire rules of WsSessionMon, for all interleavings of up to 3 peer events {data, ping, close} with up to 4 calls (one read and up to two write-side calls in flight at a time: AsyncWrite + AsyncWrite, AsyncWrite + AsyncClose, pong flush + AsyncWrite + AsyncClose) and every order of transport completions. The model follows AsyncFlush/asyncFlush/endFlush (one flush in flight, flushWaiters) at callback granularity: a call may carry follow-ups - its completion callback issues the same call again from inside the completion (a write chained from the write callback, a read re-armed from the read callback) - and the peer may put several frames into one segment, so that a re-armed read completes inside the call with the second of two coalesced Pings. Every transition of the state graphs (shortest path + edge) is replayed on the real Stream over a scripted transport that completes only when the schedule says so; a seeded slice of the same schedules, seeded re-entrant scenarios (chained writes, re-armed reads, coalesced Pings while a flush is in flight) and seeded large-message scenarios (minimal SO_SNDBUF/SO_RCVBUF, 0.2-1 MiB messages) run on the real AsyncAdapter over loopback TCP after a real handshake, the IO context driven with PollOne by the driver goroutine. Every callback is counted, everything the client writes is parsed by an independent RFC 6455 parser that also recognises a transfer restarted from offset 0. TLC validates all recorded traces with the C17 rules of the shared monitor in focus (what its C08 rules would have rejected is listed in the evidence, not reported); verdicts come only from them. A 'callback never came' observation on real sockets rests on kernel-level quiescence (nothing ready, both send queues empty) and is re-executed three times with doubled budgets before it counts.",
   note="Trusted: TLC, the Go drivers (scripted transport mimicking the adapter's single write record, loopback server, wire parser), JSON trace I/O, SIOCOUTQ/SIOCINQ as evidence that loopback delivered. More than two write-side calls in flight at once and mixing blocking with asynchronous calls are not generated; transport write failures are not injected.",
   design_ref="5/C17")

PAR = int(os.environ.get("VERIF_PAR", str(vlib.NCPU)))
SPECMOD = "WsAsyncImpl"


def _validate(ck, sw, name, beh, label, comp, mode, seed, confirm=False):
    trace = os.path.join(ck.work, "trace_%s.ndjson" % name)
    summ, _ = vlib.run_replay([comp, "-in", beh, "-out", trace, "-seed", str(seed), "-mode", mode], timeout=1500)
    trouble = (summ.get("notes") or {}).get("harness_trouble") if summ else None
    if trouble:
        raise vlib.Inconclusive("%s: the real-socket driver could not observe reliably: %s" % (label, trouble[:3]))
    bads, others = wsval.validate(sw, trace, PAR, focus=("C17",))
    wsval.note_others(ck, others, label)
    for sid, i, key in bads:
        if not key.startswith("C17/"):      # C08/harness/...: the trace itself is not trustworthy
            raise vlib.Inconclusive("driver/trace trouble: %s at event %d of scenario %d (%s)" % (key, i, sid, label))
    ck.cov["evaluations"] += summ["scenarios"]
    ck.cov["distinct_nontrivial"] += summ["nontrivial"]
    ck.cov["traces_validated_against_impl"] += summ["scenarios"] - len({b[0] for b in bads})
    ck.cov.setdefault("runs", []).append({"run": label, "scenarios": summ["scenarios"], "events": summ["events"],
                                          "rejected": len(bads), "drift_steps": summ["drift"]})
    if summ["drift"]:
        ck.cov["impl_drift"].append({"run": label, "steps_differing_from_model": summ["drift"],
                                     "first": summ.get("first_drift")})
    confirmed = set()
    for sid, i, key in bads:
        if confirm and "callback-lost" in key and key not in confirmed:
            # "did not happen" on real sockets: re-execute 3x with doubled budgets
            one = os.path.join(ck.work, "confirm.jsonl")
            with open(one, "w") as f:
                f.write(vlib.nth_line(beh, sid) + "\n")
            for k in range(3):
                t2 = os.path.join(ck.work, "confirm_%d.ndjson" % k)
                vlib.run_replay([comp, "-in", one, "-out", t2, "-seed", str(seed),
                                 "-mode", mode + ",sidbase=%d,budget=%d" % (sid - 1, 4000 * 2 ** k)], timeout=600)
                b2, _ = wsval.validate(sw, t2, 1, focus=("C17",))
                if not b2 or b2[0][2] != key:
                    raise vlib.Inconclusive("%s: '%s' of scenario %d did not recur on re-execution %d" % (label, key, sid, k + 1))
            confirmed.add(key)
        ck.report_bad(key, "websocket session trace rejected at event %d of scenario %d (%s)" % (i, sid, label),
                      lambda sid=sid, i=i, key=key: {
                          "property": ck.pid, "component": comp, "rule": key, "event": i,
                          "mode": mode + ",sidbase=%d" % (sid - 1), "seed": seed,
                          "behaviour": json.loads(vlib.nth_line(beh, sid)),
                          "trace": vlib.read_scenario(trace, sid)})
    if len(ck.cov["samples"]) < 3 and summ["scenarios"]:
        k = bads[0][0] if bads else max(1, summ["scenarios"] * 2 // 3)
        ck.sample({"run": label, "behaviour": json.loads(vlib.nth_line(beh, k)),
                   "trace_excerpt": vlib.read_scenario(trace, k)[:16]})
    os.remove(trace)
    return bads


def S(op, api="", k="", t=0, c=0, n=0, then=0, glue=0):
    return {"op": op, "api": api, "k": k, "t": t, "c": c, "n": n, "then": then, "glue": glue,
            "st": "", "pend": 0, "nw": 0, "err": ""}


def reentrant_scenarios(seed, count):
    """Real-socket scenarios in which completion callbacks issue the next call (a write chained from
    the write callback, a read re-armed from the read callback) while the peer's control frames
    arrive coalesced in one segment and a flush is in flight. One `env` = one poll cycle; what the
    schedule leaves open is run to quiescence by the driver."""
    rnd = random.Random(seed * 7919 + 17)
    out = []
    for j in range(count):
        rd = rnd.choice(["AsyncNextFrame", "AsyncNextFrame", "AsyncNextMessage"])
        pings = rnd.choice([2, 2, 3])
        coalesced = [S("peer", k="ping", t=i + 1, glue=1 if i else 0) for i in range(pings)]
        tail = [S("peer", k="data", t=pings + 1), S("env", k="readable")]
        tpl = j % 4
        if tpl == 0:    # a write is in flight (its callback chains the next one) when two pings arrive in one segment
            s = [S("call", rd, then=pings + 1), S("call", "AsyncWrite", then=1)] + coalesced + \
                [S("env", k="readable", n=rnd.choice([1, 2, 4]))] + tail
        elif tpl == 1:  # the first pong flush is in flight when a chained write is started
            s = [S("call", rd, then=pings + 1)] + coalesced + [S("env", k="readable"), S("call", "AsyncWrite", then=1),
                 S("env", k="writable", n=rnd.choice([1, 3]))] + tail
        elif tpl == 2:  # two writes (both chaining) and the read loop, pings behind them
            s = [S("call", rd, then=pings + 1), S("call", "AsyncWrite", then=1), S("call", "AsyncWrite", then=1)] + \
                coalesced + [S("env", k="readable", n=rnd.choice([1, 2]))] + tail
        else:           # pong flush, chained write and a Close started in the same poll cycle
            s = [S("call", rd, then=pings + 1)] + coalesced + [S("env", k="readable"), S("call", "AsyncWrite", then=1),
                 S("call", "AsyncClose"), S("env", k="writable", n=2), S("peer", k="closeValid", t=pings + 1),
                 S("env", k="readable")]
        out.append(s)
    return out


def partial_scenarios(seed, count):
    """Large messages over minimal socket buffers (the brief's partial-write
    scenarios). On the real adapter the transport write goes through
    net.Conn.Write, which blocks the loop until everything is written, so what
    these scenarios exercise is a long blocking write with calls and peer
    events queued around it."""
    rnd = random.Random(seed)
    out = []
    for j in range(count):
        big = rnd.choice([200_000, 333_333, 524_288, 1_048_576])
        pre = [S("opt", k="sndbuf")]
        tpl = j % 6
        if tpl == 0:    # read re-issued behind a pong in the cycle in which a large message is started
            s = pre + [S("call", "AsyncNextFrame"), S("peer", k="ping", t=1), S("env", k="readable"),
                       S("call", "AsyncNextFrame"), S("call", "AsyncWrite", t=103, n=big), S("env", k="writable"),
                       S("peer", k="data", t=2), S("env", k="readable")]
        elif tpl == 1:  # message reader answers a ping while a large message is parked
            s = pre + [S("call", "AsyncNextMessage"), S("call", "AsyncWrite", t=102, n=big), S("peer", k="ping", t=1),
                       S("env", k="readable"), S("peer", k="data", t=2), S("env", k="readable")]
        elif tpl == 2:  # no overlap: a large message alone
            s = pre + [S("call", "AsyncWrite", t=101, n=big), S("env", k="writable")]
        elif tpl == 3:  # no overlap: pong and large message in one flush
            s = pre + [S("peer", k="ping", t=1), S("call", "AsyncNextFrame"), S("env", k="readable"),
                       S("call", "AsyncWrite", t=102, n=big), S("env", k="writable", n=2)]
        elif tpl == 4:  # no overlap: a read completes with data in the cycle that writes a large message
            s = pre + [S("call", "AsyncNextFrame"), S("call", "AsyncWrite", t=102, n=big), S("peer", k="data", t=1),
                       S("env", k="readable")]
        else:           # no overlap: large frame, then ping/pong, then another large message
            s = pre + [S("call", "AsyncWriteFrame", t=101, n=big), S("env", k="writable"), S("call", "AsyncNextFrame"),
                       S("peer", k="ping", t=1), S("env", k="readable"), S("call", "AsyncWrite", t=103, n=big),
                       S("env", k="writable", n=2)]
        out.append(s)
    return out


KINDS3 = '{"data", "ping", "closeValid"}'
KINDS6 = '{"data", "ping", "pong", "closeValid", "viol", "eof"}'
APIS4 = '{"AsyncNextFrame", "AsyncNextMessage", "AsyncWrite", "AsyncClose"}'
APIS6 = '{"AsyncNextFrame", "AsyncNextMessage", "AsyncWrite", "AsyncWriteFrame", "AsyncFlush", "AsyncClose"}'


def covers(quick):
    """(name, constants, workers): the transition covers that are replayed. `two-writers` contains every
    schedule of the former single-writer cover (same bounds, MaxWriters = 1 is a sub-graph)."""
    if quick:
        return [
            ("two-writers", dict(MaxPeer=3, MaxCalls=3, MaxWriters=2, PeerKinds=KINDS3, CallApis=APIS4), 1),
            ("re-entrant", dict(MaxPeer=3, MaxCalls=2, MaxWriters=2, ReadThens="{0, 2}", WriteThens="{0, 1}", Glue="TRUE",
                                PeerKinds='{"data", "ping"}', CallApis=APIS4), 1),
            # the caller-built-frame path of the write side, next to a read loop answering Pings
            ("frame-writer", dict(MaxPeer=2, MaxCalls=3, MaxWriters=1, PeerKinds='{"data", "ping"}',
                                  CallApis='{"AsyncNextFrame", "AsyncWriteFrame", "AsyncFlush"}'), 1),
        ]
    return [
        ("all-apis", dict(MaxPeer=3, MaxCalls=4, MaxWriters=1, PeerKinds=KINDS6, CallApis=APIS6), 3),
        ("two-writers", dict(MaxPeer=3, MaxCalls=4, MaxWriters=2, PeerKinds=KINDS3, CallApis=APIS4), 3),
        ("re-entrant", dict(MaxPeer=3, MaxCalls=3, MaxWriters=2, ReadThens="{0, 2}", WriteThens="{0, 1}", Glue="TRUE",
                            PeerKinds='{"data", "ping"}', CallApis=APIS4), 3),
        ("re-entrant-close", dict(MaxPeer=2, MaxCalls=3, MaxWriters=2, ReadThens="{0, 2}", WriteThens="{0, 1}", Glue="TRUE",
                                  PeerKinds=KINDS3, CallApis=APIS4), 3),
    ]


def run(ck):
    from concurrent.futures import ThreadPoolExecutor
    vlib.build_harness()
    sw = vlib.prep_spec("WsSession", ck.work)
    quick = ck.tier == "quick"
    ck.cov["rule"] = ("schedules = every transition of the exhaustive WsAsyncImpl state graphs (shortest path + edge) of the listed "
                      "covers (two write-side calls in flight; callbacks that issue follow-up calls + coalesced peer frames), "
                      "replayed with deferred completions; a seeded slice of them plus seeded re-entrant and partial-write "
                      "scenarios on real sockets; non-trivial (scripted) = a call was issued while a transport write was parked; "
                      "non-trivial (real) = a control reply went over the wire")
    model_findings = set()
    base = dict(Partial="TRUE", BUG_SingleRecord="FALSE", BUG_WaitersLive="FALSE", BUG_CloseBypass="FALSE")

    def cover(item):
        name, extra, workers = item
        consts = dict(base, **extra)
        cfg = vlib.cfg_with(sw, "WsAsyncImpl_mc.cfg", consts)
        r = vlib.tlc(sw, SPECMOD, cfg, workers=workers, timeout=1500, env={"JAVA_TOOL_OPTIONS": "-Xmx4g"})
        if not r.ok:
            raise vlib.Inconclusive("WsAsyncImpl cover %s: %s\n%s" % (name, r.violated or r.error, r.tail()))
        ck.add_tlc("WsAsyncImpl transition cover " + name, r, consts)
        for line in r.lines('<<"MODELBAD"'):
            model_findings.add(line.split('"')[3])
        beh = os.path.join(ck.work, "cover_%s.jsonl" % name)
        n = vlib.edges_to_file(r, beh)
        os.remove(r.outpath)
        if n == 0:
            raise vlib.Inconclusive("cover %s produced no behaviours" % name)
        # driver 1: scripted transport, deferred completions: the whole cover
        _validate(ck, sw, "deferred_" + name, beh, "transition cover '%s' on the scripted deferred-completion transport" % name,
                  "wssession-deferred", "split=frame", ck.seed)
        return name, beh, n

    def count():
        consts = dict(base, MaxPeer=3, MaxCalls=4 if quick else 5, MaxWriters=1, PeerKinds=KINDS3 if quick else KINDS6)
        cfg = vlib.cfg_with(sw, "WsAsyncImpl_count.cfg", consts)
        r = vlib.tlc(sw, SPECMOD, cfg, workers=3 if quick else max(4, vlib.NCPU - 8), timeout=1500, env={"JAVA_TOOL_OPTIONS": "-Xmx8g"})
        if not r.ok:
            raise vlib.Inconclusive("WsAsyncImpl exhaustive: %s\n%s" % (r.violated or r.error, r.tail()))
        ck.add_tlc("WsAsyncImpl exhaustive", r, consts)
        for line in r.lines('<<"MODELBAD"'):
            model_findings.add(line.split('"')[3])

    def switches():
        # the spec with a defect switched on must reject: evidence that the model (and so the generated
        # schedules) can see it. BUG_SingleRecord: the code before 14866fd; BUG_WaitersLive / BUG_CloseBypass:
        # the seeded defects C17-2 / C16-2 (notes/C17.md)
        demo = {}
        small = dict(MaxPeer=2, MaxCalls=3)
        for sw_name, extra in (("BUG_SingleRecord", dict(small)),
                               ("BUG_WaitersLive", dict(small, MaxCalls=2, MaxWriters=2, ReadThens="{0, 2}", WriteThens="{0, 1}",
                                                        Glue="TRUE", PeerKinds='{"ping"}')),
                               ("BUG_CloseBypass", dict(small, MaxWriters=2))):
            consts = dict(base, **extra)
            consts[sw_name] = "TRUE"
            cfg = vlib.cfg_with(sw, "WsAsyncImpl_count.cfg", consts)
            r = vlib.tlc(sw, SPECMOD, cfg, workers=1, timeout=900, env={"JAVA_TOOL_OPTIONS": "-Xmx4g"})
            keys = sorted({line.split('"')[3] for line in r.lines('<<"MODELBAD"')})
            demo[sw_name + "=TRUE"] = keys or "NOT caught"
            os.remove(r.outpath)
        ck.cov["bug_switch_demo"] = demo

    with ThreadPoolExecutor(max_workers=6) as ex:
        fn, fr = ex.submit(count), ex.submit(switches)
        done = [f.result() for f in [ex.submit(cover, it) for it in covers(quick)]]
        # driver 2: real adapter, real sockets: a seeded slice of every cover (for the re-entrant cover: of the
        # schedules that do carry follow-up calls) + re-entrant and partial-write scenarios
        rnd = random.Random(ck.seed)
        want = (150 if quick else 4200) // len(done)
        real_file = os.path.join(ck.work, "real.jsonl")
        with open(real_file, "w") as out:
            for name, beh, n in done:
                elig = (lambda l: '"then":1' in l or '"then":2' in l) if name == "re-entrant" else (lambda l: True)
                with open(beh) as f:
                    idx = [i for i, l in enumerate(f) if elig(l)]
                keep = set(rnd.sample(idx, min(want, len(idx))))
                with open(beh) as f:
                    for i, l in enumerate(f):
                        if i in keep:
                            out.write(l)
            for s in reentrant_scenarios(ck.seed, 24 if quick else 400):
                out.write(json.dumps(s) + "\n")
            for s in partial_scenarios(ck.seed, 54 if quick else 810):
                out.write(json.dumps(s) + "\n")
        _validate(ck, sw, "real", real_file,
                  "real AsyncAdapter on loopback TCP (slices of the covers + re-entrant + partial-write scenarios)",
                  "wssession-real", "split=frame", ck.seed, confirm=True)
        fn.result()
        fr.result()
    ck.cov["tlc_runs"].sort(key=lambda r: r["name"])
    ck.cov["model_findings"] = sorted(model_findings)
    ck.cov["exhaustive"] = True
    ck.assumptions += [
        "one read call and up to two write-side calls in flight at a time; completion callbacks may issue the same call again (a write chained from the write callback, a read re-armed from the read callback: up to 2 / 1 follow-ups per explicit call)",
        "the scripted transport mimics sonic.AsyncAdapter: completions never happen inside the call, a second AsyncWriteAll overwrites the single write record; peer frames may share a segment (one transport read returns both)",
        "a frame is two units in the model; partial acceptance is exercised on the scripted transport only: the real adapter writes through net.Conn.Write, which blocks the loop until the whole buffer is written (minimal SO_SNDBUF/SO_RCVBUF and 0.2-1 MiB messages only make that write long)",
        "on real sockets one PollOne may deliver a read and a write completion of the model in one cycle (read first) and everything the peer sent before a poll cycle is read as one segment; the monitor does not depend on the order",
        "rules of C08 (the other property of the shared monitor) are not enforced here: coverage.other_property_rejections lists what they would have rejected"]


def replay(ck, path):
    vlib.build_harness()
    sw = vlib.prep_spec("WsSession", ck.work)
    obj = json.load(open(path))
    beh = os.path.join(ck.work, "replay.jsonl")
    with open(beh, "w") as f:
        f.write(json.dumps(obj["behaviour"]) + "\n")
    comp = obj.get("component", "wssession-deferred")
    _validate(ck, sw, "replay", beh, "replay of " + os.path.basename(path), comp, obj.get("mode", "split=frame"),
              obj.get("seed", ck.seed), confirm=(comp == "wssession-real"))
