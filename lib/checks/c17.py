"""C17 WebSocket reads and writes in flight together: exhaustive WsAsyncImpl
(asynchronous paths of the Stream over the adapter's single write record,
always-deferred transport completions, partial writes) composed with the
WsSessionMon monitor; its transition cover is replayed (1) on a scripted
transport with deferred completions and (2) on the real sonic.AsyncAdapter
over loopback TCP after a real handshake, with real partial writes forced by
minimal socket buffers; recorded traces are validated by TLC."""
import json, os, random
import vlib
from checks import wsval

LEVEL = "model_checking"

MANIFEST = dict(
   engine="tlc-wsasync", path="spec/WsSession",
   technique="TLA+ monitor + implementation model checked exhaustively by TLC; TLC-generated schedules replayed into the real websocket.Stream over a scripted deferred-completion transport and over the real AsyncAdapter on loopback TCP; recorded traces validated by TLC against the monitor",
   text="Exhaustive TLC check of WsAsyncImpl - AsyncNextFrame/AsyncNextMessage/AsyncWrite/AsyncWriteFrame/AsyncClose/AsyncFlush at callback granularity, pendingFrames, the shared write buffer, AsyncFlush popping one frame per transport write, the adapter's single write/read records, transport writability/readability and partial acceptance as environment steps - composed with the completion and wire rules of WsSessionMon, for all interleavings of up to 3 peer events {data, ping, close} with up to 4 calls (one read and one write-side call in flight at a time) and every order of transport completions. Every transition of the state graph (shortest path + edge) is replayed on the real Stream over a scripted transport that completes only when the schedule says so; a seeded slice of the same schedules and seeded large-message scenarios (minimal SO_SNDBUF/SO_RCVBUF, 0.2-1 MiB messages) run on the real AsyncAdapter over loopback TCP after a real handshake, the IO context driven with PollOne by the driver goroutine. Every callback is counted, everything the client writes is parsed by an independent RFC 6455 parser that also recognises a transfer restarted from offset 0. TLC validates all recorded traces; verdicts come only from them. A 'callback never came' observation on real sockets rests on kernel-level quiescence (nothing ready, both send queues empty) and is re-executed three times with doubled budgets before it counts.",
   note="Trusted: TLC, the Go drivers (scripted transport mimicking the adapter's single write record, loopback server, wire parser), JSON trace I/O, SIOCOUTQ/SIOCINQ as evidence that loopback delivered. Two write-side calls in flight at once and mixing blocking with asynchronous calls are outside the statement and not generated.",
   design_ref="5/C17")

PAR = int(os.environ.get("VERIF_PAR", str(vlib.NCPU)))
SPECMOD = "WsAsyncImpl"


def _validate(ck, sw, name, beh, label, comp, mode, seed, confirm=False):
    trace = os.path.join(ck.work, "trace_%s.ndjson" % name)
    summ, _ = vlib.run_replay([comp, "-in", beh, "-out", trace, "-seed", str(seed), "-mode", mode], timeout=1500)
    trouble = (summ.get("notes") or {}).get("harness_trouble") if summ else None
    if trouble:
        raise vlib.Inconclusive("%s: the real-socket driver could not observe reliably: %s" % (label, trouble[:3]))
    bads = wsval.validate(sw, trace, PAR)
    ck.cov["evaluations"] += summ["scenarios"]
    ck.cov["distinct_nontrivial"] += summ["nontrivial"]
    ck.cov["traces_validated_against_impl"] += summ["scenarios"] - len({b[0] for b in bads})
    ck.cov.setdefault("runs", []).append({"run": label, "scenarios": summ["scenarios"], "events": summ["events"],
                                          "rejected": len(bads), "drift_steps": summ["drift"]})
    if summ["drift"]:
        ck.cov["impl_drift"].append({"run": label, "steps_differing_from_model": summ["drift"],
                                     "first": summ.get("first_drift")})
    confirmed = set()
    for sid, i, key in bads:
        if confirm and "callback-lost" in key and key not in confirmed:
            # "did not happen" on real sockets: re-execute 3x with doubled budgets
            one = os.path.join(ck.work, "confirm.jsonl")
            with open(one, "w") as f:
                f.write(vlib.nth_line(beh, sid) + "\n")
            for k in range(3):
                t2 = os.path.join(ck.work, "confirm_%d.ndjson" % k)
                vlib.run_replay([comp, "-in", one, "-out", t2, "-seed", str(seed),
                                 "-mode", mode + ",sidbase=%d,budget=%d" % (sid - 1, 4000 * 2 ** k)], timeout=600)
                b2 = wsval.validate(sw, t2, 1)
                if not b2 or b2[0][2] != key:
                    raise vlib.Inconclusive("%s: '%s' of scenario %d did not recur on re-execution %d" % (label, key, sid, k + 1))
            confirmed.add(key)
        ck.report_bad(key, "websocket session trace rejected at event %d of scenario %d (%s)" % (i, sid, label),
                      lambda sid=sid, i=i, key=key: {
                          "property": ck.pid, "component": comp, "rule": key, "event": i,
                          "mode": mode + ",sidbase=%d" % (sid - 1), "seed": seed,
                          "behaviour": json.loads(vlib.nth_line(beh, sid)),
                          "trace": vlib.read_scenario(trace, sid)})
    if len(ck.cov["samples"]) < 3 and summ["scenarios"]:
        k = bads[0][0] if bads else max(1, summ["scenarios"] * 2 // 3)
        ck.sample({"run": label, "behaviour": json.loads(vlib.nth_line(beh, k)),
                   "trace_excerpt": vlib.read_scenario(trace, k)[:16]})
    os.remove(trace)
    return bads


def S(op, api="", k="", t=0, c=0, n=0):
    return {"op": op, "api": api, "k": k, "t": t, "c": c, "n": n, "st": "", "pend": 0, "nw": 0, "err": ""}


def partial_scenarios(seed, count):
    """Large messages over minimal socket buffers (the brief's partial-write
    scenarios). On the real adapter the transport write goes through
    net.Conn.Write, which blocks the loop until everything is written, so what
    these scenarios exercise is a long blocking write with calls and peer
    events queued around it."""
    rnd = random.Random(seed)
    out = []
    for j in range(count):
        big = rnd.choice([200_000, 333_333, 524_288, 1_048_576])
        pre = [S("opt", k="sndbuf")]
        tpl = j % 6
        if tpl == 0:    # read re-issued behind a pong in the cycle in which a large message is started
            s = pre + [S("call", "AsyncNextFrame"), S("peer", k="ping", t=1), S("env", k="readable"),
                       S("call", "AsyncNextFrame"), S("call", "AsyncWrite", t=103, n=big), S("env", k="writable"),
                       S("peer", k="data", t=2), S("env", k="readable")]
        elif tpl == 1:  # message reader answers a ping while a large message is parked
            s = pre + [S("call", "AsyncNextMessage"), S("call", "AsyncWrite", t=102, n=big), S("peer", k="ping", t=1),
                       S("env", k="readable"), S("peer", k="data", t=2), S("env", k="readable")]
        elif tpl == 2:  # no overlap: a large message alone
            s = pre + [S("call", "AsyncWrite", t=101, n=big), S("env", k="writable")]
        elif tpl == 3:  # no overlap: pong and large message in one flush
            s = pre + [S("peer", k="ping", t=1), S("call", "AsyncNextFrame"), S("env", k="readable"),
                       S("call", "AsyncWrite", t=102, n=big), S("env", k="writable", n=2)]
        elif tpl == 4:  # no overlap: a read completes with data in the cycle that writes a large message
            s = pre + [S("call", "AsyncNextFrame"), S("call", "AsyncWrite", t=102, n=big), S("peer", k="data", t=1),
                       S("env", k="readable")]
        else:           # no overlap: large frame, then ping/pong, then another large message
            s = pre + [S("call", "AsyncWriteFrame", t=101, n=big), S("env", k="writable"), S("call", "AsyncNextFrame"),
                       S("peer", k="ping", t=1), S("env", k="readable"), S("call", "AsyncWrite", t=103, n=big),
                       S("env", k="writable", n=2)]
        out.append(s)
    return out


def run(ck):
    from concurrent.futures import ThreadPoolExecutor
    vlib.build_harness()
    sw = vlib.prep_spec("WsSession", ck.work)
    quick = ck.tier == "quick"
    ck.cov["rule"] = ("schedules = every transition of the exhaustive WsAsyncImpl state graph (shortest path + edge), replayed with "
                      "deferred completions; a seeded slice of them plus seeded partial-write scenarios on real sockets; "
                      "non-trivial (scripted) = a call was issued while a transport write was parked; "
                      "non-trivial (real) = a control reply went over the wire")
    model_findings = set()
    cover_file = os.path.join(ck.work, "cover.jsonl")

    def cover():
        consts = {"MaxPeer": 3, "MaxCalls": 3 if quick else 4, "Partial": "TRUE", "BUG_SingleRecord": "FALSE"}
        if not quick:
            consts["PeerKinds"] = '{"data", "ping", "pong", "closeValid", "viol", "eof"}'
            consts["CallApis"] = '{"AsyncNextFrame", "AsyncNextMessage", "AsyncWrite", "AsyncWriteFrame", "AsyncFlush", "AsyncClose"}'
        cfg = vlib.cfg_with(sw, "WsAsyncImpl_mc.cfg", consts)
        r = vlib.tlc(sw, SPECMOD, cfg, workers=1, timeout=1500, env={"JAVA_TOOL_OPTIONS": "-Xmx4g"})
        if not r.ok:
            raise vlib.Inconclusive("WsAsyncImpl cover: %s\n%s" % (r.violated or r.error, r.tail()))
        ck.add_tlc("WsAsyncImpl transition cover", r, consts)
        for line in r.lines('<<"MODELBAD"'):
            model_findings.add(line.split('"')[3])
        n = vlib.edges_to_file(r, cover_file)
        os.remove(r.outpath)
        if n == 0:
            raise vlib.Inconclusive("cover produced no behaviours")
        return n

    def count():
        consts = {"MaxPeer": 3, "MaxCalls": 4 if quick else 5, "Partial": "TRUE", "BUG_SingleRecord": "FALSE",
                  "PeerKinds": '{"data", "ping", "closeValid"}' if quick else '{"data", "ping", "pong", "closeValid", "viol", "eof"}'}
        cfg = vlib.cfg_with(sw, "WsAsyncImpl_count.cfg", consts)
        r = vlib.tlc(sw, SPECMOD, cfg, workers=3 if quick else max(4, vlib.NCPU - 6), timeout=1500, env={"JAVA_TOOL_OPTIONS": "-Xmx8g"})
        if not r.ok:
            raise vlib.Inconclusive("WsAsyncImpl exhaustive: %s\n%s" % (r.violated or r.error, r.tail()))
        ck.add_tlc("WsAsyncImpl exhaustive", r, consts)
        for line in r.lines('<<"MODELBAD"'):
            model_findings.add(line.split('"')[3])

    def repaired():
        # the spec with the defect switched back on (every AsyncFlush starts its own transport write,
        # overwriting the adapter's single write record) must reject: evidence that the model sees it
        consts = {"MaxPeer": 2, "MaxCalls": 3, "Partial": "TRUE", "BUG_SingleRecord": "TRUE"}
        cfg = vlib.cfg_with(sw, "WsAsyncImpl_count.cfg", consts)
        r = vlib.tlc(sw, SPECMOD, cfg, workers=1, timeout=900, env={"JAVA_TOOL_OPTIONS": "-Xmx8g"})
        keys = sorted({line.split('"')[3] for line in r.lines('<<"MODELBAD"')})
        ck.cov["bug_switch_demo"] = {"BUG_SingleRecord=TRUE": keys or "NOT caught"}

    with ThreadPoolExecutor(max_workers=3) as ex:
        fc, fn, fr = ex.submit(cover), ex.submit(count), ex.submit(repaired)
        ncover = fc.result()
        # driver 1: scripted transport, deferred completions: the whole cover
        _validate(ck, sw, "deferred", cover_file, "transition cover on the scripted deferred-completion transport",
                  "wssession-deferred", "split=frame", ck.seed)
        # driver 2: real adapter, real sockets: a seeded slice of the cover + partial-write scenarios
        rnd = random.Random(ck.seed)
        want = 150 if quick else 4200
        keep = set(rnd.sample(range(1, ncover + 1), min(want, ncover)))
        real_file = os.path.join(ck.work, "real.jsonl")
        with open(cover_file) as f, open(real_file, "w") as out:
            for i, line in enumerate(f, 1):
                if i in keep:
                    out.write(line)
            for s in partial_scenarios(ck.seed, 54 if quick else 810):
                out.write(json.dumps(s) + "\n")
        _validate(ck, sw, "real", real_file, "real AsyncAdapter on loopback TCP (slice of the cover + partial-write scenarios)",
                  "wssession-real", "split=frame", ck.seed, confirm=True)
        fn.result()
        fr.result()
    ck.cov["tlc_runs"].sort(key=lambda r: r["name"])
    ck.cov["model_findings"] = sorted(model_findings)
    ck.cov["exhaustive"] = True
    ck.assumptions += [
        "one read call and one write-side call in flight at a time (the statement's 'an asynchronous read and an asynchronous write')",
        "the scripted transport mimics sonic.AsyncAdapter: completions never happen inside the call, a second AsyncWriteAll overwrites the single write record",
        "a frame is two units in the model; partial acceptance is exercised on the scripted transport only: the real adapter writes through net.Conn.Write, which blocks the loop until the whole buffer is written (minimal SO_SNDBUF/SO_RCVBUF and 0.2-1 MiB messages only make that write long)",
        "on real sockets one PollOne may deliver a read and a write completion of the model in one cycle (read first); the monitor does not depend on the order"]


def replay(ck, path):
    vlib.build_harness()
    sw = vlib.prep_spec("WsSession", ck.work)
    obj = json.load(open(path))
    beh = os.path.join(ck.work, "replay.jsonl")
    with open(beh, "w") as f:
        f.write(json.dumps(obj["behaviour"]) + "\n")
    comp = obj.get("component", "wssession-deferred")
    _validate(ck, sw, "replay", beh, "replay of " + os.path.basename(path), comp, obj.get("mode", "split=frame"),
              obj.get("seed", ck.seed), confirm=(comp == "wssession-real"))
