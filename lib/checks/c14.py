"""C14 inline completions never nest deeper than the dispatch limit."""
import itertools
import reactor
from reactor import E

LEVEL = "model_checking"
FOCUS = {"C14"}

MANIFEST = dict(
    engine="tlc-reactor", path="spec/Reactor",
    engine_text="TLA+ specs ReactorMon/ReactorImpl/ReactorMonTrace + Go driver harness/internal/rx on real descriptors",
    technique="TLA+ model of IO.Dispatched and the per-kind 'inline while below the limit' logic checked exhaustively by TLC (depth bound invariant + monitor); TLC-generated re-issue chains replayed with a preset counter, plus scripted chains longer than the real limit over every descriptor kind and kind pair; traces validated by TLC against the monitor",
    text="Chain scenarios: every completion callback re-issues an immediately completable operation (data buffered, room to write, queued connections, queued datagrams) on the same or another object. ReactorImpl (dispatch limit scaled to 2) is explored exhaustively for chains over every kind pair with the invariant 'callback frames on the stack <= limit + 1' and the monitor rules C14/depth, C14/deferred-result (an operation deferred at the limit completes with the result it would have had inline) and C14/dispatched-nonzero (counter back to its base at top level). The generated chains are replayed with IO.Dispatched preset to 30; in addition chains of 40 and 100 operations run against the real limit of 32 over conn, FIFO ends, regular file, listener, packet conn, multicast peer and all ordered pairs of them. The nesting depth is counted by the driver's callback closures.",
    note="Trusted: TLC, the Go driver's nesting counter. The preset uses the exported-but-internal field IO.Dispatched; the long chains do not. Handlers that cancel other operations or re-issue after an error are outside the statement's quantifier (chains of immediately completable operations).",
    design_ref="5/C14")

KINDS_R = ["sock", "pipeR", "reg", "lst", "pkt", "mcp"]
KINDS_W = ["sock", "pipeW", "pkt", "mcp"]


def configs(tier):
    q = tier == "quick"
    n = 1500 if q else 20000
    pairs = [["sock", "pipeR"], ["lst", "pkt"], ["reg", "sock"], ["mcp", "pipeW"], ["sock", "sock"]]
    if not q:
        pairs += [["pipeR", "lst"], ["pkt", "mcp"], ["reg", "pipeW"], ["sock", "lst"], ["pkt", "sock"]]
    def bounds(p):
        # two full-duplex objects make the largest graph: one operation less in the quick tier
        small = q and p == ["sock", "sock"]
        big = p in (['sock', 'sock'], ['pkt', 'sock'], ['pkt', 'mcp'], ['sock', 'lst'])
        return dict(MaxOps=(4 if small else 5) if q else (5 if big else 6), MaxCmds=(8 if small else 9) if q else (10 if big else 11))
    return [dict(name="chains over %s+%s" % tuple(p), sample=n,
                 over=dict(Class="chain", Kinds=p, Cmds={"read", "write"}, Envs={"send"}, MaxData=3,
                           HBudget=1, MaxDrain=3, **bounds(p)))
            for p in pairs]


def chain(kinds, plan, n):
    """History of a chain of n operations; plan = list of (object index, dir) cycled."""
    h = [E("Reset", kinds=kinds, cls="chain", lim=32, n=0)]
    need = {}
    seq = [plan[k % len(plan)] for k in range(n)]
    for o, d in seq:
        if d == "R":
            need[o] = need.get(o, 0) + 1
    for o, cnt in sorted(need.items()):
        for _ in range(cnt):
            h.append(E("Env", api="send", o=o, n=1))

    def api(o, d):
        k = kinds[o - 1]
        if k == "lst":
            return "accept"
        if k in ("pkt", "mcp"):
            return "readfrom" if d == "R" else "writeto"
        return "read" if d == "R" else "write"

    opens, closes = [], []
    for i, (o, d) in enumerate(seq, 1):
        opens += [E("Call", api=api(o, d), o=o, op=i, dir=d, n=1), E("CbB", op=i, err="nil", n=1)]
        closes = [E("CbE", op=i), E("Ret", op=i)] + closes
    return h + opens + closes


def chain_after_partial_readall(kind, n):
    """A two-unit AsyncReadAll that parks after the first unit and is completed by the poller; its callback
    starts a chain of n reads on the same object, so the read that meets the dispatch limit is deferred on a
    reactor that has carried the progress of an earlier multi-step operation."""
    h = [E("Reset", kinds=[kind], cls="chain", lim=32, n=0), E("Env", api="send", o=1, n=1),
         E("Call", api="readall", o=1, op=1, dir="R", n=2), E("Ret", op=1)]
    h += [E("Env", api="send", o=1, n=1) for _ in range(n + 1)]
    h += [E("PollB"), E("CbB", op=1, err="nil", n=2)]
    opens, closes = [], []
    for i in range(2, n + 2):
        opens += [E("Call", api="read", o=1, op=i, dir="R", n=1), E("CbB", op=i, err="nil", n=1)]
        closes = [E("CbE", op=i), E("Ret", op=i)] + closes
    return h + opens + closes + [E("CbE", op=1), E("PollE", err="nil", n=1)]


def chain_with_failing_writes(kind, n):
    """Datagram writes re-issued from their callbacks, four of five too large to send: an operation that fails
    at once is an immediate completion as well and has to be counted against the dispatch limit."""
    h = [E("Reset", kinds=[kind], cls="chain", lim=32, n=0)]
    opens, closes = [], []
    for i in range(1, n + 1):
        big = i % 5 != 0
        opens += [E("Call", api="writetobig" if big else "writeto", o=1, op=i, dir="W", n=1),
                  E("CbB", op=i, err="errno" if big else "nil", n=0 if big else 1)]
        closes = [E("CbE", op=i), E("Ret", op=i)] + closes
    return h + opens + closes


def chain_with_failing_reads(kind, n):
    """Datagram reads re-issued from their callbacks, four of five meeting a datagram without payload (the read
    fails at once with EOF): a read that fails inline is an immediate completion too, counted against the limit
    and counted back when its callback returns."""
    h = [E("Reset", kinds=[kind], cls="chain", lim=32, n=0)]
    for i in range(1, n + 1):
        h.append(E("Env", api="sendempty" if i % 5 != 0 else "send", o=1, n=1))
    opens, closes = [], []
    for i in range(1, n + 1):
        empty = i % 5 != 0
        opens += [E("Call", api="readfromempty" if empty else "readfrom", o=1, op=i, dir="R", n=1),
                  E("CbB", op=i, err="eof" if empty else "nil", n=0 if empty else 1)]
        closes = [E("CbE", op=i), E("Ret", op=i)] + closes
    return h + opens + closes


def chain_with_failing_accepts(n):
    """Accepts re-issued from their callbacks on a listener whose descriptor was replaced underneath (accept(2)
    fails at once): immediate completions with an error, counted against the limit and counted back."""
    h = [E("Reset", kinds=["lst"], cls="chain", lim=32, n=0), E("Env", api="yank", o=1, n=1)]
    opens, closes = [], []
    for i in range(1, n + 1):
        opens += [E("Call", api="acceptbad", o=1, op=i, dir="R", n=1), E("CbB", op=i, err="errno", n=0)]
        closes = [E("CbE", op=i), E("Ret", op=i)] + closes
    return h + opens + closes


def long_chains(tier):
    hs = []
    lens = [40] if tier == "quick" else [40, 100]
    for n in lens:
        for k in KINDS_R:
            hs.append(chain([k], [(1, "R")], n))
        for k in KINDS_W:
            hs.append(chain([k], [(1, "W")], n))
        hs.append(chain(["sock"], [(1, "R"), (1, "W")], n))
        for a, b in itertools.permutations(KINDS_R, 2):
            hs.append(chain([a, b], [(1, "R"), (2, "R")], n))
        for a in KINDS_R:
            for b in KINDS_W:
                if not (a == b == "sock"):
                    hs.append(chain([a, b], [(1, "R"), (2, "W")], n))
    # limit + 1 nested socket writes under the poller, then a read on a regular file: the second symptom of the
    # known regular-file finding (C14/depth/reg) shows in every tier
    hs.append(chain(["sock", "reg"], [(1, "W")] * 65 + [(2, "R")], 66))
    for k in ("sock", "pipeR", "adp"):
        hs.append(chain_after_partial_readall(k, 40))
    for k in ("pkt", "mcp"):
        hs.append(chain_with_failing_writes(k, 120))
    for n in (3, 120):
        hs.append(chain_with_failing_reads("pkt", n))
    # (shorter than the limit: at the limit the accept would be deferred, and registering the replaced descriptor
    # is refused - the uncounted inline error callback of the known regular-file finding, here behind an injected fault)
    for n in (2, 25):
        hs.append(chain_with_failing_accepts(n))
    return hs


def run(ck):
    ck.cov["rule"] = ("chain = history in which every completion callback re-issues an immediately completable operation; "
                      "generated exhaustively by TLC for limit 2 (cover replayed with the counter preset) and scripted with "
                      "40/100 operations against the real limit over every kind and ordered kind pair; non-trivial = nesting reached depth > 1")
    sw = reactor.run_configs(ck, configs(ck.tier), FOCUS)
    reactor.scripted(ck, sw, "long", long_chains(ck.tier), FOCUS, "scripted chains longer than MaxCallbackDispatch")
    ck.cov["exhaustive"] = False


def replay(ck, path):
    reactor.replay_file(ck, path, FOCUS)
