"""C03 event-loop accounting (Pending), PollOne result, RunPending termination."""
import reactor

LEVEL = "model_checking"
FOCUS = {"C03"}

MANIFEST = dict(
    engine="tlc-reactor", path="spec/Reactor",
    engine_text="TLA+ specs ReactorMon/ReactorImpl/ReactorMonTrace + Go driver harness/internal/rx on real descriptors",
    technique="TLA+ model of the event loop with the poller's pending counter and its six update sites, checked exhaustively by TLC against a ledger monitor; TLC-generated scenarios (incl. failing registrations and RunPending runs) replayed on real descriptors; traces validated by TLC against the monitor",
    text="ReactorImpl models poller.pending with every increment/decrement site (setRW before epoll_ctl, DelRead/DelWrite, post append, post dispatch, timer arm/fire) and TLC checks `pending = parked operations + armed timers + posted handlers` whenever no handler executes, for all bounded sequences of start/complete/cancel/close/timer/post commands from top level and from handlers. The same scenarios are replayed on a real IO context; Pending()/Posted() are sampled after every top-level step and compared by the monitor with a ledger it derives from API-level events only; PollOne's (n, err) is checked against 'a handler ran'; scenarios of class runpending end with IO.RunPending under a watchdog after every parked operation was made completable (must return, and only with an empty ledger).",
    note="Trusted: TLC, the Go driver, kernel behaviour as observed. RunPending 'stuck' is a bounded-time observation, re-run 3 times with growing budgets before it counts. Signals interrupting the wait are exercised by a scripted scenario class only (not enumerated by TLC).",
    design_ref="5/C03")


def configs(tier):
    q = tier == "quick"
    n = 1600 if q else 30000
    mc = 5 if q else 6
    return [
        dict(name="gen: sock+pipeR read/cancel/close + post", sample=n,
             over=dict(Kinds=["sock", "pipeR"], MaxPosts=1, Cmds={"read", "cancel", "close", "post"},
                       Envs={"send", "peerclose"}, MaxCmds=mc)),
        dict(name="gen: sock read+write, full buffers, reset", sample=n,
             over=dict(Kinds=["sock"], Cmds={"read", "write", "cancel", "close"},
                       Envs={"send", "reset", "fillw", "drainw"}, MaxOps=4, MaxCmds=mc + 1)),
        dict(name="gen: regular file at the dispatch limit (registration fails) + sock", sample=n,
             over=dict(Kinds=["reg", "sock"], Cmds={"read", "cancel"}, Envs={"send"}, MaxOps=4, MaxCmds=mc, MaxData=2)),
        dict(name="gen: descriptor replaced underneath a sock with read and write parked", sample=n,
             over=dict(Kinds=["sock"], Cmds={"read", "write", "cancel", "close"}, Envs={"send", "fillw", "yank"},
                       MaxOps=3, MaxCmds=mc)),
        dict(name="gen: descriptor replaced, then a write chain meets the dispatch limit: registration of the second direction is refused", sample=n // 2,
             over=dict(Kinds=["sock"], Cmds={"read", "write", "cancel", "close"}, Envs={"yank"}, MaxOps=4, MaxCmds=mc + 2)),
        dict(name="gen: timers + posts + sock", sample=n // 2,
             over=dict(Kinds=["sock"], NT=2, MaxTick=2, MaxPosts=2, TickUs=2000,
                       Cmds={"read", "close", "tonce", "trep", "tcancel", "tclose", "post"}, Envs={"send", "tick"},
                       MaxCmds=mc - 1)),
        dict(name="gen: a sock handler cancels and re-arms a timer whose expiration sits in the same batch (stale event), then cancel/close", sample=n,
             over=dict(Kinds=["sock"], NT=1, MaxTick=3, TickUs=2000, Cmds={"read", "tonce", "tcancel", "tclose"},
                       Envs={"send", "tick"}, MaxCmds=8, MaxOps=1, HBudget=2)),
        dict(name="gen: listener + packet conn: accept / readfrom / writeto / close", sample=n // 2,
             over=dict(Kinds=["lst", "pkt"], Cmds={"read", "write", "close"}, Envs={"send"}, MaxCmds=mc, MaxData=2)),
        dict(name="gen: multicast peer + AsyncAdapter: read / write / cancel / close", sample=n // 2,
             over=dict(Kinds=["mcp", "adp"], Cmds={"read", "write", "cancel", "close"}, Envs={"send", "peerclose"},
                       MaxOps=3, MaxCmds=mc)),
        dict(name="runpending: sock+pipeR, timer, post", sample=n // 2,
             over=dict(Class="runpending", Kinds=["sock", "pipeR"], NT=1, MaxTick=2, MaxPosts=1, TickUs=2000,
                       Cmds={"read", "cancel", "close", "tonce", "tcancel", "post"}, Envs={"send", "peerclose", "tick"},
                       MaxCmds=mc - 1)),
        dict(name="runpending: regular file at the limit + sock", sample=n // 2,
             over=dict(Class="runpending", Kinds=["reg", "sock"], Cmds={"read", "cancel"}, Envs={"send"},
                       MaxOps=4, MaxCmds=mc, MaxData=2)),
    ]


def signal_scenarios():
    """Scripted scenarios of class "signal": the loop's wait is interrupted by SIGUSR1."""
    from reactor import E
    hs = []
    for kind in ("sock", "pipeR", "lst", "pkt"):
        api = {"sock": "read", "pipeR": "read", "lst": "accept", "pkt": "readfrom"}[kind]
        for dur in (60, -1):
            for at in (0, 1, 5):
                # nothing ready while the signal arrives; the event comes later and must still be dispatched
                # (only with a bounded wait: an unbounded one could miss the signal and block for good)
                if dur > 0:
                    hs.append([E("Reset", kinds=[kind], cls="signal", lim=32, n=0),
                               E("Call", api=api, o=1, op=1, dir="R", n=1),
                               E("WaitSig", n=at, d=dur),
                               E("Env", api="send", o=1, n=1), E("PollB")])
                # the event is ready before the wait: interrupted or not, it must be dispatched
                hs.append([E("Reset", kinds=[kind], cls="signal", lim=32, n=0),
                           E("Call", api=api, o=1, op=1, dir="R", n=1),
                           E("Env", api="send", o=1, n=1),
                           E("WaitSig", n=at, d=dur)])
    for at in (1, 3):
        # a timer due after the interruption must still fire
        hs.append([E("Reset", kinds=[], cls="signal", lim=32, n=1),
                   E("TSchedB", t=1, n=0, d=12000), E("WaitSig", n=at, d=100), E("WaitSig", n=at, d=100)])
    return hs


def run(ck):
    ck.cov["rule"] = ("scenario = history of a command-issuing transition of an exhaustive ReactorImpl state graph "
                      "(seeded sample in the quick tier), getters sampled after every top-level step; class runpending ends "
                      "with IO.RunPending under a watchdog; non-trivial = a completion callback ran nested inside another callback")
    sw = reactor.run_configs(ck, configs(ck.tier), FOCUS, env={"VERIF_TICKUS": "2000"})
    reactor.scripted(ck, sw, "signal", signal_scenarios() * (1 if ck.tier == "quick" else 10), FOCUS,
                     "scripted: SIGUSR1 interrupts RunOneFor / RunOne")
    # the accounting of a deferred accept whose connection is taken by someone else before its handler runs
    from checks import c01
    reactor.scripted(ck, sw, "shared_listener", c01.shared_listener_scenarios(), FOCUS,
                     "scripted: the queued connection is taken by another acceptor before the accept handler runs")
    ck.cov["exhaustive"] = False


def replay(ck, path):
    reactor.replay_file(ck, path, FOCUS)
