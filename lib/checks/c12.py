"""C12 UDP datagram boundaries, addressing, multicast membership, reported settings:
DatagramImpl (sonic's per-operation recvfrom/sendto/setsockopt mechanics on a small
model of the Linux receive path and multicast filter) composed with the DatagramMon
monitor, checked exhaustively by TLC in several narrow configurations; every
transition of those state graphs plus seeded random long histories are replayed on
real sockets (multicast.UDPPeer on the multicast-capable interface, sonic.PacketConn
on loopback, raw harness sockets as peers, getsockopt/getsockname next to every
getter) and the recorded traces are validated by TLC against the monitor."""
import json, os, time
import vlib

LEVEL = "model_checking"

MANIFEST = dict(
    engine="tlc-datagram", path="spec/Datagram",
    technique="TLA+ monitor + implementation/kernel model checked exhaustively by TLC; TLC-generated transition cover and random histories replayed on real UDP sockets (multicast on the multicast-capable interface, unicast on loopback); recorded traces validated by TLC against the monitor",
    text="Exhaustive TLC check of DatagramImpl composed with DatagramMon in narrow configurations: membership (1-2 receivers bound to :P / <group>:P / <interface address>:P, 2 groups, sources {real, phantom}, every sequence of Join/JoinSource/Leave/LeaveSource/Block/Unblock and traffic up to the tier's depth), reads (sync and async, inline vs parked at the dispatch limit, SetAsyncReadBuffer, truncating buffer), writer and settings (Write/AsyncWrite, SetLoop/SetTTL/SetOutboundIPv4), packet connection (all bind forms, 2-3 senders, ReadFrom/AsyncReadFrom/AsyncReadAllFrom, WriteTo/AsyncWriteTo, oversize writes), unicast to a multicast peer, bursts longer than the dispatch limit read by chained AsyncReads, all constructor bind forms. Every transition of these graphs (shortest path + edge) and seeded random long histories (bursts, sizes 1..65507 in classes) are replayed on real sockets; reads' bytes/length/source address/buffer, datagrams seen by raw receivers (count, bytes, destination via IP_PKTINFO) and getters next to getsockopt/getsockname are recorded and validated by TLC against the monitor. Verdicts come only from recorded real-code traces.",
    note="Trusted: TLC, the Go driver (payload generator/projection, raw sockets, sentinel ordering on one pinned CPU), the kernel. Only one real source address exists, source filters are exercised with {that address, an address nobody sends from}. Without a multicast-capable interface the check exits 2. IPv6 and BSD paths are outside.",
    design_ref="5/C12")

MEM = '{"mem", "send"}'
RD = '{"send", "rd", "sync", "lim", "setbuf", "chain"}'
WR = '{"send", "rd", "wr", "wset", "lim", "oversize"}'
PC = '{"send", "rd", "wr", "sync", "lim", "readall", "chain", "oversize"}'
BURST = '{"burst", "send", "rd", "chain", "lim", "setbuf"}'
ALLMC = '{"mem", "send", "rd", "wr", "wset", "lim", "sync", "setbuf", "chain", "oversize"}'
PCBINDS = '{"lo", "localhost", "empty", "port0", "if"}'

BASE = {"Kind": '"mc"', "NR": 1, "Binds": '{"any"}', "WBinds": '{"any0"}', "NG": 2, "NS": 1, "Acts": MEM, "PreJoin": "FALSE",
        "MaxSteps": 4, "MaxHist": 0}


def cfgs(tier):
    q = tier == "quick"
    cover = [
        # name, constants, keep one edge in `every` (1 = all)
        ("membership-1rcv", dict(NR=1, Binds='{"any", "any4", "grp", "if"}', MaxSteps=4 if q else 5), 2 if q else 1),
        ("membership-2rcv", dict(NR=2, Binds='{"any", "any4", "grp"}', MaxSteps=3 if q else 4), 3),
        ("membership-2rcv-deep", dict(NR=2, Binds='{"any"}', MaxSteps=4 if q else 5), 6 if q else 4),
        ("constructors", dict(NR=1, Binds='{"empty0", "lo0", "if0", "grp0", "any", "any4", "grp", "if"}', WBinds='{"any0", "if0"}',
                              Acts='{"mem", "send", "wr", "wset"}', MaxSteps=2), 2 if q else 1),
        ("reads", dict(NG=1, NS=2, PreJoin="TRUE", Acts=RD, MaxSteps=5 if q else 7), 1 if q else 4),
        ("unicast-to-peer", dict(NR=2, NG=1, NS=2, Binds='{"solo", "any"}', Acts='{"mem", "send", "uni", "rd", "sync", "chain"}',
                                 MaxSteps=3 if q else 4), 4 if q else 6),
        ("corrupt-datagrams-peer", dict(NR=1, NG=1, NS=1, Binds='{"solo"}', Acts='{"send", "uni", "rd", "corrupt", "setbuf"}',
                                        MaxSteps=4 if q else 5), 1),
        ("corrupt-datagrams-pc", dict(Kind='"pc"', Binds='{"lo"}', NS=1, NG=1, Acts='{"send", "rd", "corrupt", "readall"}',
                                      MaxSteps=4 if q else 5), 1),
        ("reads-2rcv", dict(NR=2, NG=1, PreJoin="TRUE", Acts=RD, MaxSteps=4 if q else 5), 1 if q else 2),
        ("burst-pc", dict(Kind='"pc"', Binds='{"lo"}', NS=2, NG=1, Acts=BURST, MaxSteps=3 if q else 4), 2 if q else 4),
        ("burst-mc", dict(NR=2, NG=1, PreJoin="TRUE", Acts=BURST, MaxSteps=3 if q else 4), 2 if q else 4),
        ("writer", dict(NG=1, PreJoin="TRUE", WBinds='{"any0", "if0"}', Acts=WR, MaxSteps=4 if q else 5), 6),
        ("packetconn", dict(Kind='"pc"', Binds=PCBINDS, NS=2, NG=1, Acts=PC, MaxSteps=4 if q else 5), 8 if q else 12),
    ]
    sims = [
        ("random-mc", dict(NR=2, NS=2, Binds='{"any", "grp"}', WBinds='{"any0", "if0"}', Acts=ALLMC, MaxSteps=16, MaxHist=44), 120 if q else 2500, "big"),
        ("random-mc-joined", dict(NR=2, Binds='{"any"}', PreJoin="TRUE", Acts=ALLMC, MaxSteps=20, MaxHist=52), 80 if q else 1500, "big"),
        ("random-pc", dict(Kind='"pc"', Binds=PCBINDS, NS=3, NG=1, Acts=PC, MaxSteps=30, MaxHist=64), 120 if q else 2500, "big"),
    ]
    if not q:
        cover.append(("packetconn-3senders", dict(Kind='"pc"', Binds='{"lo", "empty"}', NS=3, NG=1, Acts=PC, MaxSteps=4), 4))
    strict = [] if q else [
        ("membership-exhaustive", dict(NR=2, Binds='{"any", "grp"}', MaxSteps=6)),
        ("all-actions-exhaustive", dict(NR=2, Binds='{"any"}', Acts=ALLMC, MaxSteps=4)),
    ]
    return cover, sims, strict


def _consts(over):
    c = dict(BASE)
    c.update(over)
    return c


def _validate(ck, sw, name, beh, label, mode, lane, consts):
    trace = os.path.join(ck.work, "trace_%s.ndjson" % name)
    m = "lane=%d" % lane + ("," + mode if mode else "")
    t0 = time.time()
    summ, _ = vlib.run_replay(["dgram", "-in", beh, "-out", trace, "-seed", str(ck.seed), "-mode", m], timeout=1500)
    if summ is None:
        raise vlib.Inconclusive("replay %s printed no summary" % name)
    bads, _ = vlib.validate_trace(sw, "DatagramMonTrace", "DatagramMonTrace.cfg", trace, timeout=1500,
                                  parallel=ck.par)
    vlib.log("[c12] %-28s %6d scenarios %8d events  replay+validate %.1fs" % (name, summ["scenarios"], summ["events"], time.time() - t0))
    harness = [b for b in bads if b[2].startswith("C12/harness")]
    if harness:
        raise vlib.Inconclusive("driver protocol error %s in %s" % (harness[0], label))
    getters = {b[0] for b in bads if b[2].startswith("C12/getter/")}
    hard = {b[0] for b in bads if not b[2].startswith("C12/getter/")}
    known = vlib.known_findings()
    notclean = hard | {b[0] for b in bads if b[2].startswith("C12/getter/") and (ck.pid, b[2]) not in known}
    ck.cov["evaluations"] += summ["scenarios"]
    ck.cov["distinct_nontrivial"] += summ["nontrivial"]
    ck.cov["traces_validated_against_impl"] += summ["scenarios"] - len(notclean)
    ck.cov.setdefault("events", 0)
    ck.cov["events"] += summ["events"]
    if summ.get("notes"):
        dn = ck.cov.setdefault("driver_notes", {})
        for k, v in summ["notes"].items():
            dn[k] = dn.get(k, 0) + v
    if summ["drift"]:
        ck.cov["impl_drift"].append({"run": label, "steps_differing_from_model": summ["drift"],
                                     "first": summ.get("first_drift")})
    for sid, i, key in bads:
        ck.report_bad(key, "datagram trace rejected at event %d of scenario %d (%s)" % (i, sid, label),
                      lambda sid=sid, i=i, key=key: {
                          "property": ck.pid, "component": "dgram", "rule": key, "step": i, "mode": mode,
                          "seed": ck.seed, "constants": consts,
                          "behaviour": json.loads(vlib.nth_line(beh, sid)),
                          "trace": vlib.read_scenario(trace, sid)})
    if len(ck.cov["samples"]) < 4 and summ["scenarios"]:
        k = max(1, summ["scenarios"] // 2)
        ck.sample({"run": label, "behaviour": json.loads(vlib.nth_line(beh, k)),
                   "trace_excerpt": [{a: b for a, b in e.items() if b not in (0, "", [])}
                                     for e in vlib.read_scenario(trace, k)[:10]]})
    return bads


def run(ck):
    from concurrent.futures import ThreadPoolExecutor
    vlib.build_harness()
    sw = vlib.prep_spec("Datagram", ck.work)
    cover, sims, strict = cfgs(ck.tier)
    ck.par = 4
    tmo = 900 if ck.tier == "quick" else 3000    # generous: the machine is shared; a timeout is exit 2, never a verdict
    ck.cov["rule"] = ("scenarios = every transition of the exhaustive DatagramImpl state graphs (shortest path + edge; "
                      "the larger graphs sampled by seed) plus seeded random long histories; non-trivial = the scenario "
                      "has a datagram the filter keeps from an eligible receiver, a truncating or re-designated read "
                      "buffer, or a write with loop-back switched off")
    model_findings = set()
    bugflags = {"BUG_LoopDefault": "TRUE", "BUG_OutboundCopy": "FALSE", "BUG_StaleBuffer": "FALSE",
                "BUG_LeaveKeeps": "FALSE", "BUG_AllOn": "FALSE"}

    def do_cover(arg):
        lane, (name, over, every) = arg
        consts = _consts(over)
        cfg = vlib.cfg_with(sw, "DatagramImpl_mc.cfg", dict(consts, **bugflags))
        r = vlib.tlc(sw, "DatagramImpl", cfg, workers=2, timeout=tmo)
        if not r.ok:
            raise vlib.Inconclusive("DatagramImpl %s: %s\n%s" % (name, r.violated or r.error, r.tail(6)))
        ck.add_tlc("DatagramImpl transition cover: " + name, r, consts)
        vlib.log("[c12] tlc cover %-24s %.1fs" % (name, r.wall))
        for line in r.lines('<<"MODELBAD"'):
            model_findings.add(line.split('"')[3])
        beh = os.path.join(ck.work, "cover_%s.jsonl" % name)
        pick = None if every == 1 else (lambda n: (n * 2654435761 + ck.seed * 97) % every == 0)
        n = vlib.edges_to_file(r, beh, pick=pick)
        if n == 0:
            raise vlib.Inconclusive("no behaviours generated for " + name)
        _validate(ck, sw, "cover_" + name, beh, "transition cover %s%s" % (name, "" if every == 1 else " (1 in %d)" % every),
                  "", lane, consts)

    def do_sim(arg):
        lane, (name, over, num, mode) = arg
        consts = _consts(over)
        cfg = vlib.cfg_with(sw, "DatagramImpl_sim.cfg", dict(consts, **bugflags))
        r = vlib.tlc(sw, "DatagramImpl", cfg, workers=1, simulate=num, depth=consts["MaxHist"] + 3,
                     seed=ck.seed * 1000 + lane, timeout=tmo)
        if r.violated or (r.error and "timeout" in r.error):
            raise vlib.Inconclusive("DatagramImpl simulation %s: %s\n%s" % (name, r.violated or r.error, r.tail()))
        ck.add_tlc("DatagramImpl random simulation: " + name, r, consts, exhaustive=False)
        vlib.log("[c12] tlc simulation %-19s %.1fs" % (name, r.wall))
        beh = os.path.join(ck.work, "sim_%s.jsonl" % name)
        if vlib.edges_to_file(r, beh) == 0:
            raise vlib.Inconclusive("simulation %s produced no histories\n%s" % (name, r.tail()))
        _validate(ck, sw, "sim_" + name, beh, "random histories " + name, mode, lane, consts)

    def do_strict(arg):
        name, over = arg
        consts = _consts(over)
        cfg = vlib.cfg_with(sw, "DatagramImpl_strict.cfg", dict(consts, **bugflags))
        r = vlib.tlc(sw, "DatagramImpl", cfg, workers=4, timeout=tmo)
        if not r.ok:
            raise vlib.Inconclusive("DatagramImpl %s: %s\n%s" % (name, r.violated or r.error, r.tail()))
        ck.add_tlc("DatagramImpl exhaustive (no replay): " + name, r, consts)

    # the model itself must reject the seeded defects (mutation evidence for the specs)
    def do_mut(arg):
        flag, over, inv = arg
        consts = _consts(over)
        cfg = vlib.cfg_with(sw, "DatagramImpl_strict.cfg", dict(consts, **dict(bugflags, **{flag: "TRUE"})))
        r = vlib.tlc(sw, "DatagramImpl", cfg, workers=1, timeout=600)
        ck.cov.setdefault("model_mutations", []).append({"flag": flag, "violated": r.violated, "expected": True})
        if not r.violated:
            raise vlib.Inconclusive("model does not reject %s: %s" % (flag, r.error or "no violation"))

    muts = [("BUG_LeaveKeeps", dict(NR=1, MaxSteps=3), "Agree"),
            ("BUG_AllOn", dict(NR=2, MaxSteps=2), "Agree"),
            ("BUG_StaleBuffer", dict(NG=1, PreJoin="TRUE", Acts=RD, MaxSteps=4), "NotBad"),
            ("BUG_OutboundCopy", dict(NG=1, PreJoin="TRUE", Acts=WR, MaxSteps=2), "GettersOK")]

    with ThreadPoolExecutor(max_workers=6) as ex:
        futs = [ex.submit(do_cover, a) for a in enumerate(cover, 1)]
        futs += [ex.submit(do_sim, a) for a in enumerate(sims, 20)]
        futs += [ex.submit(do_strict, a) for a in strict]
        futs += [ex.submit(do_mut, a) for a in muts]
        errs = []
        for f in futs:
            try:
                f.result()
            except vlib.Inconclusive as e:
                errs.append(e)
        if errs:
            raise errs[0]
    ck.cov["tlc_runs"].sort(key=lambda r: r["name"])
    ck.cov["model_findings"] = sorted(model_findings)
    ck.cov["exhaustive"] = True
    ck.assumptions += [
        "one pinned CPU: datagrams and the sentinel that follows them share one FIFO backlog queue, so a received sentinel proves that everything sent before it has been through the receive path",
        "payload bytes are generator output; the Go projection is trusted for 'these n bytes are datagram d's first n bytes and the rest of every buffer is untouched'",
        "the kernel's own argument checking of membership calls is taken from the trace; a refused LeaveSource on an any-source membership makes the group 'murky' (Linux silently flips the filter mode) and both outcomes are accepted",
        "datagram sizes are kept within what the receivers' receive buffers can hold (SO_MEMINFO), a kernel drop makes the run inconclusive",
        "empty datagrams are outside the statement"]


def replay(ck, path):
    vlib.build_harness()
    sw = vlib.prep_spec("Datagram", ck.work)
    ck.par = 1
    obj = json.load(open(path))
    beh = os.path.join(ck.work, "replay.jsonl")
    with open(beh, "w") as f:
        f.write(json.dumps(obj["behaviour"], separators=(",", ":")) + "\n")
    if "seed" in obj:
        ck.seed = obj["seed"]
    _validate(ck, sw, "replay", beh, "replay of " + os.path.basename(path), obj.get("mode", ""), 0, obj.get("constants", {}))
