"""C15 WebSocket protocol violations are reported, never delivered as data.
Same component as C06 (WsReadImpl x WsReadMon, scripted-transport driver): the
model's peer injects one violation (RSV bits, reserved opcode, masked frame,
fragmented control frame, control frame > 125 bytes, continuation without a
message in progress, new data frame inside a fragmented message, frame /
message over the maximum) at any position of a conforming sequence; every
generated history is replayed through the four read APIs of the real Stream;
after the error return the driver flushes, parses the captured transport output
with its own RFC 6455 parser (Close status) and tries an application write."""
import json, os
import vlib
from checks import c06

LEVEL = "model_checking"

MANIFEST = dict(
   engine="tlc-wsread", path="spec/WsRead",
   technique="TLA+ monitor + implementation-shaped model of the WebSocket read path with a violation-injecting peer, checked exhaustively by TLC; TLC-generated transition cover and all-offset segmentations replayed through the four read APIs of the real Stream over a scripted transport; captured transport output parsed independently; recorded traces validated by TLC against the monitor",
   text="Exhaustive TLC check of WsReadImpl x WsReadMon where the peer mutates one frame of every conforming sequence of <= 4 frames (9 violation classes x every position x payload length classes) under all segmentations at split-class granularity. Every transport-read transition and completed run is replayed (quick: seeded sample) through NextFrame, AsyncNextFrame, NextMessage, AsyncNextMessage (inline/deferred/would-block variants); the monitor rejects a nil return over the violating frame, its payload handed out, a panic, a missing Close(1002) on the wire after the next flush and an accepted application write after a framing violation; frames before the violation must still be delivered faithfully (C06 rules). 64-bit lengths with the top bit set are added as hand-made frame lists at every header split.",
   note="Trusted: TLC, the Go driver (scripted transport, own RFC 6455 parser of the captured output, payload projection). The frame-level API is not required to report sequences that only break the fragmentation rules (the statement names the message-level API). Close(1002) is required for the RFC 6455 framing classes only, as the statement says.",
   design_ref="5/C15")

ALL = '{"rsv", "masked", "resop", "fragctl", "bigctl", "contnostart", "newdata", "frame-over-max", "msg-over-max"}'
BASE = dict(c06.BASE, Viols=ALL, PairConf="TRUE")

SLICES_QUICK = [
    ("all classes, text/ping, <= 4 frames", {"Ops": '{"text"}', "CtlOps": '{"ping"}', "CtlLens": "{0}", "Lens": "{1}", "VLens": "{0, 1, 126}",
                                            "MaxMsgs": 2, "MaxFrags": 2, "MaxCtl": 1, "MaxFrames": 4}, 5, 4),
    ("binary/pong, 16/64-bit lengths, <= 3 frames", {"Ops": '{"binary"}', "CtlOps": '{"pong"}', "CtlLens": "{125}", "Lens": "{126}", "VLens": "{1, 65536}",
                                                    "MaxMsgs": 2, "MaxFrags": 2, "MaxCtl": 1, "MaxFrames": 3}, 2, 2),
    ("size limits", {"Ops": '{"text"}', "CtlOps": '{"ping"}', "CtlLens": "{0}", "Lens": "{1, 70000}", "VLens": "{1}",
                     "Viols": '{"msg-over-max", "frame-over-max"}', "MaxMsgs": 1, "MaxFrags": 3, "MaxCtl": 1, "MaxFrames": 4}, 2, 2),
]
# a maximum below the 7-bit length class: a frame can be too long without an extended length field
SMALLMAX = ("maximum of 100 bytes", {"Max": 100, "Ops": '{"text"}', "CtlOps": '{"ping"}', "CtlLens": "{0}", "Lens": "{1, 100}", "VLens": "{1}",
                                    "Viols": '{"msg-over-max", "frame-over-max"}', "MaxMsgs": 1, "MaxFrags": 2, "MaxCtl": 1, "MaxFrames": 3}, 1, 1)
SLICES_QUICK.append(SMALLMAX)
SLICES_THOROUGH = [
    ("all classes, text/ping, <= 4 frames", dict(SLICES_QUICK[0][1], MaxFrags=3), 2, 4),
    ("binary/pong, 16/64-bit lengths, <= 4 frames", dict(SLICES_QUICK[1][1], MaxFrames=4), 2, 4),
    ("size limits", SLICES_QUICK[2][1], 1, 2),
    SMALLMAX,
    ("both types, both controls, framing classes", {"Ops": '{"text", "binary"}', "CtlOps": '{"ping", "pong"}', "CtlLens": "{0, 125}", "Lens": "{0, 126}", "VLens": "{0, 125}",
                                                  "Viols": '{"rsv", "masked", "resop", "fragctl", "bigctl"}', "MaxMsgs": 2, "MaxFrags": 2, "MaxCtl": 1, "MaxFrames": 3}, 2, 4),
    ("both types, fragmentation classes", {"Ops": '{"text", "binary"}', "CtlOps": '{"ping"}', "CtlLens": "{1}", "Lens": "{0, 126}", "VLens": "{0, 1, 126}",
                                         "Viols": '{"contnostart", "newdata"}', "MaxMsgs": 2, "MaxFrags": 3, "MaxCtl": 1, "MaxFrames": 4}, 2, 4),
]
SIM = {"Ops": '{"text", "binary"}', "CtlOps": '{"ping", "pong"}', "Lens": "{0, 1, 125, 126, 65535, 65536, 70000}", "VLens": "{0, 1, 125, 126, 65536}",
       "MaxMsgs": 3, "MaxFrags": 3, "MaxCtl": 2, "MaxFrames": 8, "MaxHist": 90}

HUGE = -63   # driver: 64-bit length field 0x8000000000000000, no payload


def huge_scenarios(path):
    """64-bit length with the top bit set (larger than any maximum), alone and
    after conforming frames, cut at every offset of its 10-byte header."""
    prefixes = [[], [["S", 1, "text", 1, 1, 0, ""]], [["S", 1, "text", 0, 1, 0, ""], ["S", 2, "ping", 1, 0, 0, ""]]]
    n = 0
    with open(path, "w") as out:
        for pre in prefixes:
            off = sum(c06.frame_len(it) for it in pre)
            fid = len(pre) + 1
            for op, fin in (("text", 1), ("binary", 0), ("cont", 1), ("ping", 1)):
                if op == "cont" and not (pre and pre[0][3] == 0):
                    continue
                fr = ["S", fid, op, fin, HUGE, 0, "frame-over-max"]
                for cuts in [[]] + [[off + k] for k in range(0, 10) if off + k > 0] + [[off + k for k in range(1, 10)]]:
                    for api in ("NF", "NM"):
                        out.write(json.dumps([["B", 70000], ["R", api]] + pre + [fr, ["X", cuts]]) + "\n")
                        n += 1
    return n


def run(ck):
    vlib.build_harness()
    sw = vlib.prep_spec(c06.COMP, ck.work)
    ck.cov["rule"] = ("scenarios = transport-read transitions and completed runs of the exhaustive WsReadImpl graph with a violation-injecting "
                      "peer (quick: seeded sample), random long histories, hand-made top-bit lengths, thorough: every split offset of short "
                      "streams; 9 API runs per scenario; non-trivial = some segment boundary falls strictly inside a frame")
    hb = os.path.join(ck.work, "huge.jsonl")
    huge_scenarios(hb)
    c06.validate(ck, sw, "huge", hb, "64-bit length with the top bit set")
    if ck.tier == "quick":
        c06.run_slices(ck, sw, SLICES_QUICK, BASE, SIM, 400, offsets=(20, 0, 4000), pool=4)
    else:
        c06.run_slices(ck, sw, SLICES_THOROUGH, BASE, SIM, 4000, offsets=(40, 12, 40000), pool=3)
    ck.cov["exhaustive"] = True
    ck.assumptions += [
        "one violation per history; frames after the violating one are not judged",
        "Close(1002)/no-writes is required after RSV, reserved opcode, masked, fragmented control, oversized control; for size limits and fragmentation-rule breaks only the error return is required (statement)",
        "the frame-level API may deliver or reject sequences that only break the fragmentation rules"]


def replay(ck, path):
    c06.replay(ck, path)
