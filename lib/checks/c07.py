"""C07 WebSocket frame decoder: total, bounded, in sync.

WsFrame.tla is the RFC 6455 frame parse as a reference function over byte
sequences; WsDecMon.tla judges recorded Decode results against it; WsDecImpl.tla
transcribes FrameCodec.Decode so that TLC's state graph is the decoder's decision
table. Every transition of that graph is replayed on the real FrameCodec and
ByteBuffer (twice: one piece, then with the transition's split), seeded random
and mutated byte strings are added, and TLC validates every recorded trace."""
import json, os, random
import vlib

LEVEL = "model_checking"

MANIFEST = dict(
    engine="tlc-wsframe", path="spec/WsFrame",
    technique="TLA+ reference parser (RFC 6455 framing over byte sequences) + decoder monitor + implementation-shaped decoder model checked exhaustively by TLC; every transition of the model's decision table replayed on the real FrameCodec/ByteBuffer; recorded Decode results validated by TLC against the reference function",
    text="Exhaustive TLC check of WsDecImpl (FrameCodec.Decode, Frame length accessors and ByteBuffer.PrepareRead transcribed) composed with the monitor WsDecMon for the full decision table: first header byte (FIN x RSV x opcode) x MASK x length class (7/16/64-bit, minimal and non-minimal encodings, max, max+1, 2^31, 2^63-1, 2^63, 2^64-10, 2^64-1; two maxima) x following frame x split at every header-section boundary, inside every section, inside the payload, at the exact end and inside the next frame. Every transition becomes one concrete test on the real codec (shortest path + edge), executed once in one piece and once with the split; encoder round trips for every header combination and length class incl. recycled frame slices; seeded random and mutated short byte strings. TLC evaluates the reference parser on every recorded Decode call (kind, consumed bytes, content, buffer length, capacity growth, accessor values, split independence, round-trip identity). Verdicts only from recorded real-code traces.",
    note="Trusted: TLC, the Go driver (byte generator, content comparison flags fok/pok, panic recovery), JSON trace I/O. Payload bytes of the big length classes are not in the trace (opaque segments); their identity is vouched for by the driver's comparison. 64-bit lengths >= 2^31 are classes in TLA+ (TLC integers are 32 bit). Byte strings outside the enumerated table are covered by sampling only.",
    design_ref="5/C07")

def _zero_actions(r):
    """Actions of the spec that TLC's -coverage report shows with no generated state (vacuity control)."""
    import re
    zero = []
    for line in open(r.outpath, errors="replace"):
        m = re.match(r"^<(\w+) line \d+, col \d+ to line \d+, col \d+ of module (\w+)>: (\d+):(\d+)", line)
        if m and int(m.group(4)) == 0:
            zero.append(m.group(2) + "!" + m.group(1))
    return sorted(set(zero))


QUICK_B0 = "{0, 1, 2, 3, 8, 9, 10, 15, 113, 129, 130, 136, 137, 138, 241, 255}"
FIELDS0 = dict(c="wsdec", ev="", sid=0, i=0, max=0, segs=[], take=0, kind="", flen=0, fok=0, blen=0, grow=0,
               rl=0, wl=0, fin=0, rsv=0, op=0, m=0, plen=0, pok=-1, reuse=0)


def _step(ev, **kw):
    d = dict(FIELDS0)
    d["ev"] = ev
    d.update(kw)
    return d


# --------------------------------------------------------------------------
# seeded random / mutated byte strings (all bytes explicit, judged by the TLA+ parser)
# --------------------------------------------------------------------------
def _enc_frame(rng, maxlen):
    b0 = rng.choice([0x81, 0x82, 0x01, 0x00, 0x80, 0x88, 0x89, 0x8A, rng.randrange(256)])
    m = rng.random() < 0.4
    n = rng.choice([0, 1, 2, 5, rng.randrange(0, maxlen + 1)])
    form = rng.choice([7, 7, 16, 64]) if n < 126 else 16
    out = [b0]
    if form == 7:
        out.append((128 if m else 0) | n)
    elif form == 16:
        out += [(128 if m else 0) | 126, n >> 8, n & 255]
    else:
        out += [(128 if m else 0) | 127, 0, 0, 0, 0, 0, 0, n >> 8, n & 255]
    if m:
        out += [rng.randrange(256) for _ in range(4)]
    out += [rng.randrange(256) for _ in range(n)]
    return out


def _rand_string(rng):
    r = rng.random()
    if r < 0.3:
        n = rng.randrange(0, 25)
        s = [rng.randrange(256) for _ in range(n)]
        if n >= 2 and rng.random() < 0.7:
            s[1] = rng.choice([0, 1, 125, 126, 127, 128, 129, 253, 254, 255, rng.randrange(256)])
        if n >= 3 and rng.random() < 0.5:
            s[2] = rng.choice([0, 0, 127, 128, 255])
        return s
    s = []
    for _ in range(rng.randrange(1, 4)):
        s += _enc_frame(rng, 20)
    if r < 0.5:
        return s
    for _ in range(rng.randrange(1, 4)):
        if not s:
            break
        k = rng.randrange(len(s))
        op = rng.randrange(6)
        if op == 0:
            s[k] ^= 1 << rng.randrange(8)
        elif op == 1:
            del s[k]
        elif op == 2:
            s.insert(k, rng.choice([0, 126, 127, 128, 254, 255, rng.randrange(256)]))
        elif op == 3:
            s = s[:k]
        elif op == 4:
            s[k] = rng.choice([0, 126, 127, 254, 255])
        else:
            s = s[:k] + s[k:k + 4] + s[k:]
    return s[:64]


def gen_random(path, seed, n):
    rng = random.Random(seed)
    with open(path, "w") as f:
        for _ in range(n):
            s = _rand_string(rng)
            mx = rng.choice([0, 1, 5, 20, 20, 125, 126, 300, 65535, 65536, 70000])
            steps = [_step("New", max=mx)]
            if s:
                steps.append(_step("Bytes", segs=[{"n": len(s), "b": s}]))
            left = len(s)
            while left > 0:
                t = min(left, rng.choice([1, 1, 2, 3, 4, 8, 14, 64]))
                steps.append(_step("Dec", take=t))
                left -= t
                if rng.random() < 0.15:
                    steps.append(_step("Dec", take=0))
            f.write(json.dumps(steps) + "\n")
    return n


# --------------------------------------------------------------------------
# every split offset (not only the classes) for short frames
# --------------------------------------------------------------------------
def gen_allsplits(path, tier):
    import itertools
    frames = []
    for m in (0, 1):
        for form in (7, 16, 64):
            for n in ((0, 2) if tier == "quick" else (0, 1, 2, 3)):
                b = [0x82, (128 if m else 0) | (n if form == 7 else 126 if form == 16 else 127)]
                if form == 16:
                    b += [0, n]
                elif form == 64:
                    b += [0, 0, 0, 0, 0, 0, 0, n]
                if m:
                    b += [0xA1, 0xB2, 0xC3, 0xD4]
                b += [0x30 + k for k in range(n)]
                frames.append(b + [0x81, 0x00])       # followed by an empty text frame
    cnt = 0
    with open(path, "w") as f:
        for b in frames:
            L = len(b)
            combos = [tuple(range(1, L))]                                   # one byte at a time
            combos += list(itertools.combinations(range(1, L), 1))
            combos += list(itertools.combinations(range(1, L), 2))
            if tier != "quick":
                combos += list(itertools.combinations(range(1, L), 3))
            for cuts in combos:
                steps = [_step("New", max=20), _step("Bytes", segs=[{"n": L, "b": b}])]
                prev = 0
                for c in list(cuts) + [L]:
                    steps.append(_step("Dec", take=c - prev))
                    prev = c
                f.write(json.dumps(steps) + "\n")
                cnt += 1
    return cnt


# --------------------------------------------------------------------------
CHUNK = 20000   # scenarios per replay/validation round (bounds trace size and TLC memory)


def _validate(ck, sw, name, beh, label, want_sample=False):
    with open(beh) as f:
        nlines = sum(1 for _ in f)
    if nlines <= CHUNK:
        return _validate1(ck, sw, name, beh, label, want_sample)
    bads = []
    with open(beh) as f:
        k = 0
        while True:
            part = [line for _, line in zip(range(CHUNK), f)]
            if not part:
                break
            pb = "%s.c%d" % (beh, k)
            with open(pb, "w") as g:
                g.writelines(part)
            bads += _validate1(ck, sw, "%s_c%d" % (name, k), pb, "%s [chunk %d]" % (label, k), want_sample and k == 0)
            os.remove(pb) if not bads else None
            k += 1
    return bads


def _validate1(ck, sw, name, beh, label, want_sample=False):
    trace = os.path.join(ck.work, "trace_%s.ndjson" % name)
    summ, _ = vlib.run_replay(["wsdec", "-in", beh, "-out", trace])
    bads, r = vlib.validate_trace(sw, "WsDecMonTrace", "WsDecMonTrace.cfg", trace, timeout=1500,
                                  parallel=max(2, vlib.NCPU // (3 if ck.tier == "quick" else 2)))
    obs = ck.cov.setdefault("observed_counts", {})
    with open(trace) as tf:
        text = tf.read()
    for pat in ('"kind":"frame"', '"kind":"needmore"', '"kind":"toobig"', '"kind":"error"', '"kind":"panic"'):
        obs[pat] = obs.get(pat, 0) + text.count(pat)
    del text
    ck.cov["evaluations"] += summ["scenarios"]
    ck.cov["distinct_nontrivial"] += summ["nontrivial"]
    ck.cov["traces_validated_against_impl"] += summ["scenarios"] - len({b[0] for b in bads})
    ck.cov.setdefault("events_validated", 0)
    ck.cov["events_validated"] += summ["events"]
    if summ["drift"]:
        ck.cov["impl_drift"].append({"run": label, "steps_differing_from_model": summ["drift"],
                                     "first": summ.get("first_drift")})
    for sid, i, key in bads:
        if key.startswith("C07/harness"):
            raise vlib.Inconclusive("driver/trace trouble: %s at scenario %d step %d (%s)" % (key, sid, i, label))
        ck.report_bad(key, "decoder trace rejected at step %d of scenario %d (%s)" % (i, sid, label),
                      lambda sid=sid, i=i, key=key: {
                          "property": ck.pid, "component": "wsdec", "rule": key, "step": i,
                          "behaviour": json.loads(vlib.nth_line(beh, sid)),
                          "trace": vlib.read_scenario(trace, sid)})
    if want_sample:
        sid = max(1, summ["scenarios"] // 3)
        ck.sample({"run": label, "behaviour": [
            {k: v for k, v in s.items() if k in ("ev", "max", "segs", "take", "kind", "flen", "fin", "rsv", "op", "m", "plen", "reuse")}
            for s in json.loads(vlib.nth_line(beh, sid))],
            "trace_excerpt": vlib.read_scenario(trace, sid)[:8]})
    if not bads:
        os.remove(trace)
    return bads


def _configs(tier):
    allb0 = "{" + ", ".join(str(v) for v in range(256)) + "}"
    q = tier == "quick"
    return [
        # name, constants
        ("raw-fine-70000", dict(Max=70000, B0Set="{129}" if q else "{129, 2, 255, 122}", MSet="{0, 1}", Fine="TRUE",
                                WithFol="TRUE", Mode='"raw"', NEnc=1, NRaw=1)),
        ("raw-fine-100", dict(Max=100, B0Set="{2}" if q else "{2, 137}", MSet="{0, 1}", Fine="TRUE", WithFol="TRUE",
                              Mode='"raw"', NEnc=1, NRaw=1)),
        ("raw-table-70000", dict(Max=70000, B0Set=QUICK_B0 if q else allb0, MSet="{0, 1}", Fine="FALSE",
                                 WithFol="FALSE", Mode='"raw"', NEnc=1, NRaw=1)),
        ("enc-table", dict(Max=70000, B0Set=QUICK_B0 if q else allb0, MSet="{0, 1}", Fine="FALSE", WithFol="FALSE",
                           Mode='"enc"', NEnc=1, NRaw=1)),
        ("enc-reuse", dict(Max=70000, B0Set="{130}", MSet="{1}" if q else "{0, 1}", Fine="FALSE", WithFol="FALSE",
                           Mode='"enc"', NEnc=2, NRaw=1)),
    ] + ([] if q else [
        ("raw-pairs-70000", dict(Max=70000, B0Set="{130}", MSet="{0}", Fine="FALSE", WithFol="FALSE", Mode='"raw"',
                                 NEnc=1, NRaw=2)),
    ])


def run(ck):
    from concurrent.futures import ThreadPoolExecutor
    vlib.build_harness()
    sw = vlib.prep_spec("WsFrame", ck.work)
    ck.cov["rule"] = ("cases = every transition of the exhaustive WsDecImpl state graph (header byte x mask x length class x "
                      "follower x cut), each replayed on the real codec in one piece and with its split, plus seeded random/"
                      "mutated byte strings; non-trivial = the split run produced a frame or an error after at least one "
                      "ErrNeedMore (a decode completed across a split)")
    model_findings = set()

    def cover(item):
        name, consts = item
        consts = dict(consts, BUG_NegLen="FALSE", BUG_ShortReuse="FALSE")
        cfg = vlib.cfg_with(sw, "WsDecImpl_mc.cfg", consts, add=["\\* " + name])
        big = name in ("raw-table-70000", "enc-table")     # the two 256-header-byte tables: no coverage statistics
        r = vlib.tlc(sw, "WsDecImpl", cfg, workers=1 if ck.tier == "quick" else (4 if big else 2), timeout=2400,
                     extra=["-coverage", "1"] if ck.tier == "thorough" and not big else None)
        if not r.ok:
            raise vlib.Inconclusive("WsDecImpl %s: %s\n%s" % (name, r.violated or r.error, r.tail()))
        ck.add_tlc("WsDecImpl transition cover " + name, r, consts)
        if ck.tier == "thorough" and not big:
            ck.cov.setdefault("coverage_zero_actions", {})[name] = _zero_actions(r)
        for line in r.lines('<<"MODELBAD"'):
            model_findings.add(line.split('"')[3])
        beh = os.path.join(ck.work, "cover_%s.jsonl" % name)
        n = vlib.edges_to_file(r, beh)
        if n == 0:
            raise vlib.Inconclusive("no transitions generated for " + name)
        _validate(ck, sw, name, beh, "decision table " + name, want_sample=name in ("raw-fine-70000", "enc-reuse"))

    def rand(k):
        beh = os.path.join(ck.work, "rand_%d.jsonl" % k)
        gen_random(beh, ck.seed * 1000 + k, 2000 if ck.tier == "quick" else 12500)
        _validate(ck, sw, "rand_%d" % k, beh, "random/mutated byte strings #%d" % k, want_sample=(k == 0))

    def allsplits():
        beh = os.path.join(ck.work, "allsplits.jsonl")
        gen_allsplits(beh, ck.tier)
        _validate(ck, sw, "allsplits", beh, "every split offset of short frames")

    def bugswitch():
        # the model with a repaired defect switched back on must be rejected by its own monitor
        demo = {}
        for sw_name, base in (("BUG_NegLen", _configs("quick")[0][1]), ("BUG_ShortReuse", _configs("quick")[4][1])):
            consts = dict(base, BUG_NegLen="FALSE", BUG_ShortReuse="FALSE")
            consts[sw_name] = "TRUE"
            cfg = vlib.cfg_with(sw, "WsDecImpl_strict.cfg", consts, add=["\\* bug switch " + sw_name])
            r = vlib.tlc(sw, "WsDecImpl", cfg, workers=1, timeout=600)
            demo[sw_name] = "NotBad violated" if r.violated == "NotBad" else "NOT detected (%s)" % (r.violated or r.error or "ok")
        ck.cov["bug_switch_demo"] = demo

    nrand = 1 if ck.tier == "quick" else 8
    with ThreadPoolExecutor(max_workers=3 if ck.tier == "quick" else 4) as ex:
        futs = [ex.submit(cover, c) for c in _configs(ck.tier)] + [ex.submit(rand, k) for k in range(nrand)]
        futs.append(ex.submit(allsplits))
        futs.append(ex.submit(bugswitch))
        for f in futs:
            f.result()
    oc = ck.cov.get("observed_counts", {})
    if not (oc.get('"kind":"frame"') and oc.get('"kind":"needmore"') and oc.get('"kind":"toobig"')):
        raise vlib.Inconclusive("vacuous run: the recorded traces lack one of the decode outcomes %r" % (oc,))
    ck.cov["tlc_runs"].sort(key=lambda r: r["name"])
    ck.cov["model_findings"] = sorted(model_findings)
    ck.cov["exhaustive"] = True
    ck.assumptions += [
        "payload bytes of the length classes >= 126 are opaque in the trace; the driver compares the yielded frame with its own copy of the stream (fok) and the un-masked payload with the submitted one (pok)",
        "64-bit lengths are classes in TLA+: exact below 2^31, '2^31..2^63-1' and 'top bit set' above",
        "bytes reach the decoder's buffer through ByteBuffer.Write (the buffer grows as needed); capacity growth is measured across the Decode call only",
        "maximum payload sizes exercised: 70000 and 100 in the table, {0,1,5,20,125,126,300,65535,65536,70000} for random strings",
    ]


def replay(ck, path):
    vlib.build_harness()
    sw = vlib.prep_spec("WsFrame", ck.work)
    obj = json.load(open(path))
    beh = os.path.join(ck.work, "replay.jsonl")
    with open(beh, "w") as f:
        f.write(json.dumps(obj["behaviour"]) + "\n")
    _validate(ck, sw, "replay", beh, "replay of " + os.path.basename(path))
