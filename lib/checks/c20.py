"""C20 SlotSequencer / SlotOffsetter: exhaustive SlotSeqImpl (ByteBuffer save area +
Fenwick array + sorted slot list + limits + reset on empty + the caller's workflow)
composed with the SlotSeqMon monitor; transition cover + random long histories
replayed into the real objects; recorded traces validated by TLC."""
import json, os
import vlib

HEAP = {"JAVA_TOOL_OPTIONS": "-Xmx6g"}     # many JVMs run side by side; the default cap is 1/4 of the RAM each

LEVEL = "model_checking"

MANIFEST = dict(
   engine="tlc-slotseq", path="spec/SlotSeq",
   technique="TLA+ monitor + implementation model checked exhaustively by TLC; TLC-generated transition cover and random histories replayed into the real SlotSequencer/SlotOffsetter on a real ByteBuffer; recorded traces validated by TLC against the monitor",
   text="Exhaustive TLC check of SlotSeqImpl (save area of the ByteBuffer as tokens, the Fenwick array with the bit arithmetic of util/fenwick_tree.go, the sorted slot list with its insertion, byte and slot limits, offsetter reset when the sequencer empties, and a caller following the documented workflow Write-Commit-Save-Push ... Pop-SavedSlot-Discard, discarding the just-saved tail after a refused Push, with readable and uncommitted bytes coming and going behind the save area) composed with the monitor SlotSeqMon (save area = concatenation of parked packets in save order, map sequence number -> packet), for all interleavings of pushes (any order, duplicates, all sizes of the bound) and pops (present and absent numbers) of unbounded length, in sequencers that drain and that never do, within and beyond both limits; the same for a bare SlotOffsetter (Add/Offset) with and without reset. Every transition of the state graph is replayed on the real objects and the recorded trace - result of every Push/Pop, SavedSlot(slot) before Discard, Saved()/Data()/write area, Bytes(), Size() after every call - is validated by TLC against the monitor; in addition a two-round caller (park 4 packets of every size combination, pop any of them in every order, park one or two more, pop everything) is enumerated with the history in the VIEW, so that every continuation is generated behind every distinct pop order (thorough: every order in both rounds, and 5 packets); seeded random long histories with more sequence numbers and larger limits are added, also at 50 bytes per token. Verdicts come only from recorded real-code traces.",
   note="Trusted: TLC, the Go replay driver (block generator/projection), JSON trace I/O. A Push that fails with an error while both limits have room (virtual index space of the offsetter exhausted in a sequencer that never drains) is accepted by the monitor - the statement only demands that limits are reported as errors - and counted in the evidence (outcomes.push_error_within_both_limits). PopRange is unexported and unused; not covered.",
   design_ref="5/C20")

BOUNDS = {   # name -> constants
    "seq-s": dict(Mode='"seq"', Seqs="{1, 2, 3}", Sizes="{1, 2}", MaxSlots=2, MaxBytes=4, LiveSizes="{1}", ResetOnEmpty="TRUE"),
    "seq-b": dict(Mode='"seq"', Seqs="{1, 2, 3}", Sizes="{1, 2}", MaxSlots=3, MaxBytes=3, LiveSizes="{1}", ResetOnEmpty="TRUE"),
    "off-s": dict(Mode='"off"', Seqs="{1, 2, 3}", Sizes="{1, 2}", MaxSlots=3, MaxBytes=4, LiveSizes="{1}", ResetOnEmpty="TRUE"),
    "offn-s": dict(Mode='"off"', Seqs="{1, 2, 3}", Sizes="{1, 2}", MaxSlots=3, MaxBytes=5, LiveSizes="{1}", ResetOnEmpty="FALSE"),
    "off-q": dict(Mode='"off"', Seqs="{1, 2}", Sizes="{1, 2}", MaxSlots=3, MaxBytes=5, LiveSizes="{1}", ResetOnEmpty="TRUE"),
    "offn-q": dict(Mode='"off"', Seqs="{1, 2}", Sizes="{1, 2}", MaxSlots=3, MaxBytes=5, LiveSizes="{1}", ResetOnEmpty="FALSE"),
    "seq-m": dict(Mode='"seq"', Seqs="{1, 2, 3, 4}", Sizes="{1, 2}", MaxSlots=2, MaxBytes=5, LiveSizes="{1}", ResetOnEmpty="TRUE"),
    "seq-d": dict(Mode='"seq"', Seqs="{1, 2, 3, 4}", Sizes="{1, 2}", MaxSlots=3, MaxBytes=6, LiveSizes="{1, 2}", ResetOnEmpty="TRUE"),
    "seq-r": dict(Mode='"seq"', Seqs="{1, 2, 3, 4, 5, 6}", Sizes="{1, 2, 3}", MaxSlots=4, MaxBytes=9, LiveSizes="{1, 2}", ResetOnEmpty="TRUE"),
    "seq-r3": dict(Mode='"seq"', Seqs="{1, 2, 3, 4, 5, 6}", Sizes="{1, 2, 3}", MaxSlots=3, MaxBytes=16, LiveSizes="{1, 2}", ResetOnEmpty="TRUE"),
    "seq-r2": dict(Mode='"seq"', Seqs="{1, 2, 3, 4, 5, 6, 7, 8}", Sizes="{1, 2, 3}", MaxSlots=6, MaxBytes=12, LiveSizes="{1, 2}", ResetOnEmpty="TRUE"),
    "off-r": dict(Mode='"off"', Seqs="{1, 2, 3, 4, 5, 6}", Sizes="{1, 2, 3}", MaxSlots=6, MaxBytes=12, LiveSizes="{1, 2}", ResetOnEmpty="FALSE"),
}


# path-sensitive enumeration (PathSpec): park K packets, pop any of them in every order, park up to M more, pop everything.
# MaxBytes is large enough for neither the byte limit nor the offsetter's index space to interfere: the point is pop orders.
PATHS = {
    "path-4": dict(Mode='"seq"', Seqs="{1, 2, 3, 4, 5, 6}", Sizes="{1, 2}", MaxSlots=4, MaxBytes=16, LiveSizes="{1}", ResetOnEmpty="TRUE",
                   PathK=4, PathM=2, PathMod=7),
    "path-4n": dict(Mode='"seq"', Seqs="{1, 2, 3, 4, 5, 6}", Sizes="{1, 2}", MaxSlots=4, MaxBytes=13, LiveSizes="{1}", ResetOnEmpty="TRUE",
                    PathK=4, PathM=2, PathMod=7),       # Fenwick array whose size is not a power of two
    "path-5": dict(Mode='"seq"', Seqs="{1, 2, 3, 4, 5, 6, 7}", Sizes="{1, 2}", MaxSlots=5, MaxBytes=16, LiveSizes="{1}", ResetOnEmpty="TRUE",
                   PathK=5, PathM=2, PathMod=11),
}


def consts(bound, maxhist=0):
    c = dict(BOUNDS[bound])
    c.update(MaxHist=maxhist, BUG_ResetEarly="FALSE", BUG_NoVirtual="FALSE", PathK=0, PathM=0, PathMul=1, PathMod=7, PathAll="FALSE")
    return c


def _validate(ck, sw, name, beh, label, scale=1):
    trace = os.path.join(ck.work, "trace_%s.ndjson" % name)
    summ, _ = vlib.run_replay(["slotseq", "-in", beh, "-out", trace, "-mode", str(scale)])
    bads, r = vlib.validate_trace(sw, "SlotSeqMonTrace", "SlotSeqMonTrace.cfg", trace, parallel=ck.par, extra_env=HEAP)
    ck.cov["evaluations"] += summ["scenarios"]
    ck.cov["distinct_nontrivial"] += summ["nontrivial"]
    ck.cov["traces_validated_against_impl"] += summ["scenarios"] - len({b[0] for b in bads})
    ck.cov.setdefault("events_validated", 0)
    ck.cov["events_validated"] += summ["events"]
    oc = ck.cov.setdefault("outcomes", {})      # vacuity control: which branches the replayed histories reached
    for k, v in ((summ.get("notes") or {}).get("outcomes") or {}).items():
        oc[k] = oc.get(k, 0) + v
    if summ["drift"]:
        ck.cov["impl_drift"].append({"run": label, "steps_differing_from_model": summ["drift"],
                                     "first": summ.get("first_drift")})
    for sid, i, key in bads:
        if "/harness/" in key:
            # the driver issued something the monitor cannot interpret: tool trouble, never a verdict
            if len(ck.inconclusive) < 5:
                ck.inconclusive.append("%s at step %d of scenario %d (%s)" % (key, i, sid, label))
            continue
        ck.report_bad(key, "SlotSeq trace rejected at step %d of scenario %d (%s)" % (i, sid, label),
                      lambda sid=sid, i=i, key=key: {
                          "property": ck.pid, "component": "slotseq", "rule": key, "step": i, "scale": scale,
                          "behaviour": json.loads(vlib.nth_line(beh, sid)),
                          "trace": vlib.read_scenario(trace, sid)})
    if len(ck.cov["samples"]) < 2:
        sid = max(1, summ["scenarios"] // 2)
        ck.sample({"run": label, "behaviour": json.loads(vlib.nth_line(beh, sid)),
                   "trace_excerpt": vlib.read_scenario(trace, sid)[:6]})
    return bads


def run(ck):
    from concurrent.futures import ThreadPoolExecutor
    vlib.build_harness()
    sw = vlib.prep_spec("SlotSeq", ck.work)
    quick = ck.tier == "quick"
    ck.par = 6 if quick else 12
    ck.cov["rule"] = ("histories = every transition of the exhaustive SlotSeqImpl state graph (shortest path + edge) per bound and mode, "
                      "plus seeded random histories; non-trivial = a slot is retrieved at an index other than the one it was saved at "
                      "(an earlier out-of-order discard shifted it)")
    model_findings = set()

    def strict(bound):
        c = consts(bound)
        cfg = vlib.cfg_with(sw, "SlotSeqImpl_strict.cfg", c)
        r = vlib.tlc(sw, "SlotSeqImpl", cfg, env=HEAP, workers=8, timeout=2400)
        ck.add_tlc("SlotSeqImpl exhaustive (monitor clean, invariants)", r, c)
        if not r.ok:
            ck.cov["model_findings"].append("strict %s: %s" % (bound, r.violated or r.error))
            if not r.violated:
                raise vlib.Inconclusive("SlotSeqImpl %s: %s\n%s" % (bound, r.error, r.tail()))

    def cover(bound):
        c = consts(bound)
        cfg = vlib.cfg_with(sw, "SlotSeqImpl_mc.cfg", c)
        r = vlib.tlc(sw, "SlotSeqImpl", cfg, env=HEAP, workers=4, timeout=2400)
        if not r.ok:
            raise vlib.Inconclusive("SlotSeqImpl cover %s: %s\n%s" % (bound, r.violated or r.error, r.tail()))
        ck.add_tlc("SlotSeqImpl transition cover", r, c)
        for line in r.lines('<<"MODELBAD"'):
            model_findings.add(line.split('"')[3])
        name = "cover_" + bound
        beh = os.path.join(ck.work, name + ".jsonl")
        n = vlib.edges_to_file(r, beh)
        if n != r.generated - 1:
            raise vlib.Inconclusive("cover %s: %d edges extracted, %d transitions generated" % (bound, n, r.generated - 1))
        os.remove(r.outpath)
        _validate(ck, sw, name, beh, "transition cover, " + bound)

    def sim(k, bound, num, hist, scale=1):
        c = consts(bound, maxhist=hist)
        cfg = vlib.cfg_with(sw, "SlotSeqImpl_sim.cfg", c)
        r = vlib.tlc(sw, "SlotSeqImpl", cfg, env=HEAP, workers=1 if quick else 4, simulate=num, depth=3 * hist,
                     seed=ck.seed * 1000 + k, timeout=2700)
        if r.violated or r.error:
            raise vlib.Inconclusive("SlotSeqImpl simulation %s: %s\n%s" % (bound, r.violated or r.error, r.tail()))
        ck.add_tlc("SlotSeqImpl random simulation", r, c, exhaustive=False)
        name = "sim_%s_%d" % (bound, k)
        beh = os.path.join(ck.work, name + ".jsonl")
        n = vlib.edges_to_file(r, beh)
        if n == 0:
            raise vlib.Inconclusive("simulation produced no histories\n" + r.tail())
        os.remove(r.outpath)
        _validate(ck, sw, name, beh, "random histories, %s, %d steps, %d bytes per token" % (bound, hist, scale), scale)

    def paths(bound, mul, every_order, scale=1, sample=None):
        """all histories of the two-round caller (VIEW contains the history: no two pop orders are merged)"""
        c = dict(PATHS[bound])
        c.update(MaxHist=0, BUG_ResetEarly="FALSE", BUG_NoVirtual="FALSE", PathMul=mul, PathAll="TRUE" if every_order else "FALSE")
        cfg = vlib.cfg_with(sw, "SlotSeqImpl_path.cfg", c)
        r = vlib.tlc(sw, "SlotSeqImpl", cfg, env=HEAP, workers=4, timeout=2400)
        if not r.ok:
            raise vlib.Inconclusive("SlotSeqImpl paths %s: %s\n%s" % (bound, r.violated or r.error, r.tail()))
        ck.add_tlc("SlotSeqImpl every pop order (history in the VIEW), two rounds", r, c)
        name = "paths_%s_%d" % (bound, mul)
        beh = os.path.join(ck.work, name + ".jsonl")
        n = vlib.edges_to_file(r, beh)
        if n == 0:
            raise vlib.Inconclusive("paths %s: no histories\n%s" % (bound, r.tail()))
        os.remove(r.outpath)
        if sample:
            # stratified and reproducible: in lexicographic order the histories are grouped by sizes, then first-round pop
            # order, then what is parked afterwards; every k-th of them, offset by the seed, visits every group
            with open(beh) as f:
                lines = sorted(f)
            lines = lines[ck.seed % sample::sample]
            with open(beh, "w") as f:
                f.writelines(lines)
            n = len(lines)
        ck.cov.setdefault("pop_order_histories", 0)
        ck.cov["pop_order_histories"] += n
        _validate(ck, sw, name, beh, "every pop order, %s, numbers i*%d mod %d%s" % (
            bound, mul, c["PathMod"], ", every %d-th" % sample if sample else ""), scale)

    def late(ms):
        """Scripted, beyond the model's bounds: a slot capacity that is not an allocation size class of the container
        (11, 15, 19, 22, 100 entries of 24 bytes: the backing array is larger than asked for), filled in a shuffled
        arrival order; then late packets - numbers below the largest parked one - which must be refused while the
        sequencer is full, one pop, and the same again."""
        import random
        rnd = random.Random(ck.seed * 977 + 5)
        hs = []
        for m in ms:
            for rep in range(3):
                seqs = list(range(10, 10 + m))
                rnd.shuffle(seqs)
                h = [dict(ev="New", mode="seq", roe=1, maxslots=m, maxbytes=4 * m)]
                for q in seqs:
                    h += [dict(ev="Save", seq=q, v=0, n=1), dict(ev="Push")]
                for q in (3 + rep, 10 + m + 1, 2):      # late, in order, late: all refused
                    h += [dict(ev="Save", seq=q, v=0, n=1), dict(ev="Push"), dict(ev="DropTail")]
                h += [dict(ev="Pop", seq=10), dict(ev="Discard")]
                h += [dict(ev="Save", seq=4, v=0, n=1), dict(ev="Push")]                        # room for one
                h += [dict(ev="Save", seq=5, v=0, n=1), dict(ev="Push"), dict(ev="DropTail")]   # full again
                for q in [4] + list(range(11, 10 + m)):
                    h += [dict(ev="Pop", seq=q), dict(ev="Discard")]
                hs.append(h)
        beh = os.path.join(ck.work, "late.jsonl")
        with open(beh, "w") as f:
            for h in hs:
                f.write(json.dumps(h) + "\n")
        _validate(ck, sw, "late", beh, "scripted: late packets at a full sequencer, slot capacities %s" % (ms,))

    mul = (3, 5, 6, 2, 4)[ck.seed % 5]
    if quick:
        # seq-s: the slot limit binds; seq-b: the byte limit binds (and is not shadowed by the offsetter's index check)
        jobs = [(cover, ("seq-s",)), (cover, ("seq-b",)), (cover, ("off-q",)), (cover, ("offn-q",)),
                (sim, (1, "seq-r", 500, 80)), (sim, (2, "seq-r2", 300, 120, 50)), (sim, (3, "off-r", 300, 80)),
                (sim, (4, "seq-r3", 300, 80)),
                # every pop order of 4 parked packets (all sizes), then 1-2 more parked, then any stored number first:
                # numbers ascending in save order, and one seed-chosen other arrival order with a 13-entry Fenwick array
                (paths, ("path-4", 1, False)), (paths, ("path-4n", mul, False)), (late, ((11, 15, 22),))]
    else:
        jobs = [(strict, ("seq-d",)), (cover, ("seq-m",)), (cover, ("seq-b",)), (cover, ("off-s",)), (cover, ("offn-s",)),
                (sim, (1, "seq-r", 10000, 100)), (sim, (2, "seq-r2", 6000, 200, 50)), (sim, (3, "off-r", 6000, 100)),
                (sim, (4, "seq-r3", 6000, 100)), (sim, (5, "seq-d", 6000, 60, 7)),
                # every pop order in both rounds for 4 parked packets (ascending, descending at 7 bytes per token, seed-chosen
                # arrival order with a 13-entry Fenwick array); 5 parked packets: every first-round order, every third history
                (paths, ("path-4", 1, True)), (paths, ("path-4", 6, True, 7)), (paths, ("path-4n", mul, True)),
                (paths, ("path-5", 1 + ck.seed % 10, False, 1, 3)), (late, ((11, 12, 15, 16, 19, 22, 100, 1000),))]
    with ThreadPoolExecutor(max_workers=4) as ex:
        futs = [ex.submit(f, *a) for f, a in jobs]
        for f in futs:
            f.result()
    # vacuity control: the replayed histories must have reached every branch the statement talks about
    need = ["push_ok", "push_duplicate_refused", "push_error_byte_limit_only", "push_error_slot_limit_only",
            "pop_ok", "pop_absent", "pop_ok_at_shifted_index", "pop_ok_with_bytes_behind_save_area", "pop_ok_draining",
            "pop_ok_at_tail_not_draining", "pop_ok_in_front_of_parked_not_draining",
            "push_ok_after_tail_pop_in_front_of_earlier_middle_pop"]
    missing = [k for k in need if not ck.cov.get("outcomes", {}).get(k)]
    if missing:
        ck.inconclusive.append("replayed histories never reached: " + ", ".join(missing))
    ck.cov["tlc_runs"].sort(key=lambda r: (r["name"], str(r["constants"].get("Mode")), str(r["constants"].get("Seqs"))))
    ck.cov["model_findings"] = sorted(set(ck.cov["model_findings"]) | model_findings)
    ck.cov["exhaustive"] = True
    ck.assumptions += [
        "a packet is identified by (sequence number, variant) and its tokens are a function of both, so a re-pushed number can carry other bytes than the stored one",
        "the caller follows the documented workflow: Save and Push only with nothing behind the save area, Pop only after the previous popped slot was discarded, a refused Push is followed by Discard of the just-saved tail",
        "mode off: the caller keeps the slots returned by SlotOffsetter.Add and calls Offset exactly once per slot; with ResetOnEmpty it resets the offsetter when it holds no slot (what SlotSequencer does)",
        "a Push error while both limits have room is accepted (counted as outcomes.push_error_within_both_limits)"]


def replay(ck, path):
    vlib.build_harness()
    sw = vlib.prep_spec("SlotSeq", ck.work)
    ck.par = 1
    obj = json.load(open(path))
    beh = os.path.join(ck.work, "replay.jsonl")
    with open(beh, "w") as f:
        f.write(json.dumps(obj["behaviour"]) + "\n")
    _validate(ck, sw, "replay", beh, "replay of " + os.path.basename(path), obj.get("scale", 1))
