"""C19 CodecConn framing is independent of transport segmentation.

CodecConnImpl (codec.go + codec/frame/frame.go over the ByteBuffer operations
they use and a file.go-like transport) composed with the monitor CodecConnMon
is checked exhaustively by TLC; TLC-generated behaviours are replayed on the
real sonic.CodecConn[[]byte, []byte] with frame.NewCodec over a scripted
in-memory sonic.Stream and over real TCP conns with a raw peer; hostile
prefixes and random bytes are also fed to frame.Codec.Decode directly. The
recorded traces are validated by TLC against the monitor."""
import json, os, threading
from concurrent.futures import ThreadPoolExecutor
import vlib
from checks.c02 import _edges, _chunks

LEVEL = "model_checking"

# the machine is shared: cap every JVM (the default heap is a quarter of the RAM per process)
JENV = {"JAVA_TOOL_OPTIONS": "-Xmx1500m"}
JENV_BIG = {"JAVA_TOOL_OPTIONS": "-Xmx4g"}

MANIFEST = dict(
    engine="tlc-codecconn", path="spec/CodecConn",
    technique="TLA+ monitor + implementation model checked exhaustively by TLC; TLC-generated transition covers and random histories replayed on the real CodecConn over a scripted in-memory stream and over real loopback TCP conns; hostile/random bytes fed to the frame decoder; recorded traces validated by TLC against the monitor",
    text="Exhaustive TLC check of CodecConnImpl (frame.Codec Encode/Decode with decodeReset/decodeBytes, the PrepareRead/Commit/Consume/Claim arithmetic of the source and destination buffers, the ReadNext/AsyncReadNext loops on ErrNeedMore, WriteNext/AsyncWriteNext over a transport that takes what fits and reports would-block) composed with the property monitor: up to 3 announced entries of 0..3 tokens including hostile prefixes, every split of the byte stream at every offset including inside the 4-byte prefix, would-block in the middle of an item in both directions, blocking and asynchronous APIs, EOF. Every transition of the generation configurations (a seeded sample of the larger ones) plus random long histories are replayed on the real sonic.CodecConn[[]byte,[]byte] with frame.NewCodec: over a scripted in-memory sonic.Stream (exact control of every split and would-block, payload tokens scaled to 1, 300 and 5000 bytes so that the 512-byte initial buffers are outgrown, split points jittered inside tokens), over TCP conns from sonic.Dial and sonic.Listen/accept with a raw peer (segments delivered exactly, checked with FIONREAD), and with scaled payloads over small kernel buffers (kernel-chosen partial writes). Declared lengths above the limit (limit+1, 2^31-1, 2^31, 2^32-1, random) are sent through the transports and, with well-formed frames and random garbage in random pieces, fed to Decode directly; panics are recovered and logged. TLC validates every recorded trace against the monitor; verdicts come only from recorded real-code traces.",
    note="Trusted: TLC, the Go driver (in-memory stream, raw peer, generators, the independent 4-byte-prefix reading used to classify decoder inputs), JSON trace I/O. Payload sizes are exercised up to 15 000 bytes per item in the quick tier; an item of exactly the 1 GiB limit is read once in the thorough tier when memory allows. The decoder fuzzing is sampling.",
    design_ref="5/C19")

RETRY_KEYS = {"C19/left-behind"}   # at End this rests on a time budget when a real socket is involved

BASE = {"MaxItems": 2, "MaxLen": 2, "MaxW": 0, "TxCap": 3, "Hostile": "TRUE", "SampleK": 1, "MaxHist": 0,
        "BUG_NoCommit": "FALSE"}


def C(**kw):
    d = dict(BASE)
    d.update(kw)
    return d


def _replay_validate(ck, sw, beh, mode, label, tag, retry=True):
    trace = "%s.%s.ndjson" % (beh or os.path.join(ck.work, "direct"), tag)
    args = ["codecconn", "-out", trace, "-seed", str(ck.seed), "-mode", mode]
    if beh:
        args += ["-in", beh]
    summ, _ = vlib.run_replay(args, timeout=1500)
    bads, _ = vlib.validate_trace(sw, "CodecConnMonTrace", "CodecConnMonTrace.cfg", trace, parallel=2, extra_env=JENV)
    rejected = set()
    for sid, i, key in bads:
        if key in RETRY_KEYS and retry and key not in ck.confirmed and beh and "kind=mem" not in mode:
            one = "%s.%s.retry%d" % (beh, tag, sid)
            with open(one, "w") as f:
                f.write(vlib.nth_line(beh, sid) + "\n")
            again = 0
            for _k in range(3):
                t2 = one + ".ndjson"
                vlib.run_replay(["codecconn", "-in", one, "-out", t2, "-seed", str(ck.seed), "-mode", mode])
                b2, _ = vlib.validate_trace(sw, "CodecConnMonTrace", "CodecConnMonTrace.cfg", t2, parallel=1, extra_env=JENV)
                again += 1 if any(k == key for _s, _i, k in b2) else 0
            if again == 3:
                ck.confirmed.add(key)   # re-executed once per rule, not once per scenario
            if again < 3:
                ck.inconclusive.append("%s seen once in scenario %d (%s) but only %d/3 re-executions" % (key, sid, label, again))
                continue
        rejected.add(sid)
        with ck.lock:
            ck.report_bad(key, "CodecConn trace rejected at step %d of scenario %d (%s, %s)" % (i, sid, label, mode),
                          lambda sid=sid, i=i, key=key: {
                              "property": ck.pid, "component": "codecconn", "rule": key, "step": i, "mode": mode,
                              "behaviour": json.loads(vlib.nth_line(beh, sid)) if beh else None,
                              "trace": vlib.read_scenario(trace, sid)})
    with ck.lock:
        ck.cov["evaluations"] += summ["scenarios"]
        ck.cov["distinct_nontrivial"] += summ["nontrivial"]
        ck.cov["traces_validated_against_impl"] += summ["scenarios"] - len(rejected)
        ck.cov.setdefault("replays", []).append({"run": label, "mode": mode, "scenarios": summ["scenarios"],
                                                 "events": summ["events"], "nontrivial": summ["nontrivial"],
                                                 "drift": summ["drift"], "rejected": len(rejected),
                                                 "notes": summ.get("notes")})
        if summ["drift"]:
            ck.cov["impl_drift"].append({"run": label, "mode": mode, "scenarios_differing_from_model": summ["drift"],
                                         "first": summ.get("first_drift")})
        if beh and len(ck.cov["samples"]) < 4 and summ["scenarios"] > 3:
            sid = max(1, summ["scenarios"] - 2)
            ck.sample({"run": label, "mode": mode, "behaviour": json.loads(vlib.nth_line(beh, sid)),
                       "trace_excerpt": vlib.read_scenario(trace, sid)[:8]})
        elif not beh and len(ck.cov["samples"]) < 5:
            ck.sample({"run": label, "mode": mode, "trace_excerpt": vlib.read_scenario(trace, 3)[:8]})
    os.remove(trace)


LIMIT_BEHAVIOUR = [  # an item of exactly the limit (1 GiB): prefix split, would-block in mid item, both APIs
    {"ev": "Reset", "n": 3}, {"ev": "PItem", "kind": "item", "id": 1, "len": 1, "size": 5},
    {"ev": "PSend", "n": 3}, {"ev": "Call", "api": "ReadNext"}, {"ev": "Ret", "api": "ReadNext", "err": "wouldblock"},
    {"ev": "PSend", "n": 1}, {"ev": "Call", "api": "AsyncReadNext"},
    {"ev": "PSend", "n": 1}, {"ev": "Poll"}, {"ev": "Ret", "api": "AsyncReadNext", "err": "nil", "id": 1, "len": 1},
    {"ev": "Call", "api": "ReadNext"}, {"ev": "Ret", "api": "ReadNext", "err": "wouldblock"}]


def run(ck):
    ck.lock = threading.Lock()
    ck.confirmed = set()
    vlib.build_harness()
    sw = vlib.prep_spec("CodecConn", ck.work)
    quick = ck.tier == "quick"
    ck.cov["rule"] = ("behaviours = transitions of the exhaustive CodecConnImpl state graphs (shortest path + edge; seeded sample of "
                      "the larger ones) + seeded random long histories + seeded decoder inputs; non-trivial = an item returned "
                      "after its bytes arrived in at least two pieces, a write completed after a would-block, or a decoder "
                      "input with an over-limit prefix / a frame decoded after piecewise feeding")
    model_findings = set()
    pool = ThreadPoolExecutor(max_workers=5 if quick else 10)
    rpool = ThreadPoolExecutor(max_workers=6 if quick else 14)
    futs = []

    def design(name, consts, workers):
        cfg = vlib.cfg_with(sw, "CodecConnImpl_mc.cfg", consts)
        r = vlib.tlc(sw, "CodecConnImpl", cfg, workers=workers, timeout=1500, env=JENV_BIG)
        with ck.lock:
            ck.add_tlc("CodecConnImpl exhaustive: " + name, r, consts)
        if r.violated == "NotBad":
            with ck.lock:
                model_findings.add("NotBad violated in " + name)
        elif not r.ok:
            raise vlib.Inconclusive("CodecConnImpl %s: %s\n%s" % (name, r.violated or r.error, r.tail()))

    futs.append(pool.submit(design, "read direction", C(MaxItems=3, MaxLen=2 if quick else 3, MaxW=0), 2))
    futs.append(pool.submit(design, "write direction", C(MaxItems=0, MaxW=2 if quick else 3, MaxLen=3, TxCap=3 if quick else 5), 2))
    futs.append(pool.submit(design, "both directions", C(MaxItems=1, MaxW=1, MaxLen=1) if quick else C(MaxItems=2, MaxW=1, MaxLen=1), 2 if quick else 6))

    def bugdemo():
        consts = C(MaxItems=0, MaxW=1, MaxLen=1, BUG_NoCommit="TRUE")
        cfg = vlib.cfg_with(sw, "CodecConnImpl_mc.cfg", consts)
        r = vlib.tlc(sw, "CodecConnImpl", cfg, workers=1, timeout=300, env=JENV)
        with ck.lock:
            ck.cov["bug_switches"] = {"BUG_NoCommit": "NotBad violated" if r.violated == "NotBad" else "NOT detected"}
    futs.append(pool.submit(bugdemo))

    def gen(kind, name, consts, modes, k=1, num=0, depth=0, per=4000):
        if kind == "cover":
            consts = dict(consts, SampleK=k)
            cfg = vlib.cfg_with(sw, "CodecConnImpl_cover.cfg", consts)
            r = vlib.tlc(sw, "CodecConnImpl", cfg, workers=1, timeout=1500, seed=ck.seed, env=JENV)
            if not r.ok:
                raise vlib.Inconclusive("CodecConnImpl cover %s: %s\n%s" % (name, r.violated or r.error, r.tail()))
        else:
            cfg = vlib.cfg_with(sw, "CodecConnImpl_sim.cfg", consts)
            r = vlib.tlc(sw, "CodecConnImpl", cfg, workers=1, simulate=num, depth=depth, seed=ck.seed * 1000 + len(name), timeout=1500, env=JENV)
            if r.violated or (r.error and "timeout" in r.error):
                raise vlib.Inconclusive("CodecConnImpl simulation %s: %s\n%s" % (name, r.violated or r.error, r.tail()))
        with ck.lock:
            ck.add_tlc("CodecConnImpl %s: %s" % ("transition cover" if kind == "cover" else "random simulation", name), r, consts,
                       exhaustive=kind == "cover")
            for line in r.lines('<<"MODELBAD"'):
                model_findings.add(line.split('"')[3])
        beh = os.path.join(ck.work, "%s_%s.jsonl" % (kind, name.replace(" ", "_")))
        n = _edges(r, beh)
        os.remove(r.outpath)
        if n == 0:
            raise vlib.Inconclusive("%s %s produced no behaviours" % (kind, name))
        with ck.lock:
            ck.cov.setdefault("generation", []).append({"run": name, "kind": kind, "transitions": r.generated, "replayed": n})
        fs = []
        for ch in _chunks(beh, per):
            for j, mode in enumerate(modes):
                fs.append(rpool.submit(_replay_validate, ck, sw, ch, mode, "%s %s" % (kind, name), "m%d" % j))
        return fs

    mem = ["kind=mem,scale=1", "kind=mem,scale=300", "kind=mem,scale=5000"]
    conn = ["kind=dial,scale=1,exact=1", "kind=acc,scale=1,exact=1", "kind=dial,scale=700,exact=1"]
    gens = []
    # read direction: the same behaviours on the scripted stream and on real conns
    gens.append(pool.submit(gen, "cover", "reads", C(MaxItems=2, MaxLen=2, MaxW=0), mem + conn, 3 if quick else 1))
    # payloads whose size is an allocation size class or a few bytes below one (1..3 tokens of 2048, 2047, 4096,
    # 65535, 65536 bytes): buffer growth that is a few bytes short of what the frame needs only shows there; and of
    # 0.7 / 1.1 MB, so that the source buffer is beyond a megabyte when the next length prefix arrives in pieces
    classes = ["kind=mem,scale=%d" % n for n in ((2048, 2047, 4096, 65535, 700000) if quick else (2048, 2047, 2046, 4096, 4095, 8192, 65536, 65535, 65534, 700000, 1100000))]
    gens.append(pool.submit(gen, "cover", "reads at size classes", C(MaxItems=2, MaxLen=3 if not quick else 2, MaxW=0, Hostile="FALSE"),
                            classes, 12 if quick else 4))
    gens.append(pool.submit(gen, "cover", "writes at size classes", C(MaxItems=0, MaxW=2, MaxLen=2, TxCap=3), classes[:2], 12 if quick else 4))
    if not quick:
        gens.append(pool.submit(gen, "cover", "reads 3 entries", C(MaxItems=3, MaxLen=2, MaxW=0), mem[:2] + conn[:2], 4))
    # write direction: would-block in mid item needs the scripted stream ...
    gens.append(pool.submit(gen, "cover", "writes", C(MaxItems=0, MaxW=2, MaxLen=2, TxCap=3), mem, 3 if quick else 1))
    # ... small writes on real conns never block
    gens.append(pool.submit(gen, "cover", "writes unblocked", C(MaxItems=0, MaxW=2, MaxLen=2, TxCap=99), conn, 1))
    gens.append(pool.submit(gen, "cover", "both", C(MaxItems=1, MaxW=1, MaxLen=1), mem[:2], 6 if quick else 2))
    gens.append(pool.submit(gen, "cover", "both unblocked", C(MaxItems=1, MaxW=1, MaxLen=1, TxCap=99), conn[:2], 6 if quick else 2))
    ns = 300 if quick else 20000
    gens.append(pool.submit(gen, "sim", "full", C(MaxItems=3, MaxLen=3, MaxW=3, TxCap=4, MaxHist=32), mem, 1, ns, 60))
    gens.append(pool.submit(gen, "sim", "full unblocked", C(MaxItems=3, MaxLen=3, MaxW=3, TxCap=99, MaxHist=32), conn[:2], 1, ns, 60))
    # scaled payloads over small kernel buffers: kernel-chosen partial writes, would-block in mid item on real conns
    sc = "scale=60000,exact=0,kbuf=16384"
    gens.append(pool.submit(gen, "sim", "scaled", C(MaxItems=2, MaxLen=3, MaxW=3, TxCap=3, Hostile="FALSE", MaxHist=30),
                            ["kind=dial," + sc, "kind=acc," + sc], 1, 24 if quick else 300, 50))
    # decoder fed directly
    futs.append(rpool.submit(_replay_validate, ck, sw, None, "kind=dec,count=%d" % (3000 if quick else 100000),
                             "decoder fed directly", "dec"))

    if not quick:
        def limit_item():
            avail = 0
            for line in open("/proc/meminfo"):
                if line.startswith("MemAvailable:"):
                    avail = int(line.split()[1]) // 1024
            if avail < 10000:
                with ck.lock:
                    ck.cov["limit_size_item"] = "skipped: only %d MiB available" % avail
                return
            beh = os.path.join(ck.work, "limit.jsonl")
            full = [dict({"api": "", "kind": "", "id": 0, "len": 0, "size": 0, "n": 0, "lo": 0, "ok": 0, "err": "", "dstlen": 0,
                          "capgrew": 0, "exact": 1, "have": 0, "ctx": "top"}, **e) for e in LIMIT_BEHAVIOUR]
            with open(beh, "w") as f:
                f.write(json.dumps(full) + "\n")
            _replay_validate(ck, sw, beh, "kind=mem,scale=%d" % (1 << 30), "item of exactly the limit", "lim")
            with ck.lock:
                ck.cov["limit_size_item"] = "read through ReadNext/AsyncReadNext over the scripted stream"
        futs.append(rpool.submit(limit_item))

    rf = []
    for g in gens:
        rf += g.result()
    for f in futs + rf:
        f.result()
    pool.shutdown()
    rpool.shutdown()
    ck.cov["tlc_runs"].sort(key=lambda r: r["name"])
    ck.cov["model_findings"] = sorted(model_findings)
    ck.cov["exhaustive"] = True
    ck.assumptions += [
        "one read call and one write call in flight at a time; asynchronous callbacks do not start operations themselves",
        "the scripted in-memory stream follows file.go's conventions (ErrWouldBlock, inline completion, read handler before write handler)",
        "buffer capacity is not part of the model: at scale 1 the 512-byte buffers never fill; scaled replays follow the same scripts and are judged by the monitor only",
        "hostile prefixes are followed by one junk byte; after one the decoder is expected to keep reporting the error"]


def replay(ck, path):
    ck.lock = threading.Lock()
    ck.confirmed = set()
    vlib.build_harness()
    sw = vlib.prep_spec("CodecConn", ck.work)
    obj = json.load(open(path))
    if not obj.get("behaviour"):
        _replay_validate(ck, sw, None, obj.get("mode", "kind=dec,count=3000"), "replay of " + os.path.basename(path), "r")
        return
    beh = os.path.join(ck.work, "replay.jsonl")
    with open(beh, "w") as f:
        f.write(json.dumps(obj["behaviour"]) + "\n")
    _replay_validate(ck, sw, beh, obj.get("mode", "kind=mem,scale=1"), "replay of " + os.path.basename(path), "r")
