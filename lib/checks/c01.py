"""C01 exactly-once completion of every asynchronous operation."""
import reactor

LEVEL = "model_checking"
FOCUS = {"C01"}

MANIFEST = dict(
    engine="tlc-reactor", path="spec/Reactor",
    engine_text="TLA+ specs ReactorMon/ReactorImpl/ReactorMonTrace + Go driver harness/internal/rx on real descriptors",
    technique="TLA+ model of the event loop (epoll ready list, one-shot interest, batch dispatch, inline/deferred completion, Cancel/Close, handler behaviours) checked exhaustively by TLC against a property monitor; TLC-generated scenarios replayed on real sockets/FIFOs/listeners/UDP sockets/timerfds; recorded traces validated by TLC against the monitor",
    text="Narrow exhaustive configurations of ReactorImpl (2 objects per kind pair, bounded commands, handler budget) composed with the monitor ReactorMon; every command-issuing transition of each state graph (sampled in the quick tier) is replayed on one real IO context over real descriptors with the poll batch composition produced by making descriptors ready in the generated order; every start/return/callback/cancel/close/poll event is recorded and the trace validated by TLC against the monitor rules C01/* (double completion, callback after Close, Cancel not completing with a cancellation error, never completed although completable).",
    note="Trusted: TLC, the Go driver (callback closures, nesting counter, poll(2) readiness barriers, drain phase), kernel behaviour as observed. 'Never completed' is a bounded-time observation, re-run 3 times with growing margins before it counts. kqueue/BSD paths are out of reach here.",
    design_ref="5/C01")


def configs(tier):
    q = tier == "quick"
    n = 2000 if q else 40000
    mc = 5 if q else 6
    return [
        dict(name="sock+pipeR read/cancel/close", sample=n,
             over=dict(Kinds=["sock", "pipeR"], Cmds={"read", "cancel", "close"}, Envs={"send", "peerclose"}, MaxCmds=mc)),
        dict(name="sock read+write/cancel/close, reset, full buffers", sample=n,
             over=dict(Kinds=["sock"], Cmds={"read", "write", "cancel", "close"},
                       Envs={"send", "peerclose", "reset", "fillw", "drainw"}, MaxOps=4, MaxCmds=mc + 1)),
        dict(name="pipeW+pipeR write/read/cancel/close", sample=n,
             over=dict(Kinds=["pipeW", "pipeR"], Cmds={"read", "write", "cancel", "close"},
                       Envs={"send", "peerclose", "fillw", "drainw"}, MaxCmds=mc)),
        dict(name="listener+packet accept/readfrom/writeto/close", sample=n,
             over=dict(Kinds=["lst", "pkt"], Cmds={"read", "write", "close"}, Envs={"send"}, MaxCmds=mc, MaxData=2)),
        dict(name="two socks in one batch, handlers act on the other", sample=n,
             over=dict(Kinds=["sock", "sock"], Cmds={"read", "cancel", "close"}, Envs={"send", "reset"},
                       MaxCmds=mc, HBudget=1 if q else 2)),
        dict(name="AsyncAdapter (always deferred) + sock: read/write/cancel/close, reset", sample=n,
             over=dict(Kinds=["adp", "sock"], Cmds={"read", "write", "cancel", "close"},
                       Envs={"send", "peerclose", "reset"}, MaxOps=3, MaxCmds=mc)),
        dict(name="sock + timer + post in one batch", sample=n,
             over=dict(Kinds=["sock"], NT=1, MaxTick=2, MaxPosts=1, Cmds={"read", "cancel", "close", "tonce", "tcancel", "post"},
                       Envs={"send", "tick"}, MaxCmds=mc)),
        dict(name="descriptor replaced underneath a conn (every later epoll_ctl fails), then cancel / close / cancel again", sample=n,
             over=dict(Kinds=["sock"], Cmds={"read", "write", "cancel", "close"}, Envs={"send", "fillw", "yank"},
                       MaxOps=3, MaxCmds=mc + 1)),
        dict(name="reconnect: a handler closes its conn and opens the successor (which gets the freed descriptor number)", sample=n,
             over=dict(Kinds=["sock", "sock"], Late={2}, Cmds={"read", "close", "open"}, Envs={"send", "peerclose"},
                       MaxOps=3, MaxCmds=mc + 2, HBudget=3)),
    ] + ([] if q else [
        dict(name="reconnect over FIFOs and a conn", sample=n,
             over=dict(Kinds=["pipeR", "pipeR", "sock"], Late={2}, Cmds={"read", "cancel", "close", "open"},
                       Envs={"send", "peerclose"}, MaxOps=3, MaxCmds=mc + 1, HBudget=3)),
        dict(name="random long scenarios, 3 objects", sim=3000,
             over=dict(Kinds=["sock", "pipeR", "sock"], NT=1, MaxTick=4, MaxPosts=2, MaxOps=12, MaxCmds=24, HBudget=2, MaxData=2,
                       Cmds={"read", "write", "cancel", "close", "tonce", "tcancel", "post"},
                       Envs={"send", "peerclose", "reset", "fillw", "drainw", "tick"})),
    ])


def run(ck):
    ck.cov["rule"] = ("scenario = history of a command-issuing transition of an exhaustive ReactorImpl state graph "
                      "(shortest path + edge; seeded sample of the cover in the quick tier) completed by the driver's drain "
                      "phase; non-trivial = a completion callback ran nested inside another callback")
    reactor.run_configs(ck, configs(ck.tier), FOCUS)
    ck.cov["exhaustive"] = False
    ck.assumptions += ["one operation per direction and object at a time (the reactor record holds one)",
                       "the kernel delivers ready descriptors in the order they became ready (observed; another order only changes which generated interleaving is exercised)"]


def replay(ck, path):
    reactor.replay_file(ck, path, FOCUS)
