"""C01 exactly-once completion of every asynchronous operation."""
import reactor

LEVEL = "model_checking"
FOCUS = {"C01"}

MANIFEST = dict(
    engine="tlc-reactor", path="spec/Reactor",
    engine_text="TLA+ specs ReactorMon/ReactorImpl/ReactorMonTrace + Go driver harness/internal/rx on real descriptors",
    technique="TLA+ model of the event loop (epoll ready list, one-shot interest, batch dispatch, inline/deferred completion, Cancel/Close, handler behaviours) checked exhaustively by TLC against a property monitor; TLC-generated scenarios replayed on real sockets/FIFOs/listeners/UDP sockets/timerfds; recorded traces validated by TLC against the monitor",
    text="Narrow exhaustive configurations of ReactorImpl (2 objects per kind pair, bounded commands, handler budget) composed with the monitor ReactorMon; every command-issuing transition of each state graph (sampled in the quick tier) is replayed on one real IO context over real descriptors with the poll batch composition produced by making descriptors ready in the generated order; every start/return/callback/cancel/close/poll event is recorded and the trace validated by TLC against the monitor rules C01/* (double completion, callback after Close, Cancel not completing with a cancellation error, never completed although completable).",
    note="Trusted: TLC, the Go driver (callback closures, nesting counter, poll(2) readiness barriers, drain phase), kernel behaviour as observed. 'Never completed' is a bounded-time observation, re-run 3 times with growing margins before it counts. kqueue/BSD paths are out of reach here.",
    design_ref="5/C01")


def configs(tier):
    q = tier == "quick"
    n = 2000 if q else 40000
    mc = 5 if q else 6
    return [
        dict(name="sock+pipeR read/cancel/close", sample=n,
             over=dict(Kinds=["sock", "pipeR"], Cmds={"read", "cancel", "close"}, Envs={"send", "peerclose"}, MaxCmds=mc)),
        dict(name="sock read+write/cancel/close, reset, full buffers", sample=n,
             over=dict(Kinds=["sock"], Cmds={"read", "write", "cancel", "close"},
                       Envs={"send", "peerclose", "reset", "fillw", "drainw"}, MaxOps=4, MaxCmds=mc + 1)),
        dict(name="pipeW+pipeR write/read/cancel/close", sample=n,
             over=dict(Kinds=["pipeW", "pipeR"], Cmds={"read", "write", "cancel", "close"},
                       Envs={"send", "peerclose", "fillw", "drainw"}, MaxCmds=mc)),
        dict(name="listener+packet accept/readfrom/writeto/close", sample=n,
             over=dict(Kinds=["lst", "pkt"], Cmds={"read", "write", "close"}, Envs={"send"}, MaxCmds=mc, MaxData=2)),
        dict(name="two socks in one batch, handlers act on the other", sample=n,
             over=dict(Kinds=["sock", "sock"], Cmds={"read", "cancel", "close"}, Envs={"send", "reset"},
                       MaxCmds=mc, HBudget=1 if q else 2)),
        dict(name="AsyncAdapter (always deferred) + sock: read/write/cancel/close, reset", sample=n,
             over=dict(Kinds=["adp", "sock"], Cmds={"read", "write", "cancel", "close"},
                       Envs={"send", "peerclose", "reset"}, MaxOps=3, MaxCmds=mc)),
        dict(name="sock + timer + post in one batch", sample=n,
             over=dict(Kinds=["sock"], NT=1, MaxTick=2, MaxPosts=1, Cmds={"read", "cancel", "close", "tonce", "tcancel", "post"},
                       Envs={"send", "tick"}, MaxCmds=mc)),
        dict(name="descriptor replaced underneath a conn (every later epoll_ctl fails), then cancel / close / cancel again", sample=n,
             over=dict(Kinds=["sock"], Cmds={"read", "write", "cancel", "close"}, Envs={"send", "fillw", "yank"},
                       MaxOps=3, MaxCmds=mc + 1)),
        dict(name="reconnect: a handler closes its conn and opens the successor (which gets the freed descriptor number)", sample=n,
             over=dict(Kinds=["sock", "sock"], Late={2}, Cmds={"read", "close", "open"}, Envs={"send", "peerclose"},
                       MaxOps=3, MaxCmds=mc + 2, HBudget=3)),
    ] + ([] if q else [
        dict(name="reconnect over FIFOs and a conn", sample=n,
             over=dict(Kinds=["pipeR", "pipeR", "sock"], Late={2}, Cmds={"read", "cancel", "close", "open"},
                       Envs={"send", "peerclose"}, MaxOps=3, MaxCmds=mc + 1, HBudget=3)),
        dict(name="random long scenarios, 3 objects", sim=3000,
             over=dict(Kinds=["sock", "pipeR", "sock"], NT=1, MaxTick=4, MaxPosts=2, MaxOps=12, MaxCmds=24, HBudget=2, MaxData=2,
                       Cmds={"read", "write", "cancel", "close", "tonce", "tcancel", "post"},
                       Envs={"send", "peerclose", "reset", "fillw", "drainw", "tick"})),
    ])


def shared_listener_scenarios():
    """Scripted: a listener with a deferred accept is reported readable in the same poll batch as another object
    whose handler runs first; in that handler someone who shares the listening socket takes the queued connection
    (a raw accept on the descriptor). The accept handler then finds nothing: the operation still has to complete
    exactly once (as the code stands: with the would-block error) - or stay armed and complete with the next
    connection; it may not vanish."""
    from reactor import E
    hs = []
    for first, api in (("sock", "read"), ("pipeR", "read"), ("pkt", "readfrom")):
        for again in (0, 1, 2):
            h = [E("Reset", kinds=[first, "lst"], cls="gen", lim=32, n=0),
                 E("Call", api=api, o=1, op=1, dir="R", n=1), E("Ret", op=1),
                 E("Call", api="accept", o=2, op=2, dir="R", n=1), E("Ret", op=2),
                 E("Env", api="send", o=1, n=1), E("Env", api="send", o=2, n=1),
                 E("PollB"), E("CbB", op=1, err="nil", n=1), E("Env", api="steal", o=2, n=1), E("CbE", op=1),
                 E("CbB", op=2, err="wouldblock", n=0), E("CbE", op=2), E("PollE", err="nil", n=2)]
            for k in range(again):
                # and the listener goes on working
                h += [E("Call", api="accept", o=2, op=3 + k, dir="R", n=1), E("Ret", op=3 + k),
                      E("Env", api="send", o=2, n=1), E("PollB"), E("CbB", op=3 + k, err="nil", n=1),
                      E("CbE", op=3 + k), E("PollE", err="nil", n=1)]
            hs.append(h)
    return hs


def run(ck):
    ck.cov["rule"] = ("scenario = history of a command-issuing transition of an exhaustive ReactorImpl state graph "
                      "(shortest path + edge; seeded sample of the cover in the quick tier) completed by the driver's drain "
                      "phase; non-trivial = a completion callback ran nested inside another callback")
    sw = reactor.run_configs(ck, configs(ck.tier), FOCUS)
    reactor.scripted(ck, sw, "shared_listener", shared_listener_scenarios(), FOCUS,
                     "scripted: the queued connection is taken by another acceptor before the accept handler runs")
    ck.cov["exhaustive"] = False
    ck.assumptions += ["one operation per direction and object at a time (the reactor record holds one)",
                       "the kernel delivers ready descriptors in the order they became ready (observed; another order only changes which generated interleaving is exercised)"]


def replay(ck, path):
    reactor.replay_file(ck, path, FOCUS)
