"""C08 WebSocket ping/pong and closing handshake: exhaustive WsSessionImpl
(Stream.state, pendingFrames, handleFrame/handleControlFrame, the gates of the
read/write/close calls, Flush) composed with the WsSessionMon monitor; the
transition cover and seeded random behaviours are replayed into the real
websocket.Stream on a scripted in-memory transport whose output is parsed by
the harness's own RFC 6455 parser; the transition cover of WsAsyncImpl (the
asynchronous paths at callback granularity) is replayed on the same transport
with deferred completions, so that every stage is also judged between the
start of an asynchronous call and the completion of its transport write;
recorded traces are validated by TLC against the monitor with the C08 rules in
focus."""
import json, os
import vlib
from checks import wsval

LEVEL = "model_checking"

MANIFEST = dict(
   engine="tlc-wssession", path="spec/WsSession",
   technique="TLA+ monitor + implementation model checked exhaustively by TLC; TLC-generated transition cover and random behaviours replayed into the real websocket.Stream over a scripted transport; recorded traces validated by TLC against the monitor",
   text="Exhaustive TLC check of WsSessionImpl (Stream.state, pendingFrames, handleFrame/handleControlFrame incl. the 1002 path, gates of Write*/Close/NextFrame/NextMessage and their asynchronous twins, Flush/AsyncFlush) composed with the property monitor WsSessionMon for all interleavings of up to 5 peer events {data, ping, pong, valid/empty/invalid close, protocol violation, EOF, transport error} with up to 4 local calls (12 APIs), which reaches and continues from every stage; exhaustive TLC check of WsAsyncImpl (the asynchronous calls at callback granularity over a transport that completes reads and writes only when the schedule says so, partial acceptance, up to two write-side calls in flight) composed with the same monitor. Every transition of the state graph at the cover bound (shortest path + edge) and seeded random behaviours at the full bound are replayed on the real Stream attached (hook VerifAttach) to a scripted transport, under three read segmentations and rotating concrete frame variants (7 violation kinds, 5 invalid and 6 valid close payloads); what the client writes is parsed by an independent RFC 6455 parser; State() and Pending() are sampled after every step. Every transition of the WsAsyncImpl graph (peer events {ping, valid/invalid close, violation, EOF} x calls {AsyncNextFrame, AsyncNextMessage, AsyncWrite, AsyncClose} x every order of transport completions) is replayed on the same Stream with deferred completions, so State(), the write/close gates and the wire are also judged while a Close or a reply is still in flight. TLC validates every recorded trace against the monitor with the C08 rules in focus (what the C17 rules of the shared monitor would have rejected is listed in the evidence, not reported); verdicts come only from recorded real-code traces.",
   note="Trusted: TLC, the Go replay driver (scripted transport, frame builder, wire parser), JSON trace I/O. Deferred completions are scripted (the scripted transport mimics sonic.AsyncAdapter's single read/write records; real sockets belong to C17); write failures are not injected; peer frames arrive whole or byte-wise, fragmentation of data messages belongs to C06.",
   design_ref="5/C08")

ALL_PEER = '{"data", "ping", "pong", "closeValid", "closeEmpty", "closeInvalid", "viol", "eof", "err"}'
ALL_PEER_ASYNC = '{"data", "ping", "pong", "closeValid", "closeInvalid", "viol", "eof"}'
ASYNC4 = '{"AsyncNextFrame", "AsyncNextMessage", "AsyncWrite", "AsyncClose"}'
ASYNC6 = '{"AsyncNextFrame", "AsyncNextMessage", "AsyncWrite", "AsyncWriteFrame", "AsyncFlush", "AsyncClose"}'
PAR = int(os.environ.get("VERIF_PAR", str(vlib.NCPU)))


def _validate(ck, sw, name, beh, label, mode, seed, comp="wssession"):
    trace = os.path.join(ck.work, "trace_%s.ndjson" % name)
    summ, _ = vlib.run_replay([comp, "-in", beh, "-out", trace, "-seed", str(seed), "-mode", mode], timeout=1500)
    # the C08 rules of the shared monitor are in focus; C17 rules are noted, not enforced
    bads, others = wsval.validate(sw, trace, PAR, focus=("C08",))
    wsval.note_others(ck, others, label)
    ck.cov.setdefault("runs", []).append({"run": label, "scenarios": summ["scenarios"], "events": summ["events"],
                                          "rejected": len({b[0] for b in bads}), "drift_steps": summ["drift"]})
    ck.cov["evaluations"] += summ["scenarios"]
    ck.cov["distinct_nontrivial"] += summ["nontrivial"]
    ck.cov["traces_validated_against_impl"] += summ["scenarios"] - len({b[0] for b in bads})
    if summ["drift"]:
        ck.cov["impl_drift"].append({"run": label, "steps_differing_from_model": summ["drift"],
                                     "first": summ.get("first_drift")})
    for sid, i, key in bads:
        ck.report_bad(key, "websocket session trace rejected at event %d of scenario %d (%s)" % (i, sid, label),
                      lambda sid=sid, i=i, key=key: {
                          "property": ck.pid, "component": comp, "rule": key, "event": i,
                          "mode": mode + ",sidbase=%d" % (sid - 1), "seed": seed,
                          "behaviour": json.loads(vlib.nth_line(beh, sid)),
                          "trace": vlib.read_scenario(trace, sid)})
    if len(ck.cov["samples"]) < 2 and summ["scenarios"]:
        k = max(1, summ["scenarios"] * 2 // 3)
        ck.sample({"run": label, "behaviour": json.loads(vlib.nth_line(beh, k)),
                   "trace_excerpt": vlib.read_scenario(trace, k)[:12]})
    os.remove(trace)
    return bads


def run(ck):
    from concurrent.futures import ThreadPoolExecutor
    vlib.build_harness()
    sw = vlib.prep_spec("WsSession", ck.work)
    quick = ck.tier == "quick"
    ck.cov["rule"] = ("behaviours = every transition of the exhaustive WsSessionImpl state graph at the cover bound (shortest path + "
                      "edge) plus seeded random behaviours at the full bound, each replayed under the listed segmentations, plus "
                      "every transition of the WsAsyncImpl state graph replayed with deferred transport completions; "
                      "non-trivial = the behaviour put a Pong or a Close on the wire or surfaced a peer Close")
    model_findings = set()

    def cover():
        consts = {"MaxPeer": 3 if quick else 4, "MaxCalls": 3, "BUG_SecondClose": "FALSE"}
        cfg = vlib.cfg_with(sw, "WsSessionImpl_mc.cfg", consts)
        # every EDGE line is a complete history, so the order in which workers print them does not matter
        r = vlib.tlc(sw, "WsSessionImpl", cfg, workers=1 if quick else 4, timeout=3000, env={"JAVA_TOOL_OPTIONS": "-Xmx4g"})
        if not r.ok:
            raise vlib.Inconclusive("WsSessionImpl cover: %s\n%s" % (r.violated or r.error, r.tail()))
        ck.add_tlc("WsSessionImpl transition cover", r, consts)
        for line in r.lines('<<"MODELBAD"'):
            model_findings.add(line.split('"')[3])
        beh = os.path.join(ck.work, "cover.jsonl")
        n = vlib.edges_to_file(r, beh)
        os.remove(r.outpath)
        if n == 0:
            raise vlib.Inconclusive("cover produced no behaviours")
        _validate(ck, sw, "cover", beh, "transition cover %dx%d, whole frames" % (consts["MaxPeer"], consts["MaxCalls"]),
                  "split=frame", ck.seed)
        if not quick:
            # a third of the cover once more: byte-wise reads, other concrete frame variants
            sub = os.path.join(ck.work, "cover_third.jsonl")
            with open(beh) as f, open(sub, "w") as out:
                for i, line in enumerate(f):
                    if i % 3 == ck.seed % 3:
                        out.write(line)
            _validate(ck, sw, "cover_b", sub, "a third of the transition cover, byte-wise reads, other frame variants",
                      "split=byte,variant=3", ck.seed)

    def fragments():
        # a fragmented message with a Close or a Ping between its fragments (all of it arriving at once), read
        # through the frame and message APIs: the peer's Close is answered and ends the reads also in mid-message
        # (the frame-level and the message-level APIs are not mixed inside one message)
        for lvl, apis in (("frame", '{"NextFrame", "AsyncNextFrame", "Write", "Flush"}'),
                          ("message", '{"NextMessage", "AsyncNextMessage", "Write", "Flush"}')):
            consts = {"MaxPeer": 2, "MaxCalls": 3, "BUG_SecondClose": "FALSE",
                      "PeerKinds": '{"fragclosecont", "fragpingcont", "data", "eof"}', "CallApis": apis}
            cfg = vlib.cfg_with(sw, "WsSessionImpl_mc.cfg", consts, outname="frag_%s.cfg" % lvl)
            r = vlib.tlc(sw, "WsSessionImpl", cfg, workers=1, timeout=1500)
            if not r.ok:
                raise vlib.Inconclusive("WsSessionImpl fragments cover: %s\n%s" % (r.violated or r.error, r.tail()))
            ck.add_tlc("WsSessionImpl transition cover, fragmented messages with a control frame in between, %s APIs" % lvl, r, consts)
            for line in r.lines('<<"MODELBAD"'):
                model_findings.add(line.split('"')[3])
            beh = os.path.join(ck.work, "cover_frag_%s.jsonl" % lvl)
            n = vlib.edges_to_file(r, beh)
            os.remove(r.outpath)
            if n == 0:
                raise vlib.Inconclusive("fragments cover produced no behaviours")
            _validate(ck, sw, "cover_frag_" + lvl, beh,
                      "transition cover 2x3, fragmented messages with a control frame in between, %s APIs" % lvl, "split=frame", ck.seed)

    def oversized():
        """Scripted (the session model has no such peer event): a conforming message that fits the size limit but not
        the buffer of the message-level reads. They refuse it and start the closing handshake with 1001 - unless a
        closing handshake is under way already: one Close frame per endpoint, whoever started."""
        def S(op, api="", k="", t=0, c=0):
            return {"op": op, "api": api, "k": k, "t": t, "c": c, "n": 0, "then": 0, "glue": 0, "st": "", "pend": 0, "nw": 0, "err": ""}
        hs = []
        for rd, wr, cl in (("NextMessage", "Write", "Close"), ("AsyncNextMessage", "AsyncWrite", "AsyncClose")):
            fr = "NextFrame" if rd == "NextMessage" else "AsyncNextFrame"
            hs += [
                [S("peer", k="big", t=1), S("call", rd), S("call", wr, t=2), S("peer", k="closeValid", t=3), S("call", rd)],
                [S("call", cl), S("peer", k="big", t=1), S("call", rd), S("peer", k="closeValid", t=2), S("call", rd)],
                [S("call", cl), S("peer", k="data", t=1), S("peer", k="big", t=2), S("call", rd), S("call", rd),
                 S("peer", k="closeValid", t=3), S("call", rd)],
                [S("peer", k="big", t=1), S("call", fr), S("call", wr, t=2), S("peer", k="big", t=3), S("call", rd), S("call", wr, t=4)],
                [S("peer", k="ping", t=1), S("peer", k="big", t=2), S("call", rd), S("call", rd), S("peer", k="closeValid", t=3), S("call", rd)],
                [S("peer", k="closeValid", t=1), S("peer", k="big", t=2), S("call", rd), S("call", rd)],
                [S("peer", k="big", t=1), S("peer", k="big", t=2), S("call", rd), S("call", rd), S("call", cl)],
            ]
        beh = os.path.join(ck.work, "oversized.jsonl")
        with open(beh, "w") as f:
            for h in hs:
                f.write(json.dumps(h) + "\n")
        for mode in ("split=frame", "split=all"):
            _validate(ck, sw, "oversized_" + mode[6:], beh, "scripted: messages larger than the reader's buffer, " + mode, mode, ck.seed)

    def deferred(writers=False):
        # the asynchronous calls at callback granularity: completions of transport reads and writes are
        # steps of the schedule, so peer events and further calls land between the start of an
        # AsyncClose / AsyncWrite / reply flush and its completion
        consts = {"MaxPeer": 3, "MaxCalls": 3, "Partial": "TRUE", "MaxWriters": 1,
                  "PeerKinds": '{"ping", "closeValid", "closeInvalid", "viol", "eof"}' if quick else ALL_PEER_ASYNC,
                  "CallApis": ASYNC4 if quick else ASYNC6}
        if writers:
            # several application writes queued behind one in flight when a Close (local, echo of the
            # peer's, 1002) is queued: data frames accepted before the Close must reach the wire before it
            consts = {"MaxPeer": 1 if quick else 2, "MaxCalls": 3 if quick else 4, "Partial": "TRUE", "MaxWriters": 3,
                      "PeerKinds": '{"closeValid", "viol"}' if quick else '{"ping", "closeValid", "viol"}',
                      "CallApis": '{"AsyncNextFrame", "AsyncWrite", "AsyncClose"}'}
        cfg = vlib.cfg_with(sw, "WsAsyncImpl_mc.cfg", consts)
        r = vlib.tlc(sw, "WsAsyncImpl", cfg, workers=2 if quick else 4, timeout=3000, env={"JAVA_TOOL_OPTIONS": "-Xmx4g"})
        if not r.ok:
            raise vlib.Inconclusive("WsAsyncImpl cover: %s\n%s" % (r.violated or r.error, r.tail()))
        ck.add_tlc("WsAsyncImpl transition cover (deferred completions%s)" % (", three writers" if writers else ""), r, consts)
        for line in r.lines('<<"MODELBAD"'):
            model_findings.add(line.split('"')[3])
        beh = os.path.join(ck.work, "cover_deferred%s.jsonl" % ("_w" if writers else ""))
        n = vlib.edges_to_file(r, beh)
        os.remove(r.outpath)
        if n == 0:
            raise vlib.Inconclusive("deferred cover produced no behaviours")
        _validate(ck, sw, "deferred_w" if writers else "deferred", beh,
                  "WsAsyncImpl transition cover %dx%d, deferred completions%s" % (consts["MaxPeer"], consts["MaxCalls"], ", up to three writers" if writers else ""),
                  "split=frame", ck.seed, comp="wssession-deferred")

    def count():
        consts = {"MaxPeer": 5, "MaxCalls": 4, "BUG_SecondClose": "FALSE"}
        cfg = vlib.cfg_with(sw, "WsSessionImpl_count.cfg", consts)
        r = vlib.tlc(sw, "WsSessionImpl", cfg, workers=3 if quick else max(4, vlib.NCPU - 8), timeout=3000, env={"JAVA_TOOL_OPTIONS": "-Xmx8g"})
        if not r.ok:
            raise vlib.Inconclusive("WsSessionImpl exhaustive: %s\n%s" % (r.violated or r.error, r.tail()))
        ck.add_tlc("WsSessionImpl exhaustive", r, consts)
        for line in r.lines('<<"MODELBAD"'):
            model_findings.add(line.split('"')[3])

    def bugdemo():
        # the spec with the defect switched back on must reject (evidence that the model can see it)
        consts = {"MaxPeer": 2, "MaxCalls": 3, "BUG_SecondClose": "TRUE"}
        cfg = vlib.cfg_with(sw, "WsSessionImpl_strict.cfg", consts)
        r = vlib.tlc(sw, "WsSessionImpl", cfg, workers=1, timeout=600, env={"JAVA_TOOL_OPTIONS": "-Xmx4g"})
        ck.cov["bug_switch_demo"] = {"BUG_SecondClose": "NotBad violated" if r.violated == "NotBad" else "NOT caught: %s" % (r.violated or r.error or "ok")}

    def sim(k):
        consts = {"MaxPeer": 5, "MaxCalls": 4, "BUG_SecondClose": "FALSE"}
        cfg = vlib.cfg_with(sw, "WsSessionImpl_sim.cfg", consts)
        n = 1500 if quick else 10000
        r = vlib.tlc(sw, "WsSessionImpl", cfg, workers=1, simulate=n, depth=12, seed=ck.seed * 1000 + k, timeout=3000, env={"JAVA_TOOL_OPTIONS": "-Xmx4g"})
        if r.violated or (r.error and "timeout" in r.error):
            raise vlib.Inconclusive("WsSessionImpl simulation: %s\n%s" % (r.violated or r.error, r.tail()))
        ck.add_tlc("WsSessionImpl random simulation", r, consts, exhaustive=False)
        beh = os.path.join(ck.work, "sim_%d.jsonl" % k)
        if vlib.edges_to_file(r, beh) == 0:
            raise vlib.Inconclusive("simulation produced no behaviours\n" + r.tail())
        os.remove(r.outpath)
        mode = ["split=byte,variant=1", "split=all,variant=2", "split=frame,variant=4"][k % 3]
        _validate(ck, sw, "sim_%d" % k, beh, "random behaviours 5x4, %s" % mode, mode, ck.seed + k)

    with ThreadPoolExecutor(max_workers=6) as ex:
        # quick: the cover run is the exhaustive run (3x3); thorough adds the exhaustive 5x4 run
        futs = [ex.submit(cover), ex.submit(fragments), ex.submit(oversized), ex.submit(deferred), ex.submit(deferred, True), ex.submit(bugdemo)] + ([] if quick else [ex.submit(count)]) + \
               [ex.submit(sim, k) for k in range(2 if quick else 3)]
        for f in futs:
            f.result()
    ck.cov["tlc_runs"].sort(key=lambda r: r["name"])
    ck.cov["model_findings"] = sorted(model_findings)
    ck.cov["exhaustive"] = True
    ck.assumptions += [
        "peer frames are small (8..16 byte payloads, one 126 byte control frame); payload identity is checked through generator tokens",
        "the scripted transport never fails a write; inline runs complete it inside the call, deferred runs when the schedule says so (one read and one write record like sonic.AsyncAdapter, partial acceptance at half-frame boundaries)",
        "rules of C17 (the other property of the shared monitor) are not enforced here: coverage.other_property_rejections lists what they would have rejected",
        "State() is compared as a stage class: closedByPeer/closeAcked may already show terminated (the asynchronous read path moves on reporting end-of-stream, the blocking one does not)"]


def replay(ck, path):
    vlib.build_harness()
    sw = vlib.prep_spec("WsSession", ck.work)
    obj = json.load(open(path))
    beh = os.path.join(ck.work, "replay.jsonl")
    with open(beh, "w") as f:
        f.write(json.dumps(obj["behaviour"]) + "\n")
    _validate(ck, sw, "replay", beh, "replay of " + os.path.basename(path), obj.get("mode", "split=frame"), obj.get("seed", ck.seed),
              comp=obj.get("component", "wssession"))
