"""C06 WebSocket message delivery fidelity under fragmentation/segmentation.
WsReadImpl (read buffer, lazy consume, PrepareRead per header section,
ErrNeedMore -> read -> decode again, reassembly) composed with WsReadMon is
checked exhaustively by TLC; its transition cover (every transport read of
every reachable state + every completed run), seeded random long histories and
(thorough) every split offset of short streams are replayed through NextFrame,
AsyncNextFrame, NextMessage and AsyncNextMessage of a real websocket.Stream on a
scripted transport; TLC validates the recorded traces against WsReadMon."""
import json, os, hashlib
import vlib

LEVEL = "model_checking"

MANIFEST = dict(
   engine="tlc-wsread", path="spec/WsRead",
   technique="TLA+ monitor + implementation-shaped model of the WebSocket read path checked exhaustively by TLC; TLC-generated transition cover, random histories and all-offset segmentations replayed through the four read APIs of the real Stream over a scripted transport; recorded traces validated by TLC against the monitor",
   text="Exhaustive TLC check of WsReadImpl x WsReadMon over all peer behaviours within the tier's bound (messages x fragments x payload length classes spanning the 7/16/64-bit encodings up to SetMaxMessageSize(70000) x ping/pong at every gap) and all segmentations at split-class granularity (every header byte, payload at 0/1/len-1/len, with a following frame). Every transport-read transition and every completed run of that graph is a replayed test (quick: a seeded sample of the larger slices); the same wire bytes go through NextFrame, AsyncNextFrame (inline/deferred completions), NextMessage, AsyncNextMessage and a would-block variant; delivered payloads are projected to frame tokens and the trace is validated by TLC against the monitor (order, type, length, content, completeness, API agreement).",
   note="Trusted: TLC, the Go driver (scripted transport, payload generator/projection), JSON trace I/O. Handshake-coalesced frames are C18's. Payload bytes are generator output (universal over structure, sampled over byte values). A synchronous transport that reports would-block in the middle of NextMessage is outside the statement (the sync API is documented as blocking).",
   design_ref="5/C06")

COMP = "WsRead"
BASE = {"Max": 70000, "CtlLens": "{0, 1, 125}", "MaxInFlight": 2, "Apis": '{"NF", "NM"}', "Viols": "{}",
        "VLens": "{0, 1, 126}", "MaxHist": 0, "BUG_CtlResetsCont": "FALSE", "BUG_ConsumeShort": "FALSE"}

# (name, constants, quick sampling divisor (1 = all), workers)
SLICES_QUICK = [
    ("small lengths, 2 msgs x 2 frags", {"Lens": "{0, 1, 126}", "MaxMsgs": 2, "MaxFrags": 2, "MaxCtl": 0, "MaxFrames": 4}, 4, 3),
    ("all large classes, 1 msg x 2 frags", {"Lens": "{125, 65535, 65536, 70000}", "MaxMsgs": 1, "MaxFrags": 2, "MaxCtl": 0, "MaxFrames": 2}, 1, 1),
    ("3 fragments, control at a gap", {"Lens": "{1, 126}", "MaxMsgs": 1, "MaxFrags": 3, "MaxCtl": 1, "MaxFrames": 4}, 3, 2),
    ("64-bit class with controls", {"Lens": "{0, 65536}", "MaxMsgs": 1, "MaxFrags": 2, "MaxCtl": 1, "MaxFrames": 3}, 2, 2),
]
SLICES_THOROUGH = [
    ("5 length classes, 2 msgs x 2 frags, 1 control", {"Lens": "{0, 1, 125, 126, 65536}", "MaxMsgs": 2, "MaxFrags": 2, "MaxCtl": 1, "MaxFrames": 5}, 12, 6),
    ("all 7 classes, 1 msg x 2 frags, 1 control", {"Lens": "{0, 1, 125, 126, 65535, 65536, 70000}", "MaxMsgs": 1, "MaxFrags": 2, "MaxCtl": 1, "MaxFrames": 3}, 1, 2),
    ("3 msgs x 3 frags, 3 classes", {"Lens": "{0, 1, 126}", "MaxMsgs": 3, "MaxFrags": 3, "MaxCtl": 0, "MaxFrames": 9}, 3, 4),
    ("3 fragments, controls at two gaps", {"Lens": "{1, 126}", "MaxMsgs": 1, "MaxFrags": 3, "MaxCtl": 2, "MaxFrames": 5}, 2, 4),
    ("64-bit classes with controls", {"Lens": "{0, 65536, 70000}", "MaxMsgs": 2, "MaxFrags": 2, "MaxCtl": 1, "MaxFrames": 4}, 2, 2),
]
SIM = {"Lens": "{0, 1, 125, 126, 65535, 65536, 70000}", "MaxMsgs": 3, "MaxFrags": 3, "MaxCtl": 2, "MaxFrames": 11, "MaxHist": 90}


def frame_len(it):
    n = it[4]
    if n < 0:
        return 10
    return 2 + (8 if n > 65535 else 2 if n > 125 else 0) + 4 * it[5] + n


def expand_offsets(beh_in, beh_out, max_bytes, pairs_upto, limit):
    """Every split offset (and every pair of offsets for very short streams) of the
    distinct frame lists of the histories in beh_in."""
    seen, n = set(), 0
    with open(beh_in) as f, open(beh_out, "w") as out:
        for line in f:
            h = json.loads(line)
            frames = [it for it in h if it[0] == "S"]
            total = sum(frame_len(it) for it in frames)
            if total == 0 or total > max_bytes:
                continue
            key = json.dumps(frames)
            if key in seen:
                continue
            seen.add(key)
            # the frame list only (a message left open is completed by the driver); deliveries are
            # judged by the monitor, no model prediction is attached
            base = h[:2] + frames + [["E"]]
            cutsets = [[]] + [[c] for c in range(1, total)]     # one chunk; every single cut
            if total <= pairs_upto:
                cutsets += [[a, b] for a in range(1, total) for b in range(a + 1, total)]
            cutsets.append(list(range(1, total)))       # byte by byte
            for cs in cutsets:
                out.write(json.dumps(base[:-1] + [["X", cs]]) + "\n")
                n += 1
            if n >= limit:
                break
    return n


BATCH = 25000          # scenarios per replay/validation batch (bounds trace size and TLC memory)
JVM = {"JAVA_TOOL_OPTIONS": "-Xmx3g"}


def validate(ck, sw, name, beh, label, mode=""):
    """Replay a behaviours file on the real code (in batches) and validate the recorded traces."""
    with open(beh) as f:
        lines = f.readlines()
    allbads = []
    for b0 in range(0, len(lines), BATCH):
        bfile = beh if len(lines) <= BATCH else "%s.b%d" % (beh, b0 // BATCH)
        if bfile != beh:
            with open(bfile, "w") as f:
                f.writelines(lines[b0:b0 + BATCH])
        allbads += _validate_batch(ck, sw, "%s_%d" % (name, b0 // BATCH), bfile, label, mode)
        if bfile != beh:
            os.remove(bfile)
    return allbads


def _validate_batch(ck, sw, name, beh, label, mode):
    trace = os.path.join(ck.work, "trace_%s.ndjson" % name)
    args = ["wsread", "-in", beh, "-out", trace, "-seed", str(ck.seed)]
    if mode:
        args += ["-mode", mode]
    summ, _ = vlib.run_replay(args, timeout=1500)
    bads, _ = vlib.validate_trace(sw, "WsReadMonTrace", "WsReadMonTrace.cfg", trace, timeout=1500, extra_env=JVM, parallel=8)
    ck.cov["evaluations"] += summ["scenarios"]
    ck.cov["distinct_nontrivial"] += summ["nontrivial"]
    ck.cov["traces_validated_against_impl"] += summ["scenarios"] - len({b[0] for b in bads})
    ck.cov.setdefault("runs_by_final_error", {})
    for k, v in (summ.get("notes") or {}).get("runs_by_final_error", {}).items():
        ck.cov["runs_by_final_error"][k] = ck.cov["runs_by_final_error"].get(k, 0) + v
    if summ["drift"]:
        ck.cov["impl_drift"].append({"run": label, "runs_differing_from_model": summ["drift"], "first": summ.get("first_drift")})
    for sid, i, key in bads:
        ck.report_bad(key, "WebSocket read trace rejected at step %d of scenario %d (%s)" % (i, sid, label),
                      lambda sid=sid, i=i, key=key: {
                          "property": ck.pid, "component": "wsread", "rule": key, "step": i, "mode": mode,
                          "behaviour": json.loads(vlib.nth_line(beh, sid)),
                          "trace": vlib.read_scenario(trace, sid)[:400]})
    if len(ck.cov["samples"]) < 3 and summ["scenarios"]:
        k = max(1, summ["scenarios"] // 2)
        ck.sample({"run": label, "behaviour": json.loads(vlib.nth_line(beh, k)), "trace_excerpt": vlib.read_scenario(trace, k)[:12]})
    os.remove(trace)
    return bads


def picker(seed, div, salt):
    if div <= 1:
        return None
    def pick(n):
        h = hashlib.md5(("%d:%s:%d" % (seed, salt, n)).encode()).digest()
        return int.from_bytes(h[:4], "big") % div == 0
    return pick


def run_slices(ck, sw, slices, base, sim, nsim, cover_cfg="WsReadImpl_cover.cfg", sim_cfg="WsReadImpl_sim.cfg",
               offsets=None, pool=3):
    from concurrent.futures import ThreadPoolExecutor
    model_findings = set()

    def cover(arg):
        k, (name, consts, div, workers) = arg
        c = dict(base); c.update(consts)
        cfg = vlib.cfg_with(sw, cover_cfg, c)
        r = vlib.tlc(sw, "WsReadImpl", cfg, workers=workers, timeout=2400, env={"JAVA_TOOL_OPTIONS": "-Xmx6g"})
        if not r.ok:
            raise vlib.Inconclusive("WsReadImpl [%s]: %s\n%s" % (name, r.violated or r.error, r.tail()))
        ck.add_tlc("WsReadImpl exhaustive + cover: " + name, r, c)
        for line in r.lines('<<"MODELBAD"'):
            model_findings.add(line.split('"')[3])
        beh = os.path.join(ck.work, "cover_%d.jsonl" % k)
        n = vlib.edges_to_file(r, beh, pick=picker(ck.seed, div, name))
        os.remove(r.outpath)
        if n:
            validate(ck, sw, "cover_%d" % k, beh, "transition cover: " + name)
        if offsets:
            xb = os.path.join(ck.work, "offsets_%d.jsonl" % k)
            m = expand_offsets(beh, xb, *offsets)
            if m:
                validate(ck, sw, "offsets_%d" % k, xb, "every split offset: " + name, mode="lite")

    def simulate(_):
        c = dict(base); c.update(sim)
        cfg = vlib.cfg_with(sw, sim_cfg, c)
        r = vlib.tlc(sw, "WsReadImpl", cfg, workers=1, simulate=nsim, depth=c["MaxHist"] + 4, seed=ck.seed, timeout=1800, env=JVM)
        if r.violated or (r.error and "timeout" in r.error):
            raise vlib.Inconclusive("WsReadImpl simulation: %s\n%s" % (r.violated or r.error, r.tail()))
        ck.add_tlc("WsReadImpl random simulation", r, c, exhaustive=False)
        beh = os.path.join(ck.work, "sim.jsonl")
        n = vlib.edges_to_file(r, beh)
        os.remove(r.outpath)
        if n == 0:
            raise vlib.Inconclusive("simulation produced no histories\n" + r.tail())
        validate(ck, sw, "sim", beh, "random long histories")

    with ThreadPoolExecutor(max_workers=pool) as ex:
        futs = [ex.submit(simulate, 0)] + [ex.submit(cover, a) for a in enumerate(slices)]
        for f in futs:
            f.result()
    ck.cov["model_findings"] = sorted(set(ck.cov.get("model_findings", [])) | model_findings)


def run(ck):
    vlib.build_harness()
    sw = vlib.prep_spec(COMP, ck.work)
    ck.cov["rule"] = ("scenarios = transport-read transitions and completed runs of the exhaustive WsReadImpl graph (shortest path + edge; "
                      "quick: seeded sample of the larger slices), seeded random long histories, thorough: every split offset of short "
                      "streams; each scenario runs through 17 API runs (4 APIs x inline/deferred/would-block variants; the async APIs also as a read loop that starts the next read from inside the completion callback; all four once more after the application has sent its own Close); "
                      "non-trivial = some segment boundary falls strictly inside a frame")
    if ck.tier == "quick":
        run_slices(ck, sw, SLICES_QUICK, BASE, SIM, 500, offsets=(20, 0, 4000), pool=5)
    else:
        run_slices(ck, sw, SLICES_THOROUGH, BASE, SIM, 5000, offsets=(48, 14, 40000), pool=3)
    ck.cov["exhaustive"] = True
    ck.assumptions += [
        "bytes are abstracted to cells in the model (split classes); concrete offsets are chosen by the driver, every offset for short streams in the thorough tier",
        "payload bytes come from a keyed generator whose first byte names the frame; the Go projection is trusted for 'these bytes are the payload of frame k'",
        "transport writes (pong replies) always succeed at once; write-side behaviour is C16/C17's"]


def replay(ck, path):
    vlib.build_harness()
    sw = vlib.prep_spec(COMP, ck.work)
    obj = json.load(open(path))
    beh = os.path.join(ck.work, "replay.jsonl")
    with open(beh, "w") as f:
        f.write(json.dumps(obj["behaviour"]) + "\n")
    validate(ck, sw, "replay", beh, "replay of " + os.path.basename(path), mode=obj.get("mode", ""))
