"""Chunked trace validation for the WsSession checks: TLC's cost per trace
line grows with the length of the deserialised trace (measured: 0.5 M lines
per process are fine, 2.6 M lines per process crawl at 14 k lines/min), so
the trace is cut into chunks of bounded size at scenario boundaries and the
chunks are validated by a pool of TLC processes (heap capped at 2 GB each: the
default of a quarter of the RAM per JVM invites the OOM killer when many run)."""
import os, re
from concurrent.futures import ThreadPoolExecutor
import vlib

SID_RE = re.compile(r'"sid":(\d+)')
_sem = [None]


def split(tracefile, chunk):
    files, n, cur, last = [], 0, None, None
    with open(tracefile) as f:
        for line in f:
            m = SID_RE.search(line)
            sid = m.group(1) if m else last
            if cur is None or (n >= chunk and sid != last):
                if cur:
                    cur.close()
                fn = "%s.c%d" % (tracefile, len(files))
                files.append(fn)
                cur, n = open(fn, "w"), 0
            cur.write(line)
            n += 1
            last = sid
    if cur:
        cur.close()
    return files


OTHER_RE = re.compile(r'^<<"OTHER", (\d+), (\d+), "([^"]*)">>')


def validate(sw, tracefile, par, chunk=120000, timeout=1500, focus=("C08", "C17")):
    """Returns (bads, others): bads = [(sid, i, key)] like vlib.validate_trace - rejections by
    rules of the properties in `focus`; others = the first rule of the other family that
    would have rejected a scenario (evidence only, the monitor went on judging the focus)."""
    files = split(tracefile, chunk)
    fenv = {"FOCUS_C08": "1" if "C08" in focus else "0", "FOCUS_C17": "1" if "C17" in focus else "0"}
    if _sem[0] is None:          # one budget of TLC processes for all validations of a check run
        import threading
        _sem[0] = threading.BoundedSemaphore(max(1, par))

    def one(fn):
        with _sem[0]:
            return one_(fn)

    def one_(fn):
        r = vlib.tlc(sw, "WsSessionMonTrace", "WsSessionMonTrace.cfg", workers=1, timeout=timeout, env=dict(fenv, TRACE=fn, JAVA_TOOL_OPTIONS="-Xmx2g"))
        bads, others = [], []
        for line in r.lines('<<"BAD"'):
            m = vlib.BAD_RE.match(line)
            if m:
                bads.append((int(m.group(1)), int(m.group(2)), m.group(3)))
        for line in r.lines('<<"OTHER"'):
            m = OTHER_RE.match(line)
            if m:
                others.append((int(m.group(1)), int(m.group(2)), m.group(3)))
        ok, why = r.ok, (r.error or r.violated)
        tail = "" if ok else r.tail(30)
        try:
            os.remove(r.outpath)
            os.remove(fn)
        except OSError:
            pass
        return ok, why, tail, bads, others

    bads, others = [], []
    with ThreadPoolExecutor(max_workers=max(1, par)) as ex:
        for ok, why, tail, b, o in ex.map(one, files):
            if not ok:
                raise vlib.Inconclusive("trace validation with WsSessionMonTrace did not complete: %s\n%s" % (why, tail))
            bads += b
            others += o
    bads.sort()
    others.sort()
    return bads, others


def note_others(ck, others, label):
    """Rejections by rules of the other property of the shared monitor: evidence, not a verdict."""
    if not others:
        return
    d = ck.cov.setdefault("other_property_rejections", {})
    for sid, i, key in others:
        e = d.setdefault(key, {"scenarios": 0, "first": {"run": label, "scenario": sid, "event": i}})
        e["scenarios"] += 1
