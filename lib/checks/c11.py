"""C11 MirroredBuffer: exhaustive MirrorImpl (constructor rounding + head/tail/used with the
code's wrapping arithmetic) composed with the MirrorMon monitor for every page count of the
tier; every transition of those state graphs (shortest path + edge) and seeded random
byte-level histories are replayed into real mmap'd bytes.MirroredBuffer objects; the recorded
traces (claim geometry, returns, getters, physical mirror/content probes, mapping census
after Destroy) are validated by TLC against MirrorMon."""
import json, os, collections
import vlib, apa

LEVEL = "model_checking"

MANIFEST = dict(
   engine="tlc-mirror", path="spec/Mirror",
   technique="TLA+ monitor + implementation model (code's masking arithmetic via Bitwise &) checked exhaustively by TLC; TLC-generated transition cover and random byte-level histories replayed into real mmap'd MirroredBuffers; recorded traces validated by TLC against the monitor",
   text="Exhaustive TLC check of the index machine (MirrorImpl: constructor rounding, head/tail/used, the code's wrap arithmetic) composed with the property monitor (MirrorMon) for 1, 2, 3, 4, 5, 6, 8 pages (thorough: also 7, 12, 16 and finer units), exact and rounded-up requests, prefault on/off, amounts {0, 1, few, page, size-1, size, size+1} (thorough: all amounts 0..size+1 up to 8 pages), unbounded history length (finite state) at a scale of 4 units per page (exact homomorphic image of the byte machine for multiples of 1024 bytes). Every transition of those state graphs is replayed on a real MirroredBuffer (units mapped to bytes; a second pass perturbs the amounts off the unit grid), seeded random histories are generated from the same model at byte scale (page = 4096, amounts 0/1/3000/4096/size-1/size/size+1). The recorded traces - offset/length of every claim relative to the first claim, returns, FreeSpace/UsedSpace/Full/Size, mirror probe of every byte written through a claim in both copies, run-length projection of the ring contents (committed-unconsumed tokens must survive later claims), /proc/self/maps + backing file + descriptor census after Destroy - are validated by TLC against the monitor. Unit-scale random walks with all amounts and a probe of the constructor's failure points (process brought to vm.max_map_count; a failed NewMirroredBuffer must leave no mapping or descriptor) are added. Apalache inductive-invariant checks of typed index machines are recorded as additional evidence only. Verdicts come only from recorded real-code traces.",
   note="Trusted: TLC, the Go replay driver (pointer arithmetic against the first claim, token writer, run-length projection, /proc parsing), JSON trace I/O. Token identity is modulo 251. Negative amounts are outside the quantifier (Claim(-1) panics) and are not generated. Sizes beyond 16 pages are not exercised.",
   design_ref="5/C11")

P = 4          # units per page in the exhaustive configurations
RULE = ("histories = every transition of the exhaustive MirrorImpl state graph (shortest path + edge) per page count "
        "and request class, the same histories with amounts perturbed off the unit grid, plus seeded random byte-level "
        "histories; non-trivial = history in which a claim crosses the end of the ring while committed bytes are queued")


def _edge_classes(beh, acc):
    """Vacuity control: classify the last step of every generated history."""
    with open(beh) as f:
        for line in f:
            e = json.loads(line)[-1]
            k = e["ev"]
            if k == "Claim":
                k += ":nil" if e["len"] == 0 else (":clamped" if e["len"] < e["n"] else ":full")
                if e["cross"]:
                    k += ":crossing"
            elif k in ("Commit", "Consume"):
                k += ":clamped" if e["ret"] < e["n"] else (":zero" if e["n"] == 0 else ":full")
                if k.startswith("Commit") and e["used"] == e["size"]:
                    k += ":fills"
            acc[k] += 1


ALL_CLASSES = ["Claim:nil", "Claim:clamped", "Claim:full", "Claim:clamped:crossing", "Claim:full:crossing",
               "Commit:zero", "Commit:full", "Commit:full:fills", "Commit:clamped:fills",
               "Consume:zero", "Consume:full", "Consume:clamped", "Reset", "Prefault"]


CHUNK = 150000      # trace lines per TLC process (keeps a validator below ~1.5 GB)


def _validate_chunks(sw, trace, par):
    """vlib.validate_trace starts one TLC per part, all at once; a 900 MB trace (16 pages) then needs 8 x 3.5 GB.
    Same procedure here, but in parts of at most CHUNK lines, `par` at a time."""
    from concurrent.futures import ThreadPoolExecutor
    files, out, n, last = [], None, 0, None
    with open(trace) as f:              # streaming split at scenario boundaries
        for line in f:
            m = vlib.SID_RE.search(line)
            sid = m.group(1) if m else last
            if out is None or (n >= CHUNK and sid != last):
                if out:
                    out.close()
                files.append("%s.c%d" % (trace, len(files)))
                out, n = open(files[-1], "w"), 0
            out.write(line)
            n += 1
            last = sid
    if out:
        out.close()

    def one(fn):
        r = vlib.tlc(sw, "MirrorMonTrace", "MirrorMonTrace.cfg", workers=1, timeout=1800, env={"TRACE": fn})
        if not r.ok:
            raise vlib.Inconclusive("trace validation with MirrorMonTrace did not complete: %s\n%s" % (
                r.error or r.violated, r.tail(30)))
        out = []
        for line in r.lines('<<"BAD"'):
            m = vlib.BAD_RE.match(line)
            if m:
                out.append((int(m.group(1)), int(m.group(2)), m.group(3)))
        os.remove(r.outpath)
        if fn != trace:
            os.remove(fn)
        return out

    with ThreadPoolExecutor(max_workers=par) as ex:
        bads = [b for part in ex.map(one, files) for b in part]
    bads.sort()
    return bads


def _validate(ck, sw, name, beh, label, mode="", seed=1):
    trace = os.path.join(ck.work, "trace_%s.ndjson" % name)
    args = ["mirror", "-in", beh, "-out", trace]
    if mode:
        args += ["-mode", mode, "-seed", str(seed)]
    summ, _ = vlib.run_replay(args, timeout=1800)
    bads = _validate_chunks(sw, trace, getattr(ck, "vpar", 8))
    ck.cov["evaluations"] += summ["scenarios"]
    ck.cov["distinct_nontrivial"] += summ["nontrivial"]
    ck.cov["traces_validated_against_impl"] += summ["scenarios"] - len({b[0] for b in bads})
    for k, v in (summ.get("notes") or {}).items():
        ck.cov["probes"][k] = ck.cov["probes"].get(k, 0) + v
    ck.cov["probes"]["events"] = ck.cov["probes"].get("events", 0) + summ["events"]
    if summ["drift"]:
        ck.cov["impl_drift"].append({"run": label, "steps_differing_from_model": summ["drift"],
                                     "first": summ.get("first_drift")})
    for sid, i, key in bads:
        ck.report_bad(key, "MirroredBuffer trace rejected at step %d of scenario %d (%s)" % (i, sid, label),
                      lambda sid=sid, i=i, key=key: {
                          "property": ck.pid, "component": "mirror", "rule": key, "step": i,
                          "mode": mode, "seed": seed + sid - 1,
                          "behaviour": json.loads(vlib.nth_line(beh, sid)),
                          "trace": vlib.read_scenario(trace, sid)})
    if len(ck.cov["samples"]) < 3 and summ["nontrivial"]:
        # a scenario with a claim that crosses the end of the ring while bytes are queued
        import re
        k = 1
        with open(trace) as f:
            for line in f:
                if '"cross":1' in line and '"used":0,' not in line:
                    k = int(re.search(r'"sid":(\d+)', line).group(1))
                    if k >= summ["scenarios"] // 2:
                        break
        ck.sample({"run": label, "behaviour": [dict(ev=e["ev"], n=e["n"]) for e in json.loads(vlib.nth_line(beh, k))],
                   "trace_excerpt": vlib.read_scenario(trace, k)[:5]})
    os.remove(trace)
    return bads


def _ctorfail(ck, sw):
    trace = os.path.join(ck.work, "trace_ctorfail.ndjson")
    label = "constructor failure points (vm.max_map_count)"
    summ, out, attempts = None, "", 0
    while not summ and attempts < 3:       # the probe process sits at the kernel's mapping limit: it may die there
        attempts += 1
        try:
            summ, out = vlib.run_replay(["mirror", "-mode", "ctorfail", "-out", trace], timeout=300)
        except vlib.Inconclusive as e:
            summ, out = None, str(e)
    if not summ:
        ck.cov["ctor_failure_probe"] = {"status": "unavailable", "attempts": attempts, "detail": out[-600:]}
        return
    bads, r = vlib.validate_trace(sw, "MirrorMonTrace", "MirrorMonTrace.cfg", trace, timeout=300, parallel=1)
    ck.cov["ctor_failure_probe"] = dict(summ.get("notes") or {}, status="ran", attempts=attempts,
                                        calls=summ["scenarios"], rejected=len(bads))
    ck.cov["evaluations"] += summ["scenarios"]
    ck.cov["traces_validated_against_impl"] += summ["scenarios"] - len({b[0] for b in bads})
    for sid, i, key in bads:
        ck.report_bad(key, "constructor call %d of the failure-point probe left something behind (%s)" % (sid, label),
                      lambda sid=sid, i=i, key=key: {
                          "property": ck.pid, "component": "mirror", "rule": key, "step": i, "mode": "ctorfail",
                          "behaviour": [], "trace": vlib.read_scenario(trace, sid)})


def _req(size, cls):
    """requested size (units) of a request class; all of them round up to `size`"""
    return {0: size, 1: size - 1, 2: size - P + 1, 3: size - 2}[cls]


def run(ck):
    from concurrent.futures import ThreadPoolExecutor
    vlib.build_harness()
    sw = vlib.prep_spec("Mirror", ck.work)
    quick = ck.tier == "quick"
    ck.vpar = 4 if quick else 8
    ck.cov["rule"] = RULE
    ck.cov["probes"] = {}
    classes = collections.Counter()
    model_findings = {}
    jobs = []

    def cover(pages, page, cls, pf, allamts, jitter, tag):
        size = pages * page
        req = _req(size, cls) if page == P else size - cls
        consts = {"Page": page, "Req": req, "Pf": pf, "Few": 3 if page == P else (3 * page) // 4 - 1,
                  "AllAmounts": "TRUE" if allamts else "FALSE", "BUG_Mask": "FALSE", "MaxHist": 0}
        cfg = vlib.cfg_with(sw, "MirrorImpl_mc.cfg", consts)
        r = vlib.tlc(sw, "MirrorImpl", cfg, workers=1 if size * (30 if allamts else 1) < 200 else 2, timeout=2400)
        if not r.ok:
            raise vlib.Inconclusive("MirrorImpl %s: %s\n%s" % (consts, r.violated or r.error, r.tail()))
        ck.add_tlc("MirrorImpl transition cover", r, consts)
        for line in r.lines('<<"MODELBAD"'):
            model_findings.setdefault(line.split('"')[3], "BUG_Mask=FALSE %s" % consts)
        beh = os.path.join(ck.work, "cover_%s.jsonl" % tag)
        n = vlib.edges_to_file(r, beh)
        os.remove(r.outpath)
        if n == 0:
            raise vlib.Inconclusive("cover produced no histories\n" + r.tail())
        _edge_classes(beh, classes)
        label = "transition cover, %d pages, %d units/page, request %d, prefault %d%s" % (
            pages, page, req, pf, ", all amounts" if allamts else "")
        if jitter != "only":
            _validate(ck, sw, "cover_" + tag, beh, label, mode="fill")
        if jitter:
            _validate(ck, sw, "jit_" + tag, beh, label + ", amounts perturbed off the unit grid",
                      mode="jitter+fill", seed=ck.seed * 100000)
        os.remove(beh)

    def sim(k, pages, sub, pf, num, depth, page=4096):
        """seeded random histories: at byte scale (page = 4096, the seven amounts) or at unit scale (all amounts)"""
        size = pages * page
        consts = {"Page": page, "Req": size - sub, "Pf": pf, "Few": 3000 if page == 4096 else 3,
                  "AllAmounts": "FALSE" if page == 4096 else "TRUE", "BUG_Mask": "FALSE", "MaxHist": depth}
        cfg = vlib.cfg_with(sw, "MirrorImpl_sim.cfg", consts)
        r = vlib.tlc(sw, "MirrorImpl", cfg, workers=1, simulate=num, depth=depth + 2,
                     seed=ck.seed * 1000 + k, timeout=2400)
        if r.violated or (r.error and "timeout" in r.error):
            raise vlib.Inconclusive("MirrorImpl simulation %s: %s\n%s" % (consts, r.violated or r.error, r.tail()))
        ck.add_tlc("MirrorImpl random simulation (%s scale)" % ("byte" if page == 4096 else "unit"), r, consts,
                   exhaustive=False)
        beh = os.path.join(ck.work, "sim_%d.jsonl" % k)
        n = vlib.edges_to_file(r, beh)
        os.remove(r.outpath)
        if n == 0:
            raise vlib.Inconclusive("simulation produced no histories\n" + r.tail())
        _validate(ck, sw, "sim_%d" % k, beh, "random %s histories, %d pages, request %d, prefault %d" % (
            "byte-level" if page == 4096 else "unit-level (all amounts)", pages, size - sub, pf))
        os.remove(beh)

    def buggy(pages):
        """the model with the unrepaired arithmetic: shows that TLC finds the defect (model-only evidence)"""
        consts = {"Page": P, "Req": pages * P, "Pf": 0, "Few": 3, "AllAmounts": "FALSE", "BUG_Mask": "TRUE", "MaxHist": 0}
        cfg = vlib.cfg_with(sw, "MirrorImpl_strict.cfg", consts, drop=["INVARIANTS"], add=["INVARIANTS NotBad TypeOK"])
        r = vlib.tlc(sw, "MirrorImpl", cfg, workers=1, timeout=600)
        pow2 = pages & (pages - 1) == 0
        if r.error or (r.violated not in (None, "NotBad")):
            raise vlib.Inconclusive("MirrorImpl BUG_Mask %d pages: %s\n%s" % (pages, r.violated or r.error, r.tail()))
        ck.cov["tlc_runs"].append({"name": "MirrorImpl with BUG_Mask=TRUE (mutation evidence for the model)",
                                    "constants": consts, "distinct_states": r.distinct, "states_generated": r.generated,
                                    "depth": r.depth, "wall_s": round(r.wall, 1), "exhaustive": r.ok,
                                    "result": "NotBad violated" if r.violated else "ok"})
        if bool(r.violated) == pow2:
            ck.cov["impl_drift"].append({"run": "BUG_Mask model, %d pages" % pages,
                                         "note": "expected NotBad to be violated exactly for non-power-of-two page counts"})
        if r.violated:
            model_findings["C11/position/%d" % pages] = "BUG_Mask=TRUE, %d pages (model only)" % pages

    def ctorfail():
        """failure points of the constructor (own process: the probe sits at vm.max_map_count for a moment;
        if it cannot run, that is recorded and nothing else)"""
        _ctorfail(ck, sw)

    jobs.append((ctorfail, ()))

    def large():
        """Scripted: buffers of 2 MiB and more (huge-page territory), exact and rounded-up requests, with and
        without prefault: a short life (claims across the end of the ring, commits, consumes, Prefault) and
        Destroy with its census. The model covers up to 16 pages; the monitor does not depend on the size."""
        M = 1 << 20
        hs = []
        for req in (2 * M, 2 * M + 4096, 3 * M + 1, 8 * M) + (() if quick else (2 * M - 4096, 4 * M, 16 * M + 4096, 64 * M)):
            for pf in (0, 1):
                size = -(-req // 4096) * 4096
                h = [dict(ev="New", n=req, page=4096, pf=pf), dict(ev="Claim", n=3000), dict(ev="Commit", n=3000),
                     dict(ev="Claim", n=size - 4096), dict(ev="Commit", n=size - 4096), dict(ev="Consume", n=size - 5000),
                     dict(ev="Claim", n=8192), dict(ev="Commit", n=8192), dict(ev="Prefault", n=0), dict(ev="Consume", n=4096),
                     dict(ev="Claim", n=size + 1), dict(ev="Destroy", n=0)]
                hs.append(h)
        beh = os.path.join(ck.work, "beh_large.jsonl")
        with open(beh, "w") as f:
            for h in hs:
                f.write(json.dumps(h) + "\n")
        _validate(ck, sw, "large", beh, "scripted: buffers of 2 MiB and more, prefault on/off, Destroy census")

    jobs.append((large, ()))
    pages_list = [1, 2, 3, 4, 5, 6, 8]
    s = ck.seed
    if quick:
        # rounded-up request + prefault covers, replayed with perturbed amounts, on 4 of the 7 page counts
        # (rotating with the seed; always one power of two and two other counts)
        jit = {[1, 2, 4, 8][s % 4], [3, 5, 6][s % 3], [3, 5, 6][(s + 1) % 3], [2, 4, 8, 1][(s // 4) % 4]}
        for j, pg in enumerate(pages_list):
            # exact request, no prefault: replayed as generated (predictions compared)
            jobs.append((cover, (pg, P, 0, 0, False, False, "p%d_exact" % pg)))
            if pg in jit:
                jobs.append((cover, (pg, P, 1 + (s + j) % 3, 1, False, "only", "p%d_rnd" % pg)))
        subs = [1, 4095, 1000, 0, 2048, 4000, 96]
        for j, pg in enumerate(pages_list):
            jobs.append((sim, (j, pg, subs[(s + j) % len(subs)], (s + j) % 2, 300, 40)))
        # unit-scale random walks with all amounts (reach what shortest paths never do, e.g. Reset after commits)
        jobs.append((sim, (100, [3, 5, 6][s % 3], 0, 0, 300, 40, P)))
        jobs.append((sim, (101, [1, 2, 4, 8][s % 4], 1, 1, 300, 40, P)))
        jobs += [(buggy, (pg,)) for pg in (3, 4)]
    else:
        for j, pg in enumerate(pages_list + [7, 12, 16]):
            # up to 8 pages: all amounts 0..size+1, replayed as generated and with perturbed amounts;
            # 12 and 16 pages (long shortest paths, 10^5 histories each): the seven amounts, as generated
            jobs.append((cover, (pg, P, 0, 0, pg <= 8, pg <= 8, "p%d_exact" % pg)))
            if pg <= 8:
                cls = 1 + (s + j) % 3
                jobs.append((cover, (pg, P, cls, (s + j) % 2, False, False, "p%d_r%d" % (pg, cls))))
        for pg in (1, 2, 3):
            # finer unit: 16 units per page (256 bytes)
            jobs.append((cover, (pg, 16, 0, 1, False, True, "p%d_u16" % pg)))
            jobs.append((cover, (pg, 16, 5, 0, False, False, "p%d_u16r" % pg)))
        subs = [1, 4095, 1000, 0, 2048, 4000, 96, 3000, 7]
        k = 0
        for j, pg in enumerate(pages_list + [7, 12, 16]):
            for t in range(2):
                jobs.append((sim, (k, pg, subs[(s + j + 3 * t) % len(subs)], t, 3000, 80)))
                k += 1
        for j, pg in enumerate(pages_list + [7, 12, 16]):
            jobs.append((sim, (100 + j, pg, (s + j) % 3, (s + j) % 2, 2000, 80, P)))
        jobs += [(buggy, (pg,)) for pg in (1, 2, 3, 4, 5, 6, 7, 8, 12)]

    # additional evidence, never a verdict: Apalache proves the index machines' invariants inductive for
    # unbounded sizes and amounts (typed variants of MirrorImpl's and BipImpl's index machines)
    ajobs = apa.inductive(ck.work, os.path.join(vlib.VERIF, "spec", "Mirror", "apalache", "MirrorInd.tla")) + \
        apa.inductive(ck.work, os.path.join(vlib.VERIF, "spec", "Bip", "apalache", "BipInd.tla"),
                      extra=[("place: a commit lands where the claim was", ["--cinit=CInit", "--init=IndInit", "--inv=Placed", "--length=1"], "NoError")])
    with ThreadPoolExecutor(max_workers=4 if quick else 6) as ex, ThreadPoolExecutor(max_workers=2) as aex:
        afuts = [aex.submit(apa.check, *j) for j in ajobs]
        futs = [ex.submit(f, *a) for f, a in jobs]
        for f in futs:
            f.result()
        ck.cov["apalache"] = [f.result() for f in afuts]
    ck.cov["tlc_runs"].sort(key=lambda r: (r["name"], r["constants"].get("Page", 0), r["constants"].get("Req", 0)))
    ck.cov["model_findings"] = sorted("%s: %s" % kv for kv in model_findings.items())
    ck.cov["edge_classes"] = dict(sorted(classes.items()))
    ck.cov["edge_classes_never_generated"] = [c for c in ALL_CLASSES if classes.get(c, 0) == 0]
    ck.cov["exhaustive"] = True
    ck.assumptions += [
        "exhaustive configurations run at 4 (thorough: also 16) units per page; a unit is 4096/Page bytes; the byte machine restricted to multiples of that unit is exactly the scaled unit machine (mask and modulo arithmetic commute with multiplication by a power of two)",
        "cover histories are replayed in the driver's fill mode: a Commit(n) not directly preceded by a Claim of at least n gets a Claim(n) inserted (Claim leaves the buffer state unchanged), so that every committed byte carries a token and the content rule is not vacuous; random histories are replayed exactly as generated (including commits of bytes never claimed)",
        "amounts off the unit grid are covered by driver-side perturbation of the generated amounts (no model prediction; the scale-free monitor judges) and by random histories generated at byte scale",
        "memory contents are not part of the model; on recorded traces every claimed byte is tagged with its stream index modulo 251 and the ring is projected to runs of successive tokens",
        "claim offsets are pointer differences against the first claim (of Size() bytes, not committed) on the fresh buffer",
        "mappings are attributed to a buffer by the name of its backing file in /proc/self/maps",
        "constructor failure points are provoked by bringing the process to vm.max_map_count with single-page mappings; which point a call hits depends on VMA merging; leftovers are attributed by file name, anonymous ones only for buffers of >= 3 pages",
        "coverage.apalache (inductive invariants of typed index machines for unbounded sizes) is additional evidence only; its outcome never enters the verdict",
    ]


def replay(ck, path):
    vlib.build_harness()
    sw = vlib.prep_spec("Mirror", ck.work)
    ck.cov["probes"] = {}
    obj = json.load(open(path))
    if obj.get("mode") == "ctorfail":
        _ctorfail(ck, sw)
        return
    beh = os.path.join(ck.work, "replay.jsonl")
    with open(beh, "w") as f:
        f.write(json.dumps(obj["behaviour"]) + "\n")
    _validate(ck, sw, "replay", beh, "replay of " + os.path.basename(path), mode=obj.get("mode", ""),
              seed=obj.get("seed", 1))
