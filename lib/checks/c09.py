"""C09 ByteBuffer: exhaustive ByteBufferImpl (indices + token array + Go append growth)
composed with the ByteBufferMon monitor; transition cover + random long histories
replayed into the real sonic.ByteBuffer at two scales (K = 1 byte-exact on the
zero-value buffer whose capacity starts at 0, K = 200 on NewByteBuffer so growth
reallocates across the initial 512 bytes); recorded traces validated by TLC."""
import json, os
import vlib

HEAP = {"JAVA_TOOL_OPTIONS": "-Xmx6g"}     # many JVMs run side by side; the default cap is 1/4 of the RAM each

LEVEL = "model_checking"

MANIFEST = dict(
   engine="tlc-bytebuffer", path="spec/ByteBuffer",
   technique="TLA+ monitor + implementation model checked exhaustively by TLC; TLC-generated transition cover and random histories replayed into the real ByteBuffer; recorded traces validated by TLC against the monitor",
   text="Exhaustive TLC check of ByteBufferImpl (si/ri/wi, capacity with the Go runtime's append growth, backing array as tokens, the caller's slot bookkeeping) composed with the property monitor ByteBufferMon (three token FIFOs + held slots) over the whole public API (Write/WriteString/WriteByte, Reserve, Commit, Consume, Save, Discard of held slots and of arbitrary {Index,Length} pairs, DiscardAll, Reset, Prefault, Read, ReadByte, UnreadByte, ReadFrom/AsyncReadFrom with scripted readers, WriteTo/AsyncWriteTo with scripted writers, PrepareRead, Claim, ClaimFixed, ShrinkBy, ShrinkTo) with argument classes {-1, 0, 1, 2, available, available+1, MaxInt, MinInt}, for a bounded number of tokens ever written and unbounded history length. Every transition of the state graph is replayed on the real sonic.ByteBuffer (shortest path + edge) at K=1 (zero-value buffer, capacities 0/8/16/...) and K=200 (NewByteBuffer, reallocation across 512 bytes) and the recorded trace - results, panics, Saved(), Data(), the write area, SavedSlot of every held slot and all length getters after every call - is validated by TLC against the monitor; seeded random long histories with more tokens are added. Verdicts come only from recorded real-code traces.",
   note="Trusted: TLC, the Go replay driver (block generator/projection, scripted io.Reader/io.Writer/AsyncReader/AsyncWriter, passive re-slice of Data() to see the write area), JSON trace I/O. Token counts above the tier's bound are covered by random histories only; Cap() growth is not constrained; Reserve(math.MaxInt) panics in makeslice and is a recorded known finding.",
   design_ref="5/C09")

BUGS = ["BUG_CommitOvf", "BUG_ClaimOvf", "BUG_ReserveMin", "BUG_DiscardOOB", "BUG_ReadEOF",
        "BUG_PrepareReadMin", "BUG_Prefault"]

SCALES = {   # name -> K, Cap0, MaxCap
    "k1zero": (1, 0, 32),
    "k200new": (200, 512, 2048),
    "k1new": (1, 512, 640),
}


def consts(scale, maxw, maxhist=0, arb=True, bugs=False):
    k, cap0, maxcap = SCALES[scale]
    c = {"K": k, "Cap0": cap0, "MaxW": maxw, "MaxCap": maxcap, "MaxHist": maxhist,
         "ArbOn": "TRUE" if arb else "FALSE", "KNOWN_ReserveHuge": "TRUE"}
    for b in BUGS:
        c[b] = "TRUE" if bugs else "FALSE"
    return c


def _validate(ck, sw, name, beh, label):
    trace = os.path.join(ck.work, "trace_%s.ndjson" % name)
    summ, _ = vlib.run_replay(["bytebuf", "-in", beh, "-out", trace])
    bads, r = vlib.validate_trace(sw, "ByteBufferMonTrace", "ByteBufferMonTrace.cfg", trace,
                                  parallel=ck.par, extra_env=HEAP)
    ck.cov["evaluations"] += summ["scenarios"]
    ck.cov["distinct_nontrivial"] += summ["nontrivial"]
    ck.cov["traces_validated_against_impl"] += summ["scenarios"] - len({b[0] for b in bads})
    ck.cov.setdefault("events_validated", 0)
    ck.cov["events_validated"] += summ["events"]
    if summ["drift"]:
        ck.cov["impl_drift"].append({"run": label, "steps_differing_from_model": summ["drift"],
                                     "first": summ.get("first_drift")})
    if summ.get("notes"):
        ck.cov.setdefault("panics_recorded", {}).update(summ["notes"].get("panics", {}))
    for sid, i, key in bads:
        if "/harness/" in key:
            # the driver issued something the monitor cannot interpret: tool trouble, never a verdict
            if len(ck.inconclusive) < 5:
                ck.inconclusive.append("%s at step %d of scenario %d (%s)" % (key, i, sid, label))
            continue
        ck.report_bad(key, "ByteBuffer trace rejected at step %d of scenario %d (%s)" % (i, sid, label),
                      lambda sid=sid, i=i, key=key: {
                          "property": ck.pid, "component": "bytebuf", "rule": key, "step": i,
                          "behaviour": json.loads(vlib.nth_line(beh, sid)),
                          "trace": vlib.read_scenario(trace, sid)})
    if len(ck.cov["samples"]) < 2:
        sid = max(1, summ["scenarios"] // 2)
        ck.sample({"run": label, "behaviour": json.loads(vlib.nth_line(beh, sid)),
                   "trace_excerpt": vlib.read_scenario(trace, sid)[:5]})
    return bads


def run(ck):
    from concurrent.futures import ThreadPoolExecutor
    vlib.build_harness()
    sw = vlib.prep_spec("ByteBuffer", ck.work)
    quick = ck.tier == "quick"
    ck.par = 6 if quick else 12
    ck.cov["rule"] = ("histories = every transition of the exhaustive ByteBufferImpl state graph (shortest path + edge) per scale, "
                      "plus seeded random histories; non-trivial = the history performs a memmove (Consume/Discard/Read/WriteTo) "
                      "while all three regions hold bytes, or reallocates while the buffer holds bytes")
    model_findings = set()

    def strict(scale, maxw, coverage=False):
        c = consts(scale, maxw)
        cfg = vlib.cfg_with(sw, "ByteBufferImpl_strict.cfg", c)
        # -coverage slows TLC several times: it is used on a small bound only (vacuity control)
        r = vlib.tlc(sw, "ByteBufferImpl", cfg, env=HEAP, workers=4, timeout=2400, extra=(["-coverage", "1"] if coverage else []))
        ck.add_tlc("ByteBufferImpl exhaustive (invariants incl. monitor clean but for the known finding)"
                   + (", with coverage" if coverage else ""), r, c)
        if coverage:
            zero = [l.strip() for l in r.lines("  ") if l.rstrip().endswith(": 0")] + \
                   [l.strip() for l in r.lines("<") if l.rstrip().endswith(": 0:0")]
            ck.cov["tlc_coverage_zero_count"] = zero[:60]
        if not r.ok:
            # a model-only finding is not a verdict on the code
            ck.cov["model_findings"].append("strict %s MaxW=%d: %s" % (scale, maxw, r.violated or r.error))
            if not r.violated:
                raise vlib.Inconclusive("ByteBufferImpl %s: %s\n%s" % (scale, r.error, r.tail()))

    def cover(scale, maxw, arb=True):
        c = consts(scale, maxw, arb=arb)
        cfg = vlib.cfg_with(sw, "ByteBufferImpl_mc.cfg", c)
        r = vlib.tlc(sw, "ByteBufferImpl", cfg, env=HEAP, workers=4, timeout=1500)
        if not r.ok:
            raise vlib.Inconclusive("ByteBufferImpl cover %s: %s\n%s" % (scale, r.violated or r.error, r.tail()))
        ck.add_tlc("ByteBufferImpl transition cover", r, c)
        for line in r.lines('<<"MODELBAD"'):
            model_findings.add(line.split('"')[3])
        name = "cover_%s_%d" % (scale, maxw)
        beh = os.path.join(ck.work, name + ".jsonl")
        n = vlib.edges_to_file(r, beh)
        if n != r.generated - 1:
            raise vlib.Inconclusive("cover %s: %d edges extracted, %d transitions generated" % (scale, n, r.generated - 1))
        os.remove(r.outpath)
        _validate(ck, sw, name, beh, "transition cover, %s, %d tokens" % (scale, maxw))

    def sim(k, scale, maxw, num, hist):
        c = consts(scale, maxw, maxhist=hist)
        cfg = vlib.cfg_with(sw, "ByteBufferImpl_sim.cfg", c)
        nw = 1 if quick else 4      # one weighted random action per step (SimStep); the seed fixes the histories per worker count
        r = vlib.tlc(sw, "ByteBufferImpl", cfg, env=HEAP, workers=nw, simulate=num, depth=hist + 2,
                     seed=ck.seed * 1000 + k, timeout=2700)
        if r.violated or r.error:
            raise vlib.Inconclusive("ByteBufferImpl simulation %s: %s\n%s" % (scale, r.violated or r.error, r.tail()))
        ck.add_tlc("ByteBufferImpl random simulation", r, c, exhaustive=False)
        name = "sim_%s_%d" % (scale, k)
        beh = os.path.join(ck.work, name + ".jsonl")
        n = vlib.edges_to_file(r, beh)
        if n == 0:
            raise vlib.Inconclusive("simulation produced no histories\n" + r.tail())
        os.remove(r.outpath)
        _validate(ck, sw, name, beh, "random histories, %s, %d tokens, %d steps" % (scale, maxw, hist))

    if quick:
        # the cover runs are the exhaustive runs of this tier (invariants checked, monitor rejections listed)
        jobs = [(cover, ("k1zero", 4)), (cover, ("k200new", 3)),
                (sim, (1, "k1zero", 16, 400, 50)), (sim, (2, "k200new", 10, 300, 50)),
                (sim, (3, "k1new", 16, 200, 50))]
    else:
        jobs = [(strict, ("k1zero", 7)), (strict, ("k200new", 6)), (strict, ("k1new", 5)), (strict, ("k1zero", 4, True)),
                (cover, ("k1zero", 5)), (cover, ("k200new", 4)), (cover, ("k1new", 3, False)),
                (sim, (1, "k1zero", 24, 6000, 80)), (sim, (2, "k200new", 14, 4000, 80)),
                (sim, (3, "k1new", 24, 2000, 80)), (sim, (4, "k1zero", 10, 3000, 30))]
    with ThreadPoolExecutor(max_workers=3 if quick else 4) as ex:
        futs = [ex.submit(f, *a) for f, a in jobs]
        for f in futs:
            f.result()
    ck.cov["tlc_runs"].sort(key=lambda r: (r["name"], r["constants"].get("K", 0), r["constants"].get("MaxW", 0)))
    ck.cov["model_findings"] = sorted(set(ck.cov["model_findings"]) | model_findings)
    ck.cov["exhaustive"] = True
    ck.assumptions += [
        "one token stands for K real bytes produced by a position-tagged generator; the projection maps any block that is not an intact generator block to -1",
        "the write area is observed by re-slicing Data() up to its capacity (no getter exists); this is a passive read",
        "the K = 1 scale uses the zero value of ByteBuffer (capacity 0, then 8, 16, ...) so that the capacity limits are reached with a few bytes; NewByteBuffer is used at K = 200 and in the k1new runs",
        "argument classes: NEG=-1, ZERO, ONE=K, TWO=2K, AVAIL, AVAIL1=available+1 (real byte), HUGE=math.MaxInt, MINHUGE=math.MinInt; claims/Reserve use RES=Reserved (largest multiple of K), RES1=Reserved+1",
        "scripted readers/writers follow the io contracts except for short writes without error, which the code loops on"]


def replay(ck, path):
    vlib.build_harness()
    sw = vlib.prep_spec("ByteBuffer", ck.work)
    ck.par = 1
    obj = json.load(open(path))
    beh = os.path.join(ck.work, "replay.jsonl")
    with open(beh, "w") as f:
        f.write(json.dumps(obj["behaviour"]) + "\n")
    _validate(ck, sw, "replay", beh, "replay of " + os.path.basename(path))
