"""C13 descriptors: no leaks, no foreign close, owners of in-flight operations
stay alive.  Fault enumeration with the FdTable TLA+ model as generator and
oracle: TLC enumerates every failure point of every constructor, every
interleaving of repeated Close with the creation of other objects and every
park / complete / drop-references / collect history within the bound; every
generated script is executed against the real sonic code with the failure
injected from outside (refused / unreachable peers, bind conflicts, invalid
options and addresses, misbehaving WebSocket servers, RLIMIT_NOFILE lowered to
exhaust the table at the k-th allocation); the descriptor census recorded
around every step is judged by TLC against the FdMon monitor."""
import json, os, re
import vlib

LEVEL = "fault_enumeration"

MANIFEST = dict(
    engine="tlc-fdtable", path="spec/FdTable",
    technique="TLA+ descriptor-table model (FdTableImpl) enumerated exhaustively by TLC as generator of fault scripts; scripts executed on the real code with external failure injection and /proc/self/fd census; recorded traces judged by TLC against the FdMon monitor",
    text="Every constructor (NewIO, NewTimer, Dial tcp/udp, Listen, accept, NewPacketConn, NewUDPPeer, Open, NewMirroredBuffer, NewAsyncAdapter, websocket Handshake/AsyncHandshake) is run once per injectable failure point (bad address, failing option, bind conflict / unavailable address, refused, unreachable, would-block, server that closes / truncates at byte k / answers wrongly) and once per allocation index k with RLIMIT_NOFILE lowered so that the k-th allocation fails (plus the control k = number of allocations); repeated Close / Cancel+Close / net.Conn.Close is interleaved with the creation of other objects and harness descriptors for all histories of the TLC state graph (2 objects quick, 3 thorough); in-flight reads/writes are parked on real sockets, references dropped, the collector run three times and a sentinel captured only by the pending callback tells whether the owner was collected, then the completion is provoked. The collection, repeated-Close and constructor scenarios are executed a second time by a driver process that has first occupied every descriptor number below 4096 with placeholders, so that every object is kept in the map half of the IO registry (numbers >= 4096) instead of the array half, and once across the boundary; a ghost in the model state (by which code path the registry entry survived) makes the cover continue behind every such path. The census before/after each step (with fcntl probes of foreign descriptors) is validated by TLC against the monitor; verdicts come only from recorded real-code traces.",
    note="Failure points that cannot be provoked from outside (setnonblock, getsockname, epoll_ctl, setsockopt on a fresh socket) are explored in the model only and reported as model_findings. Trusted: TLC, the Go driver (census, injection, finalizer sentinel + canary), the kernel's lowest-free allocation. Exhaustion is injected in-process by RLIMIT_NOFILE after plugging holes.",
    design_ref="5/C13")

ALL_KINDS = ["io", "timer", "tcp", "udp", "lst", "acc", "pkt", "peer", "file", "mir", "adp", "ws", "wsa"]

# what the code at the pinned commit does (TRUE = defect present); flipped to
# FALSE as the repository gets repaired
BUGS = dict(
    BUG_ConnectLeak="FALSE", BUG_PacketBindLeak="FALSE", BUG_PeerLeak="FALSE", BUG_WsLeak="FALSE",
    BUG_ListenerNoGuard="FALSE", BUG_PacketNoGuard="FALSE", BUG_TimerRevive="FALSE",
    BUG_AdapterRawClose="FALSE", BUG_EarlyDeregister="FALSE", BUG_CloseKeepsFd="FALSE", BUG_RepeatRearmsClosed="FALSE", BUG_WsResetLeak="FALSE", BUG_ForeignDeregister="FALSE",
    BUG_SocketNonblockLeak="TRUE", BUG_AcceptLeak="TRUE")

BEFORE_REPAIR = {k: "TRUE" for k in BUGS}

EDGE = "high=4090"    # driver mode: placeholders below 4090 (a scenario's own IO and listener take 4090..4094)


def kinds(ks):
    return "{" + ", ".join('"%s"' % k for k in ks) + "}"


def configs(tier, seed=1):
    import random
    q = tier == "quick"
    cs = []
    rnd = random.Random(seed)
    cuts = sorted({1, 128} | {rnd.randrange(2, 128) for _ in range(3)})   # quick: the seed picks where the server cuts its response
    cs.append(("ctor", dict(MaxObj=1, MaxOps=3, MaxClose=2, MaxPlug=0, Kinds=kinds(ALL_KINDS), WithFail="TRUE",
                            WithUninj="FALSE", WithGc="FALSE", WithRehs="TRUE",
                            TruncK="{" + ", ".join(map(str, cuts)) + "}" if q else "{" + ", ".join(str(k) for k in range(1, 129)) + "}"), 2))
    # quick: one representative of the kinds that share file.Close (udp, acc, file behave like tcp here; all 13 in the thorough tier)
    cs.append(("close", dict(MaxObj=2, MaxOps=5 if q else 7, MaxClose=2 if q else 3, MaxPlug=1,
                             Kinds=kinds([k for k in ALL_KINDS if k not in ("udp", "acc", "file")] if q else ALL_KINDS), WithFail="FALSE",
                             WithUninj="FALSE", WithGc="FALSE", WithRehs="FALSE", TruncK="{1}"), 4))
    cs.append(("gc", dict(MaxObj=1, MaxOps=6 if q else 8, MaxClose=1, MaxPlug=0, Kinds=kinds(ALL_KINDS), WithFail="FALSE",
                          WithUninj="FALSE", WithGc="TRUE", WithRehs="FALSE", TruncK="{1}"), 2))
    cs.append(("gc2", dict(MaxObj=2, MaxOps=6, MaxClose=2, MaxPlug=0,
                           Kinds=kinds(["tcp", "adp"] if q else ["tcp", "acc", "lst", "pkt", "adp", "timer"]),
                           WithFail="FALSE", WithUninj="FALSE", WithGc="TRUE", WithRehs="FALSE", TruncK="{1}"), 4))
    # The registry of owners of in-flight operations (IO.pending) is an array for descriptor numbers below 4096 and a map
    # from there on: the same scenario classes again in a driver process that has occupied every number below 4096
    # (-mode high), so that every object goes through the map. Dial (tcp) waits with select(2) and cannot be used with
    # such numbers: the accepted connection (same file type) stands in for it.
    hi = lambda ks: kinds([("acc" if k == "tcp" else k) for k in ks if not (k == "acc" and "tcp" in ks)])
    cs.append(("gc@hi", dict(MaxObj=1, MaxOps=6 if q else 8, MaxClose=1, MaxPlug=0, Kinds=hi(ALL_KINDS), WithFail="FALSE",
                             WithUninj="FALSE", WithGc="TRUE", WithRehs="FALSE", TruncK="{1}"), 2))
    cs.append(("gc2@hi", dict(MaxObj=2, MaxOps=6, MaxClose=2, MaxPlug=0,
                              Kinds=kinds(["acc", "adp"] if q else ["acc", "lst", "pkt", "adp", "timer"]),
                              WithFail="FALSE", WithUninj="FALSE", WithGc="TRUE", WithRehs="FALSE", TruncK="{1}"), 4))
    cs.append(("close@hi", dict(MaxObj=2, MaxOps=5 if q else 6, MaxClose=2, MaxPlug=1,
                                Kinds=hi([k for k in ALL_KINDS if k not in ("udp", "acc", "file")] if q else ALL_KINDS), WithFail="FALSE",
                                WithUninj="FALSE", WithGc="FALSE", WithRehs="FALSE", TruncK="{1}"), 4))
    cs.append(("ctor@hi", dict(MaxObj=1, MaxOps=3, MaxClose=2, MaxPlug=0, Kinds=hi(ALL_KINDS), WithFail="TRUE",
                               WithUninj="FALSE", WithGc="FALSE", WithRehs="TRUE",
                               TruncK="{" + ", ".join(map(str, cuts if q else (1, 60, 128))) + "}"), 2))
    # the IO context is closed before its objects; the harness takes the released number; Close again
    cs.append(("ioclose", dict(MaxObj=1, MaxOps=6, MaxClose=2, MaxPlug=1, Kinds=kinds(["tcp", "file"] if q else ["tcp", "acc", "file", "pkt", "lst"]),
                               WithFail="FALSE", WithUninj="FALSE", WithGc="TRUE", WithRehs="FALSE", TruncK="{1}"), 1))
    if not q:
        cs.append(("close3", dict(MaxObj=3, MaxOps=6, MaxClose=2, MaxPlug=1,
                                  Kinds=kinds(["timer", "tcp", "lst", "adp", "ws"]), WithFail="FALSE",
                                  WithUninj="FALSE", WithGc="FALSE", WithRehs="TRUE", TruncK="{1}"), 6))
        cs.append(("ctor2", dict(MaxObj=2, MaxOps=3, MaxClose=1, MaxPlug=0, Kinds=kinds(ALL_KINDS), WithFail="TRUE",
                                 WithUninj="FALSE", WithGc="FALSE", WithRehs="TRUE", TruncK="{60}"), 4))
    return cs


def _validate(ck, sw, name, beh, label, mode=""):
    trace = os.path.join(ck.work, "trace_%s.ndjson" % name)
    args = ["fd", "-in", beh, "-out", trace]
    if mode:
        args += ["-mode", mode]
    summ, _ = vlib.run_replay(args, timeout=1500, env={"VERIF_WORK": ck.work})
    if summ is None:
        raise vlib.Inconclusive("replay %s printed no summary" % name)
    bads, _ = vlib.validate_trace(sw, "FdMonTrace", "FdMonTrace.cfg", trace, parallel=8)
    return summ, bads, trace


MODELBAD_RE = re.compile(r'^<<"MODELBAD", "([^"]*)", (".*")>>\s*$')


def _judge(ck, sw, name, beh, label, drift=True, mode=""):
    summ, bads, trace = _validate(ck, sw, name, beh, label, mode=mode)
    rp = ck.cov.setdefault("objects_by_registry_path", {"static_array_fd_below_4096": 0, "dynamic_map_fd_4096_and_up": 0})
    rp["static_array_fd_below_4096"] += summ["notes"].get("objects_in_static_registry_range", 0)
    rp["dynamic_map_fd_4096_and_up"] += summ["notes"].get("objects_in_dynamic_registry_range", 0)
    if mode == EDGE:
        ck.cov["scenarios_with_descriptors_on_both_sides_of_4096"] = ck.cov.get("scenarios_with_descriptors_on_both_sides_of_4096", 0) + summ["scenarios"]
        if not (summ["notes"].get("objects_in_static_registry_range", 0) and summ["notes"].get("objects_in_dynamic_registry_range", 0)):
            raise vlib.Inconclusive("%s: the boundary mode did not put objects on both sides of 4096: %s" % (name, summ["notes"]))
    if mode == "high":
        ck.cov["scenarios_with_every_descriptor_from_4096"] = ck.cov.get("scenarios_with_every_descriptor_from_4096", 0) + summ["scenarios"]
        if summ["notes"].get("objects_in_static_registry_range", 0) or summ["notes"].get("census_from") != 4096 or \
                (summ["scenarios"] > 20 and not summ["notes"].get("objects_in_dynamic_registry_range", 0)):
            raise vlib.Inconclusive("%s: the high-descriptor mode did not put every object at 4096 or above: %s" % (name, summ["notes"]))
    ck.cov["evaluations"] += summ["scenarios"]
    ck._keys.update(summ["notes"]["keys"])
    ck.cov["traces_validated_against_impl"] += summ["scenarios"] - len({b[0] for b in bads})
    if summ["drift"] and drift:   # (regression scripts carry the predictions of the pre-repair model)
        ck.cov["impl_drift"].append({"run": label, "steps_differing_from_model": summ["drift"],
                                     "first": summ.get("first_drift")})
    for sid, i, key in bads:
        script = json.loads(vlib.nth_line(beh, sid))
        if key.startswith("C13/completion-lost/") and not _recurs(ck, sw, script, key, mode):
            ck.inconclusive.append("completion not seen within the budget once, but not on re-execution: %s %s" % (key, json.dumps(script)))
            continue
        ck.report_bad(key, "descriptor trace rejected at step %d of scenario %d (%s)" % (i, sid, label),
                      lambda sid=sid, i=i, key=key, script=script: {
                          "property": ck.pid, "component": "fd", "rule": key, "step": i, "mode": mode,
                          "behaviour": script, "trace": vlib.read_scenario(trace, sid)})
    if len(ck.cov["samples"]) < 6 and summ["scenarios"]:
        sid = max(1, (summ["scenarios"] * 2) // 3)
        ck.sample({"run": label, "behaviour": json.loads(vlib.nth_line(beh, sid)),
                   "trace_excerpt": vlib.read_scenario(trace, sid)[:8]})
    return bads


def _recurs(ck, sw, script, key, mode=""):
    """A 'did not happen within the budget' observation counts only if it
    recurs three times with a four-fold budget."""
    beh = os.path.join(ck.work, "again_%d.jsonl" % len(ck.cov["impl_drift"]))
    with open(beh, "w") as f:
        for _ in range(3):
            f.write(json.dumps(script) + "\n")
    summ, bads, _ = _validate(ck, sw, "again", beh, "re-execution", mode="patient" + ("," + mode if mode else ""))
    return len({b[0] for b in bads if b[2] == key}) == 3


def run(ck):
    from concurrent.futures import ThreadPoolExecutor
    vlib.build_harness()
    sw = vlib.prep_spec("FdTable", ck.work)
    ck._keys = set()
    ck.cov["rule"] = (
        "cases = every transition of the exhaustive FdTableImpl state graphs (shortest script + edge): constructor x failure point "
        "(named failure or descriptor exhaustion at allocation k), repeated Close x interleaved creation, park/fire/drop/collect histories; "
        "each executed once on the real code. distinct_nontrivial = number of distinct keys for which the fault really happened on the real code: "
        "ctor:<kind>:<failpoint>:<k> (constructor returned an error at the injected point), reuse:<object kinds and closed marks> "
        "(a repeated closing call ran while the kernel had re-issued the object's old number to another owner), "
        "gc:<kind>:<dropped dir>:<parked dirs> (references dropped and collector run while that operation was really parked)")
    model_findings = set()

    def one(cfg):
        name, consts, workers = cfg
        consts = dict(consts)
        consts.update(BUGS)
        c = vlib.cfg_with(sw, "FdTableImpl_mc.cfg", consts, outname="gen_%s.cfg" % name.replace("@", "_"))
        r = vlib.tlc(sw, "FdTableImpl", c, workers=workers, timeout=1500)
        if not r.ok:
            raise vlib.Inconclusive("FdTableImpl %s: %s\n%s" % (name, r.violated or r.error, r.tail()))
        ck.add_tlc("FdTableImpl " + name, r, consts)
        for line in r.lines('<<"MODELBAD"'):
            model_findings.add(line.split('"')[3])
        beh = os.path.join(ck.work, "beh_%s.jsonl" % name.replace("@", "_"))
        n = vlib.edges_to_file(r, beh)
        if n == 0:
            raise vlib.Inconclusive("no scripts generated by " + name)
        _judge(ck, sw, name.replace("@", "_"), beh, "%s: %d scripts%s" % (name, n, ", every descriptor of the scenario numbered 4096 or higher" if name.endswith("@hi") else ""),
               mode="high" if name.endswith("@hi") else "")
        if name == "gc2@hi":
            # and once across the boundary: placeholders up to 4089 only, so that the first object of a scenario is kept in
            # the array and the second one in the map (or one object's two descriptors straddle 4096)
            _judge(ck, sw, "gc2_edge", beh, "gc2@edge: %d scripts, descriptors of the scenario numbered from 4090 (objects on both sides of 4096)" % n,
                   mode=EDGE)

    def model_only():
        # failure points nobody can inject from outside: what the model says about them
        consts = dict(MaxObj=1, MaxOps=2, MaxClose=1, MaxPlug=0, Kinds=kinds(ALL_KINDS), WithFail="TRUE", WithUninj="TRUE",
                      WithGc="FALSE", WithRehs="FALSE", TruncK="{1}")
        consts.update(BUGS)
        c = vlib.cfg_with(sw, "FdTableImpl_mc.cfg", consts, outname="gen_uninj.cfg")
        r = vlib.tlc(sw, "FdTableImpl", c, workers=1, timeout=600)
        if not r.ok:
            raise vlib.Inconclusive("FdTableImpl uninjectable: %s\n%s" % (r.violated or r.error, r.tail()))
        ck.add_tlc("FdTableImpl all failure points incl. not injectable (model only)", r, consts)
        found = sorted({line.split('"')[3] for line in r.lines('<<"MODELBAD"')})
        ck._uninj = found
        # the design before the repairs: the model must show each defect (mutation evidence for the model)
        reached = set()
        for idx, (nm, consts2) in enumerate((
                ("one object: failure points, second handshake, in-flight operations",
                 dict(MaxObj=1, MaxOps=5, MaxClose=2, MaxPlug=0, Kinds=kinds(ALL_KINDS), WithFail="TRUE", WithUninj="FALSE",
                      WithGc="TRUE", WithRehs="TRUE", TruncK="{1}")),
                ("two objects: repeated closing calls, stale deregistration",
                 dict(MaxObj=2, MaxOps=6, MaxClose=2, MaxPlug=1,
                      Kinds=kinds(["timer", "lst", "adp", "ws"] if ck.tier == "quick" else ["timer", "tcp", "lst", "pkt", "adp", "ws"]),
                      WithFail="FALSE", WithUninj="FALSE", WithGc="TRUE", WithRehs="FALSE", TruncK="{1}")),
                ("registry defects only, two objects: stale deregistration, early deregistration",
                 dict(MaxObj=2, MaxOps=6, MaxClose=2, MaxPlug=0,
                      Kinds=kinds(["tcp", "lst", "adp"] if ck.tier == "quick" else ["tcp", "acc", "lst", "pkt", "adp", "ws"]),
                      WithFail="FALSE", WithUninj="FALSE", WithGc="TRUE", WithRehs="FALSE", TruncK="{1}")))):
            consts2 = dict(consts2)
            consts2.update(BEFORE_REPAIR)
            if nm.startswith("registry"):
                # only the registry defects switched on: with everything on, the stale Close of an adapter is already
                # rejected as a foreign close and the history never gets as far as the collection
                consts2.update(BUGS)
                consts2.update(BUG_ForeignDeregister="TRUE", BUG_EarlyDeregister="TRUE", BUG_CloseKeepsFd="TRUE")
            c2 = vlib.cfg_with(sw, "FdTableImpl_mc.cfg", consts2, outname="gen_before_%d.cfg" % idx, drop=["ACTION_CONSTRAINT"],
                               add=["ACTION_CONSTRAINT EmitBad"])
            r2 = vlib.tlc(sw, "FdTableImpl", c2, workers=2, timeout=900)
            if not r2.ok:
                raise vlib.Inconclusive("FdTableImpl before-repair: %s\n%s" % (r2.violated or r2.error, r2.tail()))
            ck.add_tlc("FdTableImpl with BUG_* = TRUE (design before the repairs), " + nm, r2, consts2)
            reached |= {line.split('"')[3] for line in r2.lines('<<"MODELBAD"')}
            # every history the pre-repair model rejects is a regression script for the real code: in the repaired
            # model many of them end in states that coincide with harmless ones (VIEW), so the transition cover of the
            # repaired model need not contain them
            beh = os.path.join(ck.work, "beh_regress_%d.jsonl" % idx)
            seen = set()
            with open(beh, "w") as f:
                for line in r2.lines('<<"MODELBAD"'):
                    m = MODELBAD_RE.match(line)
                    if m:
                        script = json.loads(m.group(2))
                        if script not in seen:
                            seen.add(script)
                            f.write(script + "\n")
            if seen:
                _judge(ck, sw, "regress_%d" % idx, beh, "regression scripts (histories the pre-repair model rejects), %s: %d scripts" % (nm.split(":")[0], len(seen)),
                       drift=False)
                # the same with every descriptor at 4096 or above (scripts that dial are left out: select(2))
                behh = os.path.join(ck.work, "beh_regress_%d_hi.jsonl" % idx)
                nh = 0
                with open(behh, "w") as f:
                    for script in sorted(seen):
                        if not any(c.get("kind") == "tcp" for c in json.loads(script)):
                            f.write(script + "\n")
                            nh += 1
                if nh:
                    _judge(ck, sw, "regress_%d_hi" % idx, behh, "regression scripts, %s, every descriptor numbered 4096 or higher: %d scripts" % (nm.split(":")[0], nh),
                           drift=False, mode="high")
        ck.cov["model_rules_reached_before_repair"] = sorted(reached)

    def packet_options():
        """Scripted: NewPacketConn with options that cannot be applied to a UDP socket. The constructor of this tree
        ignores its options (and succeeds); a constructor that applies them and fails must give the socket back.
        Either outcome is judged by the monitor from the census; the expectation in the script is this tree's."""
        beh = os.path.join(ck.work, "beh_pktopt.jsonl")
        with open(beh, "w") as f:
            for fail in ("opt", "opt2", "optbind"):
                for rep in (1, 2):
                    script = []
                    for k in range(rep):
                        script += [dict(op="Make", obj=k + 1, kind="pkt", fail=fail, xok=1, xnew=1)]
                    for k in range(rep):
                        script += [dict(op="Close", obj=k + 1, kind="pkt", xlost=1)]
                    f.write(json.dumps(script) + "\n")
        _judge(ck, sw, "pktopt", beh, "scripted: NewPacketConn with options that cannot be applied: 6 scripts", drift=False)

    cs = configs(ck.tier, ck.seed)
    with ThreadPoolExecutor(max_workers=6) as ex:
        futs = [ex.submit(one, c) for c in cs] + [ex.submit(model_only), ex.submit(packet_options)]
        for f in futs:
            f.result()
    ck.cov["tlc_runs"].sort(key=lambda r: r["name"])
    ck.cov["model_findings"] = sorted(model_findings)
    ck.cov["model_only_findings_uninjectable"] = [k for k in getattr(ck, "_uninj", []) if k not in model_findings]
    ck.cov["distinct_nontrivial"] = len(ck._keys)
    ck.cov["nontrivial_by_class"] = {p: len([k for k in ck._keys if k.startswith(p + ":")]) for p in ("ctor", "rehandshake", "reuse", "gc")}
    ck.cov["exhaustive"] = True
    ck.assumptions += [
        "the kernel hands out the lowest free descriptor number (the harness plugs holes with /dev/null before lowering RLIMIT_NOFILE)",
        "after warm-up the Go runtime opens no descriptors of its own (checked: the census returns to the scenario's baseline after every scenario, else exit 2)",
        "a sentinel object captured only by the pending callback is finalized iff the owner of the operation became unreachable; a canary finalizer proves the finalizer queue was processed",
        "failure points that cannot be provoked from outside are explored in the model only (model_only_findings_uninjectable)"]


def replay(ck, path):
    vlib.build_harness()
    sw = vlib.prep_spec("FdTable", ck.work)
    ck._keys = set()
    obj = json.load(open(path))
    beh = os.path.join(ck.work, "replay.jsonl")
    with open(beh, "w") as f:
        f.write(json.dumps(obj["behaviour"]) + "\n")
    _judge(ck, sw, "replay", beh, "replay of " + os.path.basename(path), mode=obj.get("mode", ""))
    ck.cov["distinct_nontrivial"] = len(ck._keys)
