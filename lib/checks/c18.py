"""C18 WebSocket opening handshake: WsHandshakeImpl (request, response shape,
segmentation, boundary arithmetic, reset) composed with the HandshakeMon monitor is
checked exhaustively by TLC; every completed round of that state graph is a scenario
that is replayed against the real websocket.Stream talking to a scripted TCP server
on loopback; the recorded traces are validated by TLC against the monitor."""
import json, os
import vlib

LEVEL = "model_checking"

MANIFEST = dict(
   engine="tlc-wshandshake", path="spec/WsHandshake",
   technique="TLA+ monitor + implementation model checked exhaustively by TLC; the model's decision table (response shape x segmentation x piggy-backed frames x close point x mode x repetition) replayed against the real client over loopback TCP with a consumption barrier between segments; recorded traces validated by TLC against the monitor",
   text="Exhaustive TLC check of WsHandshakeImpl (a transcription of Handshake/AsyncHandshake/upgrade/reset with the real byte lengths of the response lines, so the read loop and the response/frame boundary arithmetic are literal) composed with the property monitor HandshakeMon, for the as-repaired and the as-found (BUG_* = TRUE) variants. Every completed handshake round of the state graph (verdict inputs status x Upgrade x Accept; header order, letter case, optional whitespace, extra/dropped headers, > 1024 bytes; split classes and - thorough tier - every split offset, pairs and triples of splits; none/whole/partial/two/large piggy-backed frames; server close before the request, before, inside and right after the response; blocking and asynchronous handshake; a second and third handshake on the same stream after failure, EOF, an unanswered Ping or Close) is replayed against the real websocket.Stream and a scripted TCP server on loopback that judges the request with its own parser and writes each segment only after the client has consumed the previous one (FIONREAD/SIOCOUTQNSD on both ends of the in-process connection). The recorded trace - request verdict, Handshake error/State()/Pending(), every frame read back with NextFrame/AsyncNextFrame matched against what was sent, bytes the client sent unasked - is validated by TLC against the monitor. Verdicts come only from recorded real-code traces.",
   note="Trusted: TLC, the Go replay driver (scripted server, request parser, frame matcher), JSON trace I/O. Segment separation is confirmed per boundary and reported (boundaries_consumed_separately); a boundary that could not be confirmed only weakens coverage, never the verdict, because the expected verdict does not depend on segmentation. TLS transport, line folding, bare-LF responses and responses above the client's 64 KiB cap are not exercised. Descriptor leaks after failed handshakes belong to C13.",
   design_ref="5/C18")

BUGS = ("BUG_SingleRead", "BUG_DumpBoundary", "BUG_PendingSurvive")


def _consts(tier, asfound, rounds):
    c = {"MaxRounds": rounds, "Tier": '"%s"' % tier, "BufCap": 1024}
    for b in BUGS:
        c[b] = "TRUE" if asfound else "FALSE"
    return c


def _action_coverage(r):
    """Per-action counts from TLC's -coverage output: {action: states generated}."""
    import re
    cov = {}
    for line in r.lines("<"):
        m = re.match(r"<(\w+) line \d+, col \d+ to line \d+, col \d+ of module WsHandshakeImpl>: (\d+):(\d+)", line)
        if m and m.group(1) not in ("Init",):
            cov[m.group(1)] = int(m.group(3))
    return cov


def _library_panic(stderr):
    """True if the process died with a panic/fatal error whose innermost
    non-runtime frame is library code (not the harness)."""
    if "panic:" not in stderr and "fatal error:" not in stderr:
        return False
    seen_goroutine = False
    for line in stderr.splitlines():
        if line.startswith("goroutine "):
            seen_goroutine = True
            continue
        if not seen_goroutine or line.startswith(("\t", " ")) or not line.strip():
            continue
        fn = line.strip()
        if fn.startswith(("panic(", "runtime.", "runtime/", "internal/", "created by")):
            continue
        return fn.startswith("github.com/talostrading/sonic")
    return False


def _replay(ck, beh, trace):
    """Run the driver.  A panic on one of the library's own goroutines kills the
    process; that is behaviour of the code under test, not tool trouble: the
    scenario is recorded as `Result err=panic` and the run resumes after it."""
    import subprocess
    exe = vlib.build_harness()
    total = {"scenarios": 0, "events": 0, "nontrivial": 0, "drift": 0, "first_drift": None, "notes": {}}
    parts, start, crashes = [], 1, 0
    while True:
        part = "%s.p%d" % (trace, len(parts))
        args = [exe, "wshs", "-in", beh, "-out", part, "-seed", str(ck.seed)] + (["-mode", "from:%d" % start] if start > 1 else [])
        try:
            p = subprocess.run(args, capture_output=True, text=True, timeout=1500)
        except subprocess.TimeoutExpired:
            raise vlib.Inconclusive("replay wshs timed out")
        summ = None
        for line in p.stdout.splitlines():
            if line.startswith("SUMMARY "):
                summ = json.loads(line[8:])
        if p.returncode == 0 and summ:
            parts.append(part)
            for k in ("scenarios", "events", "nontrivial", "drift"):
                total[k] += summ[k]
            total["first_drift"] = total["first_drift"] or summ.get("first_drift")
            for k, v in (summ.get("notes") or {}).items():
                total["notes"][k] = total["notes"].get(k, 0) + v
            break
        cur = part + ".cur"
        if not (_library_panic(p.stderr) and os.path.exists(cur)):
            raise vlib.Inconclusive("replay wshs failed (rc %d):\n%s\n%s" % (p.returncode, p.stdout[-1000:], p.stderr[-4000:]))
        crashes += 1
        sid = int(open(cur).read())
        # keep the complete scenarios recorded before the crash
        kept = [l for l in open(part) if '"sid":%d,' % sid not in l] if os.path.exists(part) else []
        with open(part, "w") as f:
            f.writelines(l for l in kept if l.endswith("\n"))
        total["scenarios"] += len({l.split('"sid":')[1].split(",")[0] for l in kept})
        parts.append(part)
        part2 = "%s.p%d" % (trace, len(parts))
        p2 = subprocess.run([exe, "wshs", "-in", beh, "-out", part2, "-mode", "crashed:%d" % sid],
                            capture_output=True, text=True, timeout=300)
        if p2.returncode != 0:
            raise vlib.Inconclusive("replay wshs crashed:%d failed: %s" % (sid, p2.stderr[-2000:]))
        parts.append(part2)
        total["scenarios"] += 1
        ck.cov.setdefault("library_panics", []).append({"scenario": sid, "panic": p.stderr[:600]})
        start = sid + 1
        if crashes >= 25:
            # enough evidence; the scenarios after this one are not replayed
            ck.cov["replay_truncated_after_scenario"] = sid
            break
    with open(trace, "w") as out:
        for part in parts:
            with open(part) as f:
                out.write(f.read())
            os.remove(part)
    return total


def _random_scenarios(seed, n, path, max_rounds):
    """Seeded sample of the full parameter product (the model's profile sets
    cover it by classes; this draws from all combinations, with split points
    anywhere).  No model prediction is attached; the monitor judges."""
    import random
    rnd = random.Random(seed)

    def params(first):
        p = dict(mode=rnd.choice(["sync", "async"]), kind="resp", status=rnd.choice([101] * 6 + [200, 400]),
                 upg=rnd.choice(["ok"] * 6 + ["missing", "wrong"]), acc=rnd.choice(["ok"] * 6 + ["wrong", "missing"]),
                 ord=rnd.choice(["canon", "rev"]), hcase=rnd.choice(["canon", "lower", "upper"]),
                 ws=rnd.choice(["canon", "none", "wide", "tab"]), xh=rnd.choice(["none", "extra", "clen", "noconn"]),
                 long=rnd.choice([0, 0, 0, 1]), cuts=[], piggy=rnd.choice(["none", "whole", "partial", "two", "big"]),
                 closept=rnd.choice(["none"] * 8 + ["prereq", "noresp", "midresp", "afterresp"]),
                 tail=rnd.choice(["none"] * 4 + ["ping", "close"]), xreq=rnd.choice([0, 0, 1, 2, 3]),
                 sl=rnd.choice(["canon", "canon", "noreason", "custom"]))
        if not first and rnd.random() < 0.1:
            p["acc"] = "stale"
        if rnd.random() < 0.05:
            p["closept"], p["piggy"] = "midframe", "partial"
        if rnd.random() < 0.04:
            p["kind"] = "badurl"
        if p["closept"] in ("midresp", "afterresp"):
            p["piggy"] = "none"
        k = rnd.choice([0, 1, 1, 2, 2, 3, 4])
        if p["closept"] == "midresp" and k == 0:
            k = 1
        offs = sorted(set(rnd.randrange(0, 1000) for _ in range(k)))
        p["cuts"] = [{"cls": "frac", "off": o} for o in offs]
        return p

    with open(path, "w") as f:
        for _ in range(n):
            rounds = rnd.choice([1, 1, 2, 3][:max_rounds + 1])
            f.write(json.dumps([{"p": params(k == 0), "r": 0, "d": 0, "pred": []} for k in range(rounds)]) + "\n")
    return n


def _validate(ck, sw, name, beh, label):
    trace = os.path.join(ck.work, "trace_%s.ndjson" % name)
    summ = _replay(ck, beh, trace)
    bads, _ = vlib.validate_trace(sw, "HandshakeMonTrace", "HandshakeMonTrace.cfg", trace, parallel=8)
    harness = [b for b in bads if b[2].startswith("C18/harness")]
    if harness:
        raise vlib.Inconclusive("malformed trace: %s" % (harness[:3],))
    ck.cov["evaluations"] += summ["scenarios"]
    ck.cov["distinct_nontrivial"] += summ["nontrivial"]
    ck.cov["traces_validated_against_impl"] += summ["scenarios"] - len({b[0] for b in bads})
    seg = ck.cov.setdefault("segmentation", {"segment_boundaries": 0, "boundaries_consumed_separately": 0})
    for k in seg:
        seg[k] += (summ.get("notes") or {}).get(k, 0)
    if summ["drift"]:
        ck.cov["impl_drift"].append({"run": label, "rounds_differing_from_model": summ["drift"],
                                     "first": summ.get("first_drift")})
    rechecked = {}
    for sid, i, key in bads:
        if "no-result" in key:
            # bounded-time observation: believe it only if it recurs with larger budgets
            if key not in rechecked:
                one = os.path.join(ck.work, "re_%s_%d.jsonl" % (name, sid))
                with open(one, "w") as f:
                    f.write(vlib.nth_line(beh, sid) + "\n")
                ok = True
                for slow in (2, 4, 8):
                    t2 = one + ".trace%d" % slow
                    vlib.run_replay(["wshs", "-in", one, "-out", t2], timeout=900, env={"VERIF_SLOW": str(slow)})
                    b2, _ = vlib.validate_trace(sw, "HandshakeMonTrace", "HandshakeMonTrace.cfg", t2, parallel=1)
                    if not any(k == key for _, _, k in b2):
                        ok = False
                        break
                rechecked[key] = ok
            if not rechecked[key]:
                ck.cov.setdefault("transient_timing_observations", []).append({"rule": key, "scenario": sid, "run": label})
                continue
        ck.report_bad(key, "handshake trace rejected at event %d of scenario %d (%s)" % (i, sid, label),
                      lambda sid=sid, i=i, key=key: {
                          "property": ck.pid, "component": "wshs", "rule": key, "step": i,
                          "behaviour": json.loads(vlib.nth_line(beh, sid)),
                          "trace": vlib.read_scenario(trace, sid)})
    if len(ck.cov["samples"]) < 3 and summ["scenarios"]:
        sid = max(1, (summ["scenarios"] * 2) // 3)
        b = json.loads(vlib.nth_line(beh, sid))
        ck.sample({"scenario": [{"p": r["p"], "r": r["r"], "d": r["d"]} for r in b],
                   "trace_excerpt": vlib.read_scenario(trace, sid)[:8]})
    return bads


def run(ck):
    vlib.build_harness()
    sw = vlib.prep_spec("WsHandshake", ck.work)
    thorough = ck.tier == "thorough"
    rounds = 3 if thorough else 2
    ck.cov["rule"] = ("scenarios = every completed handshake round of the exhaustive WsHandshakeImpl state graph "
                      "(shortest path to the stream's residual state + the round); non-trivial = distinct round "
                      "parameter sets other than the canonical one-segment response on a fresh stream")
    asfound = os.environ.get("C18_PREDICT") == "asfound"   # development: predictions of the code as found

    # 1. the repaired design: exhaustive, must keep the monitor clean; generates the scenarios
    consts = _consts(ck.tier, asfound, rounds)
    cfg = vlib.cfg_with(sw, "WsHandshakeImpl_mc.cfg", consts,
                        drop=["INVARIANTS"] if asfound else None, add=["INVARIANTS TypeOK"] if asfound else None)
    r = vlib.tlc(sw, "WsHandshakeImpl", cfg, workers=4, timeout=1500, extra=["-coverage", "1"])
    if not r.ok:
        raise vlib.Inconclusive("WsHandshakeImpl: %s\n%s" % (r.violated or r.error, r.tail()))
    ck.add_tlc("WsHandshakeImpl as repaired (scenario generation)", r, consts)
    cov = _action_coverage(r)
    ck.cov["action_coverage"] = cov
    ck.cov["actions_never_taken"] = sorted(a for a, n in cov.items() if n == 0)
    if not cov or ck.cov["actions_never_taken"]:
        raise vlib.Inconclusive("vacuity: actions never taken in the exhaustive run: %s" % (ck.cov["actions_never_taken"] or "no coverage output"))
    model_bad = sorted({line.split('"')[3] for line in r.lines('<<"MODELBAD"')})
    if model_bad and not asfound:
        ck.cov["model_findings"] = model_bad
    beh = os.path.join(ck.work, "scenarios.jsonl")
    n = vlib.edges_to_file(r, beh)
    if n == 0:
        raise vlib.Inconclusive("no scenarios generated\n" + r.tail())

    # 2. the code as found (BUG_* = TRUE): evidence that the model sees the defects
    if not asfound:
        c2 = _consts(ck.tier, True, rounds)
        cfg2 = vlib.cfg_with(sw, "WsHandshakeImpl_mc.cfg", c2, drop=["INVARIANTS"], add=["INVARIANTS TypeOK"])
        r2 = vlib.tlc(sw, "WsHandshakeImpl", cfg2, workers=4, timeout=1500)
        if not r2.ok:
            raise vlib.Inconclusive("WsHandshakeImpl as found: %s\n%s" % (r2.violated or r2.error, r2.tail()))
        ck.add_tlc("WsHandshakeImpl as found (BUG_* = TRUE)", r2, c2)
        found = {}
        for line in r2.lines('<<"MODELBAD"'):
            k = line.split('"')[3]
            found[k] = found.get(k, 0) + 1
        ck.cov["model_findings_as_found"] = found
        if not found:
            raise vlib.Inconclusive("the as-found model no longer shows the repaired defects (vacuous BUG_* switches)")

    # 3. replay on the real code, validate
    _validate(ck, sw, "cover", beh, "round cover, %s" % ck.tier)

    # 4. seeded sample of the full parameter product (split points anywhere)
    rnd = os.path.join(ck.work, "random.jsonl")
    _random_scenarios(ck.seed, 60000 if thorough else 1500, rnd, rounds)
    _validate(ck, sw, "random", rnd, "seeded sample, seed %d" % ck.seed)
    ck.cov["exhaustive"] = True
    ck.assumptions += [
        "the response/frames byte stream is modelled by positions with the real lengths of the real header lines; payload bytes are generator output matched by the driver",
        "segments are observed separately by the client when the server saw both socket queues empty before writing the next one; unconfirmed boundaries are counted, not judged",
        "re-handshake is exercised after a failed handshake, after EOF, and after a session the user abandoned with an unflushed Pong/Close reply (liberal reading of 'after failure or termination')",
    ]


def replay(ck, path):
    vlib.build_harness()
    sw = vlib.prep_spec("WsHandshake", ck.work)
    obj = json.load(open(path))
    beh = os.path.join(ck.work, "replay.jsonl")
    with open(beh, "w") as f:
        f.write(json.dumps(obj["behaviour"]) + "\n")
    _validate(ck, sw, "replay", beh, "replay of " + os.path.basename(path))
