"""Extra (serves no listed property, not registered in MANIFEST.json): sonic's sequencedSlots
(sequenced_slots.go, the container behind SlotSequencer) reached through the build-tag hook
VerifNewSequencedSlots - Push/Pop are also covered through SlotSequencer by C20, PopRange, Size and
Reset only here.  Run with `bin/verif check extra_seqslots [--tier quick|thorough]`; findings are
printed like violations (rule keys SQS/...), evidence goes to evidence/EXTRA_SEQSLOTS.json."""
import itertools, json, os
import vlib

LEVEL = "model_checking"
MANIFEST = None     # deliberately not part of the manifest


def _validate(ck, sw, name, beh, label, replay_args=None, seed=None):
    trace = os.path.join(ck.work, "trace_%s.ndjson" % name)
    args = ["seqslots", "-out", trace, "-seed", str(seed or ck.seed)] + (["-in", beh] if beh else []) + (replay_args or [])
    summ, _ = vlib.run_replay(args, timeout=900)
    bads, _ = vlib.validate_trace(sw, "SeqSlotsMonTrace", "SeqSlotsMonTrace.cfg", trace, parallel=4)
    ck.cov["evaluations"] += summ["scenarios"]
    ck.cov["distinct_nontrivial"] += summ["nontrivial"]
    ck.cov["traces_validated_against_impl"] += summ["scenarios"] - len({b[0] for b in bads})
    ck.cov["events_validated"] = ck.cov.get("events_validated", 0) + summ["events"]
    if summ["drift"]:
        ck.cov["impl_drift"].append({"run": label, "steps_differing_from_model": summ["drift"],
                                     "first": summ.get("first_drift")})
    oc = ck.cov.setdefault("outcomes", {})
    for k, v in (summ.get("notes") or {}).items():
        oc[k] = oc.get(k, 0) + v
    return summ, bads, trace


def _report(ck, bads, beh, trace, label, rargs=None):
    for sid, i, key in bads:
        ck.report_bad(key, "seqslots trace rejected at step %d of scenario %d (%s)" % (i, sid, label),
                      lambda sid=sid, i=i, key=key: {
                          "property": ck.pid, "component": "seqslots", "rule": key, "step": i, "seed": ck.seed,
                          "scenario": sid, "random_args": rargs,
                          "behaviour": json.loads(vlib.nth_line(beh, sid)) if beh else None,
                          "trace": vlib.read_scenario(trace, sid)})


def run(ck):
    vlib.build_harness()
    sw = vlib.prep_spec("SeqSlots", ck.work)
    quick = ck.tier == "quick"
    ck.cov["rule"] = ("histories = every transition of the exhaustive SeqSlotsImpl state graph plus TLC random walks plus "
                      "seeded driver-made random histories; non-trivial = a PopRange that returned at least two slots")
    consts = {"Seqs": "{0, 1, 2, 3, 4}" if quick else "{0, 1, 2, 3, 4, 5, 6}", "Ns": "{0, 1, 2, 3, 6}" if quick else "{0, 1, 2, 3, 4, 8}",
              "Tags": "{0, 1}", "MaxSlots": "{2, 3}" if quick else "{1, 3, 4}", "MaxHist": 0, "BUG_PopRange": "FALSE"}
    cfg = vlib.cfg_with(sw, "SeqSlotsImpl_mc.cfg", consts)
    r = vlib.tlc(sw, "SeqSlotsImpl", cfg, workers=2 if quick else 8, timeout=1500)
    if not r.ok:
        raise vlib.Inconclusive("SeqSlotsImpl: %s\n%s" % (r.violated or r.error, r.tail()))
    ck.add_tlc("SeqSlotsImpl transition cover", r, consts)
    for line in itertools.islice(r.lines('<<"MODELBAD"'), 3):
        ck.cov["model_findings"].append({"line": line[:300]})
    beh = os.path.join(ck.work, "cover.jsonl")
    n = vlib.edges_to_file(r, beh)
    summ, bads, trace = _validate(ck, sw, "cover", beh, "transition cover")
    _report(ck, bads, beh, trace, "transition cover")
    ck.sample({"behaviour": json.loads(vlib.nth_line(beh, max(1, n // 2)))[:8]})
    # the model with PopRange as it was must be rejected by the monitor (model-only evidence)
    bconsts = dict(consts, BUG_PopRange="TRUE", Seqs="{0, 1, 2, 3, 4}", Ns="{0, 1, 2, 3, 6}", MaxSlots="{2, 3}")
    cfg = vlib.cfg_with(sw, "SeqSlotsImpl_mc.cfg", bconsts, drop=["INVARIANTS"])
    rb = vlib.tlc(sw, "SeqSlotsImpl", cfg, workers=1, timeout=600)
    keys = sorted({l.split('"')[3] for l in rb.lines('<<"MODELBAD"')})
    ck.cov["model_mutations"] = {"BUG_PopRange": keys}
    if not keys:
        raise vlib.Inconclusive("SeqSlotsImpl with BUG_PopRange = TRUE is not rejected by the monitor")
    # random walks of the model
    sconsts = dict(consts, MaxHist=40 if quick else 80)
    cfg = vlib.cfg_with(sw, "SeqSlotsImpl_sim.cfg", sconsts)
    r = vlib.tlc(sw, "SeqSlotsImpl", cfg, workers=1, simulate=300 if quick else 2000, depth=100, seed=ck.seed, timeout=1500)
    if r.violated or r.error:
        raise vlib.Inconclusive("SeqSlotsImpl simulation: %s\n%s" % (r.violated or r.error, r.tail()))
    ck.add_tlc("SeqSlotsImpl random simulation", r, sconsts, exhaustive=False)
    sb = os.path.join(ck.work, "sim.jsonl")
    vlib.edges_to_file(r, sb)
    summ, bads, trace = _validate(ck, sw, "sim", sb, "random walks")
    _report(ck, bads, sb, trace, "random walks")
    # driver-made random histories: capacities 1..16, wider number ranges
    rargs = ["2000", "100"] if quick else ["60000", "200"]
    summ, bads, trace = _validate(ck, sw, "random", None, "driver-made random histories", ["-mode", "random", "--"] + rargs)
    _report(ck, bads, None, trace, "driver-made random histories", rargs)
    ck.cov["exhaustive"] = True
    ck.assumptions += ["sequence numbers >= 0 and PopRange counts >= 0 only (the documented domain)",
                       "SeqSlotsImpl: numbers Seqs, counts Ns, capacities MaxSlots, two slot tags"]


def replay(ck, path):
    vlib.build_harness()
    sw = vlib.prep_spec("SeqSlots", ck.work)
    obj = json.load(open(path))
    label = "replay of " + os.path.basename(path)
    if obj.get("behaviour") is None:
        sid = obj["scenario"]
        rargs = [str(sid), obj["random_args"][1]]
        summ, bads, trace = _validate(ck, sw, "replay", None, label, ["-mode", "random", "--"] + rargs, seed=obj["seed"])
        _report(ck, [b for b in bads if b[0] == sid], None, trace, label, rargs)
        return
    beh = os.path.join(ck.work, "replay.jsonl")
    with open(beh, "w") as f:
        f.write(json.dumps(obj["behaviour"]) + "\n")
    summ, bads, trace = _validate(ck, sw, "replay", beh, label)
    _report(ck, bads, beh, trace, label)
