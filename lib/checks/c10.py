"""C10 BipBuffer: exhaustive BipImpl (indices) composed with the BipMon monitor,
full transition cover + random long histories replayed into the real
sonic.BipBuffer, recorded traces validated by TLC against BipMon."""
import json, os
import vlib

LEVEL = "model_checking"

MANIFEST = dict(
   engine="tlc-bip", path="spec/Bip",
   technique="TLA+ monitor + implementation model checked exhaustively by TLC; TLC-generated transition cover and random histories replayed into the real BipBuffer; recorded traces validated by TLC against the monitor",
   text="Exhaustive TLC check of the index machine (BipImpl) composed with the property monitor (BipMon) for every buffer size in the tier's range and all argument values 0..size+1, unbounded history length (finite state). Every transition of that state graph is replayed on the real sonic.BipBuffer (shortest path + edge) and the recorded trace - offsets, lengths and token contents of every returned slice, getters after every call - is validated by TLC against the monitor; seeded random long histories on larger sizes are added. Verdicts come only from recorded real-code traces.",
   note="Trusted: TLC, the Go replay driver (offset from slice capacity, token writer), JSON trace I/O. Sizes above the tier's range are covered by random histories only.",
   design_ref="5/C10")


def _validate(ck, sw, name, beh, label):
    trace = os.path.join(ck.work, "trace_%s.ndjson" % name)
    summ, _ = vlib.run_replay(["bip", "-in", beh, "-out", trace])
    bads, r = vlib.validate_trace(sw, "BipMonTrace", "BipMonTrace.cfg", trace)
    ck.cov["evaluations"] += summ["scenarios"]
    ck.cov["distinct_nontrivial"] += summ["nontrivial"]
    ck.cov["traces_validated_against_impl"] += summ["scenarios"] - len({b[0] for b in bads})
    if summ["drift"]:
        ck.cov["impl_drift"].append({"run": label, "steps_differing_from_model": summ["drift"],
                                     "first": summ.get("first_drift")})
    for sid, i, key in bads:
        ck.report_bad(key, "BipBuffer trace rejected at step %d of scenario %d (%s)" % (i, sid, label),
                      lambda sid=sid, i=i, key=key: {
                          "property": ck.pid, "component": "bip", "rule": key, "step": i,
                          "behaviour": json.loads(vlib.nth_line(beh, sid)),
                          "trace": vlib.read_scenario(trace, sid)})
    if not ck.cov["samples"]:
        ck.sample({"behaviour": json.loads(vlib.nth_line(beh, max(1, summ["scenarios"] // 2))),
                   "trace_excerpt": vlib.read_scenario(trace, max(1, summ["scenarios"] // 2))[:6]})
    return bads


def run(ck):
    from concurrent.futures import ThreadPoolExecutor
    vlib.build_harness()
    sw = vlib.prep_spec("Bip", ck.work)
    sizes = range(1, 7) if ck.tier == "quick" else range(1, 10)
    ck.cov["rule"] = ("histories = every transition of the exhaustive BipImpl state graph (shortest path + edge) per size, "
                      "plus seeded random histories; non-trivial = history reaches a commit into the wrapped region "
                      "while older data is live")
    model_findings = set()

    def cover(size):
        consts = {"Size": size, "MaxArg": size + 1, "MaxHist": 0, "BUG_EmptyGrant": "FALSE"}
        cfg = vlib.cfg_with(sw, "BipImpl_mc.cfg", consts)
        r = vlib.tlc(sw, "BipImpl", cfg, workers=1 if size < 8 else 4, timeout=1200)
        if not r.ok:
            raise vlib.Inconclusive("BipImpl size %d: %s\n%s" % (size, r.violated or r.error, r.tail()))
        ck.add_tlc("BipImpl transition cover", r, consts)
        for line in r.lines('<<"MODELBAD"'):
            model_findings.add(line.split('"')[3])
        beh = os.path.join(ck.work, "cover_%d.jsonl" % size)
        n = vlib.edges_to_file(r, beh)
        if n:
            _validate(ck, sw, "cover_%d" % size, beh, "transition cover, size %d" % size)

    nsim = 2000 if ck.tier == "quick" else 40000
    simsizes = [5, 8, 11, 16] if ck.tier == "quick" else [3, 5, 7, 8, 11, 13, 16, 32]

    def sim(arg):
        k, size = arg
        consts = {"Size": size, "MaxArg": size + 1, "MaxHist": 40 if ck.tier == "quick" else 80,
                  "BUG_EmptyGrant": "FALSE"}
        cfg = vlib.cfg_with(sw, "BipImpl_sim.cfg", consts)
        r = vlib.tlc(sw, "BipImpl", cfg, workers=1, simulate=nsim // len(simsizes), depth=consts["MaxHist"] + 2,
                     seed=ck.seed * 1000 + k, timeout=1800)
        if r.violated or (r.error and "timeout" not in r.error):
            raise vlib.Inconclusive("BipImpl simulation size %d: %s\n%s" % (size, r.violated or r.error, r.tail()))
        # a simulation that ran out of time is a smaller sample, not a failed one (the histories printed so far are used)
        ck.add_tlc("BipImpl random simulation", r, consts, exhaustive=False)
        beh = os.path.join(ck.work, "sim_%d.jsonl" % size)
        n = vlib.edges_to_file(r, beh)
        if n == 0:
            raise vlib.Inconclusive("simulation produced no histories\n" + r.tail())
        _validate(ck, sw, "sim_%d" % size, beh, "random histories, size %d" % size)

    with ThreadPoolExecutor(max_workers=8) as ex:
        futs = [ex.submit(cover, s) for s in sizes] + [ex.submit(sim, a) for a in enumerate(simsizes)]
        for f in futs:
            f.result()
    ck.cov["tlc_runs"].sort(key=lambda r: (r["name"], r["constants"].get("Size", 0)))
    ck.cov["model_findings"] = sorted(model_findings)
    ck.cov["exhaustive"] = True
    ck.assumptions += ["token contents are abstracted to 0 in the exhaustive model (geometry decides overlap); real tokens are checked on recorded traces",
                       "offset of a returned slice is derived from its capacity (slices are data[a:b] of one backing array)"]


def replay(ck, path):
    vlib.build_harness()
    sw = vlib.prep_spec("Bip", ck.work)
    obj = json.load(open(path))
    beh = os.path.join(ck.work, "replay.jsonl")
    with open(beh, "w") as f:
        f.write(json.dumps(obj["behaviour"]) + "\n")
    _validate(ck, sw, "replay", beh, "replay of " + os.path.basename(path))
