"""Extra (serves no listed property, not registered in MANIFEST.json): codec/frame - the
length-prefixed frame codec over sonic.ByteBuffer - in the monitor / implementation model /
trace style of the property checks.  Run with `bin/verif check extra_frame [--tier quick|thorough]`;
findings are printed like violations (rule keys FRAME/...), evidence goes to evidence/EXTRA_FRAME.json."""
import itertools, json, os, shutil, threading
from concurrent.futures import ThreadPoolExecutor
import vlib

LEVEL = "model_checking"
MANIFEST = None     # deliberately not part of the manifest

BASE = {"Lens": "{0, 2}", "NF": 2, "IdMod": 4, "PreSaves": "{0}", "Direct": "FALSE", "Hostile": "FALSE",
        "UserCommit": "TRUE", "MaxHist": 0, "BUG_EagerConsume": "FALSE", "BUG_StaleReset": "FALSE"}
SIDSTEP = 10_000_000      # scenario numbers of the k-th replay of a group start at k * SIDSTEP

_lock = threading.Lock()


def _consts(**kw):
    c = dict(BASE)
    c.update(kw)
    return c


def _replay_group(ck, sw, name, runs, seed=None, parallel=4, bases=None):
    """runs = [(behaviours file or None, label, mode, extra args)]: replay each on the real codec, validate the
    concatenated traces with one set of TLC processes, report rejections.  Returns the rejections."""
    whole = os.path.join(ck.work, "trace_%s.ndjson" % name)
    summs = []
    bases = bases or [k * SIDSTEP for k in range(len(runs))]
    with open(whole, "wb") as out:
        for k, (beh, label, mode, extra) in enumerate(runs):
            part = "%s.%d" % (whole, k)
            args = ["frame", "-out", part, "-seed", str(seed or ck.seed), "-sidbase", str(bases[k]), "-mode", mode]
            summ, _ = vlib.run_replay(args + (["-in", beh] if beh else []) + extra, timeout=1500)
            summs.append(summ)
            with open(part, "rb") as f:
                shutil.copyfileobj(f, out)
            os.remove(part)
    bads, _ = vlib.validate_trace(sw, "FrameMonTrace", "FrameMonTrace.cfg", whole, parallel=parallel, timeout=1500)
    with _lock:
        for k, (beh, label, mode, extra) in enumerate(runs):
            mine = [b for b in bads if bases[k] < b[0] <= bases[k] + SIDSTEP]
            _account(ck, summs[k], mine, label)
            for sid, i, key in mine:
                ck.report_bad(key, "frame trace rejected at step %d of scenario %d (%s)" % (i, sid - bases[k], label),
                              lambda sid=sid, i=i, key=key, beh=beh, mode=mode, extra=extra, k=k: {
                                  "property": ck.pid, "component": "frame", "rule": key, "step": i, "mode": mode,
                                  "seed": seed or ck.seed, "random_args": extra[1:] if not beh else None,
                                  "sidbase": bases[k], "scenario": sid - bases[k],
                                  "behaviour": json.loads(vlib.nth_line(beh, sid - bases[k])) if beh else None,
                                  "trace": vlib.read_scenario(whole, sid)})
    os.remove(whole)
    if any((sm.get("notes") or {}).get("stopped_after_huge_reserve") for sm in summs) and not bads:
        raise vlib.Inconclusive("the driver stopped after the decoder reserved gigabytes, but the monitor rejected nothing")
    return bads


def _account(ck, summ, bads, label):
    ck.cov["evaluations"] += summ["scenarios"]
    ck.cov["distinct_nontrivial"] += summ["nontrivial"]
    ck.cov["traces_validated_against_impl"] += summ["scenarios"] - len({b[0] for b in bads})
    ck.cov["events_validated"] = ck.cov.get("events_validated", 0) + summ["events"]
    if summ["drift"]:
        ck.cov["impl_drift"].append({"run": label, "steps_differing_from_model": summ["drift"],
                                     "first": summ.get("first_drift")})
    oc = ck.cov.setdefault("decode_outcomes", {})
    for k, v in (summ.get("notes") or {}).items():
        oc[k] = oc.get(k, 0) + v


def _cover(ck, sw, name, consts, workers, scales, sample, first_sample=1):
    """Exhaustive TLC run of FrameImpl (+ monitor); every transition is replayed at the first scale (every
    first_sample-th if > 1), a seeded slice (1/sample) at the others."""
    cfg = vlib.cfg_with(sw, "FrameImpl_mc.cfg", consts, outname="mc_%s.cfg" % name)
    r = vlib.tlc(sw, "FrameImpl", cfg, workers=workers, timeout=1500)
    if not r.ok:
        raise vlib.Inconclusive("FrameImpl %s: %s\n%s" % (name, r.violated or r.error, r.tail()))
    with _lock:
        ck.add_tlc("FrameImpl transition cover " + name, r, consts)
        for line in itertools.islice(r.lines('<<"MODELBAD"'), 3):
            ck.cov["model_findings"].append({"run": name, "line": line[:300]})
    beh = os.path.join(ck.work, "cover_%s.jsonl" % name)
    pick = None if first_sample == 1 else (lambda n: (n + ck.seed) % first_sample == 0)
    vlib.edges_to_file(r, beh, pick=pick)
    os.remove(r.outpath)
    slice_ = os.path.join(ck.work, "cover_%s_slice.jsonl" % name)
    with open(beh) as f, open(slice_, "w") as g:
        for ln, line in enumerate(f):
            if (ln + ck.seed) % sample == 0:
                g.write(line)
    direct = "1" if consts["Direct"] == "TRUE" else "0"
    runs = []
    for k, (scale, feed) in enumerate(scales):
        mode = "scale=%d,feed=%s,direct=%s" % (scale, feed, direct)
        runs.append((beh if k == 0 else slice_, "transition cover %s, %s" % (name, mode), mode, []))
    _replay_group(ck, sw, name, runs, parallel=4 if ck.tier == "quick" else 12)
    with _lock:
        ck.sample({"run": name, "behaviour": json.loads(vlib.nth_line(slice_, 1))[:8]})


def _bug_demo(ck, sw, bug):
    """The model with a BUG_ switch on must be rejected by the monitor (model-only evidence)."""
    consts = _consts(**{bug: "TRUE"})
    cfg = vlib.cfg_with(sw, "FrameImpl_mc.cfg", consts, outname="bug_%s.cfg" % bug, drop=["INVARIANTS"])
    r = vlib.tlc(sw, "FrameImpl", cfg, workers=1, timeout=600)
    keys = sorted({l.split('"')[3] for l in r.lines('<<"MODELBAD"')})
    os.remove(r.outpath)
    with _lock:
        ck.cov.setdefault("model_mutations", {})[bug] = keys
    if not keys:
        raise vlib.Inconclusive("FrameImpl with %s = TRUE is not rejected by the monitor" % bug)


def _walks(ck, sw):
    """Random walks of the model (longer histories, three outstanding frames) and driver-made random histories
    (real sizes around the 512-byte capacity, ReadFrom feeding, save areas that fill the capacity)."""
    quick = ck.tier == "quick"
    consts = _consts(Lens="{0, 1, 3}", NF=3, IdMod=5, PreSaves="{0, 2}", Hostile="TRUE", MaxHist=40 if quick else 80)
    cfg = vlib.cfg_with(sw, "FrameImpl_sim.cfg", consts, outname="sim.cfg")
    r = vlib.tlc(sw, "FrameImpl", cfg, workers=1, simulate=300 if quick else 6000, depth=100, seed=ck.seed, timeout=1500)
    if r.violated or r.error:
        raise vlib.Inconclusive("FrameImpl simulation: %s\n%s" % (r.violated or r.error, r.tail()))
    with _lock:
        ck.add_tlc("FrameImpl random simulation", r, consts, exhaustive=False)
    sb = os.path.join(ck.work, "sim.jsonl")
    vlib.edges_to_file(r, sb)
    runs = [(sb, "random walks, scale 1", "scale=1,feed=write,direct=0", []),
            (sb, "random walks, scale 5000", "scale=5000,feed=claim,direct=0", []),
            (None, "driver-made random histories", "random", ["--"] + (["1000", "60"] if quick else ["40000", "120"]))]
    _replay_group(ck, sw, "walks", runs, parallel=4 if quick else 12)


def run(ck):
    vlib.build_harness()
    sw = vlib.prep_spec("Frame", ck.work)
    ck.cov["rule"] = ("histories = every transition of the exhaustive FrameImpl state graphs (replayed at several byte "
                      "scales and feeding styles) plus TLC random walks plus seeded driver-made random histories; "
                      "non-trivial = a payload returned after at least one ErrNeedMore in the same history")
    if ck.tier == "quick":
        covers = [
            ("plain", _consts(), 2, [(1, "write"), (127, "claim"), (300, "write")], 3),
            ("direct", _consts(Direct="TRUE", Hostile="TRUE", Lens="{0, 1}", PreSaves="{0, 2}"), 1,
             [(1, "write"), (300, "write")], 2),
            ("hostile", _consts(Hostile="TRUE", Lens="{1}", PreSaves="{3}"), 1, [(1, "claim"), (600, "write")], 2),
        ]
    else:
        covers = [
            ("three", _consts(Lens="{0, 1, 3}", NF=3, IdMod=5, Hostile="TRUE"), 8,
             [(1, "write"), (127, "claim"), (5000, "claim")], 4, 8),
            ("presave", _consts(Lens="{0, 1, 3}", PreSaves="{0, 1}", Hostile="TRUE"), 4,
             [(1, "claim"), (170, "write"), (300, "write")], 6),
            ("direct", _consts(Direct="TRUE", Hostile="TRUE", Lens="{0, 1, 2}", NF=3, IdMod=5, PreSaves="{0, 2}"), 4,
             [(1, "write"), (300, "write")], 4),
        ]
    with ThreadPoolExecutor(max_workers=4) as ex:
        futs = [ex.submit(_cover, ck, sw, *c) for c in covers]
        futs += [ex.submit(_bug_demo, ck, sw, b) for b in ("BUG_EagerConsume", "BUG_StaleReset")]
        futs.append(ex.submit(_walks, ck, sw))
        errs = []
        for f in futs:
            try:
                f.result()
            except vlib.Inconclusive as e:
                errs.append(str(e))
        if errs:
            raise vlib.Inconclusive("\n".join(errs))
    ck.cov["exhaustive"] = True
    ck.assumptions += [
        "FrameImpl: at most NF frames encoded and not yet returned, payload lengths Lens (model tokens; a token is "
        "`scale` real bytes in the replay), buffer capacity not modelled (the scaled replays and the driver-made "
        "histories cross the 512-byte initial capacity and are judged by the monitor only)",
        "decoder and buffer are used as CodecConn uses them: Codec.src is the buffer passed to Decode; the caller does "
        "not Save or Consume in the source buffer between Decode calls (an initial save area is covered)",
        "an item of exactly MaxPayloadLength is not exercised here (C19 does it once in its thorough tier)"]


def replay(ck, path):
    vlib.build_harness()
    sw = vlib.prep_spec("Frame", ck.work)
    obj = json.load(open(path))
    label = "replay of " + os.path.basename(path)
    if obj.get("behaviour") is None:
        # a driver-made history: re-run the seeded generator up to that scenario
        sid = obj["scenario"]
        _replay_group(ck, sw, "replay", [(None, label, "random", ["--", str(sid), obj["random_args"][1]])],
                      seed=obj["seed"], bases=[obj["sidbase"]])
        return
    beh = os.path.join(ck.work, "replay.jsonl")
    with open(beh, "w") as f:
        f.write(json.dumps(obj["behaviour"]) + "\n")
    _replay_group(ck, sw, "replay", [(beh, label, obj.get("mode", "scale=1"), [])], seed=obj["seed"],
                  bases=[obj["sidbase"] + obj["scenario"] - 1])
