// Package postmt drives IO.Post from several goroutines against a running
// loop (stress rounds) and records what PostMon judges: every handler runs
// exactly once, on the loop goroutine, in per-poster order; Post returns; the
// loop does not stay blocked while handlers are outstanding; Pending() and
// Posted() are exact at rest.
package postmt

import (
	"bytes"
	"fmt"
	"os"
	"runtime"
	"strconv"
	"sync"
	"sync/atomic"
	"time"

	"github.com/talostrading/sonic"

	"verifharness/internal/tr"
)

type Ev struct {
	C       string `json:"c"`
	Sid     int    `json:"sid"`
	I       int    `json:"i"`
	Ev      string `json:"ev"`
	P       int    `json:"p"`    // poster (1..N), 0 = the loop itself (nested post)
	Seq     int    `json:"seq"`  // per-poster sequence number
	Nest    int    `json:"nest"` // 1: posted from inside a posted handler
	Loop    int    `json:"loop"` // Run: 1 if executed on the loop goroutine
	Err     string `json:"err"`
	N       int    `json:"n"`
	Pending int    `json:"pending"`
	Posted  int    `json:"posted"`
	What    string `json:"what"`
}

type rec struct {
	mu  sync.Mutex
	w   *tr.Writer
	sid int
	i   int
}

func (r *rec) emit(e Ev) {
	r.mu.Lock()
	defer r.mu.Unlock()
	r.i++
	e.C, e.Sid, e.I = "post", r.sid, r.i
	r.w.Emit(e)
}

// scen is the recorder handle of one scenario: goroutines of a scenario that
// got stuck may wake up after it was given up; what they log then is dropped.
type scen struct {
	r      *rec
	closed bool
}

func (s *scen) emit(e Ev) {
	s.r.mu.Lock()
	if s.closed {
		s.r.mu.Unlock()
		return
	}
	s.r.mu.Unlock()
	s.r.emit(e)
}

func (s *scen) close() {
	s.r.mu.Lock()
	s.closed = true
	s.r.mu.Unlock()
}

func gid() int64 {
	var buf [64]byte
	b := buf[:runtime.Stack(buf[:], false)]
	b = bytes.TrimPrefix(b, []byte("goroutine "))
	if i := bytes.IndexByte(b, ' '); i > 0 {
		n, _ := strconv.ParseInt(string(b[:i]), 10, 64)
		return n
	}
	return -1
}

// round runs one stress round; returns false if something got stuck (the
// process then holds blocked goroutines; the caller stops the run).
// With burst = 1 the loop starts polling only after every poster has
// returned, so the first dispatch finds the whole burst queued. With burst = 2
// it starts when 60% of the posts have been made: the posters keep posting
// while the loop dispatches a long backlog (any bounded fast path in front of
// an overflow list is then full while both sides are active).
func round(rr *rec, posters, per, nestEvery int, budget time.Duration, burstMode int, refused bool) bool {
	burst := burstMode != 0
	r := &scen{r: rr}
	defer r.close()
	ioc, err := sonic.NewIO()
	if err != nil {
		panic(err)
	}
	r.emit(Ev{Ev: "Reset", N: posters, Seq: per})
	var (
		loopGid  int64
		ran      int64
		expected int64 = int64(posters * per)
		stop     int32
		loopDone = make(chan struct{})
		rest     = make(chan [2]int, 1)
		release  = make(chan struct{})
		relOnce  sync.Once
		made     int64
	)
	doRelease := func() { relOnce.Do(func() { close(release) }) }
	threshold := int64(posters*per) * 6 / 10
	mkHandler := func(p, seq, nest int) func() { return nil }
	mkHandler = func(p, seq, nest int) func() {
		return func() {
			onLoop := 0
			if gid() == atomic.LoadInt64(&loopGid) {
				onLoop = 1
			}
			r.emit(Ev{Ev: "Run", P: p, Seq: seq, Nest: nest, Loop: onLoop})
			// in a burst round only the early handlers post again, so that the queue's tail is
			// dispatched with nothing new arriving (a wake-up consumed too early is then fatal)
			if nest == 0 && nestEvery > 0 && seq%nestEvery == 0 && (!burst || seq <= per/5) {
				// Post from inside a posted handler
				atomic.AddInt64(&expected, 1)
				r.emit(Ev{Ev: "PostB", P: p, Seq: seq, Nest: 1})
				err := ioc.Post(mkHandler(p, seq, 1))
				r.emit(Ev{Ev: "PostE", P: p, Seq: seq, Nest: 1, Err: errs(err)})
			}
			atomic.AddInt64(&ran, 1)
		}
	}
	// the loop: polls, and between polls arms/disarms a timer (loop-side updates of the pending counter)
	go func() {
		runtime.LockOSThread()
		atomic.StoreInt64(&loopGid, gid())
		tm, _ := sonic.NewTimer(ioc)
		// ... and, in every other round, makes registrations that the kernel refuses (a regular file cannot be
		// added to epoll; with the dispatch counter at its limit the read is deferred to the poller): the
		// loop-side roll-back of the pending counter runs while other goroutines post
		var reg sonic.File
		if refused {
			if f, e := os.CreateTemp("", "verif-postmt"); e == nil {
				_, _ = f.Write([]byte("x"))
				name := f.Name()
				f.Close()
				reg, _ = sonic.Open(ioc, name, os.O_RDONLY, 0)
				os.Remove(name)
			}
		}
		rbuf := make([]byte, 1)
		k := 0
		if burst {
			<-release
		}
		for atomic.LoadInt32(&stop) == 0 {
			_ = ioc.RunOneFor(2 * time.Millisecond)
			k++
			if tm != nil {
				if k%2 == 1 {
					_ = tm.ScheduleOnce(time.Hour, func() {})
				} else {
					_ = tm.Cancel()
				}
			}
			if reg != nil {
				for j := 0; j < 50; j++ {
					ioc.Dispatched = sonic.MaxCallbackDispatch
					reg.AsyncRead(rbuf, func(error, int) {})
					ioc.Dispatched = 0
				}
			}
		}
		if reg != nil {
			_ = reg.Close()
		}
		if tm != nil {
			_ = tm.Cancel()
		}
		// at rest: nothing armed, every poster returned, every handler ran
		rest <- [2]int{int(ioc.Pending()), ioc.Posted()}
		if tm != nil {
			_ = tm.Close()
		}
		close(loopDone)
	}()
	for atomic.LoadInt64(&loopGid) == 0 {
		runtime.Gosched()
	}
	var wg sync.WaitGroup
	for p := 1; p <= posters; p++ {
		wg.Add(1)
		go func(p int) {
			defer wg.Done()
			for seq := 1; seq <= per; seq++ {
				r.emit(Ev{Ev: "PostB", P: p, Seq: seq})
				err := ioc.Post(mkHandler(p, seq, 0))
				r.emit(Ev{Ev: "PostE", P: p, Seq: seq, Err: errs(err)})
				if burstMode == 2 && atomic.AddInt64(&made, 1) == threshold {
					doRelease()
				}
				if seq%7 == 0 {
					runtime.Gosched()
				}
			}
		}(p)
	}
	joined := make(chan struct{})
	go func() { wg.Wait(); close(joined) }()
	ok := true
	select {
	case <-joined:
	case <-time.After(budget):
		r.emit(Ev{Ev: "Stuck", What: "post"})
		ok = false
	}
	doRelease()
	if ok {
		deadline := time.Now().Add(budget)
		for atomic.LoadInt64(&ran) < atomic.LoadInt64(&expected) && time.Now().Before(deadline) {
			time.Sleep(200 * time.Microsecond)
		}
		if atomic.LoadInt64(&ran) < atomic.LoadInt64(&expected) {
			r.emit(Ev{Ev: "Stuck", What: "loop"})
			ok = false
		}
	}
	atomic.StoreInt32(&stop, 1)
	if ok {
		select {
		case v := <-rest:
			r.emit(Ev{Ev: "End", Pending: v[0], Posted: v[1]})
			<-loopDone
			_ = ioc.Close()
		case <-time.After(budget):
			r.emit(Ev{Ev: "Stuck", What: "loop"})
			r.emit(Ev{Ev: "End", Pending: -1, Posted: -1})
			ok = false
		}
	} else {
		r.emit(Ev{Ev: "End", Pending: -1, Posted: -1})
	}
	return ok
}

func errs(err error) string {
	if err == nil {
		return "nil"
	}
	return "other"
}

// Run: a.Mode = "stress"; a.Rest = [rounds posters per nestEvery]
func Run(a tr.Args) error {
	w, err := tr.NewWriter(a.Out)
	if err != nil {
		return err
	}
	geti := func(k, def int) int {
		if len(a.Rest) > k {
			if v, err := strconv.Atoi(a.Rest[k]); err == nil {
				return v
			}
		}
		return def
	}
	rounds, posters, per, nestEvery := geti(0, 50), geti(1, 4), geti(2, 40), geti(3, 5)
	budget := 2 * time.Second
	if v := os.Getenv("VERIF_SLOW"); v != "" {
		if k, err := strconv.Atoi(v); err == nil && k > 1 {
			budget *= time.Duration(k)
		}
	}
	r := &rec{w: w}
	sum := tr.Summary{Component: "post"}
	for k := 1; k <= rounds; k++ {
		r.sid, r.i = k+a.SidBase, 0
		sum.Scenarios++
		// vary the shape with the seed
		ps := 1 + int((a.Seed+int64(k))%int64(posters))
		if ps < 2 && posters >= 2 {
			ps = 2
		}
		runtime.GOMAXPROCS(2 + int((a.Seed+int64(3*k))%7))
		// every third round is a burst: many more handlers queued than any
		// per-dispatch bound a poller might have
		burst := 0
		n := per
		if k%3 == 0 {
			burst, n = 1, 5*per
		}
		if k%6 == 5 {
			burst, n = 2, 10*per
		}
		if k == 4 {
			// once per run: several thousand handlers queued before the loop starts (whatever a poller
			// does per batch - buffers it keeps or drops, counters it updates in bulk - sees a batch far
			// larger than any ordinary one)
			burst, n, ps = 1, 40*per, posters
		}
		if !round(r, ps, n, nestEvery, budget, burst, k%2 == 0) {
			sum.Notes = fmt.Sprintf("round %d got stuck; stopped", k)
			break
		}
		sum.Nontrivial++
	}
	r.mu.Lock()
	sum.Events = w.N
	err = w.Close()
	r.mu.Unlock()
	if err != nil {
		return err
	}
	sum.Print()
	return nil
}
