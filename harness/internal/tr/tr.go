// Package tr holds the trace/behaviour I/O shared by all component drivers.
package tr

import (
	"bufio"
	"encoding/json"
	"fmt"
	"os"
)

// Behaviours reads a file with one JSON array (a generated history) per line.
func Behaviours(path string, fn func(idx int, raw json.RawMessage) error) error {
	f, err := os.Open(path)
	if err != nil {
		return err
	}
	defer f.Close()
	sc := bufio.NewScanner(f)
	sc.Buffer(make([]byte, 1<<20), 1<<28)
	idx := 0
	for sc.Scan() {
		line := sc.Bytes()
		if len(line) == 0 {
			continue
		}
		idx++
		cp := make([]byte, len(line))
		copy(cp, line)
		if err := fn(idx, cp); err != nil {
			return fmt.Errorf("behaviour %d: %w", idx, err)
		}
	}
	return sc.Err()
}

// Writer writes one JSON object per line.
type Writer struct {
	f   *os.File
	w   *bufio.Writer
	enc *json.Encoder
	N   int
}

func NewWriter(path string) (*Writer, error) {
	f, err := os.Create(path)
	if err != nil {
		return nil, err
	}
	w := bufio.NewWriterSize(f, 1<<20)
	enc := json.NewEncoder(w)
	enc.SetEscapeHTML(false)
	return &Writer{f: f, w: w, enc: enc}, nil
}

func (w *Writer) Emit(v any) {
	if err := w.enc.Encode(v); err != nil {
		panic(err)
	}
	w.N++
}

func (w *Writer) Close() error {
	if err := w.w.Flush(); err != nil {
		return err
	}
	return w.f.Close()
}

// Summary is printed by every driver on stdout as its last line.
type Summary struct {
	Component  string `json:"component"`
	Scenarios  int    `json:"scenarios"`
	Events     int    `json:"events"`
	Nontrivial int    `json:"nontrivial"`
	Drift      int    `json:"drift"`
	FirstDrift any    `json:"first_drift,omitempty"`
	Notes      any    `json:"notes,omitempty"`
}

func (s Summary) Print() {
	b, _ := json.Marshal(s)
	fmt.Println("SUMMARY " + string(b))
}
