package tr

// Args are the command-line arguments common to all component drivers.
type Args struct {
	In      string // behaviours file (one JSON history per line)
	Out     string // trace file (ndjson)
	Seed    int64
	SidBase int      // added to scenario numbers (parallel replay of a split behaviours file)
	Mode    string   // component-specific sub-mode
	Rest    []string // remaining positional arguments
}

// Components maps a component name to its driver. Each driver package is
// registered from a file cmd/replay/reg_<component>.go.
var Components = map[string]func(Args) error{}
