// Package wswire replays write scenarios (C16) against a real client
// websocket.Stream attached (hook VerifAttach) to a scripted in-memory
// transport, and parses everything the transport received with its own
// RFC 6455 parser (nothing of sonic's Frame type is used for parsing).
package wswire

import (
	"bytes"
	"encoding/json"
	"errors"
	"fmt"
	"io"

	"github.com/talostrading/sonic"
	"github.com/talostrading/sonic/codec/websocket"
	"github.com/talostrading/sonic/sonicerrors"

	"verifharness/internal/tr"
)

type Ev struct {
	C       string `json:"c"`
	Ev      string `json:"ev"`
	Sid     int    `json:"sid"`
	I       int    `json:"i"`
	Max     int    `json:"max"`
	Pp      string `json:"pp"`  // partial-write pattern of the transport
	Dm      string `json:"dm"`  // "" = the transport completes inside the call; "slot" / "queue" = deferred completions
	Api     string `json:"api"` // Write | AsyncWrite | WriteFrame | AsyncWriteFrame | Close | AsyncClose
	Src     string `json:"src"` // msg | acq | newm | newp | ctl
	Id      int    `json:"id"`
	Op      int    `json:"op"`
	Fin     int    `json:"fin"`
	Plen    int    `json:"plen"`
	Err     string `json:"err"`
	Cb      int    `json:"cb"`
	Hdr     []int  `json:"hdr"`
	Rsv     int    `json:"rsv"`
	M       int    `json:"m"`
	Dl      int    `json:"dl"`
	Minimal int    `json:"minimal"`
	Pid     int    `json:"pid"`
	N       int    `json:"n"`
}

// ---------------------------------------------------------------------------
// scripted transport
// ---------------------------------------------------------------------------

type transport struct {
	pp       string
	dm       string // "": inline; "slot": one write record, overwritten like sonic.AsyncAdapter's; "queue": writes are queued
	calls    int    // write calls so far (drives the pattern)
	out      []byte
	incoming []byte
	writes   int
	broken   bool // writes fail

	// deferred mode
	wq  []*parkedWrite // outstanding asynchronous writes (slot: at most one)
	rb  []byte         // parked asynchronous read
	rcb sonic.AsyncCallback
}

// parkedWrite is an asynchronous write the transport has not completed yet. The
// bytes are taken from the caller's slice when they go out, as a socket does.
type parkedWrite struct {
	b     []byte
	all   bool
	sofar int
	cb    sonic.AsyncCallback
}

var _ sonic.Stream = &transport{}

// grant says how many of the n offered bytes the next write call takes (>= 1).
func (t *transport) grant(n int) int {
	t.calls++
	g := n
	switch t.pp {
	case "all":
	case "one-rest":
		if t.calls%2 == 1 {
			g = 1
		}
	case "half":
		g = (n + 1) / 2
	case "seven":
		g = 7
	case "ramp":
		g = t.calls
	}
	if g > n {
		g = n
	}
	if g < 1 {
		g = 1
	}
	return g
}

func (t *transport) Write(b []byte) (int, error) {
	if len(b) == 0 {
		return 0, nil
	}
	if t.broken {
		// the connection is gone: one byte may still have been taken
		n := t.calls % 2
		t.calls++
		t.out = append(t.out, b[:n]...)
		return n, io.ErrClosedPipe
	}
	g := t.grant(len(b))
	t.out = append(t.out, b[:g]...)
	t.writes++
	return g, nil
}

func (t *transport) AsyncWrite(b []byte, cb sonic.AsyncCallback) {
	if t.dm != "" {
		t.park(&parkedWrite{b: b, cb: cb})
		return
	}
	n, err := t.Write(b)
	cb(err, n)
}

func (t *transport) park(w *parkedWrite) {
	if t.dm == "slot" {
		t.wq = []*parkedWrite{w} // asyncAdapterWriteReactor.init: buffer, progress and callback are overwritten
	} else {
		t.wq = append(t.wq, w)
	}
}

// accept lets the transport take bytes of the oldest outstanding write.
// part: one grant of the pattern that leaves the write incomplete (nothing if
// a single byte is left); else the rest, which completes it. Returns whether
// a write was outstanding.
func (t *transport) accept(part bool) bool {
	if len(t.wq) == 0 {
		return false
	}
	w := t.wq[0]
	rest := len(w.b) - w.sofar
	if part {
		g := t.grant(rest)
		if t.pp == "all" {
			g = (rest + 1) / 2
		}
		if g >= rest {
			g = rest - 1
		}
		if g > 0 {
			t.out = append(t.out, w.b[w.sofar:w.sofar+g]...)
			w.sofar += g
			t.writes++
		}
		if w.all || g <= 0 {
			return true
		}
		// AsyncWrite (not All) completes with the partial count
	} else {
		for w.sofar < len(w.b) {
			g := t.grant(len(w.b) - w.sofar)
			t.out = append(t.out, w.b[w.sofar:w.sofar+g]...)
			w.sofar += g
			t.writes++
			if !w.all {
				break
			}
		}
	}
	t.wq = t.wq[1:]
	w.cb(nil, w.sofar)
	return true
}

// AsyncWriteAll: exactly len(b) bytes, through as many partial writes as the pattern dictates.
func (t *transport) AsyncWriteAll(b []byte, cb sonic.AsyncCallback) {
	if t.dm != "" {
		t.park(&parkedWrite{b: b, all: true, cb: cb})
		return
	}
	done := 0
	for done < len(b) {
		n, _ := t.Write(b[done:])
		done += n
	}
	cb(nil, done)
}

func (t *transport) Read(b []byte) (int, error) {
	if len(t.incoming) == 0 {
		return 0, io.EOF
	}
	if len(b) == 0 {
		return 0, nil
	}
	n := copy(b, t.incoming)
	t.incoming = t.incoming[n:]
	return n, nil
}

func (t *transport) AsyncRead(b []byte, cb sonic.AsyncCallback) {
	if t.dm != "" {
		t.rb, t.rcb = b, cb // one read record; completes when the driver delivers
		return
	}
	n, err := t.Read(b)
	cb(err, n)
}

// deliver completes the parked asynchronous read with what the peer sent.
func (t *transport) deliver() bool {
	if t.rcb == nil || len(t.incoming) == 0 {
		return false
	}
	b, cb := t.rb, t.rcb
	t.rb, t.rcb = nil, nil
	n, err := t.Read(b)
	cb(err, n)
	return true
}

func (t *transport) AsyncReadAll(b []byte, cb sonic.AsyncCallback) {
	done := 0
	for done < len(b) {
		n, err := t.Read(b[done:])
		done += n
		if err != nil {
			cb(err, done)
			return
		}
	}
	cb(nil, done)
}

func (t *transport) Cancel()                       {}
func (t *transport) AsyncClose(cb func(err error)) { cb(nil) }
func (t *transport) Close() error                  { return nil }
func (t *transport) RawFd() int                    { return -1 }

// ---------------------------------------------------------------------------
// independent RFC 6455 frame parser
// ---------------------------------------------------------------------------

type wframe struct {
	hdr     []byte
	fin     int
	rsv     int
	op      int
	masked  int
	dl      int
	minimal int
	payload []byte // un-masked
}

// parseOne parses one complete frame at the start of b; ok=false: not (yet) complete.
func parseOne(b []byte) (f wframe, n int, ok bool) {
	if len(b) < 2 {
		return f, 0, false
	}
	f.fin = int(b[0] >> 7)
	f.rsv = int(b[0]>>4) & 7
	f.op = int(b[0] & 15)
	f.masked = int(b[1] >> 7)
	l7 := int(b[1] & 127)
	hl := 2
	var dl uint64
	switch l7 {
	case 126:
		if len(b) < 4 {
			return f, 0, false
		}
		dl = uint64(b[2])<<8 | uint64(b[3])
		hl = 4
		f.minimal = b2i(dl >= 126)
	case 127:
		if len(b) < 10 {
			return f, 0, false
		}
		for k := 0; k < 8; k++ {
			dl = dl<<8 | uint64(b[2+k])
		}
		hl = 10
		f.minimal = b2i(dl >= 65536)
	default:
		dl = uint64(l7)
		f.minimal = 1
	}
	if dl >= 1<<31 {
		return f, 0, false // can never be complete here
	}
	var key []byte
	if f.masked == 1 {
		if len(b) < hl+4 {
			return f, 0, false
		}
		key = b[hl : hl+4]
		hl += 4
	}
	f.dl = int(dl)
	if len(b) < hl+f.dl {
		return f, 0, false
	}
	f.hdr = b[:hl]
	f.payload = make([]byte, f.dl)
	copy(f.payload, b[hl:hl+f.dl])
	if key != nil {
		for i := range f.payload {
			f.payload[i] ^= key[i%4]
		}
	}
	return f, hl + f.dl, true
}

func b2i(b bool) int {
	if b {
		return 1
	}
	return 0
}

// ---------------------------------------------------------------------------
// scenario driver
// ---------------------------------------------------------------------------

func payByte(id, j int) byte { return byte(id*53 + j*7 + 3 + (j >> 8)) }

func genPayload(id, n int) []byte {
	p := make([]byte, n)
	for j := range p {
		p[j] = payByte(id, j)
	}
	return p
}

func closePayload(id, n int) (code websocket.CloseCode, reason string, want []byte) {
	code = websocket.CloseNormal
	if n < 2 {
		n = 2
	}
	r := make([]byte, n-2)
	for j := range r {
		r[j] = byte('a' + (id+j)%26)
	}
	want = append([]byte{byte(uint16(code) >> 8), byte(uint16(code))}, r...)
	return code, string(r), want
}

func errClass(err error) string {
	switch {
	case err == nil:
		return "nil"
	case errors.Is(err, websocket.ErrMessageTooBig), errors.Is(err, websocket.ErrPayloadOverMaxSize):
		return "toobig"
	case errors.Is(err, sonicerrors.ErrCancelled):
		return "cancelled"
	case errors.Is(err, io.EOF):
		return "eof"
	default:
		return "other"
	}
}

type scenario struct {
	w       *tr.Writer
	sid, i  int
	ioc     *sonic.IO
	ws      *websocket.Stream
	t       *transport
	parsed  int            // bytes of t.out already parsed into frames
	subs    map[int][]byte // id -> payload the wire must carry
	matched map[int]bool   // submissions already matched to a wire frame
	obs     []Ev           // observed events (for drift)
	lens    map[int]bool
	dead    bool

	// deferred transport: the application's read loop
	curPing *Ev // the ping being delivered (its Ping event is emitted from the read callback)
	pinged  bool
}

func (s *scenario) emit(e Ev) {
	s.i++
	e.C, e.Sid, e.I = "wswire", s.sid, s.i
	if e.Hdr == nil {
		e.Hdr = []int{}
	}
	s.w.Emit(e)
	s.obs = append(s.obs, e)
}

// pid: the submission whose payload the un-masked wire payload equals. Two
// submissions can carry the same bytes (two Close frames with the bare status
// code): the oldest one not yet matched to a wire frame is taken.
func (s *scenario) pid(p []byte) int {
	if len(p) == 0 {
		return -2
	}
	best, bestSeen := -1, -1
	for id, want := range s.subs {
		if len(want) != len(p) || !bytes.Equal(want, p) {
			continue
		}
		if s.matched[id] {
			if bestSeen == -1 || id < bestSeen {
				bestSeen = id
			}
		} else if best == -1 || id < best {
			best = id
		}
	}
	if best == -1 {
		return bestSeen
	}
	s.matched[best] = true
	return best
}

// scan emits a Wire event for every complete frame the transport has received since the last scan.
func (s *scenario) scan() {
	for {
		f, n, ok := parseOne(s.t.out[s.parsed:])
		if !ok {
			return
		}
		s.parsed += n
		e := Ev{Ev: "Wire", Fin: f.fin, Rsv: f.rsv, Op: f.op, M: f.masked, Dl: f.dl, Minimal: f.minimal, Pid: s.pid(f.payload)}
		for _, b := range f.hdr {
			e.Hdr = append(e.Hdr, int(b))
		}
		s.lens[f.dl] = true
		s.emit(e)
	}
}

func (s *scenario) guarded(fn func() error) (cls string) {
	defer func() {
		if p := recover(); p != nil {
			cls = "panic"
			s.dead = true
		}
	}()
	return errClass(fn())
}

func (s *scenario) call(g Ev) {
	e := Ev{Ev: "Call", Api: g.Api, Src: g.Src, Id: g.Id, Op: g.Op, Fin: g.Fin, Plen: g.Plen}
	n := g.Plen
	if n < 0 {
		n = 0
	}
	var payload []byte
	if g.Api == "Close" || g.Api == "AsyncClose" {
		_, _, payload = closePayload(g.Id, n)
	} else {
		payload = genPayload(g.Id, n)
	}
	s.subs[g.Id] = payload

	build := func() *websocket.Frame {
		var f *websocket.Frame
		switch g.Src {
		case "acq":
			f = s.ws.AcquireFrame()
		case "newm":
			nf := websocket.NewFrame()
			f = &nf
			f.SetIsMasked()
		default: // newp: a plain NewFrame, mask bit left to the stream
			nf := websocket.NewFrame()
			f = &nf
		}
		if g.Fin == 1 {
			f.SetFIN()
		}
		f.SetOpcode(websocket.Opcode(g.Op))
		if g.Plen >= 0 {
			f.SetPayload(payload)
		}
		return f
	}

	cbs := 0
	var cberr error
	cb := func(err error) { cbs++; cberr = err }
	async := false
	e.Err = s.guarded(func() error {
		switch g.Api {
		case "Write":
			return s.ws.Write(payload, websocket.MessageType(g.Op))
		case "AsyncWrite":
			async = true
			s.ws.AsyncWrite(payload, websocket.MessageType(g.Op), cb)
		case "WriteFrame":
			return s.ws.WriteFrame(build())
		case "AsyncWriteFrame":
			async = true
			s.ws.AsyncWriteFrame(build(), cb)
		case "Close":
			code, reason, _ := closePayload(g.Id, n)
			return s.ws.Close(code, reason)
		case "AsyncClose":
			async = true
			code, reason, _ := closePayload(g.Id, n)
			s.ws.AsyncClose(code, reason, cb)
		default:
			panic("wswire: unknown api " + g.Api)
		}
		return nil
	})
	if async && e.Err != "panic" {
		e.Cb = cbs
		if cbs == 0 {
			e.Err = "nocb"
			if s.t.dm != "" {
				e.Err = "parked" // accepted; the transport has not completed the write yet
			}
		} else {
			e.Err = errClass(cberr)
		}
	}
	s.emit(e)
	s.scan()
}

// ---- deferred transport ------------------------------------------------------

// armRead keeps an AsyncNextFrame in flight, as an application's read loop does:
// the callback re-arms the read, which flushes the Pong the stream has queued
// (at once, or by waiting for the flush in flight).
func (s *scenario) armRead() {
	s.ws.AsyncNextFrame(func(err error, f websocket.Frame) {
		if g := s.curPing; g != nil {
			s.curPing = nil
			s.pinged = true
			e := Ev{Ev: "Ping", Id: g.Id, Plen: g.Plen, Op: 9, Fin: 1, Err: errClass(err)}
			if err == nil && !(f.Opcode() == websocket.OpcodePing && bytes.Equal(f.Payload(), s.subs[g.Id])) {
				e.Err = "other"
			}
			if e.Err == "nil" && s.ws.State() != websocket.StateActive {
				e.Err = "inactive" // a ping read after the local Close is not answered
			}
			s.emit(e)
		}
		if err == nil {
			s.armRead()
		}
	})
}

// pingDeferred: the peer's ping reaches the parked read. If the read loop is
// not parked on the transport (it waits for a flush), the step is skipped.
func (s *scenario) pingDeferred(g Ev) {
	if s.t.rcb == nil {
		return
	}
	payload := genPayload(g.Id, g.Plen)
	s.subs[g.Id] = payload
	s.t.incoming = append(s.t.incoming, 0x89, byte(g.Plen))
	s.t.incoming = append(s.t.incoming, payload...)
	s.curPing, s.pinged = &g, false
	cls := s.guarded(func() error { s.t.deliver(); return nil })
	if cls == "panic" {
		s.emit(Ev{Ev: "Ping", Id: g.Id, Plen: g.Plen, Op: 9, Fin: 1, Err: "panic"})
	}
	s.curPing = nil
	s.scan()
}

func (s *scenario) acc(g Ev) {
	s.emit(Ev{Ev: "Acc", N: g.N})
	if cls := s.guarded(func() error { s.t.accept(g.N == 1); return nil }); cls == "panic" {
		s.emit(Ev{Ev: "Call", Api: "Acc", Src: "transport", Err: "panic"})
	}
	s.scan()
}

// drainDeferred: the transport accepts everything that is outstanding.
func (s *scenario) drainDeferred() {
	for i := 0; i < 100000 && !s.dead; i++ {
		progressed := false
		s.guarded(func() error { progressed = s.t.accept(false); return nil })
		if !progressed {
			return
		}
	}
}

func (s *scenario) ping(g Ev) {
	e := Ev{Ev: "Ping", Id: g.Id, Plen: g.Plen, Op: 9, Fin: 1}
	payload := genPayload(g.Id, g.Plen)
	s.subs[g.Id] = payload
	s.t.incoming = append(s.t.incoming, 0x89, byte(g.Plen))
	s.t.incoming = append(s.t.incoming, payload...)
	e.Err = s.guarded(func() error {
		f, err := s.ws.NextFrame()
		if err == nil && !(f.Opcode() == websocket.OpcodePing && bytes.Equal(f.Payload(), payload)) {
			return fmt.Errorf("not the ping")
		}
		return err
	})
	if e.Err == "nil" && s.ws.State() != websocket.StateActive {
		e.Err = "inactive" // a ping read after the local Close is not answered
	}
	s.emit(e)
	s.scan()
}

func (s *scenario) play(steps []Ev, sum *tr.Summary) error {
	if len(steps) == 0 || steps[0].Ev != "New" {
		return fmt.Errorf("scenario must start with New")
	}
	g0 := steps[0]
	ws, err := websocket.NewWebsocketStream(s.ioc, nil, websocket.RoleClient)
	if err != nil {
		return err
	}
	// The limit is set before the stream becomes active, or - in two of four scenarios - changed afterwards
	// (lowered from twice, raised from half the value): every part of the stream must see the current one.
	switch s.sid % 4 {
	case 1:
		ws.SetMaxMessageSize(2 * g0.Max)
	case 3:
		ws.SetMaxMessageSize(g0.Max / 2)
	default:
		ws.SetMaxMessageSize(g0.Max)
	}
	s.t = &transport{pp: g0.Pp, dm: g0.Dm}
	if err := ws.VerifAttach(s.t); err != nil {
		return err
	}
	ws.SetMaxMessageSize(g0.Max)
	s.ws = ws
	s.subs = map[int][]byte{}
	s.matched = map[int]bool{}
	s.lens = map[int]bool{}
	s.emit(Ev{Ev: "New", Max: g0.Max, Pp: g0.Pp, Dm: g0.Dm})
	deferred := g0.Dm != ""
	if deferred {
		s.armRead()
	}
	for _, g := range steps[1:] {
		if s.dead {
			break
		}
		switch g.Ev {
		case "Call":
			s.call(g)
		case "Ping":
			if deferred {
				s.pingDeferred(g)
			} else {
				s.ping(g)
			}
		case "Acc":
			s.acc(g)
		case "Wire", "End":
			// predictions of the model, not steps
		default:
			return fmt.Errorf("unknown step %q", g.Ev)
		}
	}
	end := Ev{Ev: "End"}
	if !s.dead && deferred {
		// run the transport until nothing is outstanding, flush once more, again
		s.drainDeferred()
		end.Err = s.guarded(func() error { s.ws.AsyncFlush(func(error) {}); return nil })
		s.drainDeferred()
		s.scan()
	} else if !s.dead {
		end.Err = s.guarded(func() error { return s.ws.Flush() })
		s.scan()
	}
	end.N = len(s.t.out) - s.parsed
	s.emit(end)

	// drift: the model's predicted event sequence against the observed one
	proj := func(e Ev) string {
		switch e.Ev {
		case "Call", "Ping":
			return fmt.Sprintf("%s/%s/%d/%s", e.Ev, e.Api, e.Id, e.Err)
		case "Acc":
			return fmt.Sprintf("Acc/%d", e.N)
		case "Wire":
			return fmt.Sprintf("Wire/%d/%d/%d/%d/%d/%d", e.Op, e.Fin, e.M, e.Dl, e.Minimal, e.Pid)
		case "End":
			return fmt.Sprintf("End/%d", e.N)
		}
		return e.Ev
	}
	predicted := false
	for _, g := range steps {
		if g.Ev == "Wire" || g.Ev == "End" || g.Err != "" {
			predicted = true
		}
	}
	if predicted {
		k := 0
		diff := len(steps) != len(s.obs)
		for ; !diff && k < len(steps); k++ {
			if proj(steps[k]) != proj(s.obs[k]) {
				diff = true
				break
			}
		}
		if diff {
			sum.Drift++
			if sum.FirstDrift == nil {
				if k >= len(steps) || k >= len(s.obs) {
					k = 0
				}
				sum.FirstDrift = map[string]any{"sid": s.sid, "step": k + 1, "predicted_len": len(steps),
					"observed_len": len(s.obs), "predicted": steps[k], "observed": s.obs[k]}
			}
		}
	}
	if len(s.lens) >= 2 {
		sum.Nontrivial++
	}
	if !s.dead && !deferred && s.sid%2 == 0 && s.ws.State() == websocket.StateActive {
		// The connection breaks while a frame is being written, the application connects again (what a new
		// handshake does to the stream, hook VerifReattach) and writes: a scenario of its own for the monitor,
		// whose wire must start with that frame - nothing the old connection left behind comes first.
		s.t.broken = true
		_ = s.guarded(func() error { return s.ws.Write(genPayload(900, 40+s.sid%90), websocket.TypeText) })
		if s.dead {
			return nil
		}
		s.t = &transport{pp: g0.Pp}
		if err := ws.VerifReattach(s.t); err != nil {
			return err
		}
		ws.SetMaxMessageSize(g0.Max)
		s.parsed = 0
		s.subs = map[int][]byte{}
		s.matched = map[int]bool{}
		s.emit(Ev{Ev: "New", Max: g0.Max, Pp: g0.Pp})
		s.call(Ev{Api: []string{"Write", "WriteFrame"}[s.sid/2%2], Src: "acq", Id: 901, Op: 1, Fin: 1, Plen: 3 + s.sid%7})
		again := Ev{Ev: "End"}
		if !s.dead {
			again.Err = s.guarded(func() error { return s.ws.Flush() })
			s.scan()
		}
		again.N = len(s.t.out) - s.parsed
		s.emit(again)
	}
	return nil
}

// Run replays every scenario of `in` and writes the recorded trace to `out`.
func Run(a tr.Args) error {
	w, err := tr.NewWriter(a.Out)
	if err != nil {
		return err
	}
	ioc, err := sonic.NewIO()
	if err != nil {
		return err
	}
	defer ioc.Close()
	sum := tr.Summary{Component: "wswire"}
	err = tr.Behaviours(a.In, func(idx int, raw json.RawMessage) error {
		var steps []Ev
		if err := json.Unmarshal(raw, &steps); err != nil {
			return err
		}
		s := &scenario{w: w, sid: idx, ioc: ioc}
		sum.Scenarios++
		return s.play(steps, &sum)
	})
	if err != nil {
		return err
	}
	sum.Events = w.N
	if err := w.Close(); err != nil {
		return err
	}
	sum.Print()
	return nil
}
