// Package rx replays event-loop scenarios generated from ReactorImpl.tla
// against the real sonic IO context over real descriptors (TCP loopback
// sockets, FIFOs, regular files, listeners, UDP sockets, timerfds) and records
// the API-level events the ReactorMon monitor judges.
package rx

import (
	"encoding/json"
	"errors"
	"fmt"
	"io"
	"net"
	"net/netip"
	"os"
	"os/signal"
	"path/filepath"
	"runtime"
	"strconv"
	"strings"
	"sync"
	"sync/atomic"
	"syscall"
	"time"

	"github.com/talostrading/sonic"
	"github.com/talostrading/sonic/multicast"
	"github.com/talostrading/sonic/sonicerrors"
	"github.com/talostrading/sonic/sonicopts"
	"golang.org/x/sys/unix"

	"verifharness/internal/tr"
)

// Ev is one event of the model's history (script + prediction) and of the
// recorded trace. All fields are always present.
type Ev struct {
	C          string   `json:"c"`
	Sid        int      `json:"sid"`
	I          int      `json:"i"`
	Ev         string   `json:"ev"`
	O          int      `json:"o"`
	Op         int      `json:"op"`
	Dir        string   `json:"dir"`
	Api        string   `json:"api"`
	Err        string   `json:"err"`
	N          int      `json:"n"`
	Depth      int      `json:"depth"`
	T          int      `json:"t"`
	D          int      `json:"d"`
	Ts         int      `json:"ts"`
	Pending    int      `json:"pending"`
	Posted     int      `json:"posted"`
	Dispatched int      `json:"dispatched"`
	Sched      []int    `json:"sched"`
	H          int      `json:"h"`
	Cls        string   `json:"cls"`
	Lim        int      `json:"lim"`
	Kinds      []string `json:"kinds"`
	Note       string   `json:"note"`
	Tok        int      `json:"tok"` // CbB of a read: sequence number of the unit delivered (byte, connection, datagram)
}

func errClass(err error) (string, string) {
	if err == nil {
		return "nil", ""
	}
	note := err.Error()
	var en syscall.Errno
	var se *os.SyscallError
	switch {
	case err == io.EOF:
		return "eof", note
	case err == sonicerrors.ErrCancelled:
		return "cancelled", note
	case err == sonicerrors.ErrWouldBlock:
		return "wouldblock", note
	case err == sonicerrors.ErrTimeout:
		return "timeout", note
	case errors.As(err, &en), errors.As(err, &se):
		return "errno", note
	}
	return "other", note
}

type object struct {
	kind   string
	file   sonic.FileDescriptor // sock (Conn), pipeR, pipeW, reg
	lst    sonic.Listener
	pkt    sonic.PacketConn
	mcp    *multicast.UDPPeer
	nc     net.Conn // adp: the wrapped connection (kept alive)
	fd     int      // RawFd of the sonic object
	peer   int      // raw peer descriptor (-1 if none / closed)
	port   int      // bound port (lst, pkt)
	closed bool
	unborn bool // placeholder of an object that an Open command creates later
	tok    byte
	path   string
	inR    int // op id in flight per direction (driver's own ledger), 0 = none
	inW    int
	sent   int         // units queued by the peer so far (the k-th unit carries token k)
	ports  map[int]int // lst: local port of the k-th dialled connection -> k
}

type opinfo struct {
	o    int
	dir  string
	done bool
}

type drv struct {
	w      *tr.Writer
	sid    int
	i      int
	dir    string // scratch directory for FIFOs / files
	slow   int    // margin multiplier for time budgets
	tickUs int

	ioc        *sonic.IO
	objs       []*object
	timers     []*sonic.Timer
	tfires     []int
	tsn        int          // number of Schedule* calls made in this scenario
	lateTimers bool         // the scenario creates timers itself (TNew)
	plugs      []int        // descriptors occupying the free numbers below the scenario's own (plugHoles)
	freed      int          // descriptor number released by the last Close of an object (0: none)
	lateLn     net.Listener // scenarios with objects opened later: the listener their connections dial
	tdue       []bool       // once-schedule outstanding (driver's ledger)
	ops        map[int]*opinfo
	posted     map[int]bool
	depth      int
	script     map[string][]Ev
	ran        map[string]bool
	t0         time.Time
	base       int
	sink       int // UDP socket receiving datagrams written by pkt objects
	sinkSA     syscall.Sockaddr

	nontrivial bool
	bufs       [][]byte
	cls        string
	skipped    int  // script commands skipped because the real execution had diverged from the model's
	rec        []Ev // recorded events (for the comparison with the model's prediction)
	spare      []*sonic.Timer
	mu         sync.Mutex
	abandoned  bool // the watchdog gave up on this scenario (its goroutine is blocked for good)
}

func (d *drv) emit(e Ev) {
	d.mu.Lock()
	defer d.mu.Unlock()
	if d.abandoned {
		return
	}
	d.i++
	e.C, e.Sid, e.I = "rx", d.sid, d.i
	if e.Sched == nil {
		e.Sched = []int{}
	}
	if e.Kinds == nil {
		e.Kinds = []string{}
	}
	if len(d.rec) < 4096 {
		d.rec = append(d.rec, e)
	}
	d.w.Emit(e)
}

func (d *drv) us() int { return int(time.Since(d.t0) / time.Microsecond) }

// waitFd blocks until poll(2) reports one of `events` (or HUP/ERR) on fd.
func (d *drv) waitFd(fd int, events int16) bool {
	pfd := []unix.PollFd{{Fd: int32(fd), Events: events}}
	for k := 0; k < 200*d.slow; k++ {
		n, err := unix.Poll(pfd, 10)
		if err == nil && n > 0 && pfd[0].Revents != 0 {
			return true
		}
	}
	return false
}

var mcpPort int

// tcpPair: with ln == nil a listener is made for the occasion; an object opened in the middle of a
// scenario dials a listener made at Reset instead, so that the first descriptor created is the
// connection's own (it then gets the lowest free number, e.g. the one a handler has just closed).
var reusedTotal int64 // Opens that got the descriptor number of a closed object

// One listener per driver process serves every connection the scenarios make (a listener per object used up
// the ephemeral ports in the largest covers: closed connections keep their ports in TIME_WAIT for a minute).
var (
	sharedLnOnce sync.Once
	sharedLn     net.Listener
	sharedLnErr  error
)

func listener() (net.Listener, error) {
	sharedLnOnce.Do(func() { sharedLn, sharedLnErr = net.Listen("tcp", "127.0.0.1:0") })
	return sharedLn, sharedLnErr
}

// acceptFor takes the connection that was dialled from local port `port` out of the listener's queue.
func acceptFor(ln net.Listener, port int) (net.Conn, error) {
	for {
		pc, err := ln.Accept()
		if err != nil {
			return nil, err
		}
		if ra, ok := pc.RemoteAddr().(*net.TCPAddr); ok && (port == 0 || ra.Port == port) {
			return pc, nil
		}
		pc.Close() // left over from a set-up that failed half-way
	}
}

func tcpPair(ioc *sonic.IO, _ net.Listener) (sonic.Conn, int, error) {
	ln, err := listener()
	if err != nil {
		return nil, -1, err
	}
	c, err := sonic.Dial(ioc, "tcp", ln.Addr().String(), sonicopts.Nonblocking(true), sonicopts.NoDelay(true))
	if err != nil {
		return nil, -1, err
	}
	port := 0
	if sa, err := syscall.Getsockname(c.RawFd()); err == nil {
		if s4, ok := sa.(*syscall.SockaddrInet4); ok {
			port = s4.Port
		}
	}
	pc, err := acceptFor(ln, port)
	if err != nil {
		return nil, -1, err
	}
	f, err := pc.(*net.TCPConn).File()
	pc.Close()
	if err != nil {
		return nil, -1, err
	}
	fd, err := syscall.Dup(int(f.Fd()))
	f.Close()
	if err != nil {
		return nil, -1, err
	}
	_ = syscall.SetNonblock(fd, true)
	_ = syscall.SetsockoptInt(fd, syscall.IPPROTO_TCP, syscall.TCP_NODELAY, 1)
	return c, fd, nil
}

func (d *drv) mk(kind string, idx int) (*object, error) {
	o := &object{kind: kind, peer: -1}
	switch kind {
	case "sock":
		c, p, err := tcpPair(d.ioc, d.lateLn)
		if err != nil {
			return nil, err
		}
		o.file, o.peer = c, p
		// default buffer sizes: tiny buffers against the 64 KiB loopback MSS make
		// window updates depend on TCP timers
		o.fd = c.RawFd()
	case "adp":
		// net.Conn wrapped by sonic.NewAsyncAdapter
		ln, err := listener()
		if err != nil {
			return nil, err
		}
		nc, err := net.Dial("tcp", ln.Addr().String())
		if err != nil {
			return nil, err
		}
		pc, err := acceptFor(ln, nc.LocalAddr().(*net.TCPAddr).Port)
		if err != nil {
			return nil, err
		}
		f, err := pc.(*net.TCPConn).File()
		pc.Close()
		if err != nil {
			return nil, err
		}
		fd, err := syscall.Dup(int(f.Fd()))
		f.Close()
		if err != nil {
			return nil, err
		}
		_ = syscall.SetNonblock(fd, true)
		_ = syscall.SetsockoptInt(fd, syscall.IPPROTO_TCP, syscall.TCP_NODELAY, 1)
		var ad *sonic.AsyncAdapter
		var aerr error
		sonic.NewAsyncAdapter(d.ioc, nc.(*net.TCPConn), nc, func(err error, a *sonic.AsyncAdapter) {
			ad, aerr = a, err
		}, sonicopts.NoDelay(true))
		if aerr != nil || ad == nil {
			return nil, fmt.Errorf("adapter: %v", aerr)
		}
		o.file, o.peer, o.fd = ad, fd, ad.RawFd()
		o.nc = nc
	case "pipeR", "pipeW":
		o.path = filepath.Join(d.dir, fmt.Sprintf("fifo-%d-%d-%d", os.Getpid(), d.sid, idx))
		_ = os.Remove(o.path)
		if err := syscall.Mkfifo(o.path, 0600); err != nil {
			return nil, err
		}
		if kind == "pipeR" {
			f, err := sonic.Open(d.ioc, o.path, os.O_RDONLY|syscall.O_NONBLOCK, 0)
			if err != nil {
				return nil, err
			}
			p, err := syscall.Open(o.path, os.O_WRONLY|syscall.O_NONBLOCK, 0)
			if err != nil {
				return nil, err
			}
			o.file, o.peer = f, p
		} else {
			p, err := syscall.Open(o.path, os.O_RDONLY|syscall.O_NONBLOCK, 0)
			if err != nil {
				return nil, err
			}
			f, err := sonic.Open(d.ioc, o.path, os.O_WRONLY|syscall.O_NONBLOCK, 0)
			if err != nil {
				return nil, err
			}
			o.file, o.peer = f, p
			// smallest pipe so that fillw is cheap
			_, _ = unix.FcntlInt(uintptr(f.RawFd()), unix.F_SETPIPE_SZ, 4096)
		}
		o.fd = o.file.RawFd()
	case "reg":
		o.path = filepath.Join(d.dir, fmt.Sprintf("reg-%d-%d-%d", os.Getpid(), d.sid, idx))
		if err := os.WriteFile(o.path, make([]byte, 0), 0600); err != nil {
			return nil, err
		}
		f, err := sonic.Open(d.ioc, o.path, os.O_RDWR|syscall.O_NONBLOCK, 0)
		if err != nil {
			return nil, err
		}
		p, err := syscall.Open(o.path, os.O_WRONLY|syscall.O_APPEND, 0)
		if err != nil {
			return nil, err
		}
		o.file, o.peer, o.fd = f, p, f.RawFd()
	case "lst":
		l, err := sonic.Listen(d.ioc, "tcp", "127.0.0.1:0", sonicopts.Nonblocking(true))
		if err != nil {
			return nil, err
		}
		o.lst, o.fd = l, l.RawFd()
		sa, err := syscall.Getsockname(o.fd)
		if err != nil {
			return nil, err
		}
		o.port = sa.(*syscall.SockaddrInet4).Port
	case "pkt":
		p, err := sonic.NewPacketConn(d.ioc, "udp", "127.0.0.1:0")
		if err != nil {
			return nil, err
		}
		o.pkt, o.fd = p, p.RawFd()
		_ = syscall.SetNonblock(o.fd, true)
		sa, err := syscall.Getsockname(o.fd)
		if err != nil {
			return nil, err
		}
		o.port = sa.(*syscall.SockaddrInet4).Port
		s, err := syscall.Socket(syscall.AF_INET, syscall.SOCK_DGRAM|syscall.SOCK_NONBLOCK, 0)
		if err != nil {
			return nil, err
		}
		o.peer = s
	case "mcp":
		// NewUDPPeer binds with SO_REUSEPORT: an ephemeral port may coincide with a reuse-port
		// socket of another driver process and the kernel would then share the datagrams between
		// them. Ports come from a range private to this process instead.
		var p *multicast.UDPPeer
		var err error
		for try := 0; try < 100; try++ {
			mcpPort++
			port := 20000 + (os.Getpid()%100)*100 + mcpPort%100
			p, err = multicast.NewUDPPeer(d.ioc, "udp", fmt.Sprintf("127.0.0.1:%d", port))
			if err == nil {
				// (two driver processes whose ids agree modulo 100 draw from the same range)
				if udpPortSockets(port) > 1 {
					_ = p.Close()
					err = fmt.Errorf("port %d is shared with another socket", port)
					continue
				}
				break
			}
		}
		if err != nil {
			return nil, err
		}
		o.mcp, o.fd = p, p.NextLayer().RawFd()
		o.port = p.LocalAddr().Port
		s, err := syscall.Socket(syscall.AF_INET, syscall.SOCK_DGRAM|syscall.SOCK_NONBLOCK, 0)
		if err != nil {
			return nil, err
		}
		o.peer = s
	default:
		return nil, fmt.Errorf("unknown kind %q", kind)
	}
	return o, nil
}

func (d *drv) sample() {
	e := Ev{Ev: "Sample", Pending: int(d.ioc.Pending()), Posted: d.ioc.Posted(), Dispatched: d.ioc.Dispatched - d.base}
	for _, t := range d.timers {
		if t != nil && t.Scheduled() {
			e.Sched = append(e.Sched, 1)
		} else {
			e.Sched = append(e.Sched, 0)
		}
	}
	d.emit(e)
}

// runKey executes the commands the model's handler issued in activation `key`.
func (d *drv) runKey(key string) {
	if d.ran[key] {
		return
	}
	d.ran[key] = true
	for _, c := range d.script[key] {
		d.exec(c)
	}
}

func (d *drv) opCb(op int) func(error, int, int) {
	return func(err error, n int, tok int) {
		cls, note := errClass(err)
		d.depth++
		d.emit(Ev{Ev: "CbB", Op: op, Err: cls, N: n, Depth: d.depth, Note: note, Tok: tok})
		if oi := d.ops[op]; oi != nil && !oi.done {
			oi.done = true
			ob := d.objs[oi.o-1]
			if oi.dir == "R" && ob.inR == op {
				ob.inR = 0
			}
			if oi.dir == "W" && ob.inW == op {
				ob.inW = 0
			}
		}
		if d.depth > 1 {
			d.nontrivial = true
		}
		d.runKey(fmt.Sprintf("op%d", op))
		d.emit(Ev{Ev: "CbE", Op: op})
		d.depth--
	}
}

func (d *drv) buf(n int) []byte {
	b := make([]byte, n)
	d.bufs = append(d.bufs, b)
	return b
}

func (d *drv) exec(c Ev) {
	switch c.Ev {
	case "Call":
		ob := d.objs[c.O-1]
		// The script comes from the model; when the real execution took another (equally legal)
		// branch - e.g. the kernel delivered a poll batch in another order - a command may arrive
		// where the API contract does not allow it: one operation per direction at a time, nothing
		// on a closed object. Such commands are skipped.
		if ob.closed || (c.Dir == "R" && ob.inR != 0) || (c.Dir == "W" && ob.inW != 0) {
			d.skipped++
			return
		}
		d.ops[c.Op] = &opinfo{o: c.O, dir: c.Dir}
		if c.Dir == "R" {
			ob.inR = c.Op
		} else {
			ob.inW = c.Op
		}
		d.emit(Ev{Ev: "Call", Api: c.Api, O: c.O, Op: c.Op, Dir: c.Dir, N: c.N})
		cb := d.opCb(c.Op)
		switch c.Api {
		case "read":
			b := d.buf(1)
			ob.file.AsyncRead(b, func(err error, n int) {
				tok := 0
				if err == nil && n > 0 {
					tok = int(b[0])
				}
				cb(err, n, tok)
			})
		case "readall":
			// N units (bytes) in one operation; the projection is the first unit's token, or -1 if the
			// buffer does not hold N consecutive units
			b := d.buf(c.N)
			ob.file.AsyncReadAll(b, func(err error, n int) {
				tok := 0
				if err == nil && n > 0 {
					tok = int(b[0])
					for k := 1; k < n; k++ {
						if int(b[k]) != tok+k {
							tok = -1
							break
						}
					}
				}
				cb(err, n, tok)
			})
		case "write":
			b := d.buf(1)
			ob.tok++
			b[0] = ob.tok
			ob.file.AsyncWrite(b, func(err error, n int) { cb(err, n, 0) })
		case "accept", "acceptbad": // (bad: the descriptor was replaced underneath, accept(2) fails at once)
			ob.lst.AsyncAccept(func(err error, conn sonic.Conn) {
				n, tok := 0, 0
				if err == nil && conn != nil {
					n = 1
					if ta, ok := conn.RemoteAddr().(*net.TCPAddr); ok {
						tok = ob.ports[ta.Port]
					}
					defer conn.Close()
				}
				cb(err, n, tok)
			})
		case "readfrom", "readfromempty": // (empty: the oldest queued datagram has no payload, the read fails at once with EOF)
			if ob.mcp != nil {
				b := d.buf(8)
				ob.mcp.AsyncRead(b, func(err error, n int, _ netip.AddrPort) {
					tok := 0
					if err == nil && n > 0 {
						tok = int(b[0])
					}
					cb(err, n, tok)
				})
			} else {
				b := d.buf(8)
				ob.pkt.AsyncReadFrom(b, func(err error, n int, _ net.Addr) {
					tok := 0
					if err == nil && n > 0 {
						tok = int(b[0])
					}
					cb(err, n, tok)
				})
			}
		case "writeto", "writetobig":
			b := d.buf(1)
			if c.Api == "writetobig" {
				b = make([]byte, 70000) // larger than any UDP datagram: the send fails at once (EMSGSIZE)
			}
			b[0] = 7
			if ob.mcp != nil {
				ob.mcp.AsyncWrite(b, netip.AddrPortFrom(netip.AddrFrom4([4]byte{127, 0, 0, 1}), uint16(d.sinkPort())),
					func(err error, n int) { cb(err, n, 0) })
			} else {
				ob.pkt.AsyncWriteTo(b, &net.UDPAddr{IP: net.IPv4(127, 0, 0, 1), Port: d.sinkPort()}, func(err error) {
					n := 0
					if err == nil {
						n = 1
					}
					cb(err, n, 0)
				})
			}
		default:
			panic("unknown api " + c.Api)
		}
		d.emit(Ev{Ev: "Ret", Op: c.Op})
	case "CancelB":
		ob := d.objs[c.O-1]
		d.emit(Ev{Ev: "CancelB", O: c.O})
		ob.file.Cancel()
		d.emit(Ev{Ev: "CancelE", O: c.O})
	case "CloseB":
		ob := d.objs[c.O-1]
		d.emit(Ev{Ev: "CloseB", O: c.O})
		var err error
		switch {
		case ob.file != nil:
			err = ob.file.Close()
		case ob.lst != nil:
			err = ob.lst.Close()
		case ob.pkt != nil:
			err = ob.pkt.Close()
		case ob.mcp != nil:
			err = ob.mcp.Close()
		}
		ob.closed = true
		d.freed = ob.fd
		d.reserve(ob)
		cls, note := errClass(err)
		d.emit(Ev{Ev: "CloseE", O: c.O, Err: cls, Note: note})
	case "PostE":
		h := c.H
		err := d.ioc.Post(func() {
			d.depth++
			d.emit(Ev{Ev: "PostRunB", H: h, Depth: d.depth})
			delete(d.posted, h)
			d.runKey(fmt.Sprintf("po%d", h))
			d.emit(Ev{Ev: "PostRunE", H: h})
			d.depth--
		})
		if err == nil {
			d.posted[h] = true
		}
		cls, note := errClass(err)
		d.emit(Ev{Ev: "PostE", H: h, Err: cls, Note: note})
	case "Open":
		ob := d.objs[c.O-1]
		if !ob.unborn {
			d.skipped++
			return
		}
		// The kernel hands out the lowest free number. Numbers below the one freed by the last Close may
		// be free as well (helpers of earlier set-ups); they are occupied for the moment, so that the new
		// object gets the number of the object that was just closed - what happens to a program that
		// holds no other descriptors.
		var fill []int
		for d.freed > 0 {
			fd, err := syscall.Open("/dev/null", syscall.O_RDONLY|syscall.O_CLOEXEC, 0)
			if err != nil {
				break
			}
			if fd < d.freed {
				fill = append(fill, fd)
				continue
			}
			syscall.Close(fd)
			break
		}
		nb, err := d.mk(ob.kind, c.O-1)
		for _, fd := range fill {
			syscall.Close(fd)
		}
		if err != nil {
			panic(fmt.Errorf("open %s: %w", ob.kind, err))
		}
		if nb.fd == d.freed {
			atomic.AddInt64(&reusedTotal, 1)
		}
		d.freed = 0
		d.objs[c.O-1] = nb
		d.emit(Ev{Ev: "Open", O: c.O, N: nb.fd})
	case "TNew":
		if d.timers[c.T-1] != nil {
			d.skipped++
			return
		}
		tm, err := sonic.NewTimer(d.ioc)
		if err != nil {
			panic(fmt.Errorf("new timer: %w", err))
		}
		d.timers[c.T-1] = tm
		d.emit(Ev{Ev: "TNew", T: c.T})
	case "TSchedB":
		t := c.T
		tm := d.timers[t-1]
		if tm == nil {
			d.skipped++
			return
		}
		dur := time.Duration(c.D) * time.Microsecond
		d.tsn++
		sn := d.tsn // identity of this call's closure
		fire := func() {
			ts := d.us()
			d.depth++
			d.tfires[t-1]++
			if c.N == 0 {
				d.tdue[t-1] = false
			}
			d.emit(Ev{Ev: "TFireB", T: t, Ts: ts, Depth: d.depth, H: sn})
			d.runKey(fmt.Sprintf("tm%d.%d", t, d.tfires[t-1]))
			d.emit(Ev{Ev: "TFireE", T: t})
			d.depth--
		}
		d.emit(Ev{Ev: "TSchedB", T: t, N: c.N, D: c.D, Ts: d.us(), H: sn})
		var err error
		if c.N == 1 {
			err = tm.ScheduleRepeating(dur, fire)
		} else {
			err = tm.ScheduleOnce(dur, fire)
		}
		if err == nil && c.N == 0 && c.D > 0 {
			d.tdue[t-1] = true
		}
		cls, note := errClass(err)
		d.emit(Ev{Ev: "TSchedE", T: t, Err: cls, Note: note})
	case "TCancelE":
		if d.timers[c.T-1] == nil {
			d.skipped++
			return
		}
		err := d.timers[c.T-1].Cancel()
		if err == nil {
			d.tdue[c.T-1] = false
		}
		cls, note := errClass(err)
		d.emit(Ev{Ev: "TCancelE", T: c.T, Err: cls, Note: note})
	case "TCloseE":
		if d.timers[c.T-1] == nil {
			d.skipped++
			return
		}
		err := d.timers[c.T-1].Close()
		if err == nil {
			d.tdue[c.T-1] = false
			// the program goes on creating timers: the kernel may hand the closed
			// timer's descriptor number to the next one (in scenarios that create timers themselves
			// the TNew command does that)
			if !d.lateTimers {
				if sp, e2 := sonic.NewTimer(d.ioc); e2 == nil {
					d.spare = append(d.spare, sp)
				}
			}
		}
		cls, note := errClass(err)
		d.emit(Ev{Ev: "TCloseE", T: c.T, Err: cls, Note: note})
	case "Env":
		d.env(c.Api, c.O, c.N)
	case "PollB":
		d.poll()
	case "WaitSig":
		// block in RunOneFor (D >= 1 ms) or RunOne (D < 0) while a helper interrupts
		// the loop's OS thread with a signal after N ms
		tid := unix.Gettid()
		fired := make(chan struct{})
		go func() {
			time.Sleep(time.Duration(c.N) * time.Millisecond)
			_ = unix.Tgkill(os.Getpid(), tid, syscall.SIGUSR1)
			close(fired)
		}()
		d.emit(Ev{Ev: "WaitB", N: c.N, D: c.D})
		t := time.Now()
		var err error
		if c.D < 0 {
			err = d.ioc.RunOne()
		} else {
			err = d.ioc.RunOneFor(time.Duration(c.D) * time.Millisecond)
		}
		el := int(time.Since(t) / time.Millisecond)
		<-fired
		cls, note := errClass(err)
		d.emit(Ev{Ev: "WaitE", Err: cls, N: el, Note: note})
	}
}

// reserve: AsyncAdapter.Close used to close the descriptor behind the wrapped net.Conn's back
// (repaired: it now closes through the net.Conn), so nothing has to be kept occupied any more.
func (d *drv) reserve(ob *object) {}

func (d *drv) sinkPort() int {
	if d.sink < 0 {
		s, err := syscall.Socket(syscall.AF_INET, syscall.SOCK_DGRAM|syscall.SOCK_NONBLOCK, 0)
		if err != nil {
			panic(err)
		}
		if err := syscall.Bind(s, &syscall.SockaddrInet4{Addr: [4]byte{127, 0, 0, 1}}); err != nil {
			panic(err)
		}
		d.sink = s
		d.sinkSA, _ = syscall.Getsockname(s)
	}
	return d.sinkSA.(*syscall.SockaddrInet4).Port
}

func (d *drv) poll() {
	d.emit(Ev{Ev: "PollB"})
	n, err := d.ioc.PollOne()
	cls, note := errClass(err)
	d.emit(Ev{Ev: "PollE", N: n, Err: cls, Note: note})
}

func (d *drv) env(what string, oi int, n int) {
	note := ""
	if what == "tick" {
		// a full tick from now: a timer armed with k ticks before this step has
		// expired after k tick steps, as in the model
		tick := time.Duration(d.tickUs) * time.Microsecond
		time.Sleep(tick + 300*time.Microsecond)
		d.emit(Ev{Ev: "Env", Api: what, N: 1})
		return
	}
	ob := d.objs[oi-1]
	switch what {
	case "send":
		switch ob.kind {
		case "sock", "adp", "pipeR", "reg":
			if ob.peer >= 0 {
				ob.sent++
				if _, err := syscall.Write(ob.peer, []byte{byte(ob.sent)}); err != nil {
					note = "write: " + err.Error()
				}
			}
		case "lst":
			c, err := net.Dial("tcp", fmt.Sprintf("127.0.0.1:%d", ob.port))
			if err != nil {
				note = "dial: " + err.Error()
			} else {
				ob.sent++
				if ob.ports == nil {
					ob.ports = map[int]int{}
				}
				ob.ports[c.LocalAddr().(*net.TCPAddr).Port] = ob.sent
				c.Close()
			}
		case "pkt", "mcp":
			ob.sent++
			if err := syscall.Sendto(ob.peer, []byte{byte(ob.sent)}, 0, &syscall.SockaddrInet4{Port: ob.port, Addr: [4]byte{127, 0, 0, 1}}); err != nil {
				note = "sendto: " + err.Error()
			}
		}
		if !ob.closed && ob.kind != "reg" {
			if !d.waitFd(ob.fd, unix.POLLIN) {
				note += " barrier-timeout"
			}
		}
	case "steal":
		// someone who shares the listening socket (another acceptor) takes the oldest queued connection
		if ob.kind == "lst" {
			if fd, _, err := syscall.Accept(ob.fd); err == nil {
				syscall.Close(fd)
			} else {
				note = "accept: " + err.Error()
			}
		}
	case "sendempty":
		// a datagram without payload: a datagram read that meets it completes at once, with an error
		if ob.kind == "pkt" || ob.kind == "mcp" {
			if err := syscall.Sendto(ob.peer, nil, 0, &syscall.SockaddrInet4{Port: ob.port, Addr: [4]byte{127, 0, 0, 1}}); err != nil {
				note = "sendto: " + err.Error()
			}
			if !ob.closed && !d.waitFd(ob.fd, unix.POLLIN) {
				note += " barrier-timeout"
			}
		}
	case "peerclose":
		if ob.peer >= 0 {
			syscall.Close(ob.peer)
			ob.peer = -1
			if !ob.closed {
				ev := int16(unix.POLLIN)
				if ob.kind == "pipeW" {
					ev = unix.POLLOUT
				}
				if !d.waitFd(ob.fd, ev) {
					note += " barrier-timeout"
				}
			}
		}
	case "reset":
		if ob.peer >= 0 {
			_ = syscall.SetsockoptLinger(ob.peer, syscall.SOL_SOCKET, syscall.SO_LINGER, &syscall.Linger{Onoff: 1, Linger: 0})
			syscall.Close(ob.peer)
			ob.peer = -1
			if !ob.closed && !d.waitFd(ob.fd, unix.POLLIN) {
				note += " barrier-timeout"
			}
		}
	case "yank":
		// replace the descriptor underneath the object: the number stays
		// reserved (it now refers to /dev/null) but is no longer in the epoll set,
		// so every later epoll_ctl on it fails
		nul, err := syscall.Open("/dev/null", syscall.O_RDWR, 0)
		if err != nil {
			note = "open /dev/null: " + err.Error()
		} else {
			if err := unix.Dup2(nul, ob.fd); err != nil {
				note = "dup2: " + err.Error()
			}
			syscall.Close(nul)
		}
	case "fillw":
		junk := make([]byte, 65536)
		for k := 0; k < 100000; k++ {
			_, err := syscall.Write(ob.fd, junk)
			if err != nil {
				if err != syscall.EAGAIN {
					note = "fill: " + err.Error()
				}
				break
			}
		}
	case "drainw":
		junk := make([]byte, 1<<20)
		for k := 0; k < 200*d.slow; k++ {
			for {
				n, err := syscall.Read(ob.peer, junk)
				if n <= 0 || err != nil {
					break
				}
			}
			pfd := []unix.PollFd{{Fd: int32(ob.fd), Events: unix.POLLOUT}}
			if n, _ := unix.Poll(pfd, 5); n > 0 && pfd[0].Revents&unix.POLLOUT != 0 {
				break
			}
		}
	}
	if what == "send" && (ob.kind == "pkt" || ob.kind == "mcp") && strings.Contains(note, "barrier-timeout") {
		what = "send-lost" // datagrams may be dropped on the way: what never arrived is not "the oldest unit queued"
	}
	d.emit(Ev{Ev: "Env", Api: what, O: oi, N: n, Note: note})
}

// driftAt compares the model's predicted events (up to its drain phase) with
// the recorded ones; returns the first differing index or -1.
func driftAt(h, rec []Ev) int {
	same := func(a, b Ev) bool {
		if a.Ev != b.Ev || a.O != b.O || a.Op != b.Op || a.T != b.T || a.H != b.H {
			return false
		}
		switch a.Ev {
		case "CbB", "CloseE", "TSchedE", "TCancelE", "TCloseE", "PollE", "PostE":
			if a.Err != b.Err {
				return false
			}
		case "Sample":
			if a.Pending != b.Pending || a.Posted != b.Posted || len(a.Sched) != len(b.Sched) {
				return false
			}
			for i := range a.Sched {
				if a.Sched[i] != b.Sched[i] {
					return false
				}
			}
		}
		return true
	}
	for i, e := range h {
		if e.Note == "drain" {
			return -1
		}
		if i >= len(rec) {
			return -1
		}
		if i == 0 {
			continue // Reset
		}
		if !same(e, rec[i]) {
			return i
		}
	}
	return -1
}

// parse turns the model's history into per-activation command lists.
func parse(h []Ev) (map[string][]Ev, Ev) {
	script := map[string][]Ev{}
	stack := []string{"top"}
	tf := map[int]int{}
	var reset Ev
	for _, e := range h {
		cur := stack[len(stack)-1]
		switch e.Ev {
		case "Reset":
			reset = e
		case "CbB":
			stack = append(stack, fmt.Sprintf("op%d", e.Op))
		case "TFireB":
			tf[e.T]++
			stack = append(stack, fmt.Sprintf("tm%d.%d", e.T, tf[e.T]))
		case "PostRunB":
			stack = append(stack, fmt.Sprintf("po%d", e.H))
		case "CbE", "TFireE", "PostRunE":
			if len(stack) > 1 {
				stack = stack[:len(stack)-1]
			}
		case "Call", "CancelB", "CloseB", "PostE", "TSchedB", "TCancelE", "TCloseE", "Env", "PollB", "WaitSig", "Open", "TNew":
			if e.Note != "drain" { // the model's drain phase is not replayed: the driver has its own
				script[cur] = append(script[cur], e)
			}
		}
	}
	return script, reset
}

// busy reports whether the driver's own ledger still holds work that the
// drain phase can bring to completion.
func (d *drv) busy() bool {
	for _, ob := range d.objs {
		if !ob.closed && (ob.inR != 0 || ob.inW != 0) {
			return true
		}
	}
	for _, due := range d.tdue {
		if due {
			return true
		}
	}
	return len(d.posted) > 0
}

// drain makes every parked operation completable and polls until the
// driver's ledger is empty or a generous budget expires.
func (d *drv) drain() {
	idle := 0
	for round := 0; round < 400 && d.busy(); round++ {
		for k, ob := range d.objs {
			if ob.closed {
				continue
			}
			if ob.inR != 0 && ob.peer >= 0 || ob.inR != 0 && ob.kind == "lst" {
				d.env("send", k+1, 1)
				d.sample()
			}
			if ob.inW != 0 && ob.peer >= 0 && (ob.kind == "sock" || ob.kind == "adp" || ob.kind == "pipeW") {
				d.env("drainw", k+1, 1)
				d.sample()
			}
		}
		before := d.w.N
		d.poll()
		d.sample()
		if d.w.N-before <= 3 { // PollB, PollE, Sample: no handler ran
			idle++
			if idle > 20*d.slow {
				break
			}
			time.Sleep(time.Duration(d.tickUs/2) * time.Microsecond)
		} else {
			idle = 0
		}
	}
}

func (d *drv) cleanup() {
	for _, t := range d.timers {
		if t != nil {
			_ = t.Close()
		}
	}
	for _, fd := range d.plugs {
		syscall.Close(fd)
	}
	d.plugs = nil
	for _, t := range d.spare {
		_ = t.Close()
	}
	for _, ob := range d.objs {
		if !ob.closed {
			switch {
			case ob.file != nil:
				_ = ob.file.Close()
			case ob.lst != nil:
				_ = ob.lst.Close()
			case ob.pkt != nil:
				_ = ob.pkt.Close()
			case ob.mcp != nil:
				_ = ob.mcp.Close()
			}
			d.reserve(ob)
		}
		if ob.nc != nil {
			_ = ob.nc.Close()
		}
		if ob.peer >= 0 {
			if ob.kind == "sock" || ob.kind == "adp" {
				// abortive close: no TIME_WAIT entries (tens of thousands of scenarios would use up the
				// ephemeral ports)
				_ = syscall.SetsockoptLinger(ob.peer, syscall.SOL_SOCKET, syscall.SO_LINGER, &syscall.Linger{Onoff: 1, Linger: 0})
			}
			syscall.Close(ob.peer)
		}
		if ob.path != "" {
			_ = os.Remove(ob.path)
		}
	}
	if d.sink >= 0 {
		syscall.Close(d.sink)
	}
	if d.ioc != nil {
		_ = d.ioc.Close()
	}
}

// plugHoles occupies every free descriptor number below the highest one in use. A scenario that creates
// objects or timers after closing others then sees what a program holding no other descriptors sees: the new
// descriptor gets the number that was just released.
func (d *drv) plugHoles() {
	max := 0
	if ents, err := os.ReadDir("/proc/self/fd"); err == nil {
		for _, e := range ents {
			if n, err := strconv.Atoi(e.Name()); err == nil && n > max {
				max = n
			}
		}
	}
	for k := 0; k < 4096; k++ {
		fd, err := syscall.Open("/dev/null", syscall.O_RDONLY|syscall.O_CLOEXEC, 0)
		if err != nil {
			return
		}
		if fd > max {
			syscall.Close(fd)
			return
		}
		d.plugs = append(d.plugs, fd)
	}
}

func (d *drv) scenario(h []Ev) (err error) {
	script, reset := parse(h)
	if reset.Ev != "Reset" {
		return fmt.Errorf("history must start with Reset")
	}
	d.script, d.ran = script, map[string]bool{}
	d.i, d.depth, d.nontrivial = 0, 0, false
	d.ops, d.posted = map[int]*opinfo{}, map[int]bool{}
	d.objs, d.timers, d.tfires, d.tdue, d.bufs = nil, nil, nil, nil, nil
	d.tsn, d.freed = 0, 0
	d.sink = -1
	d.ioc, err = sonic.NewIO()
	if err != nil {
		return err
	}
	defer d.cleanup()
	if _, err := listener(); err != nil { // made before anything of the scenario, so that it never takes a freed number
		return err
	}
	for k, kind := range reset.Kinds {
		if reset.D&(1<<uint(k)) != 0 {
			d.objs = append(d.objs, &object{kind: kind, peer: -1, closed: true, unborn: true})
			continue
		}
		ob, err := d.mk(kind, k)
		if err != nil {
			return fmt.Errorf("mk %s: %w", kind, err)
		}
		d.objs = append(d.objs, ob)
	}
	d.lateTimers = reset.H != 0
	for k := 0; k < reset.N; k++ {
		if reset.H&(1<<uint(k)) != 0 {
			// bit k of Reset.h: timer k+1 does not exist yet, a TNew command creates it
			d.timers = append(d.timers, nil)
			d.tfires = append(d.tfires, 0)
			d.tdue = append(d.tdue, false)
			continue
		}
		t, err := sonic.NewTimer(d.ioc)
		if err != nil {
			return err
		}
		if d.sid%2 == 1 {
			// every other scenario works with timers that have been used before: each has fired once already
			// (whatever an object keeps from an earlier expiration is there when the scenario starts)
			fired := false
			if t.ScheduleOnce(time.Microsecond, func() { fired = true }) == nil {
				for k := 0; k < 3000 && !fired; k++ {
					_ = d.ioc.RunOneFor(time.Millisecond)
				}
			}
			if !fired {
				return fmt.Errorf("warm-up expiration of timer %d did not arrive", k+1)
			}
		}
		d.timers = append(d.timers, t)
		d.tfires = append(d.tfires, 0)
		d.tdue = append(d.tdue, false)
	}
	if reset.D != 0 || reset.H != 0 {
		d.plugHoles()
	}
	lim := reset.Lim
	if lim <= 0 || lim > sonic.MaxCallbackDispatch {
		lim = sonic.MaxCallbackDispatch
	}
	d.base = sonic.MaxCallbackDispatch - lim
	d.ioc.Dispatched = d.base
	d.t0 = time.Now()
	d.emit(Ev{Ev: "Reset", Kinds: reset.Kinds, Cls: reset.Cls, Lim: lim, N: reset.N, Dispatched: 0})
	d.cls = reset.Cls
	for _, c := range d.script["top"] {
		d.exec(c)
		d.sample()
	}
	if d.cls == "runpending" {
		d.runPending()
	} else {
		d.drain()
		for k := 0; k < 4 && len(d.timers) > 0; k++ {
			// settle: a callback that must not run any more (cancelled, closed, already
			// fired) gets the time of the longest delay to show up
			time.Sleep(time.Duration(2*d.tickUs+500) * time.Microsecond)
			d.poll()
			d.sample()
			if !d.busy() {
				break
			}
			// a handler that ran during the settle phase started something new
			d.drain()
		}
	}
	d.emit(Ev{Ev: "End"})
	return nil
}

// runPending makes every parked operation completable, then calls
// IO.RunPending, which must return exactly when nothing is in flight any more.
// (Scenarios of this class start operations and timers from the top level only
// and use no repeating timers, so RunPending can terminate.)
func (d *drv) runPending() {
	for k, ob := range d.objs {
		if ob.closed {
			continue
		}
		if ob.inR != 0 && ob.peer >= 0 || ob.inR != 0 && ob.kind == "lst" {
			d.env("send", k+1, 1)
			d.sample()
		}
		if ob.inW != 0 && ob.peer >= 0 && (ob.kind == "sock" || ob.kind == "adp" || ob.kind == "pipeW") {
			d.env("drainw", k+1, 1)
			d.sample()
		}
	}
	d.emit(Ev{Ev: "RunPendB"})
	err := d.ioc.RunPending()
	cls, note := errClass(err)
	d.emit(Ev{Ev: "RunPendE", Err: cls, Note: note})
	d.sample()
}

// Run replays every history of a.In and writes the trace to a.Out.
func Run(a tr.Args) error {
	// SIGUSR1 is used to interrupt the loop's wait (class "signal"); with a
	// handler installed the default action (terminate) does not apply
	sigs := make(chan os.Signal, 64)
	signal.Notify(sigs, syscall.SIGUSR1)
	go func() {
		for range sigs {
		}
	}()
	w, err := tr.NewWriter(a.Out)
	if err != nil {
		return err
	}
	dir := filepath.Dir(a.Out)
	d := &drv{w: w, dir: dir, slow: 1, tickUs: 4000}
	if v := os.Getenv("VERIF_SLOW"); v != "" {
		fmt.Sscanf(v, "%d", &d.slow)
		if d.slow < 1 {
			d.slow = 1
		}
	}
	if v := os.Getenv("VERIF_TICKUS"); v != "" {
		fmt.Sscanf(v, "%d", &d.tickUs)
	}
	sum := tr.Summary{Component: "rx"}
	err = tr.Behaviours(a.In, func(idx int, raw json.RawMessage) error {
		var h []Ev
		if err := json.Unmarshal(raw, &h); err != nil {
			return err
		}
		sum.Scenarios++
		// every scenario runs on its own goroutine under a watchdog: a loop that
		// blocks for good (RunPending that never returns, a deadlock) is
		// abandoned and recorded as a Stuck event
		sd := &drv{w: w, dir: d.dir, slow: d.slow, tickUs: d.tickUs, sid: idx + a.SidBase}
		res := make(chan error, 1)
		go func() {
			runtime.LockOSThread()
			res <- sd.scenario(h)
		}()
		select {
		case err := <-res:
			if err != nil {
				return err
			}
		case <-time.After(time.Duration(2500*d.slow) * time.Millisecond):
			api := "scenario"
			if sd.cls == "runpending" {
				api = "RunPending"
			}
			// the scenario goroutine is blocked in the kernel; nothing else writes the trace now
			sd.emit(Ev{Ev: "Stuck", Api: api})
			sd.emit(Ev{Ev: "End"})
			sd.mu.Lock()
			sd.abandoned = true
			sd.mu.Unlock()
			sum.Notes = "stuck scenarios present"
		}
		if sd.nontrivial {
			sum.Nontrivial++
		}
		sd.mu.Lock()
		if k := driftAt(h, sd.rec); k >= 0 {
			sum.Drift++
			if sum.FirstDrift == nil {
				sum.FirstDrift = map[string]any{"sid": sd.sid, "event": k + 1, "predicted": h[k], "observed": sd.rec[k]}
			}
		}
		sd.mu.Unlock()
		return nil
	})
	if err != nil {
		return err
	}
	sum.Events = w.N
	if err := w.Close(); err != nil {
		return err
	}
	if ents, err := os.ReadDir("/proc/self/fd"); err == nil {
		sum.Notes = map[string]any{"open_descriptors_at_end": len(ents), "notes": sum.Notes, "opens_reusing_a_closed_number": atomic.LoadInt64(&reusedTotal)}
	}
	sum.Print()
	return nil
}

// udpPortSockets: how many distinct UDP sockets of this network namespace are bound to the port
// (by inode: /proc/net/udp may list a socket more than once while the table changes).
func udpPortSockets(port int) int {
	set := map[string]bool{}
	for _, f := range []string{"/proc/net/udp", "/proc/net/udp6"} {
		b, err := os.ReadFile(f)
		if err != nil {
			continue
		}
		suffix := fmt.Sprintf(":%04X", port)
		for _, l := range strings.Split(string(b), "\n") {
			fs := strings.Fields(l)
			if len(fs) >= 10 && strings.HasSuffix(fs[1], suffix) {
				set[fs[9]] = true
			}
		}
	}
	return len(set)
}
