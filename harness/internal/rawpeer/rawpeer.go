// Package rawpeer holds what the stream drivers (C02 ByteStream, C19
// CodecConn) share: raw non-blocking TCP peers on loopback driven from the loop
// goroutine, readiness oracles (poll(2), FIONREAD), the position-tagged byte
// generator with its projection, and error classification.
package rawpeer

import (
	"errors"
	"fmt"
	"io"
	"net"
	"syscall"
	"time"

	"golang.org/x/sys/unix"

	"github.com/talostrading/sonic/sonicerrors"
)

// ---------------------------------------------------------------------------
// position-tagged generator

// Gen describes one direction of a stream: byte at position p is never 0 and
// depends on p (period far above any stream the drivers produce) and on salt.
type Gen struct{ Salt int }

func (g Gen) At(p int) byte {
	return byte(1 + (p*37+(p/255)*101+(p/65025)*53+g.Salt)%255)
}

// Fill writes the generator's bytes for positions [lo, lo+len(b)) into b.
func (g Gen) Fill(b []byte, lo int) {
	for i := range b {
		b[i] = g.At(lo + i)
	}
}

func (g Gen) matches(b []byte, lo int) bool {
	for i, c := range b {
		if c != g.At(lo+i) {
			return false
		}
	}
	return true
}

// Project turns real bytes back into a stream interval: it returns lo such
// that b is the generator's output for [lo, lo+len(b)), trying `expect`
// first and then every position below `limit`; ok = false when there is no
// such position (some byte is not the generator's).
func (g Gen) Project(b []byte, expect, limit int) (lo int, ok bool) {
	if len(b) == 0 {
		return expect, true
	}
	if g.matches(b, expect) {
		return expect, true
	}
	probe := b
	if len(probe) > 32 {
		probe = probe[:32]
	}
	for p := 0; p <= limit; p++ {
		if g.matches(probe, p) && g.matches(b, p) {
			return p, true
		}
	}
	return -1, false
}

// Filled is the number of leading bytes of b up to the last byte that is not
// the 0 sentinel the drivers put into caller buffers before a read.
func Filled(b []byte) int {
	for i := len(b) - 1; i >= 0; i-- {
		if b[i] != 0 {
			return i + 1
		}
	}
	return 0
}

// ---------------------------------------------------------------------------
// errors

var errnoNames = map[syscall.Errno]string{
	syscall.ECONNRESET: "ECONNRESET", syscall.EPIPE: "EPIPE", syscall.EBADF: "EBADF",
	syscall.ENOTCONN: "ENOTCONN", syscall.ECONNREFUSED: "ECONNREFUSED", syscall.EPERM: "EPERM",
	syscall.EINVAL: "EINVAL", syscall.ENOENT: "ENOENT", syscall.EEXIST: "EEXIST",
}

// ErrClass maps an error to the class logged in traces.
func ErrClass(err error) string {
	switch {
	case err == nil:
		return "nil"
	case errors.Is(err, io.EOF):
		return "eof"
	case errors.Is(err, sonicerrors.ErrCancelled):
		return "cancelled"
	case errors.Is(err, sonicerrors.ErrWouldBlock):
		return "wouldblock"
	case errors.Is(err, sonicerrors.ErrNeedMore):
		return "needmore"
	case errors.Is(err, sonicerrors.ErrTimeout):
		return "timeout"
	case errors.Is(err, io.ErrUnexpectedEOF):
		return "unexpectedeof"
	}
	var en syscall.Errno
	if errors.As(err, &en) {
		if en == syscall.EAGAIN {
			return "wouldblock"
		}
		if s, ok := errnoNames[en]; ok {
			return "errno:" + s
		}
		return fmt.Sprintf("errno:%d", int(en))
	}
	return "other"
}

// ---------------------------------------------------------------------------
// raw sockets

// Listener is a raw listening TCP socket on 127.0.0.1.
type Listener struct {
	Fd   int
	Port int
}

func Listen() (*Listener, error) {
	fd, err := syscall.Socket(syscall.AF_INET, syscall.SOCK_STREAM|syscall.SOCK_CLOEXEC, 0)
	if err != nil {
		return nil, err
	}
	if err = syscall.Bind(fd, &syscall.SockaddrInet4{Addr: [4]byte{127, 0, 0, 1}}); err != nil {
		return nil, err
	}
	if err = syscall.Listen(fd, 64); err != nil {
		return nil, err
	}
	sa, err := syscall.Getsockname(fd)
	if err != nil {
		return nil, err
	}
	return &Listener{Fd: fd, Port: sa.(*syscall.SockaddrInet4).Port}, nil
}

func (l *Listener) Addr() string { return fmt.Sprintf("127.0.0.1:%d", l.Port) }

// Accept returns the next queued connection as a raw non-blocking descriptor.
func (l *Listener) Accept() (int, error) {
	deadline := time.Now().Add(2 * time.Second)
	for {
		fd, _, err := syscall.Accept4(l.Fd, syscall.SOCK_NONBLOCK|syscall.SOCK_CLOEXEC)
		if err == nil {
			return fd, tune(fd)
		}
		if err != syscall.EAGAIN && err != syscall.EINTR {
			return -1, err
		}
		if time.Now().After(deadline) {
			return -1, fmt.Errorf("raw accept: no connection queued")
		}
		WaitFd(l.Fd, unix.POLLIN, 100)
	}
}

func (l *Listener) Close() { _ = syscall.Close(l.Fd) }

// Connect connects a raw socket to 127.0.0.1:port and makes it non-blocking.
func Connect(port int) (int, error) {
	fd, err := syscall.Socket(syscall.AF_INET, syscall.SOCK_STREAM|syscall.SOCK_CLOEXEC, 0)
	if err != nil {
		return -1, err
	}
	if err = syscall.Connect(fd, &syscall.SockaddrInet4{Addr: [4]byte{127, 0, 0, 1}, Port: port}); err != nil {
		_ = syscall.Close(fd)
		return -1, err
	}
	if err = syscall.SetNonblock(fd, true); err != nil {
		return -1, err
	}
	return fd, tune(fd)
}

func tune(fd int) error {
	return syscall.SetsockoptInt(fd, syscall.IPPROTO_TCP, syscall.TCP_NODELAY, 1)
}

// NoDelay sets TCP_NODELAY on a descriptor owned by somebody else.
func NoDelay(fd int) { _ = tune(fd) }

// SmallBuffers asks for small kernel send and receive buffers (n = 1: the minimum).
func SmallBuffers(fd, n int) {
	_ = syscall.SetsockoptInt(fd, syscall.SOL_SOCKET, syscall.SO_SNDBUF, n)
	_ = syscall.SetsockoptInt(fd, syscall.SOL_SOCKET, syscall.SO_RCVBUF, n)
}

// PortOf returns the local port of a bound socket (sonic's Listener.Addr()
// reports the requested address, port 0 stays 0).
func PortOf(fd int) (int, error) {
	sa, err := syscall.Getsockname(fd)
	if err != nil {
		return 0, err
	}
	switch a := sa.(type) {
	case *syscall.SockaddrInet4:
		return a.Port, nil
	case *syscall.SockaddrInet6:
		return a.Port, nil
	}
	return 0, fmt.Errorf("unknown sockaddr")
}

// Reset makes the peer abort the connection (SO_LINGER 0 + close => RST).
func Reset(fd int) {
	_ = syscall.SetsockoptLinger(fd, syscall.SOL_SOCKET, syscall.SO_LINGER, &syscall.Linger{Onoff: 1, Linger: 0})
	_ = syscall.Close(fd)
}

// ---------------------------------------------------------------------------
// readiness oracles (independent of sonic's poller)

// PollFd returns the revents of one poll(2) call with the given timeout.
func PollFd(fd int, events int16, timeoutMs int) int16 {
	fds := []unix.PollFd{{Fd: int32(fd), Events: events}}
	for {
		_, err := unix.Poll(fds, timeoutMs)
		if err == syscall.EINTR {
			continue
		}
		return fds[0].Revents
	}
}

// WaitFd waits until one of `events` (or ERR/HUP) is reported, at most timeoutMs.
func WaitFd(fd int, events int16, timeoutMs int) bool {
	return PollFd(fd, events, timeoutMs)&(events|unix.POLLERR|unix.POLLHUP) != 0
}

// Inq is the number of bytes a read on fd can take right now (FIONREAD).
func Inq(fd int) int {
	n, err := unix.IoctlGetInt(fd, unix.TIOCINQ)
	if err != nil {
		return -1
	}
	return n
}

// Outq is the number of bytes in the send queue of fd that the other side has
// not acknowledged yet (SIOCOUTQ).
func Outq(fd int) int {
	n, err := unix.IoctlGetInt(fd, unix.TIOCOUTQ)
	if err != nil {
		return -1
	}
	return n
}

// WaitInq waits until exactly `want` bytes are readable on fd. It polls the
// kernel, it never guesses: false means the segment was not delivered within
// the budget and the scenario cannot be trusted.
func WaitInq(fd, want int, budget time.Duration) bool {
	deadline := time.Now().Add(budget)
	for {
		if Inq(fd) == want {
			return true
		}
		if time.Now().After(deadline) {
			return false
		}
		PollFd(fd, unix.POLLIN, 1)
		if Inq(fd) != want {
			time.Sleep(20 * time.Microsecond)
		}
	}
}

// WriteAll writes b on a non-blocking raw descriptor; it returns how much the
// kernel took before it would block.
func WriteSome(fd int, b []byte) (int, error) {
	done := 0
	for done < len(b) {
		n, err := syscall.Write(fd, b[done:])
		if err == syscall.EINTR {
			continue
		}
		if err == syscall.EAGAIN {
			return done, nil
		}
		if err != nil {
			return done, err
		}
		done += n
	}
	return done, nil
}

// ReadSome reads up to len(b) bytes that are available right now; eof reports
// an orderly shutdown by the other side.
func ReadSome(fd int, b []byte) (n int, eof bool, err error) {
	for n < len(b) {
		k, e := syscall.Read(fd, b[n:])
		if e == syscall.EINTR {
			continue
		}
		if e == syscall.EAGAIN {
			return n, false, nil
		}
		if e != nil {
			return n, false, e
		}
		if k == 0 {
			return n, true, nil
		}
		n += k
	}
	return n, false, nil
}

// TCPConnFd returns the descriptor of a *net.TCPConn without duplicating it.
func TCPConnFd(c *net.TCPConn) (int, error) {
	rc, err := c.SyscallConn()
	if err != nil {
		return -1, err
	}
	fd := -1
	if err := rc.Control(func(f uintptr) { fd = int(f) }); err != nil {
		return -1, err
	}
	return fd, nil
}
