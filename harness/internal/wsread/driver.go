// Package wsread replays generated peer behaviours (frame lists + a
// segmentation of the resulting byte stream) against the real WebSocket read
// path: a websocket.Stream attached (verif hook VerifAttach) to a scripted
// in-memory transport. The same wire bytes go through NextFrame,
// AsyncNextFrame, NextMessage and AsyncNextMessage; everything delivered is
// projected back to tokens and recorded for the TLA+ monitor WsReadMon.
package wsread

import (
	"bytes"
	"encoding/json"
	"errors"
	"fmt"
	"io"

	"github.com/talostrading/sonic"
	"github.com/talostrading/sonic/codec/websocket"
	"github.com/talostrading/sonic/sonicerrors"

	"verifharness/internal/tr"
)

// Ev is a step of a generated history (the model's prediction) as well as a
// recorded observation. All fields are always present.
type Ev struct {
	C    string `json:"c"`
	Ev   string `json:"ev"`
	Sid  int    `json:"sid"`
	I    int    `json:"i"`
	Api  string `json:"api"`
	Fid  int    `json:"fid"`
	Op   string `json:"op"`
	Fin  int    `json:"fin"`
	Len  int    `json:"len"`
	Mk   int    `json:"mk"`
	Viol string `json:"viol"`
	N    int    `json:"n"`
	Tok  int    `json:"tok"`
	Toks []int  `json:"toks"`
	Ok   int    `json:"ok"`
	Err  string `json:"err"`
	Code int    `json:"code"`
	Wr   int    `json:"wr"`
	K    int    `json:"k"`
}

type scenario struct {
	sid      int
	max      int
	api      string // the model's API level: NF or NM ("" = none)
	frames   []*pframe
	data     []byte
	ends     []int // chunk ends
	pred     []Ev  // predicted deliveries (Frame, Msg, Ctl, Post)
	complete bool  // the history ran to EndRun
	hasViol  bool
	inside   bool // some cut falls strictly inside a frame
}

type driver struct {
	ioc   *sonic.IO
	g     *gen
	w     *tr.Writer
	seed  int64
	mode  string
	sum   tr.Summary
	mbuf  []byte
	i     int
	sid   int
	byErr map[string]int
}

func errClass(err error) string {
	switch {
	case err == nil:
		return "nil"
	case err == io.EOF:
		return "eof"
	case errors.Is(err, sonicerrors.ErrWouldBlock):
		return "wouldblock"
	case errors.Is(err, sonicerrors.ErrNeedMore):
		return "needmore"
	case errors.Is(err, sonicerrors.ErrCancelled):
		return "cancelled"
	case errors.Is(err, websocket.ErrMessageTooBig), errors.Is(err, websocket.ErrPayloadOverMaxSize),
		errors.Is(err, websocket.ErrPayloadTooBig):
		return "toobig"
	case errors.Is(err, websocket.ErrNonZeroReservedBits):
		return "proto:rsv"
	case errors.Is(err, websocket.ErrMaskedFramesFromServer):
		return "proto:masked"
	case errors.Is(err, websocket.ErrInvalidControlFrame):
		return "proto:badctl"
	case errors.Is(err, websocket.ErrControlFrameTooBig):
		return "proto:ctlbig"
	case errors.Is(err, websocket.ErrReservedOpcode):
		return "proto:resop"
	case errors.Is(err, websocket.ErrUnexpectedContinuation):
		return "proto:unexpcont"
	case errors.Is(err, websocket.ErrExpectedContinuation):
		return "proto:expcont"
	}
	return "other"
}

func opName(o byte) string {
	switch {
	case o == 0:
		return "cont"
	case o == 1:
		return "text"
	case o == 2:
		return "binary"
	case o == 8:
		return "close"
	case o == 9:
		return "ping"
	case o == 10:
		return "pong"
	case o >= 3 && o <= 7:
		return "res3"
	case o >= 0xB && o <= 0xF:
		return "resB"
	}
	return "none"
}

func typeName(t websocket.MessageType) string {
	if t == websocket.TypeNone {
		return "none"
	}
	return opName(byte(t))
}

func (d *driver) emit(e Ev) Ev {
	d.i++
	e.C, e.Sid, e.I = "wsread", d.sid, d.i
	if e.Toks == nil {
		e.Toks = []int{}
	}
	d.w.Emit(e)
	return e
}

// parse builds the scenario from a generated history.
func (d *driver) parse(idx int, steps []Ev) (*scenario, error) {
	sc := &scenario{sid: idx, max: 70000}
	var cells []int // chunk sizes in cells
	var cuts []int
	haveCuts := false
	inmsg := false
	for _, s := range steps {
		switch s.Ev {
		case "Begin":
			sc.max = s.N
		case "Run":
			sc.api = s.Api
		case "Sent":
			f := &pframe{Fid: s.Fid, Op: s.Op, Fin: s.Fin, Len: s.Len, Mk: s.Mk, Viol: s.Viol}
			sc.frames = append(sc.frames, f)
			if s.Viol != "" {
				sc.hasViol = true
			}
			if s.Viol == "" && (s.Op == "text" || s.Op == "binary" || s.Op == "cont") {
				inmsg = s.Fin == 0
			}
		case "Chunk":
			cells = append(cells, s.K)
		case "Cuts":
			haveCuts = true
			cuts = append(cuts, s.Toks...)
		case "Frame", "Msg", "Ctl", "Post":
			sc.pred = append(sc.pred, s)
		case "EndRun":
			sc.complete = true
		}
	}
	// a history cut short in the middle of a message: the peer completes it
	if !sc.complete && !sc.hasViol && inmsg && len(sc.frames) > 0 {
		sc.frames = append(sc.frames, &pframe{Fid: sc.frames[len(sc.frames)-1].Fid + 1, Op: "cont", Fin: 1})
	}
	variant := idx % 5
	var cellEnds []int // byte offset of every cell end
	var frameEnds = map[int]bool{}
	for _, f := range sc.frames {
		f.embed = idx%2 == 1
		f.build(d.g, variant)
		base := len(sc.data)
		for _, c := range f.cellSizes() {
			base += c
			cellEnds = append(cellEnds, base)
		}
		sc.data = append(sc.data, f.raw...)
		if base != len(sc.data) {
			return nil, fmt.Errorf("cell sizes of frame %d do not add up", f.Fid)
		}
		frameEnds[base] = true
	}
	if haveCuts {
		last := 0
		for _, c := range cuts {
			if c > last && c < len(sc.data) {
				sc.ends = append(sc.ends, c)
				last = c
			}
		}
	} else {
		ci := 0
		for _, k := range cells {
			ci += k
			if ci > len(cellEnds) {
				return nil, fmt.Errorf("chunks exceed the wire")
			}
			if ci < len(cellEnds) {
				sc.ends = append(sc.ends, cellEnds[ci-1])
			}
		}
	}
	if n := len(sc.ends); len(sc.data) > 0 && (n == 0 || sc.ends[n-1] != len(sc.data)) {
		sc.ends = append(sc.ends, len(sc.data))
	}
	for _, e := range sc.ends {
		if !frameEnds[e] {
			sc.inside = true
		}
	}
	return sc, nil
}

// lostAt: an offset inside the payload of the first frame that has one of at least two bytes (0: none).
func (sc *scenario) lostAt() int {
	off := 0
	for _, f := range sc.frames {
		if f.Len >= 2 && len(f.raw) == f.hlen+f.Len {
			return off + f.hlen + 1
		}
		off += len(f.raw)
	}
	return 0
}

type run struct {
	api   string
	flags byte // flag applied to the chunks selected by the pattern
	all   bool // apply to every chunk (else a seeded pattern)
	chain bool // async APIs: the next read is started from inside the completion callback (the usual read loop)
	lc    bool // the application sends its own Close first and then keeps reading (state closed-by-us)
}

func (r run) name() string {
	if r.lc {
		return r.api + "+lc"
	}
	return r.api
}

func (d *driver) runs() []run {
	if d.mode == "lite" {
		return []run{{"NF", 2, false, false, false}, {"ANF", 1, false, false, false}, {"NM", 0, true, false, false},
			{"ANM", 1, true, false, false}, {"ANM", 1, false, true, false}, {"NM", 0, true, false, true}}
	}
	return []run{
		{"NF", 0, true, false, false}, {"NF", 2, true, false, false},
		{"ANF", 0, true, false, false}, {"ANF", 1, true, false, false}, {"ANF", 1, false, false, false},
		{"NM", 0, true, false, false},
		{"ANM", 0, true, false, false}, {"ANM", 1, true, false, false}, {"ANM", 1, false, false, false},
		{"ANF", 0, true, true, false}, {"ANF", 1, false, true, false},
		{"ANM", 0, true, true, false}, {"ANM", 1, false, true, false},
		{"NF", 0, true, false, true}, {"ANF", 1, false, true, true},
		{"NM", 0, true, false, true}, {"ANM", 1, false, true, true},
	}
}

func (d *driver) flagsFor(sc *scenario, r run, ri int) []byte {
	fl := make([]byte, len(sc.ends))
	x := uint64(d.seed)*0x9E3779B97F4A7C15 ^ uint64(sc.sid)*0xD1B54A32D192ED03 ^ uint64(ri+1)*0x94D049BB133111EB
	for i := range fl {
		x ^= x << 13
		x ^= x >> 7
		x ^= x << 17
		if r.all || x&1 == 1 {
			fl[i] = r.flags
		}
	}
	return fl
}

const maxCalls = 512

func (d *driver) frameEv(sc *scenario, f websocket.Frame, err error) Ev {
	e := Ev{Ev: "Frame", Err: errClass(err)}
	if err != nil {
		return e
	}
	if f == nil || len(f) < 2 {
		e.Op, e.Ok = "none", 0
		return e
	}
	e.Op = opName(byte(f.Opcode()))
	if f.IsFIN() {
		e.Fin = 1
	}
	e.Len = f.PayloadLength()
	p := f.Payload()
	toks, ok := project(sc.frames, p)
	e.Ok = ok
	if len(p) != e.Len {
		e.Ok = 0
	}
	if len(toks) == 1 {
		e.Tok = toks[0]
	} else if len(toks) > 1 {
		e.Ok = 0
	}
	if e.Len > 70001 || e.Len < 0 {
		e.Len = -1
	}
	return e
}

func (d *driver) msgEv(sc *scenario, mt websocket.MessageType, n int, err error) Ev {
	e := Ev{Ev: "Msg", Err: errClass(err), Op: typeName(mt), N: n}
	if n < 0 || n > len(d.mbuf) {
		e.Ok = 0
		e.N = -1
		return e
	}
	e.Toks, e.Ok = project(sc.frames, d.mbuf[:n])
	return e
}

// one API run over the scenario's wire bytes; returns the recorded deliveries
func (d *driver) one(sc *scenario, r run, ri int) (obs []Ev) {
	t := &transport{data: sc.data, ends: sc.ends, flags: d.flagsFor(sc, r, ri)}
	s, err := websocket.NewWebsocketStream(d.ioc, nil, websocket.RoleClient)
	if err != nil {
		panic(err)
	}
	// every other run changes the limit after the stream has become active (lowered from twice the value)
	if ri%2 == 1 {
		s.SetMaxMessageSize(2 * sc.max)
	} else {
		s.SetMaxMessageSize(sc.max)
	}
	if cut := sc.lostAt(); cut > 0 && ri%3 == 2 {
		// the stream had a connection before this one, and lost it in the middle of a frame (header complete,
		// payload not); the application connects again: nothing of the old connection may reach into the new one
		func() {
			defer func() { _ = recover() }()
			if err := s.VerifAttach(&transport{data: sc.data[:cut], ends: []int{cut}, flags: []byte{0}}); err != nil {
				panic(err)
			}
			for k := 0; k < 64; k++ {
				if _, err := s.NextFrame(); err != nil {
					break
				}
			}
		}()
		if err := s.VerifReattach(t); err != nil {
			panic(err)
		}
	} else if err := s.VerifAttach(t); err != nil {
		panic(err)
	}
	s.SetMaxMessageSize(sc.max)
	rec := func(e Ev) {
		obs = append(obs, d.emit(e))
	}
	d.emit(Ev{Ev: "Run", Api: r.name()})
	s.SetControlCallback(func(mt websocket.MessageType, p []byte) {
		toks, ok := project(sc.frames, p)
		e := Ev{Ev: "Ctl", Op: typeName(mt), Len: len(p), Ok: ok}
		if len(toks) == 1 {
			e.Tok = toks[0]
		} else if len(toks) > 1 {
			e.Ok = 0
		}
		rec(e)
	})
	async := r.api == "ANF" || r.api == "ANM"
	lastErr := ""
	func() {
		defer func() {
			if p := recover(); p != nil {
				rec(Ev{Ev: "Panic", Err: "other"})
				lastErr = "panic"
			}
		}()
		pump := func(done *bool) bool {
			for !*done {
				if t.zeroReads > 1000 {
					panic("livelock: reads with an empty buffer")
				}
				if !t.fire() {
					return false
				}
			}
			return true
		}
		if r.lc {
			// the application closes first and goes on reading until the peer has answered
			if async {
				s.AsyncClose(websocket.CloseNormal, "", func(error) {})
			} else {
				_ = s.Close(websocket.CloseNormal, "")
			}
		}
		if r.chain {
			// read loop: every completion callback records what it got and starts the next read itself
			finished, calls := false, 0
			var issue func()
			issue = func() {
				calls++
				fired := false
				complete := func(e Ev) {
					if fired {
						rec(Ev{Ev: e.Ev, Err: "other", Op: "twice"})
						return
					}
					fired = true
					rec(e)
					if e.Err != "nil" {
						lastErr = e.Err
						finished = true
						return
					}
					if calls >= maxCalls {
						finished = true
						return
					}
					issue()
				}
				if r.api == "ANF" {
					s.AsyncNextFrame(func(err error, f websocket.Frame) { complete(d.frameEv(sc, f, err)) })
				} else {
					s.AsyncNextMessage(d.mbuf, func(err error, n int, mt websocket.MessageType) {
						complete(d.msgEv(sc, mt, n, err))
					})
				}
			}
			issue()
			if !pump(&finished) {
				rec(Ev{Ev: map[string]string{"ANF": "Frame", "ANM": "Msg"}[r.api], Err: "stuck"})
				lastErr = "stuck"
			}
		}
		for call := 0; call < maxCalls && !r.chain; call++ {
			if t.zeroReads > 1000 {
				panic("livelock: reads with an empty buffer")
			}
			var e Ev
			switch r.api {
			case "NF":
				f, err := s.NextFrame()
				if errors.Is(err, sonicerrors.ErrWouldBlock) && r.flags&2 != 0 {
					continue // scripted would-block: the caller simply tries again
				}
				e = d.frameEv(sc, f, err)
			case "ANF":
				done := false
				s.AsyncNextFrame(func(err error, f websocket.Frame) {
					if done {
						rec(Ev{Ev: "Frame", Err: "other", Op: "twice"})
						return
					}
					done = true
					e = d.frameEv(sc, f, err)
				})
				if !pump(&done) {
					e = Ev{Ev: "Frame", Err: "stuck"}
				}
			case "NM":
				mt, n, err := s.NextMessage(d.mbuf)
				e = d.msgEv(sc, mt, n, err)
			case "ANM":
				done := false
				s.AsyncNextMessage(d.mbuf, func(err error, n int, mt websocket.MessageType) {
					if done {
						rec(Ev{Ev: "Msg", Err: "other", Op: "twice"})
						return
					}
					done = true
					e = d.msgEv(sc, mt, n, err)
				})
				if !pump(&done) {
					e = Ev{Ev: "Msg", Err: "stuck"}
				}
			}
			rec(e)
			if e.Err != "nil" {
				lastErr = e.Err
				break
			}
		}
		if lastErr != "" && lastErr != "eof" && lastErr != "stuck" {
			// after an error: flush, look at the wire, try an application write
			post := Ev{Ev: "Post"}
			var werr error
			if async {
				s.AsyncFlush(func(error) {})
				werr = errors.New("no callback")
				s.AsyncWrite([]byte("app"), websocket.TypeText, func(err error) { werr = err })
			} else {
				_ = s.Flush()
				werr = s.Write([]byte("app"), websocket.TypeText)
			}
			frs, _ := parseOut(t.out)
			seenClose := false
			for _, f := range frs {
				if f.op == 8 {
					post.K++ // Close frames the client has put on the wire (at most one, ever)
				}
				if f.op == 8 && !seenClose {
					seenClose = true
					if len(f.payload) >= 2 {
						post.Code = int(f.payload[0])<<8 | int(f.payload[1])
					} else {
						post.Code = 1005
					}
				}
				if (f.op == 1 || f.op == 2) && string(f.payload) == "app" {
					post.Wr = 1
				}
			}
			if werr == nil {
				post.Wr = 1
			}
			rec(post)
			// the caller keeps reading (as it has to during a closing handshake): nothing of what the
			// rejected frame carried may come out as data
			var inner []byte
			for _, f := range sc.frames {
				if f.inner != nil {
					inner = f.inner
				}
			}
			for k := 0; inner != nil && k < 6 && !r.chain; k++ {
				var got []byte
				var gerr error
				done := true
				switch r.api {
				case "NF":
					var f websocket.Frame
					if f, gerr = s.NextFrame(); gerr == nil && !f.Opcode().IsControl() {
						got = f.Payload()
					}
				case "NM":
					var n int
					if _, n, gerr = s.NextMessage(d.mbuf); gerr == nil {
						got = d.mbuf[:n]
					}
				case "ANF":
					done = false
					s.AsyncNextFrame(func(err error, f websocket.Frame) {
						if done = true; err == nil && !f.Opcode().IsControl() {
							got = append([]byte{}, f.Payload()...)
						}
						gerr = err
					})
					if !pump(&done) {
						gerr = io.EOF
					}
				case "ANM":
					done = false
					s.AsyncNextMessage(d.mbuf, func(err error, n int, _ websocket.MessageType) {
						if done = true; err == nil {
							got = d.mbuf[:n]
						}
						gerr = err
					})
					if !pump(&done) {
						gerr = io.EOF
					}
				}
				if got != nil && bytes.Contains(got, inner) {
					rec(Ev{Ev: "After", Len: len(got)})
					break
				}
				if gerr != nil && !errors.Is(gerr, sonicerrors.ErrWouldBlock) {
					break
				}
			}
		}
	}()
	d.byErr[lastErr]++
	d.emit(Ev{Ev: "EndRun", Api: r.name()})
	return obs
}

func sameEv(p, o Ev) bool {
	if p.Ev != o.Ev || p.Op != o.Op || p.Fin != o.Fin || p.Len != o.Len || p.N != o.N || p.Tok != o.Tok ||
		p.Ok != o.Ok || p.Err != o.Err || p.Code != o.Code || p.Wr != o.Wr || len(p.Toks) != len(o.Toks) {
		return false
	}
	for i := range p.Toks {
		if p.Toks[i] != o.Toks[i] {
			return false
		}
	}
	return true
}

func (d *driver) scenario(idx int, steps []Ev) error {
	sc, err := d.parse(idx, steps)
	if err != nil {
		return err
	}
	d.sid, d.i = idx, 0
	d.sum.Scenarios++
	if sc.inside {
		d.sum.Nontrivial++
	}
	d.emit(Ev{Ev: "Begin", N: sc.max})
	for _, f := range sc.frames {
		d.emit(Ev{Ev: "Sent", Fid: f.Fid, Op: f.Op, Fin: f.Fin, Len: f.Len, Mk: f.Mk, Viol: f.Viol})
	}
	need := 2*sc.max + 64
	if len(d.mbuf) < need {
		d.mbuf = make([]byte, need)
	}
	for ri, r := range d.runs() {
		obs := d.one(sc, r, ri)
		level := "NF"
		if r.api == "NM" || r.api == "ANM" {
			level = "NM"
		}
		if level != sc.api {
			continue
		}
		// prediction drift: the model's deliveries against the recorded ones
		n := len(sc.pred)
		diff := -1
		for k := 0; k < n; k++ {
			if k >= len(obs) || !sameEv(sc.pred[k], obs[k]) {
				diff = k
				break
			}
		}
		if diff < 0 && sc.complete && len(obs) != n {
			diff = n
		}
		if diff >= 0 {
			d.sum.Drift++
			if d.sum.FirstDrift == nil {
				var o any
				if diff < len(obs) {
					o = obs[diff]
				}
				var p any
				if diff < n {
					p = sc.pred[diff]
				}
				d.sum.FirstDrift = map[string]any{"sid": idx, "api": r.api, "k": diff, "predicted": p, "observed": o}
			}
		}
	}
	return nil
}

// Run replays every behaviour of a.In and writes the recorded trace to a.Out.
func Run(a tr.Args) error {
	w, err := tr.NewWriter(a.Out)
	if err != nil {
		return err
	}
	ioc, err := sonic.NewIO()
	if err != nil {
		return err
	}
	defer ioc.Close()
	d := &driver{ioc: ioc, g: &gen{seed: uint64(a.Seed), cache: map[genKey][]byte{}}, w: w, seed: a.Seed, mode: a.Mode,
		sum: tr.Summary{Component: "wsread"}, byErr: map[string]int{}}
	err = tr.Behaviours(a.In, func(idx int, raw json.RawMessage) error {
		steps, err := decodeHist(raw)
		if err != nil {
			return err
		}
		return d.scenario(idx, steps)
	})
	if err != nil {
		return err
	}
	d.sum.Events = w.N
	d.sum.Notes = map[string]any{"runs_by_final_error": d.byErr}
	if err := w.Close(); err != nil {
		return err
	}
	d.sum.Print()
	return nil
}

// decodeHist reads the compact history form written by WsReadImpl (Compact):
// ["S",fid,op,fin,len,mk,viol] ["C",k] ["F",op,fin,len,tok,err] ["M",type,n,toks,err]
// ["L",op,len,tok] ["P",code,wr] ["E"] ["B",max] ["R",api], plus ["X",[cut offsets]]
// (concrete segmentation supplied by the check instead of the model's chunks).
func decodeHist(raw json.RawMessage) ([]Ev, error) {
	var items [][]any
	if err := json.Unmarshal(raw, &items); err != nil {
		return nil, err
	}
	num := func(v any) int {
		f, _ := v.(float64)
		return int(f)
	}
	str := func(v any) string {
		s, _ := v.(string)
		return s
	}
	ints := func(v any) []int {
		r := []int{}
		l, _ := v.([]any)
		for _, x := range l {
			r = append(r, num(x))
		}
		return r
	}
	var out []Ev
	for _, it := range items {
		if len(it) == 0 {
			return nil, fmt.Errorf("empty history item")
		}
		want := map[string]int{"S": 7, "C": 2, "F": 6, "M": 5, "L": 4, "P": 3, "E": 1, "B": 2, "R": 2, "X": 2}
		k := str(it[0])
		if n, ok := want[k]; !ok || len(it) != n {
			return nil, fmt.Errorf("bad history item %v", it)
		}
		var e Ev
		switch k {
		case "S":
			e = Ev{Ev: "Sent", Fid: num(it[1]), Op: str(it[2]), Fin: num(it[3]), Len: num(it[4]), Mk: num(it[5]), Viol: str(it[6])}
		case "C":
			e = Ev{Ev: "Chunk", K: num(it[1])}
		case "F":
			e = Ev{Ev: "Frame", Op: str(it[1]), Fin: num(it[2]), Len: num(it[3]), Tok: num(it[4]), Err: str(it[5])}
			if e.Err == "nil" {
				e.Ok = 1
			}
		case "M":
			e = Ev{Ev: "Msg", Op: str(it[1]), N: num(it[2]), Toks: ints(it[3]), Ok: 1, Err: str(it[4])}
		case "L":
			e = Ev{Ev: "Ctl", Op: str(it[1]), Len: num(it[2]), Tok: num(it[3]), Ok: 1}
		case "P":
			e = Ev{Ev: "Post", Code: num(it[1]), Wr: num(it[2])}
		case "E":
			e = Ev{Ev: "EndRun"}
		case "B":
			e = Ev{Ev: "Begin", N: num(it[1])}
		case "R":
			e = Ev{Ev: "Run", Api: str(it[1])}
		case "X":
			e = Ev{Ev: "Cuts", Toks: ints(it[1])}
		}
		out = append(out, e)
	}
	return out, nil
}
