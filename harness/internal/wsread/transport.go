package wsread

import (
	"io"

	"github.com/talostrading/sonic"
	"github.com/talostrading/sonic/sonicerrors"
)

// transport is a scripted in-memory sonic.Stream. Reads hand out the wire
// bytes chunk by chunk (never more than one scripted chunk per read, less if
// the caller's buffer is smaller); an asynchronous read completes inline or is
// parked until the driver fires it, as scripted per chunk; a synchronous read
// may report would-block once before a chunk. After the last byte reads
// report io.EOF. Writes always succeed at once and are captured.
type transport struct {
	data  []byte
	ends  []int  // chunk end offsets, increasing, last = len(data)
	flags []byte // per chunk: bit 0 = deferred async completion, bit 1 = would-block before sync read
	pos   int
	ci    int
	wbHit bool // would-block already reported for chunk ci

	parked func() // deferred async read, fired by the driver

	out []byte // captured writes

	zeroReads int // reads issued with an empty buffer (never expected)
	closed    bool
}

var _ sonic.Stream = &transport{}

func (t *transport) RawFd() int { return -1 }

func (t *transport) next(b []byte) (int, error) {
	if len(b) == 0 {
		t.zeroReads++
		return 0, nil
	}
	if t.pos >= len(t.data) {
		return 0, io.EOF
	}
	for t.ci < len(t.ends) && t.ends[t.ci] <= t.pos {
		t.ci++
		t.wbHit = false
	}
	end := len(t.data)
	if t.ci < len(t.ends) {
		end = t.ends[t.ci]
	}
	n := copy(b, t.data[t.pos:end])
	t.pos += n
	return n, nil
}

func (t *transport) flag(bit byte) bool {
	for t.ci < len(t.ends) && t.ends[t.ci] <= t.pos {
		t.ci++
		t.wbHit = false
	}
	return t.ci < len(t.flags) && t.flags[t.ci]&bit != 0
}

func (t *transport) Read(b []byte) (int, error) {
	if t.pos < len(t.data) && len(b) > 0 && t.flag(2) && !t.wbHit {
		t.wbHit = true
		return 0, sonicerrors.ErrWouldBlock
	}
	return t.next(b)
}

func (t *transport) AsyncRead(b []byte, cb sonic.AsyncCallback) {
	if t.pos < len(t.data) && len(b) > 0 && t.flag(1) {
		if t.parked != nil {
			panic("wsread transport: second asynchronous read while one is parked")
		}
		t.parked = func() {
			n, err := t.next(b)
			cb(err, n)
		}
		return
	}
	n, err := t.next(b)
	cb(err, n)
}

func (t *transport) AsyncReadAll(b []byte, cb sonic.AsyncCallback) {
	got := 0
	var step func()
	step = func() {
		t.AsyncRead(b[got:], func(err error, n int) {
			got += n
			if err != nil || got == len(b) {
				cb(err, got)
				return
			}
			step()
		})
	}
	step()
}

// fire completes the parked asynchronous read, if any.
func (t *transport) fire() bool {
	if t.parked == nil {
		return false
	}
	f := t.parked
	t.parked = nil
	f()
	return true
}

func (t *transport) Write(b []byte) (int, error) {
	t.out = append(t.out, b...)
	return len(b), nil
}

func (t *transport) AsyncWrite(b []byte, cb sonic.AsyncCallback) {
	t.out = append(t.out, b...)
	cb(nil, len(b))
}

func (t *transport) AsyncWriteAll(b []byte, cb sonic.AsyncCallback) {
	t.out = append(t.out, b...)
	cb(nil, len(b))
}

func (t *transport) Cancel() {}

func (t *transport) Close() error {
	t.closed = true
	return nil
}
