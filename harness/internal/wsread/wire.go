package wsread

import (
	"bytes"
	"encoding/binary"
)

// pframe is one frame the scripted peer puts on the wire.
type pframe struct {
	Fid  int
	Op   string
	Fin  int
	Len  int
	Mk   int
	Viol string

	embed   bool   // build an oversized control frame with a payload that parses as frames
	payload []byte // what the generator produced
	onwire  []byte // payload as transmitted (masked if Mk = 1)
	raw     []byte // complete frame bytes
	hlen    int    // header bytes (everything before the payload)
	inner   []byte // oversized control frame: payload of the text frame its own payload spells out
}

// embedded: a payload of n >= 126 bytes that is itself a sequence of conforming frames: a final text
// frame of 20 bytes and Pongs as filling. A reader that reports the oversized control frame but
// does not skip its payload goes on to deliver that text frame.
func (g *gen) embedded(variant, fid, n int) (p, text []byte) {
	text = g.payload(variant+7919, fid, 20)
	p = append(p, 0x81, byte(len(text)))
	p = append(p, text...)
	for rest := n - len(p); rest > 0; {
		m := rest
		if m > 127 {
			m = 127
		}
		if rest-m == 1 {
			m--
		}
		p = append(p, 0x8A, byte(m-2))
		p = append(p, make([]byte, m-2)...)
		rest -= m
	}
	return p, text
}

func opcode(op string, fid int) byte {
	switch op {
	case "cont":
		return 0
	case "text":
		return 1
	case "binary":
		return 2
	case "close":
		return 8
	case "ping":
		return 9
	case "pong":
		return 10
	case "res3":
		return byte(3 + fid%5) // 3..7
	case "resB":
		return byte(0xB + fid%5) // 0xB..0xF
	}
	panic("wsread: unknown op " + op)
}

type genKey struct{ variant, fid, n int }

// gen is the position/identity tagged payload generator: the first byte names
// the frame, the rest is a keyed xorshift stream; (variant, fid, n) -> bytes.
type gen struct {
	seed  uint64
	cache map[genKey][]byte
}

func (g *gen) payload(variant, fid, n int) []byte {
	if n == 0 {
		return nil
	}
	k := genKey{variant, fid, n}
	if p, ok := g.cache[k]; ok {
		return p
	}
	p := make([]byte, n)
	x := g.seed*0x9E3779B97F4A7C15 ^ uint64(variant+1)*0xBF58476D1CE4E5B9 ^ uint64(fid+1)*0x94D049BB133111EB ^ uint64(n)
	if x == 0 {
		x = 1
	}
	for i := 0; i < n; i += 8 {
		x ^= x << 13
		x ^= x >> 7
		x ^= x << 17
		v := x
		for j := i; j < i+8 && j < n; j++ {
			p[j] = byte(v)
			v >>= 8
		}
	}
	p[0] = byte(0x10 + fid)
	if len(g.cache) > 4096 {
		g.cache = map[genKey][]byte{}
	}
	g.cache[k] = p
	return p
}

// hugeLen marks a frame whose 64-bit length field has the top bit set
// (0x8000000000000000); no payload bytes follow.
const hugeLen = -63

func (f *pframe) build(g *gen, variant int) {
	if f.Len == hugeLen {
		b0 := opcode(f.Op, f.Fid)
		if f.Fin == 1 {
			b0 |= 0x80
		}
		f.raw = []byte{b0, 127, 0x80, 0, 0, 0, 0, 0, 0, 0}
		f.hlen = 10
		return
	}
	f.payload = g.payload(variant, f.Fid, f.Len)
	if f.embed && f.Len > 125 && f.Mk == 0 && (f.Op == "ping" || f.Op == "pong" || f.Op == "close") {
		f.payload, f.inner = g.embedded(variant, f.Fid, f.Len)
	}
	var h [14]byte
	b0 := opcode(f.Op, f.Fid)
	if f.Fin == 1 {
		b0 |= 0x80
	}
	if f.Viol == "rsv" {
		b0 |= []byte{0x40, 0x20, 0x10}[f.Fid%3]
	}
	h[0] = b0
	n := 2
	switch {
	case f.Len > 65535:
		h[1] = 127
		binary.BigEndian.PutUint64(h[2:], uint64(f.Len))
		n = 10
	case f.Len > 125:
		h[1] = 126
		binary.BigEndian.PutUint16(h[2:], uint16(f.Len))
		n = 4
	default:
		h[1] = byte(f.Len)
	}
	f.onwire = f.payload
	if f.Mk == 1 {
		h[1] |= 0x80
		key := [4]byte{byte(0xA1 + f.Fid), 0x5C, byte(0x33 * (f.Fid + 1)), 0xE7}
		copy(h[n:], key[:])
		n += 4
		f.onwire = make([]byte, f.Len)
		for i, c := range f.payload {
			f.onwire[i] = c ^ key[i%4]
		}
	}
	f.hlen = n
	f.raw = make([]byte, 0, n+f.Len)
	f.raw = append(f.raw, h[:n]...)
	f.raw = append(f.raw, f.onwire...)
}

// cellSizes mirrors Sizes(fr) of WsReadImpl.tla.
func pieces(n int) []int {
	switch {
	case n == 0:
		return nil
	case n == 1:
		return []int{1}
	case n == 2:
		return []int{1, 1}
	}
	return []int{1, n - 2, 1}
}

func (f *pframe) cellSizes() []int {
	if f.Len == hugeLen {
		return []int{1, 1, 1, 6, 1}
	}
	ext := 0
	if f.Len > 65535 {
		ext = 8
	} else if f.Len > 125 {
		ext = 2
	}
	s := []int{1, 1}
	s = append(s, pieces(ext)...)
	s = append(s, pieces(4*f.Mk)...)
	s = append(s, pieces(f.Len)...)
	return s
}

// project turns delivered bytes back into frame ids: the bytes must be a
// concatenation of complete payloads of sent frames (as generated, or as
// they were on the wire for a masked frame).
func project(frames []*pframe, b []byte) (toks []int, ok int) {
	toks = []int{}
	pos := 0
	for pos < len(b) {
		fid := int(b[pos]) - 0x10
		var f *pframe
		for _, c := range frames {
			if c.Len > 0 && len(c.payload) == c.Len && (c.Fid == fid || (c.Mk == 1 && c.onwire[0] == b[pos])) {
				if pos+c.Len <= len(b) && (bytes.Equal(b[pos:pos+c.Len], c.payload) || bytes.Equal(b[pos:pos+c.Len], c.onwire)) {
					f = c
					break
				}
			}
		}
		if f == nil {
			return toks, 0
		}
		toks = append(toks, f.Fid)
		pos += f.Len
	}
	return toks, 1
}

// wframe is a frame found by the harness's own RFC 6455 parser in the bytes
// the client wrote to the transport.
type wframe struct {
	op      byte
	fin     bool
	masked  bool
	payload []byte
}

// parseOut parses client output; trailing garbage / truncated frames end the list with ok = false.
func parseOut(b []byte) (fr []wframe, ok bool) {
	for len(b) > 0 {
		if len(b) < 2 {
			return fr, false
		}
		f := wframe{op: b[0] & 0x0F, fin: b[0]&0x80 != 0, masked: b[1]&0x80 != 0}
		n := int(b[1] & 0x7F)
		p := 2
		if n == 126 {
			if len(b) < 4 {
				return fr, false
			}
			n = int(binary.BigEndian.Uint16(b[2:]))
			p = 4
		} else if n == 127 {
			if len(b) < 10 {
				return fr, false
			}
			v := binary.BigEndian.Uint64(b[2:])
			if v > 1<<30 {
				return fr, false
			}
			n = int(v)
			p = 10
		}
		var key []byte
		if f.masked {
			if len(b) < p+4 {
				return fr, false
			}
			key = b[p : p+4]
			p += 4
		}
		if len(b) < p+n {
			return fr, false
		}
		f.payload = make([]byte, n)
		copy(f.payload, b[p:p+n])
		for i := range f.payload {
			if key != nil {
				f.payload[i] ^= key[i%4]
			}
		}
		fr = append(fr, f)
		b = b[p+n:]
	}
	return fr, true
}
