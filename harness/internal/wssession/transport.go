package wssession

import (
	"errors"
	"io"

	"github.com/talostrading/sonic"
)

var (
	errStall     = errors.New("verif: scripted transport has nothing to read")
	errTransport = errors.New("verif: scripted transport error")
)

// item of the scripted read side
type rdItem struct {
	data []byte // nil for markers
	eof  bool
	err  bool
	glue bool // the bytes join the segment of the item before (if that is still unread data)
}

// Script is an in-memory sonic.Stream. The read side returns what the driver
// fed (chunks, then EOF / an error); the write side hands every byte to the
// wire parser.
//
// Inline mode (C08): every operation completes inside the call, except an
// asynchronous read on an empty script, which parks until the next Feed.
//
// Deferred mode (C17): asynchronous reads and writes never complete inside
// the call. They are parked in one read record and one write record - like
// sonic.AsyncAdapter, a second AsyncWrite*/AsyncRead* overwrites the record
// (buffer, progress and callback) - and complete when the driver delivers
// `Writable(max)` / `Readable()`.
type Script struct {
	log      *Log
	deferred bool

	rq    []rdItem
	split string // frame | byte | all

	// parked read
	rb  []byte
	rcb sonic.AsyncCallback

	// parked write (deferred mode): the adapter's single write reactor record
	wb    []byte
	wall  bool
	wcb   sonic.AsyncCallback
	wsofar int
	wset  bool

	parser WireParser
	closed bool
	NWire  int
}

var _ sonic.Stream = &Script{}

func NewScript(log *Log, deferred bool, split string) *Script {
	if split == "" {
		split = "frame"
	}
	return &Script{log: log, deferred: deferred, split: split}
}

// ---- read side -----------------------------------------------------------

func (s *Script) readNow(b []byte) (int, error, bool) {
	if len(s.rq) == 0 {
		return 0, nil, false
	}
	it := &s.rq[0]
	if it.eof {
		return 0, io.EOF, true // sticky
	}
	if it.err {
		s.rq = s.rq[1:]
		return 0, errTransport, true
	}
	if len(b) == 0 {
		return 0, nil, true
	}
	n := 0
	for len(s.rq) > 0 && s.rq[0].data != nil && n < len(b) {
		it := &s.rq[0]
		src := it.data
		if s.split == "byte" {
			src = src[:1]
		}
		m := copy(b[n:], src)
		n += m
		it.data = it.data[m:]
		if len(it.data) == 0 {
			s.rq = s.rq[1:]
		}
		if s.split != "all" {
			break
		}
	}
	return n, nil, true
}

func (s *Script) Read(b []byte) (int, error) {
	n, err, ok := s.readNow(b)
	if !ok {
		return 0, errStall
	}
	return n, err
}

func (s *Script) AsyncRead(b []byte, cb sonic.AsyncCallback) {
	if s.deferred {
		s.rb, s.rcb = b, cb // single read record, overwritten
		return
	}
	n, err, ok := s.readNow(b)
	if !ok {
		s.rb, s.rcb = b, cb
		return
	}
	cb(err, n)
}

func (s *Script) AsyncReadAll(b []byte, cb sonic.AsyncCallback) {
	panic("verif: AsyncReadAll is not used by the websocket stream")
}

// ReadParked: an asynchronous read is waiting for the transport.
func (s *Script) ReadParked() bool { return s.rcb != nil }

// CanDeliverRead: a parked read could complete now.
func (s *Script) CanDeliverRead() bool { return s.rcb != nil && len(s.rq) > 0 }

// Readable completes the parked read with what the script holds.
func (s *Script) Readable() bool {
	if s.rcb == nil || len(s.rq) == 0 {
		return false
	}
	b, cb := s.rb, s.rcb
	s.rb, s.rcb = nil, nil
	n, err, _ := s.readNow(b)
	cb(err, n)
	return true
}

// Feed makes more input available. In inline mode a parked read completes.
func (s *Script) Feed(it rdItem) {
	if it.glue && it.data != nil && len(s.rq) > 0 && s.rq[len(s.rq)-1].data != nil {
		// one segment: a single transport read returns both frames
		last := &s.rq[len(s.rq)-1]
		last.data = append(append([]byte{}, last.data...), it.data...)
	} else {
		s.rq = append(s.rq, it)
	}
	if !s.deferred {
		s.Readable()
	}
}

// ---- write side ----------------------------------------------------------

func (s *Script) wire(b []byte) {
	for _, f := range s.parser.Feed(b) {
		s.NWire++
		s.log.Wire(f)
	}
}

func (s *Script) Write(b []byte) (int, error) {
	s.wire(b)
	return len(b), nil
}

func (s *Script) AsyncWrite(b []byte, cb sonic.AsyncCallback) {
	s.asyncWrite(b, false, cb)
}

func (s *Script) AsyncWriteAll(b []byte, cb sonic.AsyncCallback) {
	s.asyncWrite(b, true, cb)
}

func (s *Script) asyncWrite(b []byte, all bool, cb sonic.AsyncCallback) {
	if !s.deferred {
		s.wire(b)
		cb(nil, len(b))
		return
	}
	// asyncAdapterWriteReactor.init + scheduleWrite(0, cb)
	s.wb, s.wall, s.wcb, s.wsofar, s.wset = b, all, cb, 0, true
}

// WriteParked: a write is waiting for the transport to become writable.
func (s *Script) WriteParked() bool { return s.wset }

// Writable lets the transport accept up to max bytes (max <= 0: all) of the
// parked write: AsyncAdapter.onWrite -> asyncWriteNow.
func (s *Script) Writable(max int) bool {
	if !s.wset {
		return false
	}
	rest := s.wb[s.wsofar:]
	n := len(rest)
	if max > 0 && max < n {
		n = max
	}
	s.wire(rest[:n])
	s.wsofar += n
	if s.wall && s.wsofar != len(s.wb) {
		return true // still parked, progress kept in the record
	}
	cb, sofar := s.wcb, s.wsofar
	s.wset, s.wcb, s.wb = false, nil, nil
	cb(nil, sofar)
	return true
}

// ---- rest of sonic.Stream --------------------------------------------------

func (s *Script) Finish() {
	for _, f := range s.parser.Finish() {
		s.NWire++
		s.log.Wire(f)
	}
}

func (s *Script) Close() error { s.closed = true; return nil }
func (s *Script) Cancel()      {}
func (s *Script) RawFd() int   { return -1 }

// clientFrameLen: total length of the masked client frame at the start of b
// (len(b) if it cannot be told).
func clientFrameLen(b []byte) int {
	if len(b) < 2 {
		return len(b)
	}
	h, n := 2, int(b[1]&0x7F)
	switch n {
	case 126:
		if len(b) < 4 {
			return len(b)
		}
		n, h = int(b[2])<<8|int(b[3]), 4
	case 127:
		if len(b) < 10 {
			return len(b)
		}
		n, h = int(b[6])<<24|int(b[7])<<16|int(b[8])<<8|int(b[9]), 10
	}
	if b[1]&0x80 != 0 {
		h += 4
	}
	if h+n > len(b) {
		return len(b)
	}
	return h + n
}

// WritableUnits accepts n model units of the parked write (a frame is two
// units: its first half and the rest); n <= 0: everything.
func (s *Script) WritableUnits(n int) bool {
	if !s.wset || n <= 0 {
		return s.Writable(0)
	}
	var bounds []int
	for off := 0; off < len(s.wb); {
		l := clientFrameLen(s.wb[off:])
		bounds = append(bounds, off+l/2, off+l)
		off += l
	}
	target := len(s.wb)
	for _, b := range bounds {
		if b > s.wsofar {
			n--
			if n == 0 {
				target = b
				break
			}
		}
	}
	return s.Writable(target - s.wsofar)
}
