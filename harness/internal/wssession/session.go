package wssession

import (
	"encoding/json"
	"fmt"
	"io"
	"strconv"
	"strings"

	"github.com/talostrading/sonic"
	"github.com/talostrading/sonic/codec/websocket"

	"verifharness/internal/tr"
)

// Step is one generated step with the model's prediction.
type Step struct {
	Op   string `json:"op"`  // peer | call | env
	Api  string `json:"api"` // call
	K    string `json:"k"`   // peer kind / env kind
	T    int    `json:"t"`   // token (peer payload, submitted payload); env: byte budget of a partial write
	C    int    `json:"c"`   // close code
	St   string `json:"st"`  // predicted State() after the step
	Pend int    `json:"pend"`
	Nw   int    `json:"nw"`   // predicted number of frames put on the wire by the step
	Err  string `json:"err"`  // predicted result of the last completion in the step ("parked": none)
	N    int    `json:"n"`    // real-socket scenarios: payload length of a submitted message / repeat count
	Then int    `json:"then"` // call: follow-ups - the completion callback, if it reports success, issues the same call again with then-1
	Glue int    `json:"glue"` // peer: 1 = the frame is put into the same segment as the item before it (if that is still unread)
}

type opts struct {
	split   string
	variant int
	sidbase int // added to the scenario number when picking variants (replay of a single scenario)
	seed    int64
	writers int // write-side calls the driver lets be in flight together
}

func parseMode(mode string, seed int64) opts {
	o := opts{split: "frame", seed: seed, writers: 2}
	for _, kv := range strings.Split(mode, ",") {
		p := strings.SplitN(kv, "=", 2)
		if len(p) != 2 {
			continue
		}
		switch p[0] {
		case "split":
			o.split = p[1]
		case "variant":
			o.variant, _ = strconv.Atoi(p[1])
		case "sidbase":
			o.sidbase, _ = strconv.Atoi(p[1])
		case "writers":
			o.writers, _ = strconv.Atoi(p[1])
		}
	}
	return o
}

// session = one websocket.Stream attached to one scripted transport.
type session struct {
	ws      *websocket.Stream
	tp      *Script
	log     *Log
	nextID  int
	readID  int
	buf     []byte
	o       opts
	sid     int
	open    map[int]string  // calls in flight (driver's ledger)
	feed    func(rdItem)    // makes peer output available to the client
	wlenOf  func(t int) int // length of submitted payloads (nil: small)
	ownTok  bool            // payload tokens of writes are 100 + the driver's own call id (schedules with follow-up calls)
	glue    bool            // the peer event being fed joins the segment of the item before it
	ctlSeen int             // control frames handed to the control callback so far
}

var sharedIO *sonic.IO

func newSession(log *Log, deferred bool, o opts, sid int) (*session, error) {
	if sharedIO == nil {
		ioc, err := sonic.NewIO()
		if err != nil {
			return nil, err
		}
		sharedIO = ioc
	}
	ws, err := websocket.NewWebsocketStream(sharedIO, nil, websocket.RoleClient)
	if err != nil {
		return nil, err
	}
	s := &session{ws: ws, log: log, o: o, sid: sid, buf: make([]byte, 1<<16)}
	s.tp = NewScript(log, deferred, o.split)
	s.feed = s.tp.Feed
	if err := ws.VerifAttach(s.tp); err != nil {
		return nil, err
	}
	ws.SetControlCallback(func(mt websocket.MessageType, payload []byte) {
		s.gotControl(s.readID, websocket.Opcode(mt), payload)
	})
	return s, nil
}

func (s *session) pick(step, n int) int {
	return int((s.o.seed*31+int64(s.sid+s.o.sidbase)*7+int64(step)*3+int64(s.o.variant))%int64(n)+int64(n)) % n
}

func plen(t int) int { return 8 + t%9 }

// ---- peer events -----------------------------------------------------------

var validCloses = []struct {
	code   int
	reason string
}{{1000, ""}, {1001, "bye"}, {3000, "x"}, {1000, "done"}, {4999, ""}, {1011, "oops"}}

func (s *session) peer(step int, k string, t int, glue bool) {
	s.glue = glue
	defer func() { s.glue = false }()
	var b []byte
	c := 0
	switch k {
	case "data":
		b = BuildFrame(0x80|opText, Payload(t, plen(t)), nil)
	case "big":
		// a conforming text message that fits the stream's size limit but not the buffer the message-level
		// reads are given (64 KiB): the frame APIs deliver it, the message APIs refuse it ("too big") and
		// start the closing handshake - if nobody has yet
		b = BuildFrame(0x80|opText, Payload(t, 70000), nil)
	case "ping":
		b = BuildFrame(0x80|opPing, Payload(t, plen(t)), nil)
	case "pong":
		b = BuildFrame(0x80|opPong, Payload(t, plen(t)), nil)
	case "closeValid":
		v := validCloses[s.pick(step, len(validCloses))]
		c = v.code
		b = BuildFrame(0x80|opClose, closePayload(v.code, v.reason), nil)
	case "closeEmpty":
		b = BuildFrame(0x80|opClose, nil, nil)
	case "closeInvalid":
		switch s.pick(step, 5) {
		case 0:
			b = BuildFrame(0x80|opClose, []byte{3}, nil)
		case 1:
			b = BuildFrame(0x80|opClose, closePayload(1005, ""), nil)
		case 2:
			b = BuildFrame(0x80|opClose, closePayload(999, ""), nil)
		case 3:
			b = BuildFrame(0x80|opClose, closePayload(1000, "\xff\xfe"), nil)
		default:
			b = BuildFrame(0x80|opClose, closePayload(2999, "r"), nil)
		}
	case "viol":
		p := Payload(t, plen(t))
		switch s.pick(step, 9) {
		case 7:
			b = BuildFrame(opPong, p, nil) // fragmented Pong
		case 8:
			b = BuildFrame(0x80|opPong, Payload(t, 126), nil) // Pong over 125 bytes
		case 0:
			b = BuildFrame(0xC0|opText, p, nil) // RSV1
		case 1:
			b = BuildFrame(0x80|opText, p, []byte{1, 2, 3, 4}) // masked by the server
		case 2:
			b = BuildFrame(opPing, p, nil) // fragmented control frame
		case 3:
			b = BuildFrame(0x80|opPing, Payload(t, 126), nil) // control frame over 125 bytes
		case 4:
			b = BuildFrame(0x80|0x3, p, nil) // reserved data opcode
		case 5:
			b = BuildFrame(0x80|0xB, p, nil) // reserved control opcode
		default:
			b = BuildFrame(opClose, closePayload(1000, ""), nil) // fragmented Close
		}
	case "fragclosecont", "fragpingcont":
		// a fragmented message with a control frame between its fragments, arriving at once: an empty first
		// fragment (FIN = 0), a Close (or a Ping), and the final continuation frame that carries the payload
		b = BuildFrame(opText, nil, nil)
		s.log.Peer("frag", t, 0)
		if k == "fragclosecont" {
			b = append(b, BuildFrame(0x80|opClose, closePayload(1000, ""), nil)...)
			s.log.Peer("closeValid", t, 1000)
		} else {
			b = append(b, BuildFrame(0x80|opPing, Payload(t, plen(t)), nil)...)
			s.log.Peer("ping", t, 0)
		}
		b = append(b, BuildFrame(0x80|opCont, Payload(t, plen(t)), nil)...)
		s.log.Peer("cont", t, 0)
		s.feed(rdItem{data: b, glue: glue})
		return
	case "eof":
		s.log.Peer(k, t, 0)
		s.feed(rdItem{eof: true})
		return
	case "err":
		s.log.Peer(k, t, 0)
		s.feed(rdItem{err: true})
		return
	default:
		panic("unknown peer event " + k)
	}
	s.log.Peer(k, t, c)
	s.feed(rdItem{data: b, glue: glue})
}

// ---- what reads surface ------------------------------------------------------

func closeCode(payload []byte) int {
	if len(payload) >= 2 {
		return int(payload[0])<<8 | int(payload[1])
	}
	if len(payload) == 1 {
		return -2
	}
	return -1
}

func (s *session) gotControl(id int, op websocket.Opcode, payload []byte) {
	s.ctlSeen++
	switch op {
	case websocket.OpcodePing:
		s.log.Got(id, "ping", Token(payload), 0)
	case websocket.OpcodePong:
		s.log.Got(id, "pong", Token(payload), 0)
	case websocket.OpcodeClose:
		s.log.Got(id, "close", 0, closeCode(payload))
	default:
		s.log.Got(id, "other", -1, 0)
	}
}

func (s *session) gotFrame(id int, f websocket.Frame, err error) {
	if f == nil {
		return
	}
	if err != nil && !(err == io.EOF && f.Opcode().IsClose()) {
		return
	}
	if f.Opcode().IsControl() {
		s.gotControl(id, f.Opcode(), f.Payload())
		return
	}
	switch {
	case f.Opcode() == websocket.OpcodeContinuation:
		s.log.Got(id, "cont", Token(f.Payload()), 0)
	case !f.IsFIN():
		s.log.Got(id, "frag", Token(f.Payload()), 0)
	default:
		s.log.Got(id, "data", Token(f.Payload()), 0)
	}
}

var closeReasons = map[int]string{1000: "", 1001: "going away", 4000: "app"}

// ---- local calls -------------------------------------------------------------

// admissible: the schedule generator keeps one read and a bounded number of
// write-side calls in flight at a time; if the code under test is slower than
// the model predicted (drift), a call that would break that assumption is
// skipped (two reads in flight would be the harness breaking the contract).
func (s *session) admissible(api string) bool {
	rd := api == "AsyncNextFrame" || api == "AsyncNextMessage" || api == "NextFrame" || api == "NextMessage"
	n := 0
	for _, a := range s.open {
		ard := a == "AsyncNextFrame" || a == "AsyncNextMessage"
		if rd == ard {
			n++
		}
	}
	if rd {
		return n == 0
	}
	return n < s.o.writers
}

func (s *session) call(api string, t, c int) { s.callThen(api, t, c, 0) }

// callThen issues one call. then > 0: the completion callback, when it reports
// success, issues the same call again (with then-1) before it returns - a
// write chained from the write callback, a read re-armed from the read callback.
func (s *session) callThen(api string, t, c, then int) {
	s.nextID++
	id := s.nextID
	ws := s.ws
	if s.open == nil {
		s.open = map[int]string{}
	}
	s.open[id] = api
	if s.ownTok && (api == "AsyncWrite" || api == "AsyncWriteFrame") {
		t = 100 + id
	}
	log := &doneTracker{Log: s.log, s: s, then: then, c: c}
	if api == "Close" || api == "AsyncClose" {
		if c == 0 {
			c = 1000
		}
	}
	log.Call(api, id, t, c)
	pendBefore, ctlBefore := ws.Pending(), s.ctlSeen
	defer func() {
		// An asynchronous read started with nothing queued for flushing has, when the call returns, either
		// completed or put its transport read in place - whatever write happens to be in flight. (Unless it met
		// a buffered control frame on its way: the reply is then flushed first.)
		if (api == "AsyncNextFrame" || api == "AsyncNextMessage") && s.tp != nil && s.tp.deferred && pendBefore == 0 &&
			s.ctlSeen == ctlBefore && ws.Pending() == 0 {
			if _, inflight := s.open[id]; inflight && !s.tp.ReadParked() {
				s.log.Env("read-not-started")
			}
		}
	}()
	switch api {
	case "NextFrame":
		s.readID = id
		f, err := ws.NextFrame()
		s.gotFrame(id, f, err)
		log.Done(api, id, err)
	case "AsyncNextFrame":
		s.readID = id
		ws.AsyncNextFrame(func(err error, f websocket.Frame) {
			s.gotFrame(id, f, err)
			log.Done(api, id, err)
		})
	case "NextMessage":
		s.readID = id
		_, n, err := ws.NextMessage(s.buf)
		if err == nil {
			log.Got(id, "data", Token(s.buf[:n]), 0)
		}
		log.Done(api, id, err)
	case "AsyncNextMessage":
		s.readID = id
		ws.AsyncNextMessage(s.buf, func(err error, n int, _ websocket.MessageType) {
			if err == nil {
				log.Got(id, "data", Token(s.buf[:n]), 0)
			}
			log.Done(api, id, err)
		})
	case "Write":
		log.Done(api, id, ws.Write(Payload(t, s.wlen(t)), websocket.TypeText))
	case "AsyncWrite":
		ws.AsyncWrite(Payload(t, s.wlen(t)), websocket.TypeText, func(err error) { log.Done(api, id, err) })
	case "WriteFrame":
		f := ws.AcquireFrame()
		f.SetFIN().SetText().SetPayload(Payload(t, s.wlen(t)))
		log.Done(api, id, ws.WriteFrame(f))
	case "AsyncWriteFrame":
		f := ws.AcquireFrame()
		f.SetFIN().SetText().SetPayload(Payload(t, s.wlen(t)))
		ws.AsyncWriteFrame(f, func(err error) { log.Done(api, id, err) })
	case "Flush":
		log.Done(api, id, ws.Flush())
	case "AsyncFlush":
		ws.AsyncFlush(func(err error) { log.Done(api, id, err) })
	case "Close":
		log.Done(api, id, ws.Close(websocket.CloseCode(c), closeReasons[c]))
	case "AsyncClose":
		ws.AsyncClose(websocket.CloseCode(c), closeReasons[c], func(err error) { log.Done(api, id, err) })
	default:
		panic("unknown call " + api)
	}
}

// doneTracker keeps the driver's ledger of calls in flight and issues the
// follow-up of a call from inside its completion callback.
type doneTracker struct {
	*Log
	s    *session
	then int
	c    int
}

func (d *doneTracker) Done(api string, id int, err error) {
	delete(d.s.open, id)
	d.Log.Done(api, id, err)
	if err == nil && d.then > 0 && !d.Log.muted {
		then := d.then
		d.then = 0 // a callback invoked twice (a defect) does not fork the schedule
		d.s.callThen(api, 0, d.c, then-1)
	}
}

// wlen: length of a submitted payload (overridden by the C17 drivers)
func (s *session) wlen(t int) int {
	if s.wlenOf != nil {
		return s.wlenOf(t)
	}
	return plen(t)
}

func (s *session) sample() { s.log.Sample(s.ws.State().String(), s.ws.Pending()) }

// ---- replay of TLC generated behaviours (inline transport: C08) --------------

func RunInline(a tr.Args) error {
	w, err := tr.NewWriter(a.Out)
	if err != nil {
		return err
	}
	o := parseMode(a.Mode, a.Seed)
	sum := tr.Summary{Component: "wssession"}
	log := &Log{w: w}
	err = tr.Behaviours(a.In, func(idx int, raw json.RawMessage) error {
		var steps []Step
		if err := json.Unmarshal(raw, &steps); err != nil {
			return err
		}
		sum.Scenarios++
		log.begin(idx)
		s, err := newSession(log, false, o, idx)
		if err != nil {
			return err
		}
		for i, g := range steps {
			log.stepBegin()
			switch g.Op {
			case "peer":
				s.peer(i, g.K, g.T, false)
			case "call":
				c := g.C
				if g.Api == "Close" || g.Api == "AsyncClose" {
					c = []int{1000, 1001, 4000}[s.pick(i, 3)]
				}
				s.call(g.Api, g.T, c)
			default:
				return fmt.Errorf("unknown step %q", g.Op)
			}
			s.sample()
			st, pend := s.ws.State().String(), s.ws.Pending()
			if st != g.St || pend != g.Pend || log.stepWire != g.Nw || log.stepErr != g.Err {
				sum.Drift++
				if sum.FirstDrift == nil {
					sum.FirstDrift = map[string]any{"sid": idx, "step": i + 1, "predicted": g,
						"observed": map[string]any{"st": st, "pend": pend, "nw": log.stepWire, "err": log.stepErr}}
				}
			}
		}
		// drain: the application flushes once more
		log.stepBegin()
		s.call("Flush", 0, 0)
		s.sample()
		s.tp.Finish()
		log.End("drained")
		if log.nontrivial {
			sum.Nontrivial++
		}
		return nil
	})
	if err != nil {
		return err
	}
	sum.Events = w.N
	if err := w.Close(); err != nil {
		return err
	}
	sum.Print()
	return nil
}

// ---- replay with deferred transport completions (C17, driver 1) ---------------

func (s *session) drainEnv() error {
	for i := 0; i < 10000; i++ {
		switch {
		case s.tp.WriteParked():
			s.log.Env("writable")
			s.tp.Writable(0)
		case s.tp.CanDeliverRead():
			s.log.Env("readable")
			s.tp.Readable()
		default:
			return nil
		}
		s.sample()
	}
	return fmt.Errorf("scenario %d: the scripted transport did not come to rest", s.sid)
}

func RunDeferred(a tr.Args) error {
	w, err := tr.NewWriter(a.Out)
	if err != nil {
		return err
	}
	o := parseMode(a.Mode, a.Seed)
	sum := tr.Summary{Component: "wssession-deferred"}
	log := &Log{w: w}
	err = tr.Behaviours(a.In, func(idx int, raw json.RawMessage) error {
		var steps []Step
		if err := json.Unmarshal(raw, &steps); err != nil {
			return err
		}
		sum.Scenarios++
		log.begin(idx)
		s, err := newSession(log, true, o, idx)
		if err != nil {
			return err
		}
		s.ownTok = true
		overlap := false
		for i, g := range steps {
			log.stepBegin()
			switch g.Op {
			case "peer":
				s.peer(i, g.K, g.T, g.Glue == 1)
			case "call":
				c := g.C
				if g.Api == "AsyncClose" {
					c = []int{1000, 1001, 4000}[s.pick(i, 3)]
				}
				if !s.admissible(g.Api) {
					log.stepErr = "skipped"
					break
				}
				if s.tp.WriteParked() {
					overlap = true
				}
				s.callThen(g.Api, g.T, c, g.Then)
			case "env":
				log.Env(g.K)
				ok := false
				if g.K == "writable" {
					ok = s.tp.WritableUnits(g.T)
				} else {
					ok = s.tp.Readable()
				}
				if !ok {
					log.stepErr = "not-enabled"
				}
			default:
				return fmt.Errorf("unknown step %q", g.Op)
			}
			s.sample()
			st, pend := s.ws.State().String(), s.ws.Pending()
			if st != g.St || pend != g.Pend || log.stepWire != g.Nw || log.stepErr != g.Err {
				sum.Drift++
				if sum.FirstDrift == nil {
					sum.FirstDrift = map[string]any{"sid": idx, "step": i + 1, "predicted": g,
						"observed": map[string]any{"st": st, "pend": pend, "nw": log.stepWire, "err": log.stepErr}}
				}
			}
		}
		// end of scenario: run the loop until nothing is left to deliver,
		// flush once more, run the loop again
		if err := s.drainEnv(); err != nil {
			return err
		}
		s.call("AsyncFlush", 0, 0)
		s.sample()
		if err := s.drainEnv(); err != nil {
			return err
		}
		s.tp.Finish()
		log.End("drained")
		if overlap {
			sum.Nontrivial++
		}
		return nil
	})
	if err != nil {
		return err
	}
	sum.Events = w.N
	if err := w.Close(); err != nil {
		return err
	}
	sum.Print()
	return nil
}
