package wssession

import (
	"bufio"
	"crypto/sha1"
	"encoding/base64"
	"encoding/json"
	"errors"
	"fmt"
	"net"
	"net/http"
	"strings"
	"sync"
	"syscall"
	"time"
	"unsafe"

	"github.com/talostrading/sonic"
	"github.com/talostrading/sonic/codec/websocket"
	"github.com/talostrading/sonic/sonicerrors"

	"verifharness/internal/tr"
)

// C17, driver 2: the real websocket.Stream over the real sonic.AsyncAdapter on a
// loopback TCP socket, after a real opening handshake against a small server
// inside the harness. All calls, all callbacks and all logging happen on the
// driver goroutine, which drives the IO context with PollOne; a scenario says
// which calls are issued before which poll cycle. The server side of the
// connection is a non-blocking descriptor read under a mutex both by the driver
// (at its synchronisation points) and by a helper goroutine - the adapter
// writes through net.Conn.Write, which blocks the loop goroutine until the
// whole buffer is in the kernel, so somebody else has to empty the peer side
// while a large message is written.

const (
	siocoutq = 0x5411
	siocinq  = 0x541B
)

func ioctlInt(fd int, req uintptr) int {
	var v int32
	_, _, e := syscall.Syscall(syscall.SYS_IOCTL, uintptr(fd), req, uintptr(unsafe.Pointer(&v)))
	if e != 0 {
		return -1
	}
	return int(v)
}

type realServer struct {
	ln   *net.TCPListener
	addr string
}

func newRealServer() (*realServer, error) {
	ln, err := net.ListenTCP("tcp4", &net.TCPAddr{IP: net.IPv4(127, 0, 0, 1)})
	if err != nil {
		return nil, err
	}
	// small receive buffers on the accepted sockets (inherited from the
	// listener), so that a paused server side really stops the client
	if rc, err := ln.SyscallConn(); err == nil {
		_ = rc.Control(func(fd uintptr) { _ = syscall.SetsockoptInt(int(fd), syscall.SOL_SOCKET, syscall.SO_RCVBUF, 4096) })
	}
	return &realServer{ln: ln, addr: ln.Addr().String()}, nil
}

// accept one connection and answer the upgrade request (own implementation)
func (rs *realServer) accept(out chan<- *net.TCPConn, errc chan<- error) {
	c, err := rs.ln.AcceptTCP()
	if err != nil {
		errc <- err
		return
	}
	req, err := http.ReadRequest(bufio.NewReader(c))
	if err != nil {
		errc <- err
		return
	}
	key := req.Header.Get("Sec-WebSocket-Key")
	if !strings.EqualFold(req.Header.Get("Upgrade"), "websocket") || key == "" {
		errc <- fmt.Errorf("not an upgrade request")
		return
	}
	h := sha1.Sum([]byte(key + "258EAFA5-E914-47DA-95CA-C5AB0DC85B11"))
	res := "HTTP/1.1 101 Switching Protocols\r\nUpgrade: websocket\r\nConnection: Upgrade\r\nSec-WebSocket-Accept: " +
		base64.StdEncoding.EncodeToString(h[:]) + "\r\n\r\n"
	if _, err := c.Write([]byte(res)); err != nil {
		errc <- err
		return
	}
	_ = c.SetNoDelay(true)
	out <- c
}

type realSession struct {
	*session
	ioc    *sonic.IO
	srv    *net.TCPConn
	sfd    int
	cfd    int
	parser WireParser
	paused bool
	rbuf   []byte
	mu     sync.Mutex // guards reads of sfd and inbuf
	inbuf  []byte
	srvEOF bool
	nwire  int
	fail   string // harness trouble (not an observation about the library)
	budget time.Duration
}

func newRealSession(log *Log, rs *realServer, o opts, sid int, budget time.Duration) (*realSession, error) {
	ioc, err := sonic.NewIO()
	if err != nil {
		return nil, err
	}
	ws, err := websocket.NewWebsocketStream(ioc, nil, websocket.RoleClient)
	if err != nil {
		return nil, err
	}
	conns, errc := make(chan *net.TCPConn, 1), make(chan error, 1)
	go rs.accept(conns, errc)
	if err := ws.Handshake("ws://" + rs.addr + "/"); err != nil {
		return nil, fmt.Errorf("handshake: %w", err)
	}
	var srv *net.TCPConn
	select {
	case srv = <-conns:
	case err := <-errc:
		return nil, fmt.Errorf("server side of the handshake: %w", err)
	case <-time.After(5 * time.Second):
		return nil, fmt.Errorf("server side of the handshake timed out")
	}
	r := &realSession{ioc: ioc, srv: srv, rbuf: make([]byte, 1<<16), budget: budget}
	rc, err := srv.SyscallConn()
	if err != nil {
		return nil, err
	}
	_ = rc.Control(func(fd uintptr) { r.sfd = int(fd) })
	r.cfd = ws.RawFd()
	ws.SetMaxMessageSize(16 << 20)
	r.session = &session{ws: ws, log: log, o: o, sid: sid, buf: make([]byte, 1<<16), ownTok: true}
	ws.SetControlCallback(func(mt websocket.MessageType, payload []byte) {
		r.gotControl(r.readID, websocket.Opcode(mt), payload)
	})
	r.feed = r.feedPeer
	log.preDone = r.syncWire
	go func() { // helper: keeps the server side's receive queue empty
		for {
			err := rc.Read(func(fd uintptr) bool {
				r.mu.Lock()
				n := r.readAllLocked()
				r.mu.Unlock()
				return n != 0
			})
			if err != nil || r.srvEOF {
				return
			}
		}
	}()
	return r, nil
}

// readAllLocked moves everything in the server side's receive queue to inbuf.
// Returns the number of bytes moved, -1 at end of stream.
func (r *realSession) readAllLocked() int {
	total := 0
	for {
		n, err := syscall.Read(r.sfd, r.rbuf)
		if n > 0 {
			total += n
			r.inbuf = append(r.inbuf, r.rbuf[:n]...)
			continue
		}
		if err == syscall.EINTR {
			continue
		}
		if n == 0 && err == nil {
			r.srvEOF = true
			if total == 0 {
				return -1
			}
		}
		return total
	}
}

// what the peer sends goes out on the server side of the connection; the
// driver then waits until the client's kernel has acknowledged it, so that it
// sits in the client socket's receive queue when the next poll cycle runs
func (r *realSession) feedPeer(it rdItem) {
	switch {
	case it.eof:
		_ = r.srv.CloseWrite()
	case it.err:
		r.fail = "transport errors are not injected on real sockets"
	default:
		if _, err := r.srv.Write(it.data); err != nil {
			r.fail = "server write: " + err.Error()
			return
		}
	}
	dl := time.Now().Add(r.budget)
	for ioctlInt(r.sfd, siocoutq) > 0 {
		if time.Now().After(dl) {
			r.fail = "peer output was not acknowledged by the client's kernel"
			return
		}
		time.Sleep(20 * time.Microsecond)
	}
}

// drainServer collects what has arrived on the server side and logs the frames
// it completes (driver goroutine only).
func (r *realSession) drainServer() int {
	r.mu.Lock()
	r.readAllLocked()
	b := r.inbuf
	r.inbuf = nil
	r.mu.Unlock()
	for _, f := range r.parser.Feed(b) {
		r.nwire++
		r.log.Wire(f)
	}
	return len(b)
}

// syncWire: everything the client has written so far is read by the server
// side and logged (the client's send queue is empty = acknowledged = in the
// server's receive queue).
func (r *realSession) syncWire() {
	if r.paused {
		return
	}
	dl := time.Now().Add(r.budget)
	for {
		r.drainServer()
		if q := ioctlInt(r.cfd, siocoutq); q <= 0 {
			r.drainServer()
			return
		}
		if time.Now().After(dl) {
			r.fail = "client output did not reach the server"
			return
		}
		time.Sleep(20 * time.Microsecond)
	}
}

func (r *realSession) pollOnce() (int, error) {
	if !r.paused {
		r.drainServer()
	}
	n, err := r.ioc.PollOne()
	if err != nil && !errors.Is(err, sonicerrors.ErrTimeout) {
		r.fail = "PollOne: " + err.Error()
	}
	return n, err
}

// runLoop drives the IO context until nothing can happen any more: no
// descriptor ready, both send queues empty, nothing left to read on the
// server side - twice in a row.
func (r *realSession) runLoop() {
	idle := 0
	for i := 0; i < 200000 && idle < 2 && r.fail == ""; i++ {
		got := 0
		if !r.paused {
			got = r.drainServer()
		}
		n, _ := r.pollOnce()
		if n > 0 {
			r.sample()
		}
		if n == 0 && got == 0 && ioctlInt(r.cfd, siocoutq) <= 0 && ioctlInt(r.sfd, siocoutq) <= 0 &&
			(r.paused || ioctlInt(r.sfd, siocinq) <= 0) {
			idle++
		} else {
			idle = 0
		}
	}
}

func (r *realSession) close() {
	r.log.muted = true
	_ = r.ws.CloseNextLayer()
	_ = r.srv.Close()
	_ = r.ioc.Close()
}

func (r *realSession) step(i int, g Step) error {
	switch g.Op {
	case "peer":
		r.peer(i, g.K, g.T, g.Glue == 1) // on a socket everything unread coalesces anyway
	case "call":
		c := g.C
		if g.Api == "AsyncClose" {
			c = []int{1000, 1001, 4000}[r.pick(i, 3)]
		}
		if !r.admissible(g.Api) {
			return nil
		}
		if g.N > 0 {
			n := g.N
			r.wlenOf = func(int) int { return n }
		} else {
			r.wlenOf = nil
		}
		r.callThen(g.Api, g.T, c, g.Then)
	case "env": // one poll cycle
		r.log.Env(g.K)
		reps := g.N
		if reps <= 0 {
			reps = 1
		}
		for k := 0; k < reps; k++ {
			r.pollOnce()
		}
	case "opt":
		switch g.K {
		case "sndbuf": // smallest send buffer the kernel grants
			if err := syscall.SetsockoptInt(r.cfd, syscall.SOL_SOCKET, syscall.SO_SNDBUF, 1); err != nil {
				return err
			}
		}
		return nil
	default:
		return fmt.Errorf("unknown step %q", g.Op)
	}
	r.sample()
	return nil
}

// RunReal replays behaviours on real sockets. Mode: budget=<ms> (how long the
// driver waits for the kernel to move bytes across loopback).
func RunReal(a tr.Args) error {
	w, err := tr.NewWriter(a.Out)
	if err != nil {
		return err
	}
	o := parseMode(a.Mode, a.Seed)
	budget := 2 * time.Second
	for _, kv := range strings.Split(a.Mode, ",") {
		if strings.HasPrefix(kv, "budget=") {
			var ms int
			fmt.Sscanf(kv[7:], "%d", &ms)
			budget = time.Duration(ms) * time.Millisecond
		}
	}
	rs, err := newRealServer()
	if err != nil {
		return err
	}
	defer rs.ln.Close()
	sum := tr.Summary{Component: "wssession-real"}
	fails := []string{}
	log := &Log{w: w}
	err = tr.Behaviours(a.In, func(idx int, raw json.RawMessage) error {
		var steps []Step
		if err := json.Unmarshal(raw, &steps); err != nil {
			return err
		}
		sum.Scenarios++
		log.begin(idx)
		r, err := newRealSession(log, rs, o, idx, budget)
		if err != nil {
			return err
		}
		defer r.close()
		for i, g := range steps {
			if err := r.step(i, g); err != nil {
				return err
			}
		}
		r.paused = false
		r.runLoop()
		r.call("AsyncFlush", 0, 0)
		r.sample()
		r.runLoop()
		r.syncWire()
		for _, f := range r.parser.Finish() {
			log.Wire(f)
		}
		if r.fail != "" {
			// the harness could not observe reliably: no verdict from this scenario
			log.End("cut")
			fails = append(fails, fmt.Sprintf("scenario %d: %s", idx, r.fail))
		} else {
			log.End("drained")
		}
		if log.nontrivial {
			sum.Nontrivial++
		}
		return nil
	})
	if err != nil {
		return err
	}
	sum.Events = w.N
	if len(fails) > 0 {
		sum.Notes = map[string]any{"harness_trouble": fails}
	}
	if err := w.Close(); err != nil {
		return err
	}
	sum.Print()
	return nil
}
