// Package wssession drives the real websocket.Stream (client role) with
// generated behaviours and records what it observes (C08, C17).
package wssession

import (
	"bytes"
	"encoding/binary"
	"fmt"
)

// ---------------------------------------------------------------------------
// payload generator: token <-> bytes
// ---------------------------------------------------------------------------

// Payload returns the bytes standing for token t with total length n
// (n >= 8). The bytes are ASCII so that they are valid UTF-8.
func Payload(t, n int) []byte {
	if n < 8 {
		n = 8
	}
	b := make([]byte, n)
	copy(b, fmt.Sprintf("T%06d:", t))
	for i := 8; i < n; i++ {
		b[i] = byte('a' + (t*7+i*13+(i>>8)*5)%26)
	}
	return b
}

// Token recovers the token of a payload produced by Payload, or -1.
func Token(b []byte) int {
	if len(b) < 8 || b[0] != 'T' || b[7] != ':' {
		return -1
	}
	t := 0
	for _, c := range b[1:7] {
		if c < '0' || c > '9' {
			return -1
		}
		t = t*10 + int(c-'0')
	}
	if !bytes.Equal(b, Payload(t, len(b))) {
		return -1
	}
	return t
}

// ---------------------------------------------------------------------------
// server side frame builder (independent of sonic's Frame)
// ---------------------------------------------------------------------------

const (
	opCont  = 0x0
	opText  = 0x1
	opBin   = 0x2
	opClose = 0x8
	opPing  = 0x9
	opPong  = 0xA
)

// BuildFrame serialises one frame. b0 is the complete first byte (FIN, RSV,
// opcode); mask != nil masks the payload with that key.
func BuildFrame(b0 byte, payload []byte, mask []byte) []byte {
	var out []byte
	out = append(out, b0)
	mb := byte(0)
	if mask != nil {
		mb = 0x80
	}
	n := len(payload)
	switch {
	case n <= 125:
		out = append(out, mb|byte(n))
	case n <= 0xFFFF:
		out = append(out, mb|126, byte(n>>8), byte(n))
	default:
		var l [8]byte
		binary.BigEndian.PutUint64(l[:], uint64(n))
		out = append(out, mb|127)
		out = append(out, l[:]...)
	}
	if mask != nil {
		out = append(out, mask[:4]...)
		p := make([]byte, n)
		for i := range payload {
			p[i] = payload[i] ^ mask[i&3]
		}
		out = append(out, p...)
	} else {
		out = append(out, payload...)
	}
	return out
}

func closePayload(code int, reason string) []byte {
	b := []byte{byte(code >> 8), byte(code)}
	return append(b, reason...)
}

// ---------------------------------------------------------------------------
// independent RFC 6455 parser for what the client writes
// ---------------------------------------------------------------------------

// WireFrame is one frame parsed from the client's byte stream.
type WireFrame struct {
	Kind    string // data | ping | pong | close | garbage | repeat
	Tok     int    // payload token (data, ping, pong), -1 unknown
	Code    int    // close status code, -1 none, -2 one-byte payload
	Masked  bool
	Minimal bool
	Fin     bool
	Len     int
}

// WireParser consumes the client's output incrementally.
type WireParser struct {
	buf     []byte
	off     int // parsed up to here
	dead    bool
	suspect bool // the frame at off does not look like anything submitted
}

func bad(f WireFrame) bool {
	return f.Kind == "garbage" || ((f.Kind == "data" || f.Kind == "ping" || f.Kind == "pong") && f.Tok < 0)
}

// Feed appends bytes and returns the frames completed by them. A frame that
// is not one of the generator's is held back until either the stream turns
// out to be a restarted transfer (the first k bytes of a frame followed by
// the whole frame again: reported as "repeat", parsing resumes at the
// restart) or Finish is called.
func (p *WireParser) Feed(b []byte) []WireFrame {
	p.buf = append(p.buf, b...)
	var out []WireFrame
	for !p.dead {
		f, n, ok := p.one(p.buf[p.off:])
		if !ok {
			break
		}
		if bad(f) {
			if k := p.restartAt(p.buf[p.off:]); k > 0 {
				out = append(out, WireFrame{Kind: "repeat", Tok: -1, Code: -1, Len: k})
				p.off += k
				p.suspect = false
				continue
			}
			p.suspect = true
			break
		}
		p.off += n
		out = append(out, f)
	}
	return out
}

// Finish reports what is left at the end of a scenario: a held-back frame and
// everything behind it, and a trailing partial frame as garbage.
func (p *WireParser) Finish() []WireFrame {
	var out []WireFrame
	for !p.dead {
		f, n, ok := p.one(p.buf[p.off:])
		if !ok {
			break
		}
		p.off += n
		out = append(out, f)
		if f.Kind == "garbage" {
			p.dead = true
		}
	}
	if !p.dead && p.off < len(p.buf) {
		out = append(out, WireFrame{Kind: "garbage", Tok: -1, Code: -1, Len: len(p.buf) - p.off})
		p.dead = true
	}
	return out
}

// restartAt: b = X[0:k] ++ X ++ ... with k >= 6 and X a generator frame.
func (p *WireParser) restartAt(b []byte) int {
	for k := 6; 2*k <= len(b); k++ {
		if !bytes.Equal(b[:k], b[k:2*k]) {
			continue
		}
		if f, _, ok := p.one(b[k:]); ok && !bad(f) {
			return k
		}
	}
	return 0
}

func (p *WireParser) one(b []byte) (f WireFrame, n int, ok bool) {
	if len(b) < 2 {
		return f, 0, false
	}
	b0, b1 := b[0], b[1]
	f.Fin = b0&0x80 != 0
	rsv := b0 & 0x70
	op := b0 & 0x0F
	f.Masked = b1&0x80 != 0
	l7 := int(b1 & 0x7F)
	h := 2
	plen := l7
	f.Minimal = true
	switch l7 {
	case 126:
		if len(b) < 4 {
			return f, 0, false
		}
		plen = int(binary.BigEndian.Uint16(b[2:4]))
		h = 4
		f.Minimal = plen > 125
	case 127:
		if len(b) < 10 {
			return f, 0, false
		}
		v := binary.BigEndian.Uint64(b[2:10])
		if v > 1<<26 {
			return WireFrame{Kind: "garbage", Tok: -1, Code: -1}, len(b), true
		}
		plen = int(v)
		h = 10
		f.Minimal = plen > 0xFFFF
	}
	var key []byte
	if f.Masked {
		if len(b) < h+4 {
			return f, 0, false
		}
		key = b[h : h+4]
		h += 4
	}
	// header sanity before waiting for the payload: an impossible header
	// means the stream is out of sync
	known := op == opCont || op == opText || op == opBin || op == opClose || op == opPing || op == opPong
	if rsv != 0 || !known || !f.Masked || (op >= 8 && (plen > 125 || !f.Fin)) {
		return WireFrame{Kind: "garbage", Tok: -1, Code: -1}, len(b), true
	}
	if len(b) < h+plen {
		return f, 0, false
	}
	pl := make([]byte, plen)
	copy(pl, b[h:h+plen])
	for i := range pl {
		pl[i] ^= key[i&3]
	}
	f.Len = plen
	f.Tok, f.Code = -1, -1
	switch op {
	case opText, opBin, opCont:
		f.Kind = "data"
		f.Tok = Token(pl)
	case opPing:
		f.Kind = "ping"
		f.Tok = Token(pl)
	case opPong:
		f.Kind = "pong"
		f.Tok = Token(pl)
	case opClose:
		f.Kind = "close"
		if plen >= 2 {
			f.Code = int(pl[0])<<8 | int(pl[1])
		} else if plen == 1 {
			f.Code = -2
		}
	}
	if !f.Minimal {
		f.Kind = "garbage"
	}
	return f, h + plen, true
}
