package wssession

import (
	"errors"
	"io"

	"github.com/talostrading/sonic/codec/websocket"
	"github.com/talostrading/sonic/sonicerrors"

	"verifharness/internal/tr"
)

// Ev is one recorded observation (flat, every field always present); the
// fields are those of WsSessionMon's events.
type Ev struct {
	Comp string `json:"comp"`
	Ev   string `json:"ev"`
	Sid  int    `json:"sid"`
	I    int    `json:"i"`
	Api  string `json:"api"`
	Id   int    `json:"id"`
	K    string `json:"k"`
	T    int    `json:"t"`
	C    int    `json:"c"`
	Err  string `json:"err"`
	St   string `json:"st"`
	Pend int    `json:"pend"`
}

// Log numbers and writes the events of one scenario.
type Log struct {
	w   *tr.Writer
	sid int
	i   int

	// per step bookkeeping for the drift comparison
	stepWire int
	stepErr  string
	// per scenario
	nontrivial bool
	muted      bool   // scenario is over: late callbacks of the teardown are not observations
	preDone    func() // real-socket driver: collect what the server received before a completion is logged
}

func (l *Log) begin(sid int) {
	l.sid, l.i = sid, 0
	l.nontrivial, l.muted, l.preDone = false, false, nil
	l.emit(Ev{Ev: "New"})
}

func (l *Log) emit(e Ev) {
	if l.muted {
		return
	}
	l.i++
	e.Comp, e.Sid, e.I = "ws", l.sid, l.i
	l.w.Emit(e)
}

func (l *Log) stepBegin() { l.stepWire, l.stepErr = 0, "parked" }

func (l *Log) Peer(k string, t, c int) { l.emit(Ev{Ev: "Peer", K: k, T: t, C: c}) }
func (l *Log) Call(api string, id, t, c int) {
	l.emit(Ev{Ev: "Call", Api: api, Id: id, T: t, C: c})
}
func (l *Log) Got(id int, k string, t, c int) {
	if k == "close" {
		l.nontrivial = true
	}
	l.emit(Ev{Ev: "Got", Id: id, K: k, T: t, C: c})
}
func (l *Log) Wire(f WireFrame) {
	l.stepWire++
	if f.Kind == "pong" || f.Kind == "close" {
		l.nontrivial = true
	}
	l.emit(Ev{Ev: "Wire", K: f.Kind, T: f.Tok, C: f.Code})
}
func (l *Log) Done(api string, id int, err error) {
	if l.preDone != nil && !l.muted {
		l.preDone()
	}
	l.stepErr = ErrClass(err)
	l.emit(Ev{Ev: "Done", Api: api, Id: id, Err: l.stepErr})
}
func (l *Log) Sample(st string, pend int) { l.emit(Ev{Ev: "Sample", St: st, Pend: pend}) }
func (l *Log) Env(k string)                { l.emit(Ev{Ev: "Env", K: k}) }
func (l *Log) End(k string)                { l.emit(Ev{Ev: "End", K: k}) }

// ErrClass maps an error to the class the monitors know.
func ErrClass(err error) string {
	switch {
	case err == nil:
		return "nil"
	case errors.Is(err, io.EOF):
		return "eof"
	case errors.Is(err, sonicerrors.ErrCancelled):
		return "cancelled"
	case errors.Is(err, errStall):
		return "stall"
	case errors.Is(err, errTransport):
		return "terr"
	case errors.Is(err, websocket.ErrMessageTooBig), errors.Is(err, websocket.ErrPayloadOverMaxSize):
		return "toobig"
	case errors.Is(err, websocket.ErrNonZeroReservedBits),
		errors.Is(err, websocket.ErrMaskedFramesFromServer),
		errors.Is(err, websocket.ErrUnmaskedFramesFromClient),
		errors.Is(err, websocket.ErrInvalidControlFrame),
		errors.Is(err, websocket.ErrControlFrameTooBig),
		errors.Is(err, websocket.ErrReservedOpcode),
		errors.Is(err, websocket.ErrUnexpectedContinuation),
		errors.Is(err, websocket.ErrExpectedContinuation),
		errors.Is(err, websocket.ErrInvalidUTF8):
		return "proto"
	}
	return "other"
}
