// Package wshs replays generated WebSocket opening-handshake scenarios
// (spec/WsHandshake/WsHandshakeImpl.tla) against the real websocket.Stream:
// a scripted TCP server on loopback reads and judges the upgrade request,
// writes the scripted response in the scripted segments (each segment is
// written only after the client has consumed the previous one - see
// barrier), optionally followed by frames, and the client side performs
// Handshake / AsyncHandshake and reads the frames back.  Everything
// observable is recorded as ndjson for HandshakeMonTrace.
package wshs

import (
	"bytes"
	"crypto/sha1"
	"encoding/base64"
	"encoding/json"
	"errors"
	"fmt"
	"io"
	"net"
	"os"
	"strconv"
	"strings"
	"sync/atomic"
	"syscall"
	"time"
	"unsafe"

	"github.com/talostrading/sonic"
	"github.com/talostrading/sonic/codec/websocket"

	"verifharness/internal/tr"
)

// ---------------------------------------------------------------------------
// scenario language (mirrors WsHandshakeImpl.tla)
// ---------------------------------------------------------------------------

type Cut struct {
	Cls string `json:"cls"`
	Off int    `json:"off"`
}

type Params struct {
	Mode    string `json:"mode"`
	Kind    string `json:"kind"`
	Status  int    `json:"status"`
	Upg     string `json:"upg"`
	Acc     string `json:"acc"`
	Ord     string `json:"ord"`
	Hcase   string `json:"hcase"`
	Ws      string `json:"ws"`
	Xh      string `json:"xh"`
	Long    int    `json:"long"`
	Cuts    []Cut  `json:"cuts"`
	Piggy   string `json:"piggy"`
	Closept string `json:"closept"`
	Tail    string `json:"tail"`
	Xreq    int    `json:"xreq"`
	Sl      string `json:"sl"`
}

type Round struct {
	P    Params `json:"p"`
	R    int    `json:"r"`
	D    int    `json:"d"`
	Pred []Ev   `json:"pred"`
}

// Ev is both a predicted and a recorded observation (all fields always present).
type Ev struct {
	C     string `json:"c"`
	Ev    string `json:"ev"`
	Sid   int    `json:"sid"`
	I     int    `json:"i"`
	Round int    `json:"round"`
	Mode  string `json:"mode"`
	Kind  string `json:"kind"`
	// Req
	Got    int `json:"got"`
	Method int `json:"method"`
	Host   int `json:"host"`
	Upg    int `json:"upg"`
	Conn   int `json:"conn"`
	Ver    int `json:"ver"`
	Key16  int `json:"key16"`
	Fresh  int `json:"fresh"`
	Keyid  int `json:"keyid"`
	Xhdr   int `json:"xhdr"`
	Wf     int `json:"wf"`
	// Resp
	Status   int    `json:"status"`
	Rupg     string `json:"rupg"`
	Racc     string `json:"racc"`
	Complete int    `json:"complete"`
	Feat     string `json:"feat"`
	Nsent    int    `json:"nsent"`
	// Result / End
	Err     string `json:"err"`
	State   string `json:"state"`
	Cbs     int    `json:"cbs"`
	Pending int    `json:"pending"`
	// Msg
	N     int `json:"n"`
	Match int `json:"match"`
	// End
	Ndeliv int `json:"ndeliv"`
	Cbytes int `json:"cbytes"`
	// End of a rejected round: what a stream that reported a failed handshake
	// does when it is used anyway ("ok" = every call refused; else the first
	// call that did not: nextframe, write, close, panic)
	Probe string `json:"probe"`
	// informational (not read by the monitor)
	Rlen int    `json:"rlen"` // real length of the response incl. blank line
	Ncut int    `json:"ncut"` // segment boundaries scripted
	Nsep int    `json:"nsep"` // boundaries at which the client provably consumed the segment before the next was written
	Note string `json:"note"`
}

// ---------------------------------------------------------------------------
// building what the server sends
// ---------------------------------------------------------------------------

const guid = "258EAFA5-E914-47DA-95CA-C5AB0DC85B11"

func acceptFor(key string) string {
	h := sha1.Sum([]byte(key + guid))
	return base64.StdEncoding.EncodeToString(h[:])
}

type hdr struct{ name, val string }

func (p Params) headers(key, prevKey string) []hdr {
	var upg, conn, acc, clen, pre, post, long []hdr
	if p.Upg != "missing" {
		v := "websocket"
		if p.Upg == "wrong" {
			v = "h2c"
		}
		upg = []hdr{{"Upgrade", v}}
	}
	if p.Xh != "noconn" {
		conn = []hdr{{"Connection", "Upgrade"}}
	}
	if p.Acc != "missing" {
		v := acceptFor(key)
		if p.Acc == "wrong" {
			v = acceptFor("dGhlIHNhbXBsZSBub25jZQ==") // a well-formed value for another key
			if v == acceptFor(key) {
				v = acceptFor("AAAAAAAAAAAAAAAAAAAAAA==")
			}
		}
		if p.Acc == "stale" { // the right value for the key of the previous handshake
			v = acceptFor("dGhlIHNhbXBsZSBub25jZQ==")
			if prevKey != "" && prevKey != key {
				v = acceptFor(prevKey)
			}
		}
		acc = []hdr{{"Sec-WebSocket-Accept", v}}
	}
	if p.Xh == "clen" {
		clen = []hdr{{"Content-Length", "0"}}
	}
	if p.Xh == "extra" {
		pre = []hdr{{"Server", "verif/1.0"}}
		post = []hdr{{"Date", "Mon, 01 Jan 2024 00:00:00 GMT"}}
	}
	if p.Long == 1 {
		long = []hdr{{"X-Padding", strings.Repeat("x", 1000)}}
	}
	if p.Long == 2 {
		long = []hdr{{"X-Padding", strings.Repeat("x", 2500)}, {"X-Padding2", strings.Repeat("y", 2500)}}
	}
	var hs []hdr
	hs = append(hs, pre...)
	if p.Ord == "canon" {
		hs = append(hs, upg...)
		hs = append(hs, conn...)
		hs = append(hs, clen...)
		hs = append(hs, acc...)
	} else {
		hs = append(hs, acc...)
		hs = append(hs, clen...)
		hs = append(hs, conn...)
		hs = append(hs, upg...)
	}
	hs = append(hs, post...)
	hs = append(hs, long...)
	return hs
}

func (p Params) response(key, prevKey string) []byte {
	var b bytes.Buffer
	switch p.Status {
	case 101:
		switch p.Sl {
		case "noreason":
			b.WriteString("HTTP/1.1 101\r\n")
		case "custom":
			b.WriteString("HTTP/1.1 101 Web Socket Protocol Handshake\r\n")
		default:
			b.WriteString("HTTP/1.1 101 Switching Protocols\r\n")
		}
	case 200:
		b.WriteString("HTTP/1.1 200 OK\r\n")
	default:
		b.WriteString("HTTP/1.1 400 Bad Request\r\n")
	}
	for _, h := range p.headers(key, prevKey) {
		name, val := h.name, h.val
		tokenVal := name == "Upgrade" || name == "Connection"
		switch p.Hcase {
		case "lower":
			name = strings.ToLower(name)
			if tokenVal {
				val = strings.ToLower(val)
			}
		case "upper":
			name = strings.ToUpper(name)
			if tokenVal {
				val = strings.ToUpper(val)
			}
		}
		b.WriteString(name)
		switch p.Ws {
		case "none":
			b.WriteString(":" + val)
		case "wide":
			b.WriteString(":  " + val + " ")
		case "tab":
			b.WriteString(":\t" + val)
		default:
			b.WriteString(": " + val)
		}
		b.WriteString("\r\n")
	}
	b.WriteString("\r\n")
	return b.Bytes()
}

type frame struct {
	op      byte
	payload []byte
}

func (f frame) encode() []byte {
	b := []byte{0x80 | f.op}
	n := len(f.payload)
	switch {
	case n <= 125:
		b = append(b, byte(n))
	default:
		b = append(b, 126, byte(n>>8), byte(n))
	}
	return append(b, f.payload...)
}

// frames of a round; payloads are tagged with round and index so that all
// frames of a scenario are pairwise different.
func (p Params) frames(round int, seed int64) []frame {
	f1 := []byte{byte('A' + round), 'f', '1', byte('0' + round), '!'}
	if p.Piggy == "big" || p.Piggy == "huge" {
		f1 = make([]byte, map[string]int{"big": 1500, "huge": 6000}[p.Piggy])
		x := uint32(seed)*2654435761 + uint32(round)*97 + 1
		for i := range f1 {
			x = x*1664525 + 1013904223
			f1[i] = byte(x >> 24)
		}
		f1[0], f1[1] = byte('A'+round), 'B'
	}
	fs := []frame{{1, f1}, {2, []byte{byte('a' + round), 0xF2, byte(round)}}}
	switch p.Tail {
	case "ping":
		fs = append(fs, frame{9, []byte{'p', byte('0' + round)}})
	case "close":
		fs = append(fs, frame{8, []byte{0x03, 0xE8}})
	}
	return fs
}

func (p Params) piggyBytes(fs []frame) int {
	switch p.Piggy {
	case "none":
		return 0
	case "partial":
		return 3
	case "two":
		return len(fs[0].encode()) + len(fs[1].encode())
	default:
		return len(fs[0].encode())
	}
}

func (p Params) feat() string {
	switch {
	case p.Kind == "badurl":
		return "badurl"
	case p.Long >= 1:
		return "long"
	case len(p.Cuts) > 0:
		return "segmented"
	case p.Ws != "canon":
		return "whitespace"
	case p.Xh != "none":
		return "headers"
	case p.Sl != "canon" && p.Sl != "":
		return "statusline"
	case p.Hcase != "canon":
		return "case"
	case p.Ord != "canon":
		return "order"
	case p.Piggy != "none":
		return "piggyback"
	}
	return "canonical"
}

// cutOffset resolves a split class on the concrete bytes (independently of
// the offsets the model computed; a disagreement is reported as a note).
func cutOffset(c Cut, resp []byte, f1len int, piggy string) int {
	sl := bytes.Index(resp, []byte("\r\n")) + 2
	h1 := 0
	if rest := resp[sl:]; len(rest) > 2 {
		h1 = bytes.Index(rest, []byte("\r\n")) + 2
	}
	r := len(resp)
	switch c.Cls {
	case "abs":
		return c.Off
	case "frac": // per mille of everything written before the client is done
		pg := 0
		switch piggy {
		case "partial":
			pg = 3
		case "whole", "big":
			pg = f1len
		case "two":
			pg = f1len + 5
		}
		if r+pg < 2 {
			return 0
		}
		return 1 + (r+pg-2)*c.Off/1000
	case "sl-mid":
		return 5
	case "sl-crlf":
		return sl - 1
	case "h1-name":
		return sl + 3
	case "h1-val":
		return sl + h1 - 4
	case "h1-crlf":
		return sl + h1 - 1
	case "hl-end":
		return r - 2
	case "bl-crlf":
		return r - 1
	case "bl-after":
		return r
	case "f-hdr":
		return r + 1
	case "f-pay":
		return r + 4
	case "f-between":
		if piggy == "two" {
			return r + f1len
		}
	}
	return 0
}

// ---------------------------------------------------------------------------
// the server's own judgement of the upgrade request
// ---------------------------------------------------------------------------

type reqVerdict struct {
	got, method, host, upg, conn, ver, key16, xhdr, wf int
	key                                               string
}

func b2i(b bool) int {
	if b {
		return 1
	}
	return 0
}

func judgeRequest(raw []byte, hostport, target string, xreq int) (v reqVerdict) {
	v.got = 1
	end := bytes.Index(raw, []byte("\r\n\r\n"))
	if end < 0 {
		return
	}
	// nothing may follow the blank line (a GET upgrade request has no body)
	wf := end+4 == len(raw)
	lines := strings.Split(string(raw[:end]), "\r\n")
	v.method = b2i(lines[0] == "GET "+target+" HTTP/1.1")
	type kv struct{ k, v string }
	var hs []kv
	for _, l := range lines[1:] {
		i := strings.IndexByte(l, ':')
		if i <= 0 || strings.ContainsAny(l[:i], " \t") || strings.ContainsAny(l, "\r\n") {
			wf = false
			continue
		}
		hs = append(hs, kv{l[:i], strings.Trim(l[i+1:], " \t")})
	}
	get := func(name string) (vals []string) {
		for _, h := range hs {
			if strings.EqualFold(h.k, name) {
				vals = append(vals, h.v)
			}
		}
		return
	}
	getExact := func(name string) (vals []string) {
		for _, h := range hs {
			if h.k == name {
				vals = append(vals, h.v)
			}
		}
		return
	}
	one := func(name string) (string, bool) {
		vs := get(name)
		if len(vs) != 1 {
			return "", false
		}
		return vs[0], true
	}
	if h, ok := one("Host"); ok {
		v.host = b2i(h == hostport)
	}
	if u, ok := one("Upgrade"); ok {
		v.upg = b2i(strings.EqualFold(u, "websocket"))
	}
	for _, c := range get("Connection") {
		for _, tok := range strings.Split(c, ",") {
			if strings.EqualFold(strings.TrimSpace(tok), "upgrade") {
				v.conn = 1
			}
		}
	}
	if x, ok := one("Sec-WebSocket-Version"); ok {
		v.ver = b2i(x == "13")
	}
	if k, ok := one("Sec-WebSocket-Key"); ok {
		v.key = k
		d, err := base64.StdEncoding.DecodeString(k)
		v.key16 = b2i(err == nil && len(d) == 16)
	}
	eq := func(a, b []string) bool {
		if len(a) != len(b) {
			return false
		}
		for i := range a {
			if a[i] != b[i] {
				return false
			}
		}
		return true
	}
	x := true
	if xreq == 1 || xreq == 3 {
		x = x && eq(get("X-Verif-A"), []string{"one"})
	}
	if xreq == 2 || xreq == 3 {
		x = x && eq(getExact("x-verif-lower"), []string{"p", "q"})
	}
	if xreq == 3 {
		x = x && eq(get("Sec-WebSocket-Protocol"), []string{"chat", "superchat"}) && eq(get("Origin"), []string{"http://verif.example"})
	}
	v.xhdr = b2i(x)
	v.wf = b2i(wf)
	return
}

func extraHeaders(xreq int) (hs []websocket.Header) {
	if xreq == 1 || xreq == 3 {
		hs = append(hs, websocket.ExtraHeader(true, "x-verif-a", "one"))
	}
	if xreq == 2 || xreq == 3 {
		hs = append(hs, websocket.ExtraHeader(false, "x-verif-lower", "p", "q"))
	}
	if xreq == 3 {
		hs = append(hs, websocket.ExtraHeader(true, "Sec-WebSocket-Protocol", "chat", "superchat"),
			websocket.ExtraHeader(true, "Origin", "http://verif.example"))
	}
	return
}

// ---------------------------------------------------------------------------
// barrier: has the client consumed everything the server wrote?
// ---------------------------------------------------------------------------

const (
	ioctlFIONREAD    = 0x541B
	ioctlSIOCOUTQNSD = 0x894B
)

func ioctlInt(fd int, req uintptr) (int, error) {
	var v int32
	_, _, e := syscall.Syscall(syscall.SYS_IOCTL, uintptr(fd), req, uintptr(unsafe.Pointer(&v)))
	if e != 0 {
		return 0, e
	}
	return int(v), nil
}

func sockPort(sa syscall.Sockaddr) int {
	switch a := sa.(type) {
	case *syscall.SockaddrInet4:
		return a.Port
	case *syscall.SockaddrInet6:
		return a.Port
	}
	return -1
}

// findClientFd finds, among this process's descriptors, the socket whose
// local port is the peer port of the accepted connection (the client end of
// the loopback connection lives in the same process).
func findClientFd(clientPort, serverPort int) int {
	ents, err := os.ReadDir("/proc/self/fd")
	if err != nil {
		return -1
	}
	for _, e := range ents {
		fd, err := strconv.Atoi(e.Name())
		if err != nil || fd < 3 {
			continue
		}
		sa, err := syscall.Getsockname(fd)
		if err != nil || sockPort(sa) != clientPort {
			continue
		}
		pa, err := syscall.Getpeername(fd)
		if err != nil || sockPort(pa) != serverPort {
			continue
		}
		return fd
	}
	return -1
}

// clientConnOpen reports whether this process still holds a socket connected to the server's port (the
// server's own accepted sockets have that port as their local one and are not counted).
func clientConnOpen(serverPort int) bool {
	ents, err := os.ReadDir("/proc/self/fd")
	if err != nil {
		return false
	}
	for _, e := range ents {
		fd, err := strconv.Atoi(e.Name())
		if err != nil || fd < 3 {
			continue
		}
		pa, err := syscall.Getpeername(fd)
		if err != nil || sockPort(pa) != serverPort {
			continue
		}
		if sa, err := syscall.Getsockname(fd); err == nil && sockPort(sa) != serverPort {
			return true
		}
	}
	return false
}

type server struct {
	ln       *net.TCPListener
	port     int
	hostport string
	lastKey  string // Sec-WebSocket-Key of the previous round
}

type srvReport struct {
	req      reqVerdict
	rlen     int
	complete int
	nsent    int
	cbytes   int
	ncut     int
	nsep     int
	note     string
	stalled  bool  // the whole response was delivered but the client's handshake call did not finish in time
	err      error // harness trouble (inconclusive), not a finding
}

// hsState is shared between the client side and the server goroutine.
type hsState struct {
	done atomic.Bool   // the handshake call has completed on the client side
	ok   atomic.Bool   // ... successfully
	sig  chan struct{} // closed when done
}

// waitConsumed blocks until the client has taken every byte written so far
// (nothing unsent on the server socket, nothing unread on the client socket)
// or the client's handshake has completed (it will not read the response any
// further).  Returns whether consumption was observed.
func waitConsumed(sfd, cfd int, hs *hsState) (bool, error) {
	deadline := time.Now().Add(3 * time.Second)
	for spin := 0; ; spin++ {
		if cfd >= 0 {
			out, e1 := ioctlInt(sfd, ioctlSIOCOUTQNSD)
			in, e2 := ioctlInt(cfd, ioctlFIONREAD)
			if e1 == nil && e2 == nil && out == 0 && in == 0 {
				return true, nil
			}
		}
		if hs.done.Load() {
			return false, nil
		}
		if time.Now().After(deadline) {
			return false, errors.New("barrier: client neither consumed the segment nor finished within 3s")
		}
		if spin < 50 {
			time.Sleep(10 * time.Microsecond)
		} else {
			time.Sleep(200 * time.Microsecond)
		}
	}
}

func (sv *server) serve(p Params, round int, seed int64, hs *hsState, out chan<- srvReport) {
	var rep srvReport
	defer func() { out <- rep }()
	_ = sv.ln.SetDeadline(time.Now().Add(4 * time.Second))
	conn, err := sv.ln.AcceptTCP()
	if err != nil {
		rep.err = fmt.Errorf("accept: %w", err)
		return
	}
	defer conn.Close()
	if p.Closept == "prereq" {
		// close without reading anything
		return
	}
	_ = conn.SetReadDeadline(time.Now().Add(4 * time.Second))
	var raw []byte
	buf := make([]byte, 4096)
	for !bytes.Contains(raw, []byte("\r\n\r\n")) {
		n, err := conn.Read(buf)
		raw = append(raw, buf[:n]...)
		if err != nil {
			rep.err = fmt.Errorf("reading request: %w (got %q)", err, raw)
			return
		}
	}
	rep.req = judgeRequest(raw, sv.hostport, "/chat?x=1", p.Xreq)
	if p.Closept == "noresp" {
		return
	}
	resp := p.response(rep.req.key, sv.lastKey)
	sv.lastKey = rep.req.key
	rep.rlen = len(resp)
	fs := p.frames(round, seed)
	var fbytes []byte
	for _, f := range fs {
		fbytes = append(fbytes, f.encode()...)
	}
	pg := p.piggyBytes(fs)
	stream := append(append([]byte{}, resp...), fbytes...)
	limit := len(resp) + pg
	var cuts []int
	for _, c := range p.Cuts {
		o := cutOffset(c, resp, len(fs[0].encode()), p.Piggy)
		if o != c.Off && c.Cls != "frac" {
			rep.note += fmt.Sprintf("cut %s: model offset %d, real %d; ", c.Cls, c.Off, o)
		}
		if o > 0 && o < limit && (len(cuts) == 0 || o > cuts[len(cuts)-1]) {
			cuts = append(cuts, o)
		}
	}
	switch p.Closept {
	case "midresp":
		if len(cuts) == 0 {
			rep.err = errors.New("midresp without a cut")
			return
		}
		limit = cuts[0]
		cuts = nil
	case "afterresp":
		limit = len(resp)
	}
	// complete: the script contains the whole response, blank line included,
	// before the server closes.  (A write that fails because the client has
	// already hung up does not make the server's response incomplete.)
	rep.complete = b2i(limit >= len(resp))
	var sfd int
	if rc, err := conn.SyscallConn(); err == nil {
		_ = rc.Control(func(fd uintptr) { sfd = int(fd) })
	}
	cfd := findClientFd(conn.RemoteAddr().(*net.TCPAddr).Port, sv.port)
	_ = conn.SetWriteDeadline(time.Now().Add(4 * time.Second))
	pos := 0
	bounds := append(append([]int{}, cuts...), limit)
	rep.ncut = len(cuts)
	for k, b := range bounds {
		if b <= pos {
			continue
		}
		if _, err := conn.Write(stream[pos:b]); err != nil {
			rep.note += "write: " + err.Error() + "; "
			break
		}
		pos = b
		sep, err := waitConsumed(sfd, cfd, hs)
		if err != nil {
			rep.err = err
			return
		}
		if sep && k < len(bounds)-1 {
			rep.nsep++
		}
	}
	if p.Closept != "none" {
		return // deferred Close: the server goes away here
	}
	select {
	case <-hs.sig:
	case <-time.After(stallBudget()):
		// The response is complete and the server keeps the connection open, yet the client's
		// handshake call neither accepted nor rejected. Hang up (which unblocks the client) and
		// let the monitor judge it as "no result"; this is a bounded-time observation, so the
		// check re-runs the scenario with a larger budget before believing it.
		rep.stalled = true
		rep.note += "client-stalled; "
		return
	}
	if hs.ok.Load() && pos < len(stream) {
		if _, err := conn.Write(stream[pos:]); err != nil {
			rep.note += "write rest: " + err.Error() + "; "
		} else {
			pos = len(stream)
		}
	}
	// complete frames on the wire
	off := len(resp)
	for _, f := range fs {
		off += len(f.encode())
		if off <= pos {
			rep.nsent++
		}
	}
	_ = conn.CloseWrite()
	// everything the client sends from here on was not asked for
	_ = conn.SetReadDeadline(time.Now().Add(4 * time.Second))
	for {
		n, err := conn.Read(buf)
		rep.cbytes += n
		if err != nil {
			if !errors.Is(err, io.EOF) {
				var ne net.Error
				if errors.As(err, &ne) && ne.Timeout() {
					rep.err = errors.New("client did not close the connection within 4s")
				} else {
					rep.note += "drain: " + err.Error() + "; "
				}
			}
			break
		}
	}
}

// ---------------------------------------------------------------------------
// client side
// ---------------------------------------------------------------------------

func errClass(err error) string {
	switch {
	case err == nil:
		return "nil"
	case errors.Is(err, websocket.ErrCannotUpgrade):
		return "cannotupgrade"
	case errors.Is(err, io.EOF):
		return "eof"
	}
	return "other"
}

type scenario struct {
	sid   int
	i     int
	w     *tr.Writer
	ioc   *sonic.IO
	ws    *websocket.Stream
	sv    *server
	seed  int64
	keys  []string // distinct keys of this scenario, in order of first use
	drift int
	first any
	sepOK int
	sepN  int

	cbPanic string
}

var allKeys = map[string]bool{}

func (sc *scenario) emit(e Ev) {
	sc.i++
	e.C, e.Sid, e.I = "wshs", sc.sid, sc.i
	sc.w.Emit(e)
}

func (sc *scenario) poll(until func() bool, what string) error {
	deadline := time.Now().Add(8 * time.Second)
	for !until() {
		if time.Now().After(deadline) {
			return fmt.Errorf("scenario %d: %s did not complete within 8s", sc.sid, what)
		}
		func() {
			// completion handlers run on this goroutine: a panic in one of them
			// (or in the library code that calls it) is an observation
			defer func() {
				if r := recover(); r != nil {
					sc.cbPanic = fmt.Sprint(r)
				}
			}()
			_ = sc.ioc.RunOneFor(2 * time.Millisecond)
		}()
		if sc.cbPanic != "" {
			return nil
		}
	}
	return nil
}

// probe uses a stream whose handshake failed: every call has to be refused
// with an error (terminated, not half-open), without a panic.
func (sc *scenario) probe(mode string) (res string) {
	defer func() {
		if r := recover(); r != nil {
			res = "panic"
		}
	}()
	res = "ok"
	set := func(name string, err error) {
		if err == nil && res == "ok" {
			res = name
		}
	}
	if mode == "sync" {
		_, err := sc.ws.NextFrame()
		set("nextframe", err)
		set("write", sc.ws.Write([]byte("probe"), websocket.TypeText))
		set("close", sc.ws.Close(websocket.CloseNormal, ""))
		return
	}
	fired := 0
	sc.ws.AsyncNextFrame(func(err error, _ websocket.Frame) { fired++; set("nextframe", err) })
	sc.ws.AsyncWrite([]byte("probe"), websocket.TypeText, func(err error) { fired++; set("write", err) })
	sc.ws.AsyncClose(websocket.CloseNormal, "", func(err error) { fired++; set("close", err) })
	for k := 0; k < 50 && fired < 3 && sc.cbPanic == ""; k++ {
		func() {
			defer func() {
				if r := recover(); r != nil {
					sc.cbPanic = fmt.Sprint(r)
				}
			}()
			_ = sc.ioc.RunOneFor(2 * time.Millisecond)
		}()
	}
	if sc.cbPanic != "" {
		sc.cbPanic = ""
		return "panic"
	}
	if fired < 3 && res == "ok" {
		res = "pending" // a call neither refused nor completed
	}
	return
}

type got struct {
	op      byte
	payload []byte
}

func (sc *scenario) round(rn int, rd Round) error {
	p := rd.P
	base := Ev{Round: rn, Mode: p.Mode, Kind: p.Kind}
	var evs []Ev
	begin := base
	begin.Ev = "Begin"
	evs = append(evs, begin)

	hs := &hsState{sig: make(chan struct{})}
	repc := make(chan srvReport, 1)
	url := fmt.Sprintf("ws://%s/chat?x=1", sc.sv.hostport)
	if p.Kind == "badurl" {
		url = fmt.Sprintf("http://%s/chat", sc.sv.hostport)
	} else {
		go sc.sv.serve(p, rn, sc.seed, hs, repc)
	}

	// ---- the handshake ----
	var herr error
	cbs := 0
	panicked := "" // a panic inside the library (recoverable on this goroutine only)
	finish := func(err error) {
		cbs++
		herr = err
		if cbs == 1 {
			hs.ok.Store(err == nil)
			hs.done.Store(true)
			close(hs.sig)
		}
	}
	if p.Mode == "sync" {
		func() {
			defer func() {
				if r := recover(); r != nil {
					panicked = fmt.Sprint(r)
					finish(errors.New("panic"))
				}
			}()
			finish(sc.ws.Handshake(url, extraHeaders(p.Xreq)...))
		}()
	} else {
		sc.ws.AsyncHandshake(url, func(err error) { finish(err) }, extraHeaders(p.Xreq)...)
		if err := sc.poll(func() bool { return cbs > 0 }, "AsyncHandshake"); err != nil {
			return err
		}
		if sc.cbPanic != "" {
			panicked = sc.cbPanic
			if cbs == 0 {
				finish(errors.New("panic"))
			}
		}
		// a second invocation would have been posted by now
		for k := 0; k < 3; k++ {
			_, _ = sc.ioc.PollOne()
		}
	}
	res := base
	res.Ev, res.Err, res.State, res.Cbs, res.Pending = "Result", errClass(herr), sc.ws.State().String(), cbs, sc.ws.Pending()
	if panicked != "" {
		res.Err, res.Cbs = "panic", 1
	}
	if herr != nil {
		res.Note = herr.Error() + " " + panicked
		if len(res.Note) > 120 {
			res.Note = res.Note[:120]
		}
	}

	// ---- a handshaken stream writes like a fresh one ----
	// (also after an earlier round on the same stream left a write in flight, see the end of this function)
	fresh, probeWire := "", 0
	if herr == nil && panicked == "" && p.Kind == "resp" && p.Closept == "none" {
		pl := []byte{'W', byte('0' + rn)}
		func() {
			defer func() {
				if r := recover(); r != nil {
					fresh = "write-panic"
				}
			}()
			if p.Mode == "sync" {
				if err := sc.ws.Write(pl, websocket.TypeText); err != nil {
					fresh = "write-error"
				} else {
					probeWire = 6 + len(pl)
				}
				return
			}
			done, werr := false, error(nil)
			sc.ws.AsyncWrite(pl, websocket.TypeText, func(err error) { done, werr = true, err })
			for k := 0; k < 1500 && !done && sc.cbPanic == ""; k++ {
				func() {
					defer func() {
						if r := recover(); r != nil {
							sc.cbPanic = fmt.Sprint(r)
						}
					}()
					_ = sc.ioc.RunOneFor(2 * time.Millisecond)
				}()
			}
			switch {
			case sc.cbPanic != "":
				fresh, sc.cbPanic = "write-panic", ""
			case !done:
				fresh = "write-stuck"
			case werr != nil:
				fresh = "write-error"
			default:
				probeWire = 6 + len(pl)
			}
		}()
	}

	// ---- frames after the blank line ----
	var frames []frame
	if p.Kind == "resp" {
		frames = p.frames(rn, sc.seed)
	}
	var msgs []Ev
	end := base
	end.Ev = "End"
	if herr == nil && fresh != "write-stuck" { // (with a stuck flush the reads would be parked behind it as well)
		var rerr error
		stopped := false
		for len(msgs) < 8 {
			var g *got
			if p.Mode == "sync" {
				func() {
					defer func() {
						if r := recover(); r != nil {
							panicked = fmt.Sprint(r)
						}
					}()
					f, err := sc.ws.NextFrame()
					rerr = err
					if err == nil {
						g = &got{byte(f.Opcode()), append([]byte{}, f.Payload()...)}
					}
				}()
			} else {
				fired := false
				sc.ws.AsyncNextFrame(func(err error, f websocket.Frame) {
					fired = true
					rerr = err
					if err == nil {
						g = &got{byte(f.Opcode()), append([]byte{}, f.Payload()...)}
					}
				})
				if err := sc.poll(func() bool { return fired }, "AsyncNextFrame"); err != nil {
					return err
				}
				if sc.cbPanic != "" {
					panicked = sc.cbPanic
				}
			}
			if g == nil || panicked != "" {
				break
			}
			m := base
			m.Ev, m.N = "Msg", len(msgs)+1
			for j, f := range frames {
				if f.op == g.op && bytes.Equal(f.payload, g.payload) && (m.Match == 0 || j+1 == m.N) {
					m.Match = j + 1
				}
			}
			msgs = append(msgs, m)
			if p.Tail != "none" && (g.op == 8 || g.op == 9) {
				stopped = true
				break
			}
		}
		end.Err = errClass(rerr)
		if stopped {
			end.Err = "stopped"
		}
		if panicked != "" {
			end.Err, end.Note = "panic", panicked
		}
	}
	if herr != nil && panicked == "" {
		end.Probe = sc.probe(p.Mode)
		// "terminated, not half-open" also means that the failed handshake has hung up: no socket of this
		// process may still be connected to the scripted server
		if end.Probe == "ok" && p.Kind == "resp" && clientConnOpen(sc.sv.port) {
			end.Probe = "connection-open"
		}
	}
	if herr == nil && fresh != "" {
		end.Probe = fresh
	}
	end.Ndeliv = len(msgs)
	end.State = sc.ws.State().String()
	end.Pending = sc.ws.Pending()
	if herr == nil && p.Mode != "sync" && sc.ws.State() == websocket.StateActive {
		// the application has a write in flight when it gives the connection up and connects again
		// (the transport write has not completed: nothing polls between here and the next handshake)
		sc.ws.AsyncWrite([]byte("tail"), websocket.TypeText, func(error) {})
	}

	// the driver hangs up; the server then sees EOF and reports
	_ = sc.ws.CloseNextLayer()

	if p.Kind == "resp" {
		var rep srvReport
		select {
		case rep = <-repc:
		case <-time.After(12 * time.Second):
			return fmt.Errorf("scenario %d round %d: server did not finish", sc.sid, rn)
		}
		if rep.err != nil {
			return fmt.Errorf("scenario %d round %d: %w", sc.sid, rn, rep.err)
		}
		rq := base
		rq.Ev = "Req"
		v := rep.req
		rq.Got, rq.Method, rq.Host, rq.Upg, rq.Conn, rq.Ver, rq.Key16, rq.Xhdr, rq.Wf = v.got, v.method, v.host, v.upg, v.conn, v.ver, v.key16, v.xhdr, v.wf
		if v.got == 1 {
			rq.Fresh = b2i(!allKeys[v.key])
			allKeys[v.key] = true
			for k, old := range sc.keys {
				if old == v.key {
					rq.Keyid = k + 1
				}
			}
			if rq.Keyid == 0 {
				sc.keys = append(sc.keys, v.key)
				rq.Keyid = len(sc.keys)
			}
		}
		rs := base
		rs.Ev, rs.Status, rs.Rupg, rs.Racc, rs.Complete, rs.Feat, rs.Nsent = "Resp", p.Status, p.Upg, p.Acc, rep.complete, p.feat(), rep.nsent
		rs.Rlen, rs.Ncut, rs.Nsep, rs.Note = rep.rlen, rep.ncut, rep.nsep, rep.note
		if rep.rlen != 0 && rd.R != 0 && rep.rlen != rd.R {
			rs.Note += fmt.Sprintf("model R=%d real R=%d; ", rd.R, rep.rlen)
		}
		end.Cbytes = rep.cbytes
		if probeWire > 0 && rep.cbytes >= probeWire {
			end.Cbytes = rep.cbytes - probeWire // the driver's own write of this round
		}
		if rep.stalled {
			res.Err = "stalled"
		}
		sc.sepN += rep.ncut
		sc.sepOK += rep.nsep
		evs = append(evs, rq, rs)
	}
	evs = append(evs, res)
	evs = append(evs, msgs...)
	evs = append(evs, end)
	for _, e := range evs {
		sc.emit(e)
	}
	sc.compare(rn, rd, evs)
	if panicked != "" {
		return errAbandon
	}
	return nil
}

var errAbandon = errors.New("scenario abandoned after a panic in the library")

// stallBudget: how long the server waits for the client's handshake call to
// finish after the last byte of a complete response (VERIF_SLOW scales it).
func stallBudget() time.Duration {
	k := 1
	if v := os.Getenv("VERIF_SLOW"); v != "" {
		if n, err := strconv.Atoi(v); err == nil && n > 1 {
			k = n
		}
	}
	return time.Duration(3*k) * time.Second
}

// compare the observation with the model's prediction (drift is reported,
// never a verdict)
func (sc *scenario) compare(rn int, rd Round, evs []Ev) {
	if len(rd.Pred) == 0 {
		return // sampled scenario without a model prediction
	}
	key := func(e Ev) string {
		acc := e.Err == "nil"
		switch e.Ev {
		case "Req":
			return fmt.Sprint("Req ", e.Got)
		case "Resp":
			return fmt.Sprint("Resp ", e.Complete, e.Feat)
		case "Result":
			return fmt.Sprint("Result ", acc, e.State, e.Cbs, e.Pending)
		case "Msg":
			return fmt.Sprint("Msg ", e.N, e.Match)
		case "End":
			return fmt.Sprint("End ", e.Ndeliv, e.Cbytes > 0, e.State, e.Probe)
		}
		return e.Ev
	}
	diff := ""
	// a prediction is shorter than the observation when the model's monitor
	// rejected (rejected states are terminal in the model): compare the prefix
	if len(evs) < len(rd.Pred) {
		diff = fmt.Sprintf("%d events observed, %d predicted", len(evs), len(rd.Pred))
	}
	for k := 0; diff == "" && k < len(rd.Pred); k++ {
		if pe := rd.Pred[k]; pe.Ev == "Msg" && pe.Match == 0 {
			// predicted: the decoder is fed garbage from here on; what exactly it
			// makes of it is not modelled - anything but the right frame agrees
			if evs[k].Ev == "Msg" && evs[k].Match == evs[k].N {
				diff = "predicted garbled frames, observed the right frame"
			}
			break
		}
		if key(evs[k]) != key(rd.Pred[k]) {
			diff = fmt.Sprintf("observed %q, predicted %q", key(evs[k]), key(rd.Pred[k]))
		}
	}
	if diff != "" {
		sc.drift++
		if sc.first == nil {
			sc.first = map[string]any{"sid": sc.sid, "round": rn, "diff": diff, "p": rd.P}
		}
	}
}

// Run replays every scenario of the behaviours file.
func Run(a tr.Args) error {
	w, err := tr.NewWriter(a.Out)
	if err != nil {
		return err
	}
	defer w.Close()
	sum := tr.Summary{Component: "wshs"}
	nontrivial := map[string]bool{}
	sepOK, sepN := 0, 0
	// modes: "" all scenarios; "from:K" scenarios K.. (after a crash);
	// "crashed:K" record that the process died with a panic while running
	// scenario K (a panic on a goroutine of the library cannot be recovered)
	from, crashed := 0, 0
	if strings.HasPrefix(a.Mode, "from:") {
		from, _ = strconv.Atoi(a.Mode[5:])
	}
	if strings.HasPrefix(a.Mode, "crashed:") {
		crashed, _ = strconv.Atoi(a.Mode[8:])
	}
	err = tr.Behaviours(a.In, func(idx int, raw json.RawMessage) error {
		if idx < from || (crashed != 0 && idx != crashed) {
			return nil
		}
		var rounds []Round
		if err := json.Unmarshal(raw, &rounds); err != nil {
			return err
		}
		if crashed != 0 {
			p := rounds[0].P
			b := Ev{C: "wshs", Sid: idx, I: 1, Ev: "Begin", Round: 1, Mode: p.Mode, Kind: p.Kind}
			w.Emit(b)
			r := b
			r.Ev, r.I, r.Err, r.Cbs, r.Note = "Result", 2, "panic", 1, "process died with a panic inside the library during this scenario"
			w.Emit(r)
			sum.Scenarios++
			return nil
		}
		_ = os.WriteFile(a.Out+".cur", []byte(strconv.Itoa(idx)), 0o644)
		ln, err := net.ListenTCP("tcp4", &net.TCPAddr{IP: net.IPv4(127, 0, 0, 1)})
		if err != nil {
			return err
		}
		defer ln.Close()
		port := ln.Addr().(*net.TCPAddr).Port
		ioc, err := sonic.NewIO()
		if err != nil {
			return err
		}
		defer ioc.Close()
		ws, err := websocket.NewWebsocketStream(ioc, nil, websocket.RoleClient)
		if err != nil {
			return err
		}
		sc := &scenario{sid: idx, w: w, ioc: ioc, ws: ws, seed: a.Seed,
			sv: &server{ln: ln, port: port, hostport: fmt.Sprintf("127.0.0.1:%d", port)}}
		for k, rd := range rounds {
			if err := sc.round(k+1, rd); err != nil {
				if err == errAbandon {
					break
				}
				return err
			}
			p := rd.P
			if p.Kind == "resp" && (len(p.Cuts) > 0 || p.Piggy != "none" || p.Feat() != "canonical" || p.Closept != "none" || k > 0) {
				b, _ := json.Marshal(p)
				nontrivial[fmt.Sprint(k > 0, string(b))] = true
			}
		}
		sum.Scenarios++
		sum.Drift += sc.drift
		if sum.FirstDrift == nil {
			sum.FirstDrift = sc.first
		}
		sepOK += sc.sepOK
		sepN += sc.sepN
		return nil
	})
	if err != nil {
		return err
	}
	sum.Events = w.N
	sum.Nontrivial = len(nontrivial)
	sum.Notes = map[string]int{"segment_boundaries": sepN, "boundaries_consumed_separately": sepOK}
	sum.Print()
	return nil
}

// Feat is exported for the summary filter.
func (p Params) Feat() string { return p.feat() }
