// Package framex drives codec/frame (frame.Codec over a real sonic.ByteBuffer)
// with generated behaviours and records what FrameMon needs (extra component,
// no listed property).
package framex

import (
	"bytes"
	"encoding/binary"
	"encoding/json"
	"errors"
	"fmt"
	"io"
	"math/rand"
	"sort"
	"strconv"
	"strings"

	"github.com/talostrading/sonic"
	"github.com/talostrading/sonic/codec/frame"
	"github.com/talostrading/sonic/sonicerrors"

	"verifharness/internal/tr"
)

// G is a generated step: call, argument (in model tokens) and the observation
// FrameImpl predicts.
type G struct {
	Ev   string `json:"ev"`
	A    int    `json:"a"`
	Id   int    `json:"id"`
	Res  string `json:"res"`
	Plen int    `json:"plen"`
	Pids []int  `json:"pids"`
	Held int    `json:"held"`
	S    int    `json:"s"`
	R    int    `json:"r"`
	W    int    `json:"w"`
}

// Ev is a recorded event (all numbers in real bytes).
type Ev struct {
	C      string `json:"c"`
	Ev     string `json:"ev"`
	Sid    int    `json:"sid"`
	I      int    `json:"i"`
	A      int    `json:"a"`
	Id     int    `json:"id"`
	Direct int    `json:"direct"`
	Res    string `json:"res"`
	Plen   int    `json:"plen"`
	Pids   []int  `json:"pids"`
	Held   int    `json:"held"`
	N      int    `json:"n"`
	Same   int    `json:"same"`
	Good   int    `json:"good"`
	S      int    `json:"s"`
	R      int    `json:"r"`
	W      int    `json:"w"`
	Blen   int    `json:"blen"`
	Rsv    int    `json:"rsv"`
	Capg   int    `json:"capg"`
	Sgood  int    `json:"sgood"`
	Tailok int    `json:"tailok"`
}

const modelOver = 1 << 30 // a generated Enc argument above this means "one byte more than the limit"

var hugePayload []byte // MaxPayloadLength+1 zero bytes, never touched (lazily mapped)

type frec struct {
	id      int
	payload []byte
}

type scen struct {
	seed    int64
	scale   int
	feed    string // write | claim | readfrom
	direct  bool
	src     *sonic.ByteBuffer
	dst     *sonic.ByteBuffer // encoder's buffer (= src when direct)
	codec   *frame.Codec
	presave []byte
	frames  []frec
	fed     []byte // everything handed to the source buffer behind the save area
	wsz     []int  // real sizes of the model tokens still in the encoder's buffer
	unc     []int  // real sizes of the model tokens in the source write area
	lent    []byte
	lentCp  []byte
	hasLent bool
	ord     int
	rng     *rand.Rand
	unfed   int
	huge    bool // the source buffer grew beyond hugeCap: the scenario ends there
}

// No history needs a source buffer of this size; a decoder that reserves it (a
// hostile prefix taken at its word) is recorded and the scenario ends, after
// maxHuge such scenarios the run stops (each costs gigabytes).
const (
	hugeCap = 1 << 28
	maxHuge = 3
)

var errStop = errors.New("stop")

func mix(x uint64) uint64 {
	x += 0x9E3779B97F4A7C15
	x = (x ^ (x >> 30)) * 0xBF58476D1CE4E5B9
	x = (x ^ (x >> 27)) * 0x94D049BB133111EB
	return x ^ (x >> 31)
}

// payload bytes are a function of (seed, ordinal of the frame, position)
func (s *scen) payload(ord, n int) []byte {
	p := make([]byte, n)
	base := mix(uint64(s.seed)*1000003 + uint64(ord)*7919)
	for j := range p {
		p[j] = byte(mix(base + uint64(j)))
	}
	return p
}

func newScen(seed int64, sid, scale int, feed string, direct bool, pre int) *scen {
	s := &scen{seed: seed*1_000_003 + int64(sid), scale: scale, feed: feed, direct: direct}
	s.rng = rand.New(rand.NewSource(s.seed))
	s.src = sonic.NewByteBuffer()
	if pre > 0 {
		s.presave = make([]byte, pre)
		for j := range s.presave {
			s.presave[j] = byte(0xA0 + j%7)
		}
		s.src.Write(s.presave)
		s.src.Commit(pre)
		s.src.Save(pre)
	}
	if direct {
		s.dst = s.src
	} else {
		s.dst = sonic.NewByteBuffer()
	}
	s.codec = frame.NewCodec(s.src)
	return s
}

// whole returns save ++ read ++ write area of b (the write area has no getter:
// it is the WriteLen() bytes behind Data() in the same backing array).
func whole(b *sonic.ByteBuffer) (saved, tail []byte, ok bool) {
	saved = b.Saved()
	data := b.Data()
	wl := b.WriteLen()
	if wl < 0 || cap(data) < len(data)+wl {
		return saved, data, false
	}
	return saved, data[: len(data)+wl : len(data)+wl], true
}

func b2i(b bool) int {
	if b {
		return 1
	}
	return 0
}

func clip(n int) int {
	if n > 1<<31-1 {
		return 1<<31 - 1
	}
	if n < -(1 << 31) {
		return -(1 << 31)
	}
	return n
}

// observe fills the source-buffer part of an event.
func (s *scen) observe(e *Ev) error {
	b := s.src
	e.S, e.R, e.W, e.Blen, e.Rsv = clip(b.SaveLen()), clip(b.ReadLen()), clip(b.WriteLen()), clip(b.Len()), clip(b.Reserved())
	saved, tail, ok := whole(b)
	if !ok {
		return fmt.Errorf("write area of the source buffer cannot be observed")
	}
	e.Sgood = b2i(bytes.Equal(saved, s.presave))
	e.Tailok = b2i(len(tail) <= len(s.fed) && bytes.Equal(tail, s.fed[len(s.fed)-len(tail):]))
	return nil
}

func blank(ev string) Ev {
	return Ev{C: "frame", Ev: ev, Pids: []int{}, Held: 1, Same: 1, Good: 1}
}

// token sizes of one encoded frame: 4 prefix bytes, then `toks` payload tokens
// that together make up n bytes (a seeded random partition, so that the split
// points inside a payload are not always multiples of the scale)
func (s *scen) tokenSizes(toks, n int) []int {
	sz := []int{1, 1, 1, 1}
	if toks == 0 {
		return sz
	}
	if s.scale == 1 || toks == 1 {
		for k := 0; k < toks; k++ {
			sz = append(sz, n/toks)
		}
		return sz
	}
	cuts := make([]int, 0, toks-1)
	for k := 1; k < toks; k++ {
		c := k*s.scale + s.rng.Intn(s.scale) - s.scale/2
		if c < 1 {
			c = 1
		}
		if c > n-1 {
			c = n - 1
		}
		cuts = append(cuts, c)
	}
	sort.Ints(cuts)
	prev := 0
	for _, c := range cuts {
		sz = append(sz, c-prev)
		prev = c
	}
	sz = append(sz, n-prev)
	return sz
}

func (s *scen) held() int {
	if !s.hasLent {
		return 1
	}
	return b2i(bytes.Equal(s.lent, s.lentCp))
}

// enc calls Encode with a payload of n real bytes (toks model tokens).
func (s *scen) enc(id, toks, n int) (e Ev, err error) {
	e = blank("Enc")
	e.A, e.Id, e.Direct = n, id, b2i(s.direct)
	var p []byte
	if n > frame.MaxPayloadLength {
		if hugePayload == nil {
			hugePayload = make([]byte, frame.MaxPayloadLength+1)
		}
		p = hugePayload[:n]
	} else {
		p = s.payload(s.ord, n)
	}
	sv0, tl0, ok := whole(s.dst)
	if !ok {
		return e, fmt.Errorf("write area of the encoder's buffer cannot be observed")
	}
	before := append(append([]byte{}, sv0...), tl0...)
	nsv := len(sv0)
	var eerr error
	func() {
		defer func() {
			if r := recover(); r != nil {
				e.Res = "panic"
			}
		}()
		eerr = s.codec.Encode(p, s.dst)
	}()
	switch {
	case e.Res == "panic":
	case eerr == nil:
		e.Res = "ok"
	case errors.Is(eerr, frame.ErrPayloadLengthOverflow):
		e.Res = "overflow"
	default:
		e.Res = "other"
	}
	if e.Res != "panic" {
		sv1, tl1, ok := whole(s.dst)
		if !ok {
			return e, fmt.Errorf("write area of the encoder's buffer cannot be observed")
		}
		after := append(append([]byte{}, sv1...), tl1...)
		e.N = clip(len(after) - len(before))
		e.Same = b2i(len(sv1) == nsv && len(after) >= len(before) && bytes.Equal(after[:len(before)], before))
		if e.Same == 1 && e.Res == "ok" {
			var h [4]byte
			binary.BigEndian.PutUint32(h[:], uint32(n))
			added := after[len(before):]
			e.Good = b2i(len(added) == 4+n && bytes.Equal(added[:4], h[:]) && bytes.Equal(added[4:], p))
			// the bytes are in the stream now, whatever the monitor thinks of them
			s.frames = append(s.frames, frec{id: id, payload: p})
			sz := s.tokenSizes(toks, n)
			if s.direct {
				s.fed = append(s.fed, added...)
				s.unc = append(s.unc, sz...)
			} else {
				s.wsz = append(s.wsz, sz...)
				s.unfed += len(added)
			}
		} else if e.Res == "ok" {
			e.Good = 0
		}
	}
	s.ord++
	err = s.observe(&e)
	return e, err
}

// raw appends a 4-byte prefix declaring `declared` (> limit) to the encoder's buffer.
func (s *scen) raw(id int, declared uint32) (Ev, error) {
	e := blank("Raw")
	e.Id, e.Direct, e.N = id, b2i(s.direct), 4
	var h [4]byte
	binary.BigEndian.PutUint32(h[:], declared)
	s.dst.Write(h[:])
	if s.direct {
		s.fed = append(s.fed, h[:]...)
		s.unc = append(s.unc, 1, 1, 1, 1)
	} else {
		s.wsz = append(s.wsz, 1, 1, 1, 1)
		s.unfed += 4
	}
	s.ord++
	err := s.observe(&e)
	return e, err
}

type chunkReader struct{ p []byte }

func (c *chunkReader) Read(b []byte) (int, error) {
	n := copy(b, c.p)
	c.p = c.p[n:]
	return n, nil
}

// feedBytes moves n bytes from the encoder's buffer into the source write area.
func (s *scen) feedBytes(n int) (Ev, error) {
	e := blank("Feed")
	s.dst.Commit(s.dst.WriteLen())
	if n > s.dst.ReadLen() {
		return e, fmt.Errorf("feed of %d bytes, encoder's buffer holds %d", n, s.dst.ReadLen())
	}
	chunk := append([]byte{}, s.dst.Data()[:n]...)
	got := n
	switch s.feed {
	case "claim":
		s.src.Reserve(n)
		s.src.Claim(func(b []byte) int { return copy(b, chunk) })
	case "readfrom":
		// as CodecConn does: no Reserve by the caller, one Read into what is there
		m, err := s.src.ReadFrom(&chunkReader{p: chunk})
		if err != nil {
			return e, err
		}
		got = int(m)
	default:
		s.src.Write(chunk)
	}
	s.dst.Consume(got)
	s.fed = append(s.fed, chunk[:got]...)
	s.unfed -= got
	e.A = got
	err := s.observe(&e)
	return e, err
}

// feedTokens hands over the next k model tokens.
func (s *scen) feedTokens(k int) (Ev, error) {
	if k > len(s.wsz) {
		k = len(s.wsz)
	}
	n := 0
	for _, z := range s.wsz[:k] {
		n += z
	}
	e, err := s.feedBytes(n)
	if err == nil && e.A == n {
		s.unc = append(s.unc, s.wsz[:k]...)
		s.wsz = s.wsz[k:]
	}
	return e, err
}

// syncUnc drops from the front of unc what has been committed meanwhile.
func (s *scen) syncUnc() {
	total := 0
	for _, z := range s.unc {
		total += z
	}
	drop := total - s.src.WriteLen()
	for drop > 0 && len(s.unc) > 0 {
		if s.unc[0] <= drop {
			drop -= s.unc[0]
			s.unc = s.unc[1:]
		} else {
			s.unc[0] -= drop
			drop = 0
		}
	}
}

func (s *scen) commitBytes(n int) (Ev, error) {
	e := blank("Commit")
	e.A = n
	s.src.Commit(n)
	s.syncUnc()
	err := s.observe(&e)
	return e, err
}

func (s *scen) commitTokens(k int) (Ev, error) {
	s.syncUnc()
	if k > len(s.unc) {
		k = len(s.unc)
	}
	n := 0
	for _, z := range s.unc[:k] {
		n += z
	}
	return s.commitBytes(n)
}

func (s *scen) dec() (Ev, error) {
	e := blank("Dec")
	e.Held = s.held()
	cap0 := s.src.Cap()
	var out []byte
	var derr error
	func() {
		defer func() {
			if r := recover(); r != nil {
				e.Res = "panic"
			}
		}()
		out, derr = s.codec.Decode(s.src)
	}()
	s.hasLent = false
	switch {
	case e.Res == "panic":
	case derr == nil:
		e.Res = "ok"
		e.Plen = clip(len(out))
		seen := map[int]bool{}
		for _, f := range s.frames {
			if !seen[f.id] && bytes.Equal(f.payload, out) {
				seen[f.id] = true
				e.Pids = append(e.Pids, f.id)
			}
		}
		sort.Ints(e.Pids)
		s.lent, s.lentCp, s.hasLent = out, append([]byte{}, out...), true
	case errors.Is(derr, sonicerrors.ErrNeedMore):
		e.Res = "needmore"
	case errors.Is(derr, frame.ErrPayloadLengthOverflow):
		e.Res = "overflow"
	default:
		e.Res = "other"
	}
	if e.Res == "panic" {
		return e, nil
	}
	e.Capg = b2i(s.src.Cap() > cap0)
	s.huge = s.src.Cap() > hugeCap
	s.syncUnc()
	err := s.observe(&e)
	return e, err
}

func (s *scen) end() (Ev, error) {
	e := blank("End")
	e.Held = s.held()
	err := s.observe(&e)
	return e, err
}

func parseMode(mode string) (scale int, feed string, direct bool, err error) {
	scale, feed = 1, "write"
	for _, kv := range strings.Split(mode, ",") {
		if kv == "" {
			continue
		}
		k, v, _ := strings.Cut(kv, "=")
		switch k {
		case "scale":
			scale, err = strconv.Atoi(v)
			if err != nil || scale < 1 {
				return 0, "", false, fmt.Errorf("bad scale %q", v)
			}
		case "feed":
			feed = v
		case "direct":
			direct = v == "1"
		case "random":
		default:
			return 0, "", false, fmt.Errorf("unknown mode %q", kv)
		}
	}
	return
}

func subset(a, b []int) bool {
	for _, x := range a {
		found := false
		for _, y := range b {
			if x == y {
				found = true
			}
		}
		if !found {
			return false
		}
	}
	return true
}

// Run replays generated behaviours (-mode scale=N,feed=write|claim,direct=0|1) or,
// with -mode random[,...], produces seeded random histories itself
// (arguments: number of scenarios, steps per scenario).
func Run(a tr.Args) error {
	if strings.HasPrefix(a.Mode, "random") {
		return runRandom(a)
	}
	scale, feed, direct, err := parseMode(a.Mode)
	if err != nil {
		return err
	}
	if feed == "readfrom" {
		return fmt.Errorf("feed=readfrom is only available in random mode")
	}
	w, err := tr.NewWriter(a.Out)
	if err != nil {
		return err
	}
	sum := tr.Summary{Component: "frame"}
	outcomes := map[string]int{}
	huge := 0
	err = tr.Behaviours(a.In, func(idx int, raw json.RawMessage) error {
		var steps []G
		if err := json.Unmarshal(raw, &steps); err != nil {
			return err
		}
		if len(steps) == 0 || steps[0].Ev != "New" {
			return fmt.Errorf("behaviour must start with New")
		}
		sid := idx + a.SidBase
		sum.Scenarios++
		s := newScen(a.Seed, sid, scale, feed, direct, steps[0].A)
		sawNeed, nontrivial := false, false
		for i, g := range steps {
			var e Ev
			var err error
			switch g.Ev {
			case "New":
				e = blank("New")
				e.A = g.A
				err = s.observe(&e)
			case "Enc":
				n := g.A * scale
				if g.A > modelOver {
					n = frame.MaxPayloadLength + 1
				}
				toks := g.A
				if g.A > modelOver {
					toks = 0
				}
				e, err = s.enc(g.Id, toks, n)
			case "Raw":
				e, err = s.raw(g.Id, 0xFFFFFFFF)
			case "Feed":
				e, err = s.feedTokens(g.A)
			case "Commit":
				e, err = s.commitTokens(g.A)
			case "Dec":
				e, err = s.dec()
			case "End":
				e, err = s.end()
			default:
				err = fmt.Errorf("unknown step %q", g.Ev)
			}
			if err != nil {
				return err
			}
			e.Sid, e.I = sid, i+1
			w.Emit(e)
			if e.Ev == "Dec" {
				outcomes[e.Res]++
				if e.Res == "needmore" {
					sawNeed = true
				}
				if e.Res == "ok" && sawNeed {
					nontrivial = true
				}
			}
			if scale == 1 && g.Ev != "New" {
				if e.Res != g.Res || e.Plen != g.Plen || e.Held != g.Held || e.S != g.S || e.R != g.R || e.W != g.W ||
					!subset(g.Pids, e.Pids) || ((g.Ev == "Feed" || g.Ev == "Commit") && e.A != g.A) {
					sum.Drift++
					if sum.FirstDrift == nil {
						sum.FirstDrift = map[string]any{"sid": sid, "i": i + 1, "predicted": g, "observed": e}
					}
				}
			}
			if e.Res == "panic" || s.huge {
				break
			}
		}
		if nontrivial {
			sum.Nontrivial++
		}
		if s.huge {
			huge++
			outcomes["huge_reserve"]++
			if huge >= maxHuge {
				outcomes["stopped_after_huge_reserve"] = 1
				return errStop
			}
		}
		return nil
	})
	if err != nil && !errors.Is(err, errStop) {
		return err
	}
	sum.Events = w.N
	sum.Notes = outcomes
	if err := w.Close(); err != nil {
		return err
	}
	sum.Print()
	return nil
}

var _ io.Reader = (*chunkReader)(nil)
