package framex

import (
	"fmt"
	"strconv"

	"verifharness/internal/tr"
)

var randLens = []int{0, 0, 1, 2, 3, 4, 5, 17, 100, 300, 504, 507, 508, 509, 512, 513, 1020, 4000, 70000}

var hostileLens = []uint32{1<<30 + 1, 1<<31 - 1, 1 << 31, 1<<31 + 1, 1<<32 - 1, 0x50000000, 0xC0DEC0DE}

// runRandom produces seeded random histories: payload lengths around the
// ByteBuffer's initial capacity (512), arbitrary chunkings, the three ways of
// handing bytes over (Write, Reserve+Claim, ReadFrom into what is reserved - the
// way CodecConn does it), caller-side commits, initial save areas (none, small,
// exactly the capacity, beyond it), encoder and decoder on one buffer, hostile
// prefixes and over-limit Encode calls.  No prediction, so no drift accounting.
func runRandom(a tr.Args) error {
	count, steps := 200, 60
	if len(a.Rest) >= 1 {
		count, _ = strconv.Atoi(a.Rest[0])
	}
	if len(a.Rest) >= 2 {
		steps, _ = strconv.Atoi(a.Rest[1])
	}
	w, err := tr.NewWriter(a.Out)
	if err != nil {
		return err
	}
	sum := tr.Summary{Component: "frame"}
	outcomes := map[string]int{}
	huge := 0
	for sid := 1 + a.SidBase; sid <= count+a.SidBase; sid++ {
		sum.Scenarios++
		pick := newScen(a.Seed*31+7, sid, 1, "write", false, 0).rng
		feed := []string{"write", "claim", "readfrom"}[pick.Intn(3)]
		direct := pick.Intn(5) == 0
		pre := []int{0, 0, 0, 3, 100, 512, 512, 600}[pick.Intn(8)]
		userCommit := pick.Intn(3) == 0
		hostile := pick.Intn(4) == 0
		maxOut := 1 + pick.Intn(4)
		small := pick.Intn(3) == 0 // only short payloads: many frames per buffer
		s := newScen(a.Seed, sid, 1, feed, direct, pre)
		rng := s.rng
		i := 0
		emit := func(e Ev, err error) error {
			if err != nil {
				return fmt.Errorf("scenario %d: %w", sid, err)
			}
			i++
			e.Sid, e.I = sid, i
			w.Emit(e)
			return nil
		}
		e := blank("New")
		e.A = pre
		oerr := s.observe(&e)
		if err := emit(e, oerr); err != nil {
			return err
		}
		out, hostiled, sawNeed, nontrivial, nid, panicked := 0, false, false, false, 0, false
		// out = frames encoded and not returned (the driver's own count, used
		// only to shape the history)
		for st := 0; st < steps; st++ {
			var ev Ev
			var err error
			switch c := rng.Intn(10); {
			case c < 3 && out < maxOut && !hostiled:
				if hostile && rng.Intn(12) == 0 {
					ev, err = s.raw(nid, hostileLens[rng.Intn(len(hostileLens))])
					hostiled = true
				} else if hostile && rng.Intn(15) == 0 {
					ev, err = s.enc(nid, 0, 1<<30+1)
					out--
				} else {
					n := randLens[rng.Intn(len(randLens))]
					if small {
						n = rng.Intn(6)
					}
					ev, err = s.enc(nid, 0, n)
				}
				nid = (nid + 1) % 8
				out++
			case c < 6 && s.unfed > 0:
				n := 1 + rng.Intn(s.unfed)
				if rng.Intn(2) == 0 && n > 7 {
					n = 1 + rng.Intn(7)
				}
				ev, err = s.feedBytes(n)
			case c < 7 && userCommit && s.src.WriteLen() > 0:
				ev, err = s.commitBytes(1 + rng.Intn(s.src.WriteLen()))
			default:
				ev, err = s.dec()
				outcomes[ev.Res]++
				if ev.Res == "needmore" {
					sawNeed = true
				}
				if ev.Res == "ok" {
					out--
					if sawNeed {
						nontrivial = true
					}
				}
			}
			if err := emit(ev, err); err != nil {
				return err
			}
			if ev.Res == "panic" || s.huge {
				panicked = true
				break
			}
		}
		if !panicked {
			ev, err := s.end()
			if err := emit(ev, err); err != nil {
				return err
			}
		}
		if nontrivial {
			sum.Nontrivial++
		}
		if s.huge {
			huge++
			outcomes["huge_reserve"]++
			if huge >= maxHuge {
				outcomes["stopped_after_huge_reserve"] = 1
				break
			}
		}
	}
	sum.Events = w.N
	sum.Notes = outcomes
	if err := w.Close(); err != nil {
		return err
	}
	sum.Print()
	return nil
}
