// Package slotseq replays generated SlotSequencer / SlotOffsetter histories
// (property C20) against the real objects on top of a real ByteBuffer,
// following the documented workflow, and records what it observes.
package slotseq

import (
	"encoding/json"
	"errors"
	"fmt"
	"strconv"

	"github.com/talostrading/sonic"

	"verifharness/internal/tr"
)

type Ev struct {
	C         string `json:"c"`
	Ev        string `json:"ev"`
	Sid       int    `json:"sid"`
	I         int    `json:"i"`
	Mode      string `json:"mode"`
	Roe       int    `json:"roe"`
	Maxslots  int    `json:"maxslots"`
	Maxbytes  int    `json:"maxbytes"`
	Seq       int    `json:"seq"`
	V         int    `json:"v"`
	N         int    `json:"n"`
	Toks      []int  `json:"toks"`
	Ok        int    `json:"ok"`
	Err       string `json:"err"`
	Idx       int    `json:"idx"`
	Len       int    `json:"len"`
	Slotbytes []int  `json:"slotbytes"`
	Ret       int    `json:"ret"`
	Panic     int    `json:"panic"`
	Saved     []int  `json:"saved"`
	Data      []int  `json:"data"`
	Wr        []int  `json:"wr"`
	Bytes     int    `json:"bytes"`
	Size      int    `json:"size"`

	PanicMsg string `json:"-"`
}

// one token = f real bytes whose values depend on (token, position)
func blockByte(t, j int) byte { return byte((t*37+j*11+j/8)%251 + 1) }

const inv37 = 95

type driver struct {
	f                  int
	b                  *sonic.ByteBuffer
	sq                 *sonic.SlotSequencer
	off                *sonic.SlotOffsetter
	handles            map[int]sonic.Slot
	roe                bool
	tail               sonic.Slot
	tailSeq            int
	tailRefused        bool
	popped             sonic.Slot
	orig               map[int]int // seq -> index at Save time
	ord                map[int]int // seq -> ordinal of its Save (save order)
	nsaved             int
	midPops            []int // ordinals of the packets popped, since the sequencer was last empty, while others were parked behind them
	mixed              bool  // ... and after one of those a packet parked in front of it was popped at the tail of the save area
	offsetUsed         bool
	oc                 map[string]int
	maxslots, maxbytes int
}

func (d *driver) bytesOf(toks []int) []byte {
	p := make([]byte, len(toks)*d.f)
	for q, t := range toks {
		for j := 0; j < d.f; j++ {
			p[q*d.f+j] = blockByte(t, j)
		}
	}
	return p
}

func (d *driver) tokens(s []byte) []int {
	r := make([]int, 0, len(s)/d.f+1)
	for off := 0; off < len(s); off += d.f {
		if off+d.f > len(s) {
			r = append(r, -1)
			break
		}
		blk := s[off : off+d.f]
		t := -1
		if blk[0] >= 2 && blk[0] <= 251 {
			t = (int(blk[0]) - 1) * inv37 % 251
			for j := range blk {
				if blk[j] != blockByte(t, j) {
					t = -1
					break
				}
			}
		}
		r = append(r, t)
	}
	return r
}

// units converts a real byte count to tokens (-7 if it is not a whole number of tokens)
func (d *driver) units(v int) int {
	if v%d.f != 0 {
		return -7
	}
	return v / d.f
}

func seqToks(base, n int) []int {
	r := make([]int, n)
	for j := range r {
		r[j] = (base+j)%250 + 1 // tokens live in 1..250 (one byte value each); larger numbers share them
	}
	return r
}

func errClass(err error) string {
	switch {
	case err == nil:
		return "nil"
	case errors.Is(err, sonic.ErrNoSpaceLeftForSlot):
		return "nospace"
	}
	return "other"
}

func (d *driver) call(g Ev, e *Ev) {
	defer func() {
		if r := recover(); r != nil {
			e.Panic = 1
			e.PanicMsg = fmt.Sprint(r)
		}
	}()
	switch g.Ev {
	case "New":
		d.b = sonic.NewByteBuffer()
		d.maxslots, d.maxbytes = g.Maxslots, g.Maxbytes
		d.roe = g.Roe == 1
		if g.Mode == "seq" {
			d.sq = sonic.NewSlotSequencer(g.Maxslots, g.Maxbytes*d.f)
		} else {
			d.off = sonic.NewSlotOffsetter(g.Maxbytes * d.f)
			d.handles = map[int]sonic.Slot{}
		}
		d.orig = map[int]int{}
		d.ord = map[int]int{}
	case "Save":
		e.Toks = seqToks(10*g.Seq+5*g.V, g.N)
		p := d.bytesOf(e.Toks)
		_, _ = d.b.Write(p)
		d.b.Commit(len(p))
		d.tail = d.b.Save(len(p))
		d.tailSeq = g.Seq
		d.tailRefused = false
		d.nsaved++
		e.Idx, e.Len = d.units(d.tail.Index), d.units(d.tail.Length)
	case "Push":
		var ok bool
		var err error
		if d.sq != nil {
			slotsFull := d.sq.Size() >= d.maxslots
			bytesFull := d.sq.Bytes()+d.tail.Length > d.maxbytes*d.f
			ok, err = d.sq.Push(d.tailSeq, d.tail)
			switch {
			case ok:
				d.oc["push_ok"]++
				if d.mixed {
					// the history a pop-order-sensitive offsetter would get wrong: see notes/C20.md
					d.oc["push_ok_after_tail_pop_in_front_of_earlier_middle_pop"]++
				}
			case err == nil:
				d.oc["push_duplicate_refused"]++
			case bytesFull && !slotsFull:
				d.oc["push_error_byte_limit_only"]++
			case slotsFull && !bytesFull:
				d.oc["push_error_slot_limit_only"]++
			case slotsFull && bytesFull:
				d.oc["push_error_both_limits"]++
			default:
				d.oc["push_error_within_both_limits"]++
			}
		} else {
			var s sonic.Slot
			s, err = d.off.Add(d.tail)
			if ok = err == nil; ok {
				d.handles[d.tailSeq] = s
			}
		}
		e.Err = errClass(err)
		d.tailRefused = !ok
		if ok {
			e.Ok = 1
			d.orig[d.tailSeq] = d.tail.Index
			d.ord[d.tailSeq] = d.nsaved
			d.tail = sonic.Slot{}
		}
	case "DropTail":
		e.Idx, e.Len = d.units(d.tail.Index), d.units(d.tail.Length)
		e.Ret = d.units(d.b.Discard(d.tail))
		d.tail = sonic.Slot{}
	case "Pop":
		var s sonic.Slot
		var ok bool
		if d.sq != nil {
			s, ok = d.sq.Pop(g.Seq)
		} else {
			h := d.handles[g.Seq]
			s, ok = d.off.Offset(h), true
			delete(d.handles, g.Seq)
			if d.roe && len(d.handles) == 0 {
				d.off.Reset()
			}
		}
		if !ok {
			d.oc["pop_absent"]++
		}
		if ok {
			e.Ok = 1
			e.Idx, e.Len, e.N = d.units(s.Index), d.units(s.Length), d.units(s.Length)
			d.popped = s
			d.oc["pop_ok"]++
			if s.Index < d.orig[g.Seq] {
				d.offsetUsed = true
				d.oc["pop_ok_at_shifted_index"]++
			}
			if d.b.ReadLen() > 0 || d.b.WriteLen() > 0 {
				d.oc["pop_ok_with_bytes_behind_save_area"]++
			}
			if d.sq != nil && d.sq.Size() == 0 {
				d.oc["pop_ok_draining"]++
				d.midPops, d.mixed = nil, false
			} else if d.sq != nil {
				if s.Index+s.Length == d.b.SaveLen() {
					d.oc["pop_ok_at_tail_not_draining"]++
					for _, o := range d.midPops {
						if o > d.ord[g.Seq] {
							d.mixed = true
						}
					}
				} else {
					d.oc["pop_ok_in_front_of_parked_not_draining"]++
					d.midPops = append(d.midPops, d.ord[g.Seq])
				}
			}
			e.Slotbytes = d.tokens(d.b.SavedSlot(s))
		}
	case "Discard":
		e.Idx, e.Len = d.units(d.popped.Index), d.units(d.popped.Length)
		e.Ret = d.units(d.b.Discard(d.popped))
		d.popped = sonic.Slot{}
	case "Live":
		e.Toks = seqToks(200, g.N)
		p := d.bytesOf(e.Toks)
		_, _ = d.b.Write(p)
		d.b.Commit(len(p))
	case "Unc":
		e.Toks = seqToks(210, g.N)
		_, _ = d.b.Write(d.bytesOf(e.Toks))
	case "Eat":
		d.b.Consume(d.b.ReadLen())
	case "Shrink":
		d.b.ShrinkBy(d.b.WriteLen())
	case "ResetAll":
		if d.sq != nil {
			d.sq.Reset()
		} else {
			d.off.Reset()
			d.handles = map[int]sonic.Slot{}
		}
		d.b.DiscardAll()
		d.tail, d.popped = sonic.Slot{}, sonic.Slot{}
		d.midPops, d.mixed = nil, false
	default:
		panic("harness: unknown step " + g.Ev)
	}
}

func (d *driver) observe(e *Ev) {
	defer func() {
		if r := recover(); r != nil {
			e.Panic = 1
			e.PanicMsg = fmt.Sprint(r)
		}
	}()
	e.Saved = d.tokens(d.b.Saved())
	data := d.b.Data()
	e.Data = d.tokens(data)
	wl := d.b.WriteLen()
	e.Wr = d.tokens(data[len(data) : len(data)+wl : len(data)+wl])
	if d.sq != nil {
		e.Bytes, e.Size = d.units(d.sq.Bytes()), d.sq.Size()
	}
}

func eq(a, b []int) bool {
	if len(a) != len(b) {
		return false
	}
	for i := range a {
		if a[i] != b[i] {
			return false
		}
	}
	return true
}

func same(g, e Ev) bool {
	return g.Ok == e.Ok && g.Err == e.Err && g.Idx == e.Idx && g.Len == e.Len && g.Ret == e.Ret &&
		g.Bytes == e.Bytes && g.Size == e.Size && eq(g.Saved, e.Saved) && eq(g.Data, e.Data) && eq(g.Wr, e.Wr) && e.Panic == 0
}

// Run replays every behaviour of `in`; mode = bytes per token (default 1).
func Run(in, out, mode string) error {
	f := 1
	if mode != "" {
		v, err := strconv.Atoi(mode)
		if err != nil || v < 1 {
			return fmt.Errorf("bad scale %q", mode)
		}
		f = v
	}
	w, err := tr.NewWriter(out)
	if err != nil {
		return err
	}
	sum := tr.Summary{Component: "slotseq"}
	oc := map[string]int{}
	err = tr.Behaviours(in, func(idx int, raw json.RawMessage) error {
		var steps []Ev
		if err := json.Unmarshal(raw, &steps); err != nil {
			return err
		}
		if len(steps) == 0 || steps[0].Ev != "New" {
			return fmt.Errorf("behaviour must start with New")
		}
		sum.Scenarios++
		d := &driver{f: f, oc: oc}
		line := 0
		dead := false
		// do issues one call, records it and reports whether the object is still usable
		do := func(g Ev, predicted *Ev) {
			e := Ev{C: "ss", Ev: g.Ev, Mode: steps[0].Mode, Roe: steps[0].Roe, Maxslots: steps[0].Maxslots,
				Maxbytes: steps[0].Maxbytes, Seq: g.Seq, V: g.V, N: g.N,
				Toks: []int{}, Slotbytes: []int{}, Saved: []int{}, Data: []int{}, Wr: []int{}}
			d.call(g, &e)
			if e.Panic == 0 {
				d.observe(&e)
			}
			line++
			e.Sid, e.I = idx, line
			w.Emit(e)
			if predicted == nil || !same(*predicted, e) {
				sum.Drift++
				if sum.FirstDrift == nil {
					sum.FirstDrift = map[string]any{"sid": idx, "i": line, "predicted": predicted, "observed": e, "panic": e.PanicMsg}
				}
			}
			if e.Panic != 0 {
				dead = true
			}
		}
		// The generated history is followed as long as the real objects take the
		// model's branches. When they do not (a Push or Pop with another result),
		// the rest is still replayed, kept inside the documented workflow: a
		// refused slot is dropped, a popped slot is discarded, steps that have
		// become impossible are skipped.
		for i := 0; i < len(steps) && !dead; i++ {
			g := steps[i]
			hasTail := d.tail.Length > 0
			hasPopped := d.popped.Length > 0
			if hasTail && d.tailRefused && g.Ev != "DropTail" {
				do(Ev{Ev: "DropTail", Seq: d.tailSeq}, nil)
				if dead {
					break
				}
				hasTail = false
			}
			if hasPopped && g.Ev != "Discard" && g.Ev != "Live" && g.Ev != "Unc" && g.Ev != "Eat" && g.Ev != "Shrink" {
				do(Ev{Ev: "Discard"}, nil)
				if dead {
					break
				}
				hasPopped = false
			}
			skip := false
			switch g.Ev {
			case "Push":
				skip = !hasTail
			case "DropTail":
				skip = !hasTail
			case "Discard":
				skip = !hasPopped
			case "Save":
				_, held := d.handles[g.Seq]
				skip = hasTail || (d.off != nil && held)
			case "Pop":
				_, held := d.handles[g.Seq]
				skip = hasTail || hasPopped || (d.off != nil && !held)
			case "Live":
				skip = hasTail
			}
			if skip {
				sum.Drift++
				continue
			}
			do(g, &g)
		}
		// non-trivial: a slot was retrieved at an index other than the one it was saved at
		if d.offsetUsed {
			sum.Nontrivial++
		}
		return nil
	})
	if err != nil {
		return err
	}
	sum.Events = w.N
	sum.Notes = map[string]any{"outcomes": oc, "bytes_per_token": f}
	if err := w.Close(); err != nil {
		return err
	}
	sum.Print()
	return nil
}
