// Package bip replays generated BipBuffer histories against the real
// sonic.BipBuffer and records what it observes.
package bip

import (
	"encoding/json"
	"fmt"

	"github.com/talostrading/sonic"

	"verifharness/internal/tr"
)

// Ev is both a generated step (ev, n used; the rest is the model's
// prediction) and a recorded observation.
type Ev struct {
	C         string `json:"c"`
	Ev        string `json:"ev"`
	Sid       int    `json:"sid"`
	I         int    `json:"i"`
	N         int    `json:"n"`
	Off       int    `json:"off"`
	Len       int    `json:"len"`
	Toks      []int  `json:"toks"`
	Committed int    `json:"committed"`
	Claimed   int    `json:"claimed"`
	Empty     int    `json:"empty"`
}

type driver struct {
	b        *sonic.BipBuffer
	size     int
	tok      byte
	last     []byte // last claimed slice
	panicked bool
}

func (d *driver) geom(s []byte) (off, ln int) {
	if len(s) == 0 {
		return -1, 0
	}
	// every slice handed out is data[a:b], so cap(s) = len(data) - a
	return d.b.Size() - cap(s), len(s)
}

func toks(s []byte) []int {
	r := make([]int, len(s))
	for i, c := range s {
		r[i] = int(c)
	}
	return r
}

func (d *driver) sample(e *Ev) {
	e.Committed = d.b.Committed()
	e.Claimed = d.b.Claimed()
	if d.b.Empty() {
		e.Empty = 1
	}
}

func (d *driver) step(g Ev) (e Ev) {
	e = Ev{C: "bip", Ev: g.Ev, N: g.N, Off: -1, Toks: []int{}}
	defer func() {
		// a call with legal (non-negative) arguments that panics is recorded; the monitor rejects it
		if r := recover(); r != nil {
			e = Ev{C: "bip", Ev: "Panic", N: g.N, Off: -1, Toks: []int{}}
			d.panicked = true
		}
	}()
	switch g.Ev {
	case "New":
		d.b = sonic.NewBipBuffer(g.N)
		d.size = g.N
		d.tok = 0
		d.last = nil
		e.Off = -1
	case "Reset":
		d.b.Reset()
		d.last = nil
	case "Claim":
		s := d.b.Claim(g.N)
		e.Off, e.Len = d.geom(s)
		for i := range s {
			d.tok++
			if d.tok > 250 {
				d.tok = 1
			}
			s[i] = d.tok
		}
		e.Toks = toks(s)
		d.last = s
	case "Commit":
		s := d.b.Commit(g.N)
		e.Off, e.Len = d.geom(s)
		e.Toks = toks(s)
	case "Head":
		s := d.b.Head()
		e.Off, e.Len = d.geom(s)
		e.Toks = toks(s)
	case "Consume":
		d.b.Consume(g.N)
	default:
		panic("unknown step " + g.Ev)
	}
	d.sample(&e)
	return e
}

func same(g, e Ev) bool {
	return g.Off == e.Off && g.Len == e.Len && g.Committed == e.Committed &&
		g.Claimed == e.Claimed && g.Empty == e.Empty
}

// Run replays every behaviour of `in` and writes the recorded trace to `out`.
func Run(in, out string) error {
	w, err := tr.NewWriter(out)
	if err != nil {
		return err
	}
	sum := tr.Summary{Component: "bip"}
	d := &driver{}
	err = tr.Behaviours(in, func(idx int, raw json.RawMessage) error {
		var steps []Ev
		if err := json.Unmarshal(raw, &steps); err != nil {
			return err
		}
		if len(steps) == 0 || steps[0].Ev != "New" {
			return fmt.Errorf("behaviour must start with New")
		}
		sum.Scenarios++
		wrapped := false
		for i, g := range steps {
			if d.panicked && g.Ev != "New" {
				break // the rest of a history whose buffer panicked is not replayed
			}
			if g.Ev == "New" {
				d.panicked = false
			}
			e := d.step(g)
			e.Sid, e.I = idx, i+1
			w.Emit(e)
			if !same(g, e) {
				sum.Drift++
				if sum.FirstDrift == nil {
					sum.FirstDrift = map[string]any{"sid": idx, "i": i + 1, "predicted": g, "observed": e}
				}
			}
			// non-trivial: the history reached the wrapped configuration
			// (live data at the end of the array and a commit placed before it)
			if e.Ev == "Commit" && e.Len > 0 && e.Committed > e.Len && e.Off == 0 {
				wrapped = true
			}
		}
		if wrapped {
			sum.Nontrivial++
		}
		return nil
	})
	if err != nil {
		return err
	}
	sum.Events = w.N
	if err := w.Close(); err != nil {
		return err
	}
	sum.Print()
	return nil
}
