// Package mirror replays generated MirroredBuffer histories against the real
// bytes.MirroredBuffer (real mmap'd double mapping) and records what it
// observes: geometry of every claim relative to the first claim on the fresh
// buffer, return values, getters, physical probes and the mapping census.
package mirror

import (
	"bufio"
	"encoding/json"
	"fmt"
	"math/rand"
	"os"
	"path/filepath"
	"runtime/debug"
	"strconv"
	"strings"
	"syscall"
	"unsafe"

	sbytes "github.com/talostrading/sonic/bytes"

	"verifharness/internal/tr"
)

// TokMod is the modulus of the token generator: the byte with stream index k
// (k-th byte committed since New/Reset) carries the value (k mod TokMod) + 1.
const TokMod = 251

// Ev is both a generated step (ev, n, page, pf used; the rest is the model's
// prediction, in model units) and a recorded observation (in bytes).
type Ev struct {
	C     string   `json:"c"`
	Ev    string   `json:"ev"`
	Sid   int      `json:"sid"`
	I     int      `json:"i"`
	N     int      `json:"n"`
	Off   int      `json:"off"`
	Len   int      `json:"len"`
	Ret   int      `json:"ret"`
	Free  int      `json:"free"`
	Used  int      `json:"used"`
	Full  int      `json:"full"`
	Size  int      `json:"size"`
	Page  int      `json:"page"`
	Pf    int      `json:"pf"`
	Mod   int      `json:"mod"`
	Alias int      `json:"alias"` // 1 mirror probe ok, 0 mismatch/fault, -1 not probed
	Cross int      `json:"cross"` // claim crosses the end of the ring
	Runs  [][3]int `json:"runs"`  // run-length projection of the ring's first copy
	Maps  [][2]int `json:"maps"`  // mappings of the backing file: [offset from base, length]
	File  int      `json:"file"`  // backing file still exists
	Fds   int      `json:"fds"`   // descriptors open on the backing file
	Pan   int      `json:"pan"`   // the call panicked
}

type driver struct {
	b     *sbytes.MirroredBuffer
	name  string
	size  int            // Size() at New
	page  int            // real page size
	scale int            // bytes per model unit
	base  unsafe.Pointer // address of the first claim on the fresh buffer
	view  []byte         // [base, base + 2*size)
	dtot  int            // sum of Commit returns since New/Reset (token index of the next commit)
	jit   *rand.Rand     // jitter mode: perturb amounts off the unit grid
	dead  bool
}

func b2i(b bool) int {
	if b {
		return 1
	}
	return 0
}

func (d *driver) sample(e *Ev) {
	e.Free = d.b.FreeSpace()
	e.Used = d.b.UsedSpace()
	e.Full = b2i(d.b.Full())
	e.Size = d.b.Size()
}

// census lists the mappings of the backing file in /proc/self/maps, whether
// the file exists and how many descriptors are open on it.
func (d *driver) census(e *Ev) error {
	e.Maps = [][2]int{}
	key := filepath.Base(d.name)
	f, err := os.Open("/proc/self/maps")
	if err != nil {
		return err
	}
	defer f.Close()
	sc := bufio.NewScanner(f)
	for sc.Scan() {
		line := sc.Text()
		if key == "" || !strings.Contains(line, key) {
			continue
		}
		rng := strings.SplitN(strings.SplitN(line, " ", 2)[0], "-", 2)
		lo, err1 := strconv.ParseUint(rng[0], 16, 64)
		hi, err2 := strconv.ParseUint(rng[1], 16, 64)
		if err1 != nil || err2 != nil {
			return fmt.Errorf("cannot parse maps line %q", line)
		}
		off := 0
		if d.base != nil {
			off = int(int64(lo) - int64(uintptr(d.base)))
		}
		e.Maps = append(e.Maps, [2]int{off, int(hi - lo)})
	}
	if err := sc.Err(); err != nil {
		return err
	}
	if _, err := os.Lstat(d.name); err == nil {
		e.File = 1
	}
	ents, err := os.ReadDir("/proc/self/fd")
	if err != nil {
		return err
	}
	for _, en := range ents {
		if t, err := os.Readlink("/proc/self/fd/" + en.Name()); err == nil && strings.Contains(t, key) {
			e.Fds++
		}
	}
	return nil
}

// sweep releases what the census found left behind (after it has been
// recorded), so that a leak does not pile up over thousands of scenarios and
// end in ENOMEM/EMFILE or quadratic /proc parsing.
func (d *driver) sweep(e *Ev) {
	if d.base != nil {
		for _, m := range e.Maps {
			_, _, _ = syscall.Syscall(syscall.SYS_MUNMAP, uintptr(d.base)+uintptr(m[0]), uintptr(m[1]), 0)
		}
	}
	if e.File == 1 {
		_ = os.Remove(d.name)
	}
	if e.Fds > 0 {
		key := filepath.Base(d.name)
		if ents, err := os.ReadDir("/proc/self/fd"); err == nil {
			for _, en := range ents {
				if t, err := os.Readlink("/proc/self/fd/" + en.Name()); err == nil && strings.Contains(t, key) {
					if fd, err := strconv.Atoi(en.Name()); err == nil {
						_ = syscall.Close(fd)
					}
				}
			}
		}
	}
}

// runs projects view[0:size) to maximal runs of successive tokens.
func (d *driver) runs() [][3]int {
	r := [][3]int{}
	v := d.view[:d.size]
	start := 0
	for i := 1; i <= len(v); i++ {
		if i < len(v) {
			p, c := v[i-1], v[i]
			if p == 0 && c == 0 {
				continue
			}
			if p >= 1 && p <= TokMod && int(c) == int(p)%TokMod+1 {
				continue
			}
		}
		r = append(r, [3]int{start, i - start, int(v[start])})
		start = i
	}
	return r
}

// probe writes the tokens into the claimed slice and checks, through the view
// anchored at the first claim, that every byte written is visible at the same
// ring position of both copies.
func (d *driver) probe(s []byte, off int, e *Ev) {
	defer func() {
		if r := recover(); r != nil {
			e.Alias = 0
			e.Runs = [][3]int{}
		}
	}()
	old := debug.SetPanicOnFault(true)
	defer debug.SetPanicOnFault(old)
	for j := range s {
		s[j] = byte((d.dtot+j)%TokMod + 1)
	}
	e.Alias = 1
	if off < 0 || off+len(s) > 2*d.size {
		// not inside the double mapping: the monitor rejects the position;
		// nothing can be probed through the view
		e.Alias = -1
	} else {
		for j := range s {
			p := (off + j) % d.size
			if d.view[p] != s[j] || d.view[p+d.size] != s[j] {
				e.Alias = 0
				break
			}
		}
	}
	e.Runs = d.runs()
}

func (d *driver) newBuf(g Ev, e *Ev) error {
	d.page = syscall.Getpagesize()
	if g.Page <= 0 || d.page%g.Page != 0 {
		return fmt.Errorf("model page %d does not divide the real page size %d", g.Page, d.page)
	}
	d.scale = d.page / g.Page
	// requested size: units -> bytes; requests off the page grid are moved
	// next to the grid at byte granularity (one byte short of / one byte over
	// a page multiple)
	req := g.N * d.scale
	switch {
	case d.scale == 1 || g.N%g.Page == 0:
	case g.N%g.Page == g.Page-1:
		req = (g.N+1)*d.scale - 1
	case g.N%g.Page == 1:
		req = (g.N-1)*d.scale + 1
	default:
		req = g.N*d.scale - d.scale/2 + 1
	}
	b, err := sbytes.NewMirroredBuffer(req, g.Pf == 1)
	if err != nil {
		return fmt.Errorf("NewMirroredBuffer(%d): %w", req, err)
	}
	d.b, d.name, d.size, d.dtot, d.dead = b, b.Name(), b.Size(), 0, false
	e.N, e.Page, e.Pf, e.Mod = req, d.page, g.Pf, TokMod
	s := b.Claim(b.Size())
	e.Len = len(s)
	if len(s) == 0 {
		d.base, d.view = nil, nil
		e.Off = -1
		d.sample(e)
		return nil
	}
	d.base = unsafe.Pointer(&s[0])
	d.view = unsafe.Slice((*byte)(d.base), 2*d.size)
	e.Off = 0
	d.sample(e)
	return d.census(e)
}

func (d *driver) amount(n int) int {
	a := n * d.scale
	if d.jit != nil {
		switch d.jit.Intn(6) {
		case 0:
			a--
		case 1:
			a++
		case 2:
			a += 1 + d.jit.Intn(d.scale)
		case 3:
			a -= 1 + d.jit.Intn(d.scale)
		case 4:
			a += d.size // a whole ring more
		}
		if a < 0 {
			a = 0
		}
	}
	return a
}

func (d *driver) step(g Ev, amt int) (e Ev, err error) {
	e = Ev{C: "mirror", Ev: g.Ev, Off: -1, Alias: -1, Runs: [][3]int{}, Maps: [][2]int{}}
	defer func() {
		if r := recover(); r != nil {
			e.Pan = 1
			if d.b != nil && !d.dead {
				func() { defer func() { _ = recover() }(); d.sample(&e) }()
			}
		}
	}()
	if g.Ev == "New" {
		err = d.newBuf(g, &e)
		return
	}
	e.Page, e.Mod = d.page, TokMod
	switch g.Ev {
	case "Claim":
		e.N = amt
		s := d.b.Claim(e.N)
		e.Len = len(s)
		if len(s) > 0 && d.base != nil {
			e.Off = int(int64(uintptr(unsafe.Pointer(&s[0]))) - int64(uintptr(d.base)))
			e.Cross = b2i(e.Off%d.size+len(s) > d.size)
			d.probe(s, e.Off, &e)
		}
	case "Commit":
		e.N = amt
		e.Ret = d.b.Commit(e.N)
		d.dtot = (d.dtot + e.Ret) % TokMod
	case "Consume":
		e.N = amt
		e.Ret = d.b.Consume(e.N)
	case "Reset":
		d.b.Reset()
		d.dtot = 0
	case "Prefault":
		d.b.Prefault()
	case "Destroy":
		if derr := d.b.Destroy(); derr != nil {
			e.Ret = 1
		}
		d.dead = true
		err = d.census(&e)
		_ = d.b.Destroy() // a second Destroy must be harmless
		d.sweep(&e)
		return
	default:
		return e, fmt.Errorf("unknown step %q", g.Ev)
	}
	d.sample(&e)
	return
}

func sameMaps(a, b [][2]int) bool {
	if len(a) != len(b) {
		return false
	}
	for i := range a {
		if a[i] != b[i] {
			return false
		}
	}
	return true
}

// same compares the model's prediction (units) with the observation (bytes).
func (d *driver) same(g, e Ev) bool {
	k := d.scale
	if g.Ev == "Destroy" {
		return true
	}
	off := g.Off
	if off >= 0 {
		off *= k
	}
	ok := off == e.Off && g.Len*k == e.Len && g.Ret*k == e.Ret && g.Free*k == e.Free &&
		g.Used*k == e.Used && g.Full == e.Full && g.Size*k == e.Size && e.Pan == 0
	if g.Ev == "New" {
		gm := make([][2]int, len(g.Maps))
		for i, m := range g.Maps {
			gm[i] = [2]int{m[0] * k, m[1] * k}
		}
		ok = ok && sameMaps(gm, e.Maps) && e.File == 0 && e.Fds == 0
	}
	if g.Ev == "Claim" {
		ok = ok && g.Cross == e.Cross
	}
	return ok
}

// Run replays every behaviour of `in` and writes the recorded trace to `out`.
// Modes (combinable, e.g. "jitter+fill"):
//   jitter  amounts are perturbed off the unit grid (seeded); the model's
//           predictions do not apply then and drift is not counted
//   ctorfail  no behaviours are read: failure points of the constructor (ctorfail.go)
//   fill    a Commit(n) that does not directly follow a Claim of at least n is
//           preceded by Claim(n), so that every committed byte carries its
//           token (Claim does not change the buffer's state, the generated
//           history stays a subsequence of what is executed)
func Run(a tr.Args) error {
	if a.Mode == "ctorfail" {
		return runCtorFail(a)
	}
	w, err := tr.NewWriter(a.Out)
	if err != nil {
		return err
	}
	sum := tr.Summary{Component: "mirror"}
	d := &driver{}
	probes, crossings, rounded, prefaulted, queued := 0, 0, 0, 0, 0
	jitter, fill := strings.Contains(a.Mode, "jitter"), strings.Contains(a.Mode, "fill")
	err = tr.Behaviours(a.In, func(idx int, raw json.RawMessage) error {
		var steps []Ev
		if err := json.Unmarshal(raw, &steps); err != nil {
			return err
		}
		if len(steps) == 0 || steps[0].Ev != "New" {
			return fmt.Errorf("behaviour must start with New")
		}
		if steps[len(steps)-1].Ev != "Destroy" {
			steps = append(steps, Ev{Ev: "Destroy"})
		}
		sum.Scenarios++
		nontrivial := false
		if jitter {
			// per-scenario generator, so that one scenario can be replayed alone
			// (-seed s+k-1 replays scenario k of a run with -seed s)
			d.jit = rand.New(rand.NewSource(a.Seed + int64(idx)))
		}
		n := 0         // events emitted in this scenario
		lastClaim := -1 // amount of the claim made by the previous step, -1 if none
		exec := func(g Ev, amt int, predicted bool) (Ev, error) {
			e, err := d.step(g, amt)
			if err != nil {
				return e, err
			}
			n++
			e.Sid, e.I = idx, n
			w.Emit(e)
			if g.Ev == "New" {
				rounded += b2i(e.N != e.Size)
				prefaulted += e.Pf
			}
			if predicted && d.jit == nil && !d.same(g, e) {
				sum.Drift++
				if sum.FirstDrift == nil {
					sum.FirstDrift = map[string]any{"sid": idx, "i": n, "scale": d.scale, "predicted": g, "observed": e}
				}
			}
			if e.Alias >= 0 {
				probes++
				queued += b2i(e.Used > 0)
			}
			// non-trivial: a claim crossing the end of the ring while
			// committed bytes are queued
			if e.Ev == "Claim" && e.Cross == 1 {
				crossings++
				if e.Used > 0 {
					nontrivial = true
				}
			}
			lastClaim = -1
			if e.Ev == "Claim" {
				lastClaim = e.N
			}
			return e, nil
		}
		for _, g := range steps {
			if g.Ev != "New" && d.dead {
				break
			}
			amt := 0
			if g.Ev == "Claim" || g.Ev == "Commit" || g.Ev == "Consume" {
				amt = d.amount(g.N)
			}
			if fill && g.Ev == "Commit" && amt > 0 && lastClaim < amt {
				// mode fill: what is committed has been claimed (and tagged) first
				if e, err := exec(Ev{Ev: "Claim"}, amt, false); err != nil {
					return err
				} else if e.Pan == 1 {
					if _, err := exec(Ev{Ev: "Destroy"}, 0, false); err != nil {
						return err
					}
					break
				}
			}
			e, err := exec(g, amt, true)
			if err != nil {
				return err
			}
			if e.Pan == 1 && g.Ev != "Destroy" {
				// the object is in an unknown state: release it and stop
				if _, err := exec(Ev{Ev: "Destroy"}, 0, false); err != nil {
					return err
				}
				break
			}
		}
		if nontrivial {
			sum.Nontrivial++
		}
		return nil
	})
	if err != nil {
		return err
	}
	sum.Events = w.N
	sum.Notes = map[string]int{"probed_claims": probes, "probed_claims_with_bytes_queued": queued, "crossing_claims": crossings,
		"rounded_sizes": rounded, "prefaulted": prefaulted}
	if err := w.Close(); err != nil {
		return err
	}
	sum.Print()
	return nil
}
