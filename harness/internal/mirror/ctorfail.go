package mirror

import (
	"bytes"
	"errors"
	"fmt"
	"os"
	"os/signal"
	"runtime"
	"runtime/debug"
	"strconv"
	"strings"
	"syscall"
	"unsafe"

	sbytes "github.com/talostrading/sonic/bytes"

	"verifharness/internal/tr"
)

// Failure points of the constructor.  The process is brought to k free slots
// below vm.max_map_count (k = 0, 1, 2, ...) by splitting a PROT_NONE region
// into single-page mappings; NewMirroredBuffer then fails in mmapAllocate
// (k = 0), in the first remap (k = 1: the MAP_FIXED mapping has to split the
// anonymous one) or succeeds.  After the filler is unmapped again, every
// mapping that was not there before and is either named after a mirrored
// buffer file or is an anonymous PROT_NONE mapping of exactly size or 2*size
// bytes is reported as left behind by the failed constructor.  Which failure
// point a given k hits depends on whether the kernel can merge the new
// anonymous mapping with a neighbour; the monitor judges what was observed.

type vma struct {
	lo, hi uint64
	perms  string
	name   string
}

func readMaps() (map[string]vma, error) {
	data, err := os.ReadFile("/proc/self/maps")
	if err != nil {
		return nil, err
	}
	res := map[string]vma{}
	for _, line := range strings.Split(string(data), "\n") {
		f := strings.Fields(line)
		if len(f) < 5 {
			continue
		}
		rng := strings.SplitN(f[0], "-", 2)
		lo, _ := strconv.ParseUint(rng[0], 16, 64)
		hi, _ := strconv.ParseUint(rng[1], 16, 64)
		name := ""
		if len(f) >= 6 {
			name = strings.Join(f[5:], " ")
		}
		res[f[0]+" "+f[1]+" "+name] = vma{lo, hi, f[1], name}
	}
	return res, nil
}

var mapsBuf = make([]byte, 1<<16)

// countVMAs counts the lines of /proc/self/maps without allocating.
func countVMAs(path *byte) int {
	fd, _, e := syscall.Syscall(syscall.SYS_OPEN, uintptr(unsafe.Pointer(path)), uintptr(syscall.O_RDONLY), 0)
	if e != 0 {
		return -1
	}
	defer syscall.Syscall(syscall.SYS_CLOSE, fd, 0, 0)
	n := 0
	for {
		r, _, e := syscall.Syscall(syscall.SYS_READ, fd, uintptr(unsafe.Pointer(&mapsBuf[0])), uintptr(len(mapsBuf)))
		if e != 0 || r == 0 {
			break
		}
		n += bytes.Count(mapsBuf[:r], []byte{'\n'})
	}
	return n
}

func countFds() int {
	ents, err := os.ReadDir("/proc/self/fd")
	if err != nil {
		return -1
	}
	return len(ents)
}

func runCtorFail(a tr.Args) error {
	w, err := tr.NewWriter(a.Out)
	if err != nil {
		return err
	}
	sum := tr.Summary{Component: "mirror"}
	lim := 0
	if b, err := os.ReadFile("/proc/sys/vm/max_map_count"); err == nil {
		lim, _ = strconv.Atoi(strings.TrimSpace(string(b)))
	}
	if lim <= 0 || lim > 1<<20 {
		return fmt.Errorf("vm.max_map_count = %d: probe not usable", lim)
	}
	page := syscall.Getpagesize()
	runtime.LockOSThread()
	// While the process sits at the limit the Go runtime itself must not need a
	// new mapping (growing the heap would split a reservation and abort the
	// process).  So: everything lazy is initialised by one ordinary
	// constructor call, the heap is grown once and emptied again, and the
	// collector is switched off for the duration.
	if wb, werr := sbytes.NewMirroredBuffer(page, false); werr == nil {
		_ = wb.Destroy()
	}
	warm := make([]byte, 64<<20)
	for i := 0; i < len(warm); i += 4096 {
		warm[i] = 1
	}
	warm = nil
	runtime.GC()
	old := debug.SetGCPercent(-1)
	defer debug.SetGCPercent(old)
	mapsPath := append([]byte("/proc/self/maps"), 0)
	failed, succeeded := 0, 0
	sid := 0
	for _, pages := range []int{3, 1} {
		for k := 0; k <= 4; k++ {
			for _, pf := range []bool{false, true} {
				sid++
				size := pages * page
				before, err := readMaps()
				if err != nil {
					return err
				}
				fdsBefore := countFds()
				// filler: region of 2*lim pages, every even page made readable one by one
				regLen := 2 * lim * page
				reg, _, e := syscall.Syscall6(syscall.SYS_MMAP, 0, uintptr(regLen), uintptr(syscall.PROT_NONE),
					uintptr(syscall.MAP_PRIVATE|syscall.MAP_ANONYMOUS|syscall.MAP_NORESERVE), ^uintptr(0), 0)
				if e != 0 {
					return fmt.Errorf("filler mmap: %v", e)
				}
				// the first page readable: +1 mapping, and nothing allocated below merges with the region
				syscall.Syscall(syscall.SYS_MPROTECT, reg, uintptr(page), uintptr(syscall.PROT_READ))
				c := countVMAs(&mapsPath[0])
				target := lim - k
				next := 2 // next even page to flip: each flip adds two mappings
				for c < target-9 && next < 2*lim-2 {
					syscall.Syscall(syscall.SYS_MPROTECT, reg+uintptr(next*page), uintptr(page), uintptr(syscall.PROT_READ))
					next += 2
					c += 2
				}
				// the last steps with the real count
				for c = countVMAs(&mapsPath[0]); c <= target-2 && next < 2*lim-2; c = countVMAs(&mapsPath[0]) {
					syscall.Syscall(syscall.SYS_MPROTECT, reg+uintptr(next*page), uintptr(page), uintptr(syscall.PROT_READ))
					next += 2
				}
				if c == target-1 { // one more: the last page of the region
					syscall.Syscall(syscall.SYS_MPROTECT, reg+uintptr(regLen-page), uintptr(page), uintptr(syscall.PROT_READ))
					c = countVMAs(&mapsPath[0])
				}
				b, cerr := sbytes.NewMirroredBuffer(size, pf)
				atLimit := c
				syscall.Syscall(syscall.SYS_MUNMAP, reg, uintptr(regLen), 0)
				e2 := Ev{C: "mirror", Ev: "NewFail", Sid: sid, I: 1, N: size, Off: -1, Alias: -1, Page: page, Mod: TokMod,
					Pf: b2i(pf), Runs: [][3]int{}, Maps: [][2]int{}}
				if cerr == nil {
					succeeded++
					e2.Size = b.Size()
					_ = b.Destroy()
				} else {
					failed++
					e2.Ret = 1
				}
				after, err := readMaps()
				if err != nil {
					return err
				}
				for key, v := range after {
					if _, ok := before[key]; ok {
						continue
					}
					named := strings.Contains(v.name, "sonic-mirrored-buffer")
					// anonymous leftovers are only attributed for buffers of >= 3 pages: a
					// one-page PROT_NONE mapping could as well be a thread's guard page
					anon := v.name == "" && v.perms == "---p" && pages >= 3 &&
						(int(v.hi-v.lo) == 2*size || int(v.hi-v.lo) == size)
					if named || anon {
						e2.Maps = append(e2.Maps, [2]int{b2i(named), int(v.hi - v.lo)})
						// release it, so that the next round starts clean
						syscall.Syscall(syscall.SYS_MUNMAP, uintptr(v.lo), uintptr(v.hi-v.lo), 0)
					}
				}
				if d := countFds() - fdsBefore; d > 0 {
					e2.Fds = d
				}
				e2.Len = lim - atLimit // free slots below vm.max_map_count when the constructor was called
				w.Emit(e2)
				sum.Scenarios++
				if cerr != nil {
					sum.Nontrivial++
				}
			}
		}
	}
	// Another failure point: the backing file cannot be brought to its size (file size limit below the
	// buffer size: ftruncate fails with EFBIG). The limit is process-wide, so it is lowered only around the
	// constructor call (the trace file is written afterwards).
	signal.Ignore(syscall.SIGXFSZ)
	truncFailed := 0
	for _, pages := range []int{4, 1} {
		for _, pf := range []bool{false, true} {
			sid++
			size := pages * page
			before, err := readMaps()
			if err != nil {
				return err
			}
			fdsBefore := countFds()
			var oldLim syscall.Rlimit
			if err := syscall.Getrlimit(syscall.RLIMIT_FSIZE, &oldLim); err != nil {
				return err
			}
			if err := syscall.Setrlimit(syscall.RLIMIT_FSIZE, &syscall.Rlimit{Cur: uint64(page / 2), Max: oldLim.Max}); err != nil {
				return err
			}
			b, cerr := sbytes.NewMirroredBuffer(size, pf)
			_ = syscall.Setrlimit(syscall.RLIMIT_FSIZE, &oldLim)
			e2 := Ev{C: "mirror", Ev: "NewFail", Sid: sid, I: 1, N: size, Off: -1, Alias: -1, Page: page, Mod: TokMod,
				Pf: b2i(pf), Runs: [][3]int{}, Maps: [][2]int{}, Len: -1}
			if cerr == nil {
				succeeded++
				e2.Size = b.Size()
				_ = b.Destroy()
			} else {
				failed++
				truncFailed++
				e2.Ret = 1
				// the error names the backing file: it must be gone
				var pe *os.PathError
				if errors.As(cerr, &pe) && strings.Contains(pe.Path, "sonic-mirrored-buffer") {
					if _, serr := os.Stat(pe.Path); serr == nil {
						e2.File = 1
						_ = os.Remove(pe.Path)
					}
				}
			}
			after, err := readMaps()
			if err != nil {
				return err
			}
			for key, v := range after {
				if _, ok := before[key]; ok {
					continue
				}
				if strings.Contains(v.name, "sonic-mirrored-buffer") {
					e2.Maps = append(e2.Maps, [2]int{1, int(v.hi - v.lo)})
					syscall.Syscall(syscall.SYS_MUNMAP, uintptr(v.lo), uintptr(v.hi-v.lo), 0)
				}
			}
			if d := countFds() - fdsBefore; d > 0 {
				e2.Fds = d
			}
			w.Emit(e2)
			sum.Scenarios++
			if cerr != nil {
				sum.Nontrivial++
			}
		}
	}
	sum.Events = w.N
	sum.Notes = map[string]int{"constructor_failed": failed, "constructor_succeeded": succeeded, "max_map_count": lim,
		"constructor_failed_at_truncate": truncFailed}
	if err := w.Close(); err != nil {
		return err
	}
	sum.Print()
	return nil
}
