package codecconn

import (
	"bufio"
	"bytes"
	"encoding/binary"
	"encoding/json"
	"fmt"
	"math/rand"
	"os"
	"os/exec"
	"strconv"
	"strings"
	"syscall"

	"golang.org/x/sys/unix"

	"github.com/talostrading/sonic"
	"github.com/talostrading/sonic/codec/frame"

	"verifharness/internal/tr"
)

// runDec feeds hostile prefixes, well-formed frames and random garbage to
// frame.Codec.Decode directly, in seeded random pieces, and logs one Dec event
// per Decode call together with what an independent reading of the same bytes
// (4-byte big-endian length, then the payload) says about them. Panics are
// recovered and logged.
// limitAddressSpace caps RLIMIT_AS at the current size plus extra bytes.
func limitAddressSpace(extra uint64) {
	var rl syscall.Rlimit
	if b, err := os.ReadFile("/proc/self/statm"); err == nil {
		var pages uint64
		fmt.Sscan(string(b), &pages)
		rl.Cur = pages*uint64(os.Getpagesize()) + extra
		rl.Max = rl.Cur
		_ = syscall.Setrlimit(unix.RLIMIT_AS, &rl)
	}
}

// decChild runs the cases from..count and prints one line per event on stdout:
// "E <json>" for an event, "P <json>" before every Decode call (the event to
// record, with err = panic, should the process not survive the call), "N" for
// a non-trivial case. Its address space is limited, so that a decoder that
// tries to buffer a hostile declared length (gigabytes) kills this process
// and not the machine.
func decChild(seed int64, from, count int) {
	limitAddressSpace(1500 << 20)
	out := bufio.NewWriter(os.Stdout)
	line := func(tag string, e Ev) {
		b, _ := json.Marshal(e)
		out.WriteString(tag + " ")
		out.Write(b)
		out.WriteString("\n")
		out.Flush()
	}
	const limit = frame.MaxPayloadLength
	i := 0
	emit := func(sid int, e Ev) {
		i++
		e.C, e.Sid, e.I, e.Ctx, e.Exact = "cc", sid, i, "top", 1
		line("E", e)
	}
	for sid := from; sid <= count; sid++ {
		rng := rand.New(rand.NewSource(seed*7919 + 17 + int64(sid)*104729))
		i = 0
		emit(sid, Ev{Ev: "Reset"})
		src := sonic.NewByteBuffer()
		codec := frame.NewCodec(src)
		// the byte string of this case
		var data []byte
		nfr := 1 + rng.Intn(3)
		hostile := false
		for f := 0; f < nfr && !hostile; f++ {
			var h [4]byte
			switch c := rng.Intn(10); {
			case c < 5: // well-formed frame, sometimes truncated by the feeding below
				n := []int{0, 1, 2, 3, 5, 17, 300, 508, 509, 512, 513, 4000}[rng.Intn(12)]
				binary.BigEndian.PutUint32(h[:], uint32(n))
				p := make([]byte, n)
				rng.Read(p)
				data = append(append(data, h[:]...), p...)
			case c < 9: // declared length above the limit
				var decl uint32
				switch rng.Intn(6) {
				case 0:
					decl = limit + 1
				case 1:
					decl = 1 << 31
				case 2:
					decl = 0xFFFFFFFF
				case 3:
					decl = 0x7FFFFFFF
				case 4:
					decl = 0x80000001
				default:
					decl = uint32(limit+1) + uint32(rng.Int63n(int64(0xFFFFFFFF-limit-1)))
				}
				binary.BigEndian.PutUint32(h[:], decl)
				data = append(data, h[:]...)
				g := make([]byte, rng.Intn(9))
				rng.Read(g)
				data = append(data, g...)
				hostile = true
			default: // garbage whose prefix is either small or above the limit
				g := make([]byte, 1+rng.Intn(40))
				rng.Read(g)
				if len(g) >= 4 {
					if rng.Intn(2) == 0 {
						g[0], g[1] = 0, 0 // declared < 65536
					} else {
						g[0] |= 0x41 // declared > 2^30
					}
				}
				data = append(data, g...)
				hostile = true
			}
		}
		// feed it in pieces, Decode after each piece and once more at the end
		var pending []byte // fed, not yet consumed by a successful Decode
		fed := 0
		nontrivial := false
		for step := 0; ; step++ {
			if fed < len(data) {
				k := 1 + rng.Intn(len(data)-fed)
				if rng.Intn(3) == 0 {
					k = len(data) - fed
				}
				_, _ = src.Write(data[fed : fed+k])
				pending = append(pending, data[fed:fed+k]...)
				fed += k
			}
			for rep := 0; rep < 2; rep++ {
				e := Ev{Ev: "Dec", Ok: 1}
				switch {
				case len(pending) < 4:
					e.Kind, e.Have = "short", len(pending)
				default:
					decl := binary.BigEndian.Uint32(pending[:4])
					e.Have = len(pending) - 4
					if decl > limit {
						e.Kind = "over"
					} else {
						e.Kind, e.Len = "ok", int(decl)
					}
				}
				cap0 := src.Cap()
				var item []byte
				var err error
				pe := e
				pe.Err = "panic"
				pe.C, pe.Sid, pe.I, pe.Ctx, pe.Exact = "cc", sid, i+1, "top", 1
				line("P", pe)
				func() {
					defer func() {
						if r := recover(); r != nil {
							e.Err = "panic"
						}
					}()
					item, err = codec.Decode(src)
				}()
				if e.Err != "panic" {
					e.Err = errClass(err)
				}
				if src.Cap() > cap0 {
					e.Capgrew = 1
				}
				if e.Err == "nil" {
					e.N = len(item)
					if e.Kind == "ok" && len(pending) >= 4+len(item) && bytes.Equal(item, pending[4:4+len(item)]) {
						pending = pending[4+len(item):]
					} else {
						e.Ok = 0
					}
					if fed > 4 && step > 0 {
						nontrivial = true
					}
				}
				if e.Kind == "over" {
					nontrivial = true
				}
				emit(sid, e)
				if e.Err != "nil" {
					break
				}
			}
			if fed >= len(data) && step > len(data)+2 {
				break
			}
			if fed >= len(data) {
				// drain what can still be decoded, then stop
				if len(pending) < 4 {
					break
				}
				decl := binary.BigEndian.Uint32(pending[:4])
				if decl > limit || len(pending)-4 < int(decl) {
					break
				}
			}
		}
		if nontrivial {
			out.WriteString("N\n")
		}
		out.WriteString("D\n")
		out.Flush()
	}
}

// runDec drives decChild processes and turns their output into the trace; a
// child that dies inside a Decode call is recorded as a panic on that input
// and the run continues with the next case.
func runDec(w *tr.Writer, sum *tr.Summary, seed int64, count int) error {
	from := 1
	for restarts := 0; from <= count; restarts++ {
		if restarts > count+5 {
			return fmt.Errorf("decoder child died %d times", restarts)
		}
		cmd := exec.Command(os.Args[0], "codecconn", "-seed", strconv.FormatInt(seed, 10),
			"-mode", fmt.Sprintf("kind=decchild,from=%d,count=%d", from, count))
		cmd.Stderr = nil
		pipe, err := cmd.StdoutPipe()
		if err != nil {
			return err
		}
		if err := cmd.Start(); err != nil {
			return err
		}
		sc := bufio.NewScanner(pipe)
		sc.Buffer(make([]byte, 1<<20), 1<<26)
		var pending *Ev
		cur := from
		for sc.Scan() {
			ln := sc.Text()
			switch {
			case strings.HasPrefix(ln, "E "):
				var e Ev
				if json.Unmarshal([]byte(ln[2:]), &e) == nil {
					w.Emit(e)
					cur = e.Sid
					pending = nil
				}
			case strings.HasPrefix(ln, "P "):
				var e Ev
				if json.Unmarshal([]byte(ln[2:]), &e) == nil {
					pending = &e
				}
			case ln == "N":
				sum.Nontrivial++
			case ln == "D":
				sum.Scenarios++
				from = cur + 1
			}
		}
		werr := cmd.Wait()
		if werr == nil {
			break
		}
		if pending == nil {
			return fmt.Errorf("decoder child failed outside Decode: %v", werr)
		}
		w.Emit(*pending) // the process did not survive Decode on this input
		sum.Scenarios++
		sum.Nontrivial++
		from = pending.Sid + 1
	}
	return nil
}
