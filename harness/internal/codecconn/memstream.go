package codecconn

import (
	"io"

	"github.com/talostrading/sonic"
	"github.com/talostrading/sonic/sonicerrors"
)

// memStream is a scripted in-memory sonic.Stream. It behaves like a
// non-blocking descriptor behind file.go: reads take what is there, writes
// take what fits into the window, both report ErrWouldBlock; asynchronous
// calls complete inline when they can and are parked otherwise until the
// driver calls Poll (read handler first, then write handler, as one PollOne).
type memStream struct {
	rx    []byte // sent by the peer, not read yet
	rxEOF bool
	tx    []byte // written by the object, not taken by the peer yet
	txCap int

	rpark *memRead
	wpark *memWrite
}

type memRead struct {
	b   []byte
	all bool
	sf  int
	cb  sonic.AsyncCallback
}

type memWrite struct {
	b   []byte
	all bool
	sf  int
	cb  sonic.AsyncCallback
}

var _ sonic.Stream = &memStream{}

func (m *memStream) RawFd() int   { return -1 }
func (m *memStream) Close() error { return nil }

func (m *memStream) Read(b []byte) (int, error) {
	if len(b) == 0 { // read(2) of nothing returns 0, which file.Read reports as EOF
		return 0, io.EOF
	}
	if len(m.rx) == 0 {
		if m.rxEOF {
			return 0, io.EOF
		}
		return 0, sonicerrors.ErrWouldBlock
	}
	n := copy(b, m.rx)
	m.rx = m.rx[n:]
	return n, nil
}

func (m *memStream) Write(b []byte) (int, error) {
	if len(b) == 0 {
		return 0, io.EOF
	}
	space := m.txCap - len(m.tx)
	if space <= 0 {
		return 0, sonicerrors.ErrWouldBlock
	}
	n := len(b)
	if n > space {
		n = space
	}
	m.tx = append(m.tx, b[:n]...)
	return n, nil
}

func (m *memStream) readNow(p *memRead) {
	for {
		n, err := m.Read(p.b[p.sf:])
		p.sf += n
		if err == sonicerrors.ErrWouldBlock {
			m.rpark = p
			return
		}
		if err != nil || !p.all || p.sf == len(p.b) {
			p.cb(err, p.sf)
			return
		}
	}
}

func (m *memStream) writeNow(p *memWrite) {
	for {
		n, err := m.Write(p.b[p.sf:])
		p.sf += n
		if err == sonicerrors.ErrWouldBlock {
			m.wpark = p
			return
		}
		if err != nil || !p.all || p.sf == len(p.b) {
			p.cb(err, p.sf)
			return
		}
	}
}

func (m *memStream) AsyncRead(b []byte, cb sonic.AsyncCallback) {
	m.readNow(&memRead{b: b, cb: cb})
}
func (m *memStream) AsyncReadAll(b []byte, cb sonic.AsyncCallback) {
	m.readNow(&memRead{b: b, all: true, cb: cb})
}
func (m *memStream) AsyncWrite(b []byte, cb sonic.AsyncCallback) {
	m.writeNow(&memWrite{b: b, cb: cb})
}
func (m *memStream) AsyncWriteAll(b []byte, cb sonic.AsyncCallback) {
	m.writeNow(&memWrite{b: b, all: true, cb: cb})
}

func (m *memStream) Cancel() {
	if p := m.rpark; p != nil {
		m.rpark = nil
		p.cb(sonicerrors.ErrCancelled, p.sf)
	}
	if p := m.wpark; p != nil {
		m.wpark = nil
		p.cb(sonicerrors.ErrCancelled, p.sf)
	}
}

// Poll dispatches the parked operations that are ready, like one PollOne.
func (m *memStream) Poll() int {
	n := 0
	wready := m.wpark != nil && m.txCap-len(m.tx) > 0
	if p := m.rpark; p != nil && (len(m.rx) > 0 || m.rxEOF) {
		m.rpark = nil
		n++
		m.readNow(p)
	}
	if p := m.wpark; p != nil && wready {
		m.wpark = nil
		n++
		m.writeNow(p)
	}
	return n
}
