// Package codecconn replays generated CodecConn behaviours (C19) against the
// real sonic.CodecConn[[]byte, []byte] with frame.NewCodec, over a scripted
// in-memory sonic.Stream ("mem"), over a TCP conn obtained with sonic.Dial
// ("dial") or accepted through sonic.Listen ("acc") with a raw peer, and
// feeds hostile / random bytes to frame.Codec.Decode directly ("dec").
package codecconn

import (
	"bytes"
	"encoding/binary"
	"encoding/json"
	"errors"
	"fmt"
	"math/rand"
	"strconv"
	"strings"
	"syscall"
	"time"

	"golang.org/x/sys/unix"

	"github.com/talostrading/sonic"
	"github.com/talostrading/sonic/codec/frame"
	"github.com/talostrading/sonic/sonicerrors"
	"github.com/talostrading/sonic/sonicopts"

	"verifharness/internal/rawpeer"
	"verifharness/internal/tr"
)

// Ev is both a predicted step of a generated behaviour and a recorded event.
type Ev struct {
	C       string `json:"c"`
	Ev      string `json:"ev"`
	Sid     int    `json:"sid"`
	I       int    `json:"i"`
	Api     string `json:"api"`
	Kind    string `json:"kind"`
	Id      int    `json:"id"`
	Len     int    `json:"len"`
	Size    int    `json:"size"`
	N       int    `json:"n"`
	Lo      int    `json:"lo"`
	Ok      int    `json:"ok"`
	Err     string `json:"err"`
	Dstlen  int    `json:"dstlen"`
	Capgrew int    `json:"capgrew"`
	Exact   int    `json:"exact"`
	Have    int    `json:"have"`
	Ctx     string `json:"ctx"`
}

func errClass(err error) string {
	if errors.Is(err, frame.ErrPayloadLengthOverflow) {
		return "toobig"
	}
	return rawpeer.ErrClass(err)
}

type config struct {
	kind   string
	scale  int
	exact  bool
	kbuf   int
	seed   int64
	lraw   *rawpeer.Listener
	budget time.Duration
}

// entry of a length-prefixed stream, in model units and in real bytes
type entry struct {
	hostile bool
	mlen    int // payload tokens (model)
	mstart  int // model offset of the prefix
	rlen    int // payload bytes
	rstart  int // real offset of the prefix
	rsize   int // real bytes of the whole entry
}

// stream maps model offsets to real offsets
type stream struct {
	ents   []entry
	mq, rq int
	jit    []int // per entry jitter for payload-internal split points
}

func (st *stream) add(hostile bool, mlen, rlen, msize, rsize, jitter int) {
	st.ents = append(st.ents, entry{hostile: hostile, mlen: mlen, mstart: st.mq, rlen: rlen, rstart: st.rq, rsize: rsize})
	st.jit = append(st.jit, jitter)
	st.mq += msize
	st.rq += rsize
}

// real offset of model offset m (m <= mq)
func (st *stream) real(m, scale int) int {
	for i, e := range st.ents {
		mend := e.mstart + 4 + e.mlen
		if e.hostile {
			mend = e.mstart + 5
		}
		if m > mend {
			continue
		}
		off := m - e.mstart
		if off <= 4 || e.hostile {
			return e.rstart + off
		}
		t := off - 4 // payload tokens
		r := e.rstart + 4 + t*scale
		if t < e.mlen && scale > 1 {
			r -= st.jit[i] % scale
		}
		return r
	}
	return st.rq
}

type scen struct {
	cfg config
	sid int
	i   int
	out []Ev
	obs []Ev
	rng *rand.Rand

	ioc  *sonic.IO
	mem  *memStream
	conn sonic.Conn
	peer int
	cc   *sonic.CodecConn[[]byte, []byte]
	src  *sonic.ByteBuffer
	dst  *sonic.ByteBuffer

	// read direction
	rst     stream
	rbytes  []byte // everything the peer will send
	rsentM  int    // model offset sent
	rsentR  int    // real offset sent
	rnext   int    // entries returned so far
	backlog bool
	rbusy   bool
	// write direction
	wst    stream
	wire   []byte
	nw     int
	pgot   int
	pgotM  int
	wbusy  bool
	phase  string
	err    error
	dbuf   []byte
}

func (s *scen) emit(e Ev) {
	e.C, e.Sid = "cc", s.sid
	s.i++
	e.I = s.i
	if s.cfg.exact || s.cfg.kind == "mem" {
		e.Exact = 1
	}
	if e.Ctx == "" {
		e.Ctx = "top"
	}
	s.out = append(s.out, e)
	if s.phase == "script" && e.Ev != "Note" && e.Ev != "Reset" {
		s.obs = append(s.obs, e)
	}
}

func (s *scen) fail(format string, a ...any) {
	if s.err == nil {
		s.err = fmt.Errorf(format, a...)
	}
}

func itemGen(id int) rawpeer.Gen  { return rawpeer.Gen{Salt: 7 + 13*id} }
func writeGen(id int) rawpeer.Gen { return rawpeer.Gen{Salt: 101 + 17*id} }

func (s *scen) build(txcap int) error {
	s.src, s.dst = sonic.NewByteBuffer(), sonic.NewByteBuffer()
	var st sonic.Stream
	var err error
	switch s.cfg.kind {
	case "mem":
		s.mem = &memStream{txCap: txcap * s.cfg.scale}
		st = s.mem
	case "dial":
		if s.ioc, err = sonic.NewIO(); err != nil {
			return err
		}
		c, err := sonic.Dial(s.ioc, "tcp", s.cfg.lraw.Addr())
		if err != nil {
			return fmt.Errorf("sonic.Dial: %w", err)
		}
		s.conn = c
		if s.peer, err = s.cfg.lraw.Accept(); err != nil {
			return err
		}
		st = c
	case "acc":
		if s.ioc, err = sonic.NewIO(); err != nil {
			return err
		}
		ln, err := sonic.Listen(s.ioc, "tcp", "127.0.0.1:0", sonicopts.Nonblocking(true))
		if err != nil {
			return fmt.Errorf("sonic.Listen: %w", err)
		}
		port, err := rawpeer.PortOf(ln.RawFd())
		if err != nil {
			return err
		}
		if s.peer, err = rawpeer.Connect(port); err != nil {
			return err
		}
		var got sonic.Conn
		var aerr error
		called := false
		ln.AsyncAccept(func(err error, c sonic.Conn) { got, aerr, called = c, err, true })
		for k := 0; k < 200 && !called; k++ {
			_ = s.ioc.RunOneFor(10 * time.Millisecond)
		}
		_ = ln.Close()
		if !called || aerr != nil || got == nil {
			return fmt.Errorf("AsyncAccept: called=%v err=%v", called, aerr)
		}
		s.conn = got
		st = got
	default:
		return fmt.Errorf("unknown kind %q", s.cfg.kind)
	}
	if s.conn != nil {
		rawpeer.NoDelay(s.conn.RawFd())
		if !s.cfg.exact {
			rawpeer.SmallBuffers(s.conn.RawFd(), s.cfg.kbuf)
			rawpeer.SmallBuffers(s.peer, s.cfg.kbuf)
		}
	}
	s.cc, err = sonic.NewCodecConn[[]byte, []byte](st, frame.NewCodec(s.src), s.src, s.dst)
	return err
}

func (s *scen) teardown() {
	if s.conn != nil {
		_ = s.conn.Close()
	}
	if s.peer >= 0 {
		_ = syscall.Close(s.peer)
	}
	if s.ioc != nil {
		_ = s.ioc.Close()
	}
}

// ---- peer side -----------------------------------------------------------

func (s *scen) pitem(st *Ev) {
	id := len(s.rst.ents) + 1
	if st.Kind == "hostile" {
		// declared length above the limit: limit+1, just negative as int32, all ones, random
		var decl uint32
		switch s.rng.Intn(5) {
		case 0:
			decl = frame.MaxPayloadLength + 1
		case 1:
			decl = 1 << 31
		case 2:
			decl = 0xFFFFFFFF
		case 3:
			decl = 0x7FFFFFFF
		default:
			decl = uint32(frame.MaxPayloadLength+1) + uint32(s.rng.Int63n(int64(0xFFFFFFFF-frame.MaxPayloadLength-1)))
		}
		var b [5]byte
		binary.BigEndian.PutUint32(b[:4], decl)
		b[4] = byte(1 + s.rng.Intn(255))
		s.rbytes = append(s.rbytes, b[:]...)
		s.rst.add(true, 0, 0, 5, 5, 0)
		s.emit(Ev{Ev: "PItem", Kind: "hostile", Id: id, Size: 5})
		return
	}
	rlen := st.Len * s.cfg.scale
	var h [4]byte
	binary.BigEndian.PutUint32(h[:], uint32(rlen))
	s.rbytes = append(s.rbytes, h[:]...)
	p := make([]byte, rlen)
	itemGen(id).Fill(p, 0)
	s.rbytes = append(s.rbytes, p...)
	s.rst.add(false, st.Len, rlen, 4+st.Len, 4+rlen, s.rng.Intn(1<<20))
	s.emit(Ev{Ev: "PItem", Kind: "item", Id: id, Len: rlen, Size: 4 + rlen})
}

// push sends the bytes of the read-direction stream up to real offset `to`
func (s *scen) push(to int) {
	if to <= s.rsentR {
		return
	}
	chunk := s.rbytes[s.rsentR:to]
	if s.mem != nil {
		s.mem.rx = append(s.mem.rx, chunk...)
		s.emit(Ev{Ev: "PSend", N: len(chunk), Lo: s.rsentR, Ok: 1})
		s.rsentR = to
		return
	}
	before := rawpeer.Inq(s.conn.RawFd())
	n, err := rawpeer.WriteSome(s.peer, chunk)
	if err != nil {
		s.fail("peer write: %v", err)
		return
	}
	if n > 0 {
		s.emit(Ev{Ev: "PSend", N: n, Lo: s.rsentR, Ok: 1})
		s.rsentR += n
	}
	if s.cfg.exact {
		if n != len(chunk) {
			s.fail("peer write short: %d of %d", n, len(chunk))
			return
		}
		if !rawpeer.WaitInq(s.conn.RawFd(), before+n, s.cfg.budget) {
			s.fail("segment not delivered: FIONREAD=%d want %d", rawpeer.Inq(s.conn.RawFd()), before+n)
		}
	} else {
		rawpeer.WaitFd(s.conn.RawFd(), unix.POLLIN, 5)
	}
}

func (s *scen) psend(k int) {
	s.rsentM += k
	s.push(s.rst.real(s.rsentM, s.cfg.scale))
}

func (s *scen) shutWr() {
	s.push(s.rst.real(s.rsentM, s.cfg.scale))
	if s.mem != nil {
		s.mem.rxEOF = true
		s.emit(Ev{Ev: "ShutWr"})
		return
	}
	if s.rsentR < s.rst.real(s.rsentM, s.cfg.scale) {
		return // scaled: the kernel has not taken everything; no FIN in this scenario
	}
	_ = syscall.Shutdown(s.peer, syscall.SHUT_WR)
	s.emit(Ev{Ev: "ShutWr"})
	if !s.cfg.exact {
		return
	}
	deadline := time.Now().Add(s.cfg.budget)
	for rawpeer.PollFd(s.conn.RawFd(), unix.POLLIN|unix.POLLRDHUP, 5)&unix.POLLRDHUP == 0 {
		if time.Now().After(deadline) {
			s.fail("FIN not delivered")
			return
		}
	}
}

// drain: the peer takes up to want bytes of what the object wrote
func (s *scen) drain(want int, wait time.Duration) int {
	if want <= 0 {
		return 0
	}
	var got []byte
	if s.mem != nil {
		n := want
		if n > len(s.mem.tx) {
			n = len(s.mem.tx)
		}
		got = append(got, s.mem.tx[:n]...)
		s.mem.tx = s.mem.tx[n:]
	} else {
		if want > len(s.dbuf) {
			if want > 1<<18 && wait == 0 {
				want = 1 << 18
			}
			if want > len(s.dbuf) {
				s.dbuf = make([]byte, want)
			}
		}
		buf := s.dbuf[:want]
		n := 0
		deadline := time.Now().Add(wait)
		for n < want {
			k, eof, err := rawpeer.ReadSome(s.peer, buf[n:])
			n += k
			if err != nil || eof || n >= want {
				break
			}
			left := time.Until(deadline)
			if left <= 0 {
				break
			}
			ms := int(left / time.Millisecond)
			if ms < 1 {
				ms = 1
			}
			if k == 0 && !rawpeer.WaitFd(s.peer, unix.POLLIN, ms) {
				break
			}
		}
		got = buf[:n]
	}
	if len(got) > 0 {
		ok := 0
		if s.pgot+len(got) <= len(s.wire) && bytes.Equal(got, s.wire[s.pgot:s.pgot+len(got)]) {
			ok = 1
		}
		s.emit(Ev{Ev: "Got", N: len(got), Lo: s.pgot, Ok: ok})
		s.pgot += len(got)
	}
	return len(got)
}

func (s *scen) poll() int {
	if !s.cfg.exact && s.mem == nil {
		s.push(s.rst.real(s.rsentM, s.cfg.scale))
	}
	s.emit(Ev{Ev: "Poll"})
	if s.mem != nil {
		return s.mem.Poll()
	}
	n, err := s.ioc.PollOne()
	if err != nil && err != sonicerrors.ErrTimeout {
		s.emit(Ev{Ev: "Note", Err: "pollone:" + rawpeer.ErrClass(err)})
	}
	return n
}

// ---- calls -------------------------------------------------------------------

// identify a returned payload: id of the announced item it is byte-identical to
func (s *scen) identify(p []byte) (id, ok int) {
	try := func(k int) bool {
		if k < 1 || k > len(s.rst.ents) || s.rst.ents[k-1].hostile || s.rst.ents[k-1].rlen != len(p) {
			return false
		}
		want := make([]byte, len(p))
		itemGen(k).Fill(want, 0)
		return bytes.Equal(want, p)
	}
	if try(s.rnext + 1) {
		return s.rnext + 1, 1
	}
	for k := 1; k <= len(s.rst.ents); k++ {
		if try(k) {
			return k, 1
		}
	}
	return s.rnext + 1, 0
}

func (s *scen) readRet(api string, cap0 int, item []byte, err error) {
	e := Ev{Ev: "Ret", Api: api, Err: errClass(err), Ok: 1}
	if err == nil {
		e.Id, e.Ok = s.identify(item)
		e.Len = len(item)
		if e.Ok == 1 {
			s.rnext = e.Id
		}
	}
	if s.src.Cap() > cap0 {
		e.Capgrew = 1
	}
	s.rbusy = false
	s.emit(e)
}

func (s *scen) callRead(api string) {
	if s.rbusy {
		return
	}
	s.rbusy = true
	s.emit(Ev{Ev: "Call", Api: api})
	cap0 := s.src.Cap()
	defer func() {
		if r := recover(); r != nil {
			s.rbusy = false
			s.emit(Ev{Ev: "Ret", Api: api, Err: "panic", Ok: 1})
		}
	}()
	if api == "ReadNext" {
		item, err := s.cc.ReadNext()
		s.readRet(api, cap0, item, err)
		return
	}
	s.cc.AsyncReadNext(func(err error, item []byte) { s.readRet(api, cap0, item, err) })
}

func (s *scen) writeRet(api string, id int, err error, n int) {
	s.wbusy = false
	s.emit(Ev{Ev: "Ret", Api: api, Id: id, N: n, Err: errClass(err), Ok: 1, Dstlen: s.dst.ReadLen() + s.dst.WriteLen()})
}

func (s *scen) callWrite(api string, mlen int) {
	if s.wbusy {
		return
	}
	s.wbusy = true
	s.nw++
	id := s.nw
	rlen := mlen * s.cfg.scale
	p := make([]byte, rlen)
	writeGen(id).Fill(p, 0)
	var h [4]byte
	binary.BigEndian.PutUint32(h[:], uint32(rlen))
	s.wire = append(append(s.wire, h[:]...), p...)
	s.wst.add(false, mlen, rlen, 4+mlen, 4+rlen, s.rng.Intn(1<<20))
	s.emit(Ev{Ev: "Call", Api: api, Id: id, Len: rlen, Size: 4 + rlen})
	defer func() {
		if r := recover(); r != nil {
			s.wbusy = false
			s.emit(Ev{Ev: "Ret", Api: api, Id: id, Err: "panic", Ok: 1})
		}
	}()
	if api == "WriteNext" {
		n, err := s.cc.WriteNext(p)
		s.writeRet(api, id, err, n)
		return
	}
	s.cc.AsyncWriteNext(p, func(err error, n int) { s.writeRet(api, id, err, n) })
}

// finish: let what was written arrive at the peer, then End
func (s *scen) finish() {
	s.phase = "drain"
	// what a completed write handed to the kernel arrives within milliseconds; the
	// patience is counted from the last progress
	patience := 300 * time.Millisecond
	if !s.cfg.exact {
		patience = 3 * time.Second // zero-window probing over small buffers can stall for seconds (then: no verdict)
	}
	deadline := time.Now().Add(patience)
	idle := 0
	undelivered := false
	for {
		progress := s.drain(1<<22, 0) > 0
		if s.wbusy {
			if s.mem != nil {
				if s.mem.Poll() > 0 {
					progress = true
				}
			} else if n, _ := s.ioc.PollOne(); n > 0 {
				progress = true
			}
		}
		if !s.wbusy && (s.mem != nil || s.pgot >= len(s.wire)-s.dst.ReadLen()-s.dst.WriteLen()) {
			idle++
			if idle >= 2 {
				break
			}
			if s.mem == nil {
				rawpeer.WaitFd(s.peer, unix.POLLIN, 1)
			}
			continue
		}
		idle = 0
		if s.mem == nil && !s.wbusy && rawpeer.Outq(s.conn.RawFd()) == 0 && rawpeer.Inq(s.peer) == 0 && s.drain(1<<18, 0) == 0 {
			break // nothing queued in the kernel in either socket: what is missing will never arrive
		}
		if progress {
			deadline = time.Now().Add(patience)
		} else {
			if time.Now().After(deadline) || s.mem != nil {
				if s.mem == nil && !s.wbusy {
					undelivered = true
				}
				break
			}
			rawpeer.WaitFd(s.peer, unix.POLLIN, 2)
		}
	}
	ok := 0
	if !s.wbusy && !undelivered {
		ok = 1
	}
	if undelivered {
		s.emit(Ev{Ev: "Note", Err: "bytes still queued in the kernel at End"})
	}
	s.emit(Ev{Ev: "End", Ok: ok})
}

func (s *scen) run(steps []Ev) {
	s.phase = "script"
	s.emit(Ev{Ev: "Reset", N: steps[0].N})
	for idx := 1; idx < len(steps) && s.err == nil; idx++ {
		st := &steps[idx]
		switch st.Ev {
		case "PItem":
			s.pitem(st)
		case "PSend":
			s.psend(st.N)
		case "ShutWr":
			s.shutWr()
		case "Got":
			s.pgotM += st.N
			to := s.wst.real(s.pgotM, s.cfg.scale)
			wait := 150 * time.Millisecond // the write completed before: the bytes are there or never come
			if !s.cfg.exact {
				wait = 5 * time.Millisecond
			}
			s.drain(to-s.pgot, wait)
		case "Call":
			switch st.Api {
			case "ReadNext", "AsyncReadNext":
				s.callRead(st.Api)
			default:
				s.callWrite(st.Api, st.Len)
			}
		case "Poll":
			s.poll()
		}
	}
	if s.err == nil {
		s.finish()
	}
}

func sameStep(p, o Ev) bool {
	if p.Ev != o.Ev || p.Api != o.Api {
		return false
	}
	switch p.Ev {
	case "PSend", "Got":
		return p.N == o.N && p.Lo == o.Lo
	case "PItem":
		return p.Kind == o.Kind && p.Len == o.Len
	case "Ret":
		if p.Err != o.Err {
			return false
		}
		if p.Api == "ReadNext" || p.Api == "AsyncReadNext" {
			return p.Id == o.Id && p.Len == o.Len
		}
		return p.N == o.N && p.Dstlen == o.Dstlen
	}
	return true
}

var from = 1

func parseMode(a tr.Args) (config, int, error) {
	cfg := config{kind: "mem", scale: 1, exact: true, seed: a.Seed, budget: 2 * time.Second, kbuf: 32768}
	count := 2000
	for _, kv := range strings.Split(a.Mode, ",") {
		if kv == "" {
			continue
		}
		p := strings.SplitN(kv, "=", 2)
		if len(p) != 2 {
			return cfg, 0, fmt.Errorf("bad mode element %q", kv)
		}
		v, _ := strconv.Atoi(p[1])
		switch p[0] {
		case "kind":
			cfg.kind = p[1]
		case "scale":
			if v < 1 {
				return cfg, 0, fmt.Errorf("bad scale")
			}
			cfg.scale = v
		case "exact":
			cfg.exact = p[1] == "1"
		case "kbuf":
			cfg.kbuf = v
		case "count":
			count = v
		case "from":
			from = v
		default:
			return cfg, 0, fmt.Errorf("unknown mode key %q", p[0])
		}
	}
	return cfg, count, nil
}

// Run replays every behaviour of a.In and writes the recorded trace to a.Out.
// a.Mode: kind=mem|dial|acc|dec, scale=<payload bytes per token>, exact=0|1, kbuf=<n>, count=<n> (dec).
func Run(a tr.Args) error {
	cfg, count, err := parseMode(a)
	if err != nil {
		return err
	}
	if cfg.kind == "decchild" {
		decChild(a.Seed, from, count)
		return nil
	}
	w, err := tr.NewWriter(a.Out)
	if err != nil {
		return err
	}
	sum := tr.Summary{Component: "codecconn"}
	notes := map[string]int{}
	if cfg.kind == "dec" {
		if err := runDec(w, &sum, a.Seed, count); err != nil {
			return err
		}
		sum.Events = w.N
		if err := w.Close(); err != nil {
			return err
		}
		sum.Print()
		return nil
	}
	if cfg.scale < 1<<20 {
		// a decoder that buffers a hostile declared length must not take the machine down
		limitAddressSpace(3 << 30)
	}
	if cfg.kind != "mem" {
		l, err := rawpeer.Listen()
		if err != nil {
			return err
		}
		defer l.Close()
		cfg.lraw = l
	}
	err = tr.Behaviours(a.In, func(idx int, raw json.RawMessage) error {
		var steps []Ev
		if err := json.Unmarshal(raw, &steps); err != nil {
			return err
		}
		if len(steps) == 0 || steps[0].Ev != "Reset" {
			return fmt.Errorf("behaviour must start with Reset")
		}
		var s *scen
		for attempt := 1; ; attempt++ {
			s = &scen{cfg: cfg, sid: idx, peer: -1, rng: rand.New(rand.NewSource(cfg.seed*1000003 + int64(idx)))}
			if err := s.build(steps[0].N); err != nil {
				s.teardown()
				return fmt.Errorf("building %s object: %w", cfg.kind, err)
			}
			s.run(steps)
			s.teardown()
			if s.err == nil {
				break
			}
			notes["retried: "+s.err.Error()]++
			if attempt >= 3 {
				return fmt.Errorf("scenario %d: environment did not follow the script: %w", idx, s.err)
			}
		}
		nontrivial := false
		for _, e := range s.out {
			w.Emit(e)
			if e.Ev == "Note" {
				notes[e.Err]++
			}
		}
		// non-trivial: an item was returned although its bytes arrived in at least two pieces
		// one of which ended inside the item, or a write completed after a would-block
		sends := 0
		for k, e := range s.out {
			switch {
			case e.Ev == "PSend":
				sends++
			case e.Ev == "Ret" && e.Err == "nil" && (e.Api == "ReadNext" || e.Api == "AsyncReadNext") && sends >= 2:
				nontrivial = true
			case e.Ev == "Ret" && e.Err == "nil" && e.Api == "AsyncWriteNext" && k > 0 && s.out[k-1].Ev == "Poll":
				nontrivial = true
			case e.Ev == "Ret" && e.Err == "wouldblock" && e.Api == "WriteNext" && e.N > 0:
				nontrivial = true
			}
		}
		sum.Scenarios++
		if nontrivial {
			sum.Nontrivial++
		}
		if cfg.scale == 1 && (cfg.exact || cfg.kind == "mem") {
			var pred []Ev
			for _, st := range steps[1:] {
				if st.Ev != "End" {
					pred = append(pred, st)
				}
			}
			drift := len(pred) > len(s.obs)
			at := -1
			for k := 0; !drift && k < len(pred); k++ {
				if !sameStep(pred[k], s.obs[k]) {
					drift, at = true, k
				}
			}
			if drift {
				sum.Drift++
				if sum.FirstDrift == nil {
					fd := map[string]any{"sid": idx, "predicted_len": len(pred), "observed_len": len(s.obs)}
					if at >= 0 {
						fd["predicted"], fd["observed"] = pred[at], s.obs[at]
					}
					sum.FirstDrift = fd
				}
			}
		}
		return nil
	})
	if err != nil {
		return err
	}
	sum.Events = w.N
	if len(notes) > 0 {
		sum.Notes = notes
	}
	if err := w.Close(); err != nil {
		return err
	}
	sum.Print()
	return nil
}
