// Package seqslots drives sonic's sequencedSlots (the container behind
// SlotSequencer, reached through the build-tag hook VerifNewSequencedSlots) with
// generated histories and records what SeqSlotsMon needs (extra component, no
// listed property).
package seqslots

import (
	"encoding/json"
	"fmt"
	"math/rand"
	"strconv"

	"github.com/talostrading/sonic"

	"verifharness/internal/tr"
)

type SlotRec struct {
	Idx int `json:"idx"`
	Len int `json:"len"`
}

// Ev is a generated step (ev, seq, n, idx, len + predicted observation) and a
// recorded observation.
type Ev struct {
	C     string    `json:"c"`
	Ev    string    `json:"ev"`
	Sid   int       `json:"sid"`
	I     int       `json:"i"`
	Seq   int       `json:"seq"`
	N     int       `json:"n"`
	Idx   int       `json:"idx"`
	Len   int       `json:"len"`
	Ok    int       `json:"ok"`
	Err   int       `json:"err"`
	Slots []SlotRec `json:"slots"`
	Size  int       `json:"size"`
	Pan   int       `json:"pan"`
}

func b2i(b bool) int {
	if b {
		return 1
	}
	return 0
}

func call(s *sonic.VerifSequencedSlots, g Ev) (e Ev) {
	e = Ev{C: "seqslots", Ev: g.Ev, Seq: g.Seq, N: g.N, Slots: []SlotRec{}}
	defer func() {
		if r := recover(); r != nil {
			e.Pan = 1
			e.Ok, e.Err, e.Slots = 0, 0, []SlotRec{}
			func() {
				defer func() { _ = recover() }()
				e.Size = s.Size()
			}()
		}
	}()
	switch g.Ev {
	case "Push":
		e.Idx, e.Len = g.Idx, g.Len
		ok, err := s.Push(g.Seq, sonic.Slot{Index: g.Idx, Length: g.Len})
		e.Ok, e.Err = b2i(ok), b2i(err != nil)
	case "Pop":
		slot, ok := s.Pop(g.Seq)
		e.Ok = b2i(ok)
		e.Idx, e.Len = slot.Index, slot.Length
	case "PopRange":
		for _, slot := range s.PopRange(g.Seq, g.N) {
			e.Slots = append(e.Slots, SlotRec{slot.Index, slot.Length})
		}
	case "Size":
	case "Reset":
		s.Reset()
	default:
		panic("unknown step " + g.Ev)
	}
	e.Size = s.Size()
	return e
}

func same(a, b []SlotRec) bool {
	if len(a) != len(b) {
		return false
	}
	for i := range a {
		if a[i] != b[i] {
			return false
		}
	}
	return true
}

// Run replays generated histories; with -mode random it makes seeded random
// ones itself (arguments: number of scenarios, steps per scenario).
func Run(a tr.Args) error {
	if a.Mode == "random" {
		return runRandom(a)
	}
	w, err := tr.NewWriter(a.Out)
	if err != nil {
		return err
	}
	sum := tr.Summary{Component: "seqslots"}
	outcomes := map[string]int{}
	err = tr.Behaviours(a.In, func(idx int, raw json.RawMessage) error {
		var steps []Ev
		if err := json.Unmarshal(raw, &steps); err != nil {
			return err
		}
		if len(steps) == 0 || steps[0].Ev != "New" {
			return fmt.Errorf("behaviour must start with New")
		}
		sid := idx + a.SidBase
		sum.Scenarios++
		s := sonic.VerifNewSequencedSlots(steps[0].N)
		ranged := false
		for i, g := range steps {
			var e Ev
			if g.Ev == "New" {
				e = Ev{C: "seqslots", Ev: "New", N: g.N, Slots: []SlotRec{}, Size: s.Size()}
			} else {
				e = call(s, g)
			}
			e.Sid, e.I = sid, i+1
			w.Emit(e)
			if e.Ok != g.Ok || e.Err != g.Err || e.Pan != g.Pan || e.Size != g.Size || !same(e.Slots, g.Slots) ||
				(g.Ev == "Pop" && (e.Idx != g.Idx || e.Len != g.Len)) {
				sum.Drift++
				if sum.FirstDrift == nil {
					sum.FirstDrift = map[string]any{"sid": sid, "i": i + 1, "predicted": g, "observed": e}
				}
			}
			note(outcomes, e, &ranged)
			if e.Pan == 1 {
				break
			}
		}
		if ranged {
			sum.Nontrivial++
		}
		return nil
	})
	if err != nil {
		return err
	}
	sum.Events = w.N
	sum.Notes = outcomes
	if err := w.Close(); err != nil {
		return err
	}
	sum.Print()
	return nil
}

func note(outcomes map[string]int, e Ev, ranged *bool) {
	switch e.Ev {
	case "Push":
		switch {
		case e.Ok == 1:
			outcomes["push_ok"]++
		case e.Err == 1:
			outcomes["push_full"]++
		default:
			outcomes["push_duplicate"]++
		}
	case "Pop":
		if e.Ok == 1 {
			outcomes["pop_ok"]++
		} else {
			outcomes["pop_absent"]++
		}
	case "PopRange":
		if len(e.Slots) >= 2 {
			outcomes["poprange_2plus"]++
			*ranged = true
		} else if len(e.Slots) == 1 {
			outcomes["poprange_1"]++
		} else {
			outcomes["poprange_0"]++
		}
	}
	if e.Pan == 1 {
		outcomes["panic"]++
	}
}

func runRandom(a tr.Args) error {
	count, steps := 300, 100
	if len(a.Rest) >= 1 {
		count, _ = strconv.Atoi(a.Rest[0])
	}
	if len(a.Rest) >= 2 {
		steps, _ = strconv.Atoi(a.Rest[1])
	}
	w, err := tr.NewWriter(a.Out)
	if err != nil {
		return err
	}
	sum := tr.Summary{Component: "seqslots"}
	outcomes := map[string]int{}
	for sid := 1 + a.SidBase; sid <= count+a.SidBase; sid++ {
		rng := rand.New(rand.NewSource(a.Seed*1_000_003 + int64(sid)))
		sum.Scenarios++
		maxSlots := 1 + rng.Intn(16)
		span := maxSlots + 1 + rng.Intn(2*maxSlots+2) // sequence numbers 0..span-1
		s := sonic.VerifNewSequencedSlots(maxSlots)
		i := 1
		w.Emit(Ev{C: "seqslots", Ev: "New", Sid: sid, I: i, N: maxSlots, Slots: []SlotRec{}, Size: s.Size()})
		ranged, tag := false, 0
		for st := 0; st < steps; st++ {
			g := Ev{Seq: rng.Intn(span)}
			switch c := rng.Intn(20); {
			case c < 10:
				tag++
				g.Ev, g.Idx, g.Len = "Push", tag, 1+rng.Intn(64)
			case c < 14:
				g.Ev = "Pop"
			case c < 18:
				g.Ev, g.N = "PopRange", rng.Intn(span+3)
				if rng.Intn(4) == 0 {
					g.N = rng.Intn(4)
				}
			case c < 19:
				g.Ev, g.Seq = "Size", 0
			default:
				g.Ev, g.Seq = "Reset", 0
				if rng.Intn(3) != 0 {
					g.Ev = "Size"
				}
			}
			e := call(s, g)
			i++
			e.Sid, e.I = sid, i
			w.Emit(e)
			note(outcomes, e, &ranged)
			if e.Pan == 1 {
				break
			}
		}
		if ranged {
			sum.Nontrivial++
		}
	}
	sum.Events = w.N
	sum.Notes = outcomes
	if err := w.Close(); err != nil {
		return err
	}
	sum.Print()
	return nil
}
