package utilx

import (
	"encoding/json"
	"errors"
	"fmt"
	"strings"
	"time"

	"github.com/talostrading/sonic/util"

	"verifharness/internal/tr"
)

// LEv is a generated step (ev, a) and a recorded observation.
type LEv struct {
	C    string `json:"c"`
	Ev   string `json:"ev"`
	Sid  int    `json:"sid"`
	I    int    `json:"i"`
	A    int    `json:"a"`
	Ret  int    `json:"ret"`
	Ok   int    `json:"ok"`
	Vals []int  `json:"vals"`
	N    int    `json:"n"`
	Pan  int    `json:"pan"`  // 0 none, 1 some panic, 2 panic(util.ErrOutOfBounds)
	Hang int    `json:"hang"` // the call did not return within the budget
}

func lcall(l *util.List[int], g LEv) (e LEv) {
	e = LEv{C: "list", Ev: g.Ev, A: g.A, Vals: []int{}}
	defer func() {
		if r := recover(); r != nil {
			e.Pan = 1
			if err, ok := r.(error); ok && errors.Is(err, util.ErrOutOfBounds) {
				e.Pan = 2
			}
			e.N = l.Size()
		}
	}()
	switch g.Ev {
	case "Add":
		l.Add(g.A)
	case "At":
		e.Ret = l.At(g.A)
	case "Exists":
		if l.Exists(g.A) {
			e.Ok = 1
		}
	case "RemoveValue":
		if l.RemoveValue(g.A) {
			e.Ok = 1
		}
	case "RemoveIndex":
		e.Ret = l.RemoveIndex(g.A)
	case "Size":
		e.Ret = l.Size()
	case "Iterate":
		l.Iterate(func(v *int) { e.Vals = append(e.Vals, *v) })
	case "IterMod":
		l.Iterate(func(v *int) { e.Vals = append(e.Vals, *v); *v = (*v + 1) % g.A })
	default:
		panic("unknown step " + g.Ev)
	}
	e.N = l.Size()
	return e
}

// RunList replays histories against util.List[int].  Every call runs in its
// own goroutine and is given `budget` to return (mode "budget=<duration>",
// default 1s); a call that does not return is recorded as hang = 1, the
// scenario ends there, and after three such calls the run stops (each leaves a
// spinning goroutine behind).
func RunList(a tr.Args) error {
	budget := time.Second
	if strings.HasPrefix(a.Mode, "budget=") {
		d, err := time.ParseDuration(strings.TrimPrefix(a.Mode, "budget="))
		if err != nil {
			return err
		}
		budget = d
	}
	w, err := tr.NewWriter(a.Out)
	if err != nil {
		return err
	}
	sum := tr.Summary{Component: "list"}
	hangs := 0
	stop := errors.New("stop")
	err = tr.Behaviours(a.In, func(idx int, raw json.RawMessage) error {
		var steps []LEv
		if err := json.Unmarshal(raw, &steps); err != nil {
			return err
		}
		if len(steps) == 0 || steps[0].Ev != "New" {
			return fmt.Errorf("behaviour must start with New")
		}
		sum.Scenarios++
		l := util.NewList[int]()
		removed := 0
		for i, g := range steps {
			var e LEv
			if g.Ev == "New" {
				e = LEv{C: "list", Ev: "New", Vals: []int{}, N: l.Size()}
			} else {
				ch := make(chan LEv, 1)
				go func() { ch <- lcall(l, g) }()
				select {
				case e = <-ch:
				case <-time.After(budget):
					e = LEv{C: "list", Ev: g.Ev, A: g.A, Vals: []int{}, Hang: 1}
				}
			}
			e.Sid, e.I = idx, i+1
			w.Emit(e)
			if e.Ret != g.Ret || e.Ok != g.Ok || e.Pan != g.Pan || e.Hang != g.Hang || e.N != g.N || len(e.Vals) != len(g.Vals) {
				sum.Drift++
				if sum.FirstDrift == nil {
					sum.FirstDrift = map[string]any{"sid": idx, "i": i + 1, "predicted": g, "observed": e}
				}
			}
			if e.Hang == 1 {
				hangs++
				if hangs >= 3 {
					return stop
				}
				break
			}
			if (e.Ev == "RemoveValue" && e.Ok == 1) || (e.Ev == "RemoveIndex" && e.Pan == 0) {
				removed++
			}
		}
		if removed > 0 {
			sum.Nontrivial++
		}
		return nil
	})
	if err != nil && !errors.Is(err, stop) {
		return err
	}
	sum.Events = w.N
	sum.Notes = map[string]int{"hangs": hangs}
	if err := w.Close(); err != nil {
		return err
	}
	sum.Print()
	return nil
}
