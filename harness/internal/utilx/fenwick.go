// Package utilx replays generated histories against util.FenwickTree and
// util.List (extra components outside the listed properties).
package utilx

import (
	"encoding/json"
	"fmt"
	"math/rand"
	"os"
	"strconv"

	"github.com/talostrading/sonic/util"

	"verifharness/internal/tr"
)

// FEv is a generated step (ev, a, b, n, xs) and a recorded observation.
type FEv struct {
	C   string `json:"c"`
	Ev  string `json:"ev"`
	Sid int    `json:"sid"`
	I   int    `json:"i"`
	A   int    `json:"a"`
	B   int    `json:"b"`
	Ret int    `json:"ret"`
	N   int    `json:"n"`
	Xs  []int  `json:"xs"`
	Pan int    `json:"pan"`
}

func fstep(t **util.FenwickTree, g FEv) (e FEv) {
	e = FEv{C: "fenwick", Ev: g.Ev, A: g.A, B: g.B, N: g.N, Xs: []int{}}
	defer func() {
		if r := recover(); r != nil {
			e.Pan = 1
		}
	}()
	switch g.Ev {
	case "New":
		*t = util.NewFenwickTree(g.N)
	case "From":
		e.Xs = append(e.Xs, g.Xs...)
		*t = util.NewFenwickTreeFrom(g.Xs)
	case "Add":
		(*t).Add(g.A, g.B)
	case "SumUntil":
		e.Ret = (*t).SumUntil(g.A)
	case "SumFrom":
		e.Ret = (*t).SumFrom(g.A)
	case "Sum":
		e.Ret = (*t).Sum()
	case "SumRange":
		e.Ret = (*t).SumRange(g.A, g.B)
	case "At":
		e.Ret = (*t).At(g.A)
	case "Clear":
		e.Ret = (*t).Clear(g.A)
	case "Reset":
		(*t).Reset()
	case "Size":
		e.Ret = (*t).Size()
	default:
		panic("unknown step " + g.Ev)
	}
	return e
}

// randomFenwick writes `num` seeded random histories (sizes up to 64, deltas
// within +-1000, every query kind after every few updates) to path.
func randomFenwick(path string, seed int64, num, steps int) error {
	f, err := os.Create(path)
	if err != nil {
		return err
	}
	defer f.Close()
	rng := rand.New(rand.NewSource(seed))
	enc := json.NewEncoder(f)
	for k := 0; k < num; k++ {
		n := 1 + rng.Intn(64)
		var h []FEv
		if rng.Intn(2) == 0 {
			h = append(h, FEv{Ev: "New", N: n, Xs: []int{}})
		} else {
			xs := make([]int, n)
			for i := range xs {
				xs[i] = rng.Intn(2001) - 1000
			}
			h = append(h, FEv{Ev: "From", N: n, Xs: xs})
		}
		for s := 0; s < steps; s++ {
			i, j := rng.Intn(n), rng.Intn(n)
			if i > j {
				i, j = j, i
			}
			var g FEv
			switch rng.Intn(12) {
			case 0, 1, 2, 3:
				g = FEv{Ev: "Add", A: j, B: rng.Intn(2001) - 1000}
			case 4:
				g = FEv{Ev: "SumUntil", A: j - rng.Intn(2)*(j+1)} // j or -1
			case 5:
				g = FEv{Ev: "SumFrom", A: i}
			case 6:
				g = FEv{Ev: "Sum"}
			case 7:
				g = FEv{Ev: "SumRange", A: i, B: j}
			case 8:
				g = FEv{Ev: "At", A: i}
			case 9:
				g = FEv{Ev: "Clear", A: j}
			case 10:
				if rng.Intn(8) == 0 {
					g = FEv{Ev: "Reset"}
				} else {
					g = FEv{Ev: "Add", A: n + rng.Intn(3), B: 1} // outside: ignored by the code
				}
			default:
				g = FEv{Ev: "Size"}
			}
			g.Xs = []int{}
			h = append(h, g)
		}
		if err := enc.Encode(h); err != nil {
			return err
		}
	}
	return nil
}

// RunFenwick replays histories; with -mode random it first generates them
// (Rest = [num, steps]) into the -in path.
func RunFenwick(a tr.Args) error {
	if a.Mode == "random" {
		num, steps := 200, 100
		if len(a.Rest) >= 2 {
			num, _ = strconv.Atoi(a.Rest[0])
			steps, _ = strconv.Atoi(a.Rest[1])
		}
		if err := randomFenwick(a.In, a.Seed, num, steps); err != nil {
			return err
		}
	}
	w, err := tr.NewWriter(a.Out)
	if err != nil {
		return err
	}
	sum := tr.Summary{Component: "fenwick"}
	err = tr.Behaviours(a.In, func(idx int, raw json.RawMessage) error {
		var steps []FEv
		if err := json.Unmarshal(raw, &steps); err != nil {
			return err
		}
		if len(steps) == 0 || (steps[0].Ev != "New" && steps[0].Ev != "From") {
			return fmt.Errorf("behaviour must start with New or From")
		}
		sum.Scenarios++
		var t *util.FenwickTree
		updates := 0
		for i, g := range steps {
			e := fstep(&t, g)
			e.Sid, e.I = idx, i+1
			w.Emit(e)
			if a.Mode != "random" && (e.Ret != g.Ret || e.Pan != g.Pan) {
				sum.Drift++
				if sum.FirstDrift == nil {
					sum.FirstDrift = map[string]any{"sid": idx, "i": i + 1, "predicted": g, "observed": e}
				}
			}
			if e.Ev == "Add" || e.Ev == "Clear" {
				updates++
			}
		}
		if updates >= 2 {
			sum.Nontrivial++
		}
		return nil
	})
	if err != nil {
		return err
	}
	sum.Events = w.N
	if err := w.Close(); err != nil {
		return err
	}
	sum.Print()
	return nil
}
