// Package fdtable replays scripts generated from FdTableImpl.tla against the
// real sonic constructors and Close methods, injects failures without
// touching the code (refused / unreachable peers, bind conflicts, invalid
// options and addresses, misbehaving WebSocket servers, descriptor
// exhaustion through RLIMIT_NOFILE) and records the descriptor census of the
// process around every step.
package fdtable

import (
	"fmt"
	"sort"
	"strconv"
	"syscall"
	"unsafe"

	"golang.org/x/sys/unix"
)

// censusLo is the lowest descriptor number the census looks at. It is 0 except
// in the high-descriptor mode (see high.go), where every number below it is
// either permanent infrastructure of the harness or a placeholder, both
// watched by lowCheck instead.
var censusLo = 0

// census returns the sorted descriptor numbers >= censusLo open in this
// process, read from /proc/self/fd with raw system calls (the descriptor used
// for reading the directory is left out).
func census() []int {
	dfd, err := syscall.Open("/proc/self/fd", syscall.O_RDONLY|syscall.O_DIRECTORY|syscall.O_CLOEXEC, 0)
	if err != nil {
		panic(fmt.Sprintf("census: open /proc/self/fd: %v", err))
	}
	defer syscall.Close(dfd)
	if censusLo > 0 {
		// the directory position of descriptor n is n + 2 ("." and ".." come first): skip the placeholders
		if _, err := syscall.Seek(dfd, int64(censusLo+2), 0); err != nil {
			panic(fmt.Sprintf("census: lseek /proc/self/fd: %v", err))
		}
	}
	var res []int
	buf := make([]byte, 8192)
	for {
		n, err := syscall.ReadDirent(dfd, buf)
		if err != nil {
			if err == syscall.EINTR {
				continue
			}
			panic(fmt.Sprintf("census: getdents: %v", err))
		}
		if n <= 0 {
			break
		}
		b := buf[:n]
		for len(b) > 0 {
			// linux_dirent64: ino(8) off(8) reclen(2) type(1) name
			reclen := int(*(*uint16)(unsafe.Pointer(&b[16])))
			name := b[19:reclen]
			for i, c := range name {
				if c == 0 {
					name = name[:i]
					break
				}
			}
			if v, err := strconv.Atoi(string(name)); err == nil && v != dfd && v >= censusLo {
				res = append(res, v)
			}
			b = b[reclen:]
		}
	}
	sort.Ints(res)
	if res == nil {
		res = []int{}
	}
	return res
}

// target is the link target of a descriptor ("" when it is not open).
func target(fd int) string {
	buf := make([]byte, 256)
	n, err := syscall.Readlink("/proc/self/fd/"+strconv.Itoa(fd), buf)
	if err != nil {
		return ""
	}
	return string(buf[:n])
}

// isOpen probes a descriptor with fcntl(F_GETFD).
func isOpen(fd int) bool {
	_, err := unix.FcntlInt(uintptr(fd), unix.F_GETFD, 0)
	return err == nil
}

func diff(a, b []int) []int { // a \ b, both sorted
	res := []int{}
	m := make(map[int]bool, len(b))
	for _, x := range b {
		m[x] = true
	}
	for _, x := range a {
		if !m[x] {
			res = append(res, x)
		}
	}
	return res
}

func contains(a []int, x int) bool {
	for _, y := range a {
		if y == x {
			return true
		}
	}
	return false
}

func maxOf(a []int) int {
	m := -1
	for _, x := range a {
		if x > m {
			m = x
		}
	}
	return m
}

// plugHoles opens /dev/null until every number below the highest open
// descriptor is taken; the next allocations are then highest+1, highest+2, ...
func plugHoles() []int {
	c := census()
	hi := maxOf(c)
	if hi < censusLo-1 {
		hi = censusLo - 1
	}
	var plugs []int
	for {
		fd, err := syscall.Open("/dev/null", syscall.O_RDONLY|syscall.O_CLOEXEC, 0)
		if err != nil {
			panic(fmt.Sprintf("plug: %v", err))
		}
		if fd > hi {
			syscall.Close(fd)
			break
		}
		plugs = append(plugs, fd)
	}
	return plugs
}

func closeAll(fds []int) {
	for _, fd := range fds {
		syscall.Close(fd)
	}
}

// withLimit runs fn with the soft RLIMIT_NOFILE lowered so that exactly k more
// descriptors can be allocated (holes are plugged first), then restores it.
func withLimit(k int, fn func()) {
	plugs := plugHoles()
	hi := maxOf(census())
	if hi < censusLo-1 {
		hi = censusLo - 1
	}
	var old syscall.Rlimit
	if err := syscall.Getrlimit(syscall.RLIMIT_NOFILE, &old); err != nil {
		panic(err)
	}
	lim := old
	lim.Cur = uint64(hi + 1 + k)
	if err := syscall.Setrlimit(syscall.RLIMIT_NOFILE, &lim); err != nil {
		panic(fmt.Sprintf("setrlimit(%d): %v", lim.Cur, err))
	}
	func() {
		defer func() {
			if err := syscall.Setrlimit(syscall.RLIMIT_NOFILE, &old); err != nil {
				panic(fmt.Sprintf("restore rlimit: %v", err))
			}
		}()
		fn()
	}()
	closeAll(plugs)
}
