package fdtable

import (
	"crypto/sha1"
	"encoding/base64"
	"fmt"
	"net"
	"os"
	"path/filepath"
	"strings"
	"sync"
	"sync/atomic"
	"syscall"
	"time"

	"github.com/talostrading/sonic"
	"github.com/talostrading/sonic/sonicopts"
)

// infra is what the harness needs around the objects under test. It is built
// once per process, before the first census, so none of it counts.
type infra struct {
	srvL     int // raw TCP listener (peers of dialled conns, of adapters)
	srvPort  int
	refFd    int // bound, not listening: connections to refPort are refused, binds conflict
	refPort  int
	udpSink  int // raw UDP socket: target of Dial udp, bind conflict for packet conns
	udpPort  int
	udpSend  int // raw UDP socket used to send datagrams to objects
	fifo     string
	fifoW    int // harness end of the FIFO, kept open
	ws       *wsServer
	workdir  string
	tmpFiles []string
}

func rawListener() (fd, port int) {
	fd, err := syscall.Socket(syscall.AF_INET, syscall.SOCK_STREAM|syscall.SOCK_NONBLOCK|syscall.SOCK_CLOEXEC, 0)
	must(err)
	must(syscall.Bind(fd, &syscall.SockaddrInet4{Addr: [4]byte{127, 0, 0, 1}}))
	must(syscall.Listen(fd, 128))
	return fd, portOf(fd)
}

func portOf(fd int) int {
	sa, err := syscall.Getsockname(fd)
	must(err)
	return sa.(*syscall.SockaddrInet4).Port
}

func must(err error) {
	if err != nil {
		panic(err)
	}
}

func newInfra(workdir string) *infra {
	in := &infra{workdir: workdir}
	in.srvL, in.srvPort = rawListener()

	fd, err := syscall.Socket(syscall.AF_INET, syscall.SOCK_STREAM|syscall.SOCK_CLOEXEC, 0)
	must(err)
	must(syscall.Bind(fd, &syscall.SockaddrInet4{Addr: [4]byte{127, 0, 0, 1}}))
	in.refFd, in.refPort = fd, portOf(fd)

	fd, err = syscall.Socket(syscall.AF_INET, syscall.SOCK_DGRAM|syscall.SOCK_NONBLOCK|syscall.SOCK_CLOEXEC, 0)
	must(err)
	must(syscall.Bind(fd, &syscall.SockaddrInet4{Addr: [4]byte{127, 0, 0, 1}}))
	in.udpSink, in.udpPort = fd, portOf(fd)

	fd, err = syscall.Socket(syscall.AF_INET, syscall.SOCK_DGRAM|syscall.SOCK_NONBLOCK|syscall.SOCK_CLOEXEC, 0)
	must(err)
	in.udpSend = fd

	in.fifo = filepath.Join(workdir, fmt.Sprintf("fifo-%d", os.Getpid()))
	_ = os.Remove(in.fifo)
	must(syscall.Mkfifo(in.fifo, 0600))
	in.tmpFiles = append(in.tmpFiles, in.fifo)
	in.fifoW, err = syscall.Open(in.fifo, syscall.O_RDWR|syscall.O_NONBLOCK|syscall.O_CLOEXEC, 0)
	must(err)

	in.ws = newWsServer()
	warmup(in)
	return in
}

func (in *infra) cleanup() {
	for _, f := range in.tmpFiles {
		_ = os.Remove(f)
	}
}

// warmup makes the Go runtime and every library path used later allocate
// their own long-lived descriptors (netpoller epoll + eventfd, ...) now.
func warmup(in *infra) {
	ln, err := net.Listen("tcp", "127.0.0.1:0")
	must(err)
	c, err := net.Dial("tcp", ln.Addr().String())
	must(err)
	s, err := ln.Accept()
	must(err)
	_ = c.Close()
	_ = s.Close()
	_ = ln.Close()
	f, err := os.CreateTemp("/dev/shm", "verif-warm-")
	if err == nil {
		_ = os.Remove(f.Name())
		_ = f.Close()
	}
	ioc, err := sonic.NewIO()
	must(err)
	done := false
	must(ioc.Post(func() { done = true }))
	for i := 0; i < 100 && !done; i++ {
		_, _ = ioc.PollOne()
	}
	_ = ioc.Close()
	_ = sonicopts.NoDelay(true)
	_ = census()
	// one full websocket round so that net/http, crypto etc. are initialised
	time.Sleep(time.Millisecond)
}

// ---------------------------------------------------------------------------
// scripted WebSocket server
// ---------------------------------------------------------------------------

type wsScript struct {
	seq  int64
	mode string // ok, eof, truncated, partial, status, badkey, garbage
	k    int    // cut offset for truncated / partial
}

type wsResult struct {
	seq  int64
	conn net.Conn // still open (ok, partial), else nil
	fd   int
}

type wsServer struct {
	ln       net.Listener
	port     int
	mu       sync.Mutex
	script   wsScript
	seq      int64
	pokePort int64
	results  chan wsResult
}

func newWsServer() *wsServer {
	ln, err := net.Listen("tcp", "127.0.0.1:0")
	must(err)
	s := &wsServer{ln: ln, port: ln.Addr().(*net.TCPAddr).Port, results: make(chan wsResult, 16)}
	go s.loop()
	return s
}

func (s *wsServer) arm(mode string, k int) int64 {
	s.mu.Lock()
	defer s.mu.Unlock()
	s.script = wsScript{seq: atomic.AddInt64(&s.seq, 1), mode: mode, k: k}
	return s.script.seq
}

func connFd(c net.Conn) int {
	fd := -1
	if sc, ok := c.(syscall.Conn); ok {
		if rc, err := sc.SyscallConn(); err == nil {
			_ = rc.Control(func(u uintptr) { fd = int(u) })
		}
	}
	return fd
}

const wsGUID = "258EAFA5-E914-47DA-95CA-C5AB0DC85B11"

func (s *wsServer) loop() {
	for {
		c, err := s.ln.Accept()
		if err != nil {
			// EMFILE while a test lowered the limit: try again
			time.Sleep(200 * time.Microsecond)
			continue
		}
		if ra, ok := c.RemoteAddr().(*net.TCPAddr); ok && int64(ra.Port) == atomic.LoadInt64(&s.pokePort) {
			// the driver's own marker connection: everything that connected before it has been served
			_ = c.Close()
			s.results <- wsResult{seq: -1, fd: -1}
			continue
		}
		s.mu.Lock()
		sc := s.script
		s.mu.Unlock()
		s.serve(c, sc)
	}
}

func (s *wsServer) serve(c net.Conn, sc wsScript) {
	closeAndReport := func() {
		_ = c.Close()
		s.results <- wsResult{seq: sc.seq, fd: -1}
	}
	if sc.mode == "eof" {
		closeAndReport()
		return
	}
	// read the request up to the blank line
	_ = c.SetReadDeadline(time.Now().Add(3 * time.Second))
	var req []byte
	buf := make([]byte, 2048)
	for !strings.Contains(string(req), "\r\n\r\n") {
		n, err := c.Read(buf)
		if n > 0 {
			req = append(req, buf[:n]...)
		}
		if err != nil {
			closeAndReport()
			return
		}
	}
	key := ""
	for _, line := range strings.Split(string(req), "\r\n") {
		if i := strings.IndexByte(line, ':'); i > 0 && strings.EqualFold(strings.TrimSpace(line[:i]), "Sec-WebSocket-Key") {
			key = strings.TrimSpace(line[i+1:])
		}
	}
	h := sha1.Sum([]byte(key + wsGUID))
	accept := base64.StdEncoding.EncodeToString(h[:])
	good := "HTTP/1.1 101 Switching Protocols\r\nUpgrade: websocket\r\nConnection: Upgrade\r\nSec-WebSocket-Accept: " + accept + "\r\n\r\n"
	switch sc.mode {
	case "ok":
		_, _ = c.Write([]byte(good))
		s.results <- wsResult{seq: sc.seq, conn: c, fd: connFd(c)}
	case "truncated":
		k := sc.k
		if k >= len(good) {
			k = len(good) - 1
		}
		_, _ = c.Write([]byte(good[:k]))
		closeAndReport()
	case "partial":
		k := sc.k
		if k >= len(good) {
			k = len(good) - 1
		}
		_, _ = c.Write([]byte(good[:k]))
		// The server sends nothing more but keeps its descriptor: it only shuts its write side, so
		// that a client which (rightly) waits for the rest of the response sees the end of the stream.
		if tc, ok := c.(*net.TCPConn); ok {
			_ = tc.CloseWrite()
		}
		s.results <- wsResult{seq: sc.seq, conn: c, fd: connFd(c)}
	case "status":
		_, _ = c.Write([]byte("HTTP/1.1 200 OK\r\nContent-Length: 0\r\n\r\n"))
		closeAndReport()
	case "badkey":
		_, _ = c.Write([]byte(strings.Replace(good, accept, "AAAAAAAAAAAAAAAAAAAAAAAAAAA=", 1)))
		closeAndReport()
	case "garbage":
		_, _ = c.Write([]byte("\x00\x01garbage that is not HTTP\r\n\r\n"))
		closeAndReport()
	default:
		closeAndReport()
	}
}

// wait for the server's report about connection seq (nil if none arrives)
func (s *wsServer) wait(seq int64, d time.Duration) *wsResult {
	t := time.NewTimer(d)
	defer t.Stop()
	for {
		select {
		case r := <-s.results:
			if r.seq == seq {
				return &r
			}
			if r.conn != nil { // stale
				_ = r.conn.Close()
			}
		case <-t.C:
			return nil
		}
	}
}

// sync returns the server's report about connection seq. When none arrives
// soon, the driver sends a marker connection through the (sequential) server:
// once the marker is reported, every earlier connection has been dealt with,
// so no descriptor of the server can show up later in somebody else's census.
func (s *wsServer) sync(seq int64) *wsResult {
	if r := s.wait(seq, 2*time.Second); r != nil {
		return r
	}
	fd, err := syscall.Socket(syscall.AF_INET, syscall.SOCK_STREAM|syscall.SOCK_CLOEXEC, 0)
	must(err)
	defer syscall.Close(fd)
	must(syscall.Bind(fd, &syscall.SockaddrInet4{Addr: [4]byte{127, 0, 0, 1}}))
	atomic.StoreInt64(&s.pokePort, int64(portOf(fd)))
	must(syscall.Connect(fd, &syscall.SockaddrInet4{Port: s.port, Addr: [4]byte{127, 0, 0, 1}}))
	var found *wsResult
	t := time.NewTimer(40 * time.Second)
	defer t.Stop()
	for {
		select {
		case r := <-s.results:
			switch {
			case r.seq == -1:
				atomic.StoreInt64(&s.pokePort, 0)
				return found
			case r.seq == seq:
				rr := r
				found = &rr
			case r.conn != nil:
				_ = r.conn.Close()
			}
		case <-t.C:
			panic("websocket test server does not answer the marker connection")
		}
	}
}
