package fdtable

import (
	"net"
	"net/netip"
	"runtime"
	"sort"
	"sync/atomic"
	"syscall"
	"time"

	"github.com/talostrading/sonic"
	"github.com/talostrading/sonic/multicast"
)

// In-flight operations. Everything that references the sonic object lives in
// closures stored in the object record, so that `drop` can let go of all of
// them; descriptor numbers and ports are kept as plain integers.

var big = make([]byte, 1<<16)

func setSmallBuffers(fd, peer int) {
	_ = syscall.SetsockoptInt(fd, syscall.SOL_SOCKET, syscall.SO_SNDBUF, 4096)
	if peer >= 0 {
		_ = syscall.SetsockoptInt(peer, syscall.SOL_SOCKET, syscall.SO_RCVBUF, 4096)
	}
}

// fill writes to fd until the kernel refuses more
func fill(fd int) {
	for i := 0; i < 10000; i++ {
		_, err := syscall.Write(fd, big)
		if err == syscall.EAGAIN {
			return
		}
		if err != nil && err != syscall.EINTR {
			panic("fill: " + err.Error())
		}
	}
	panic("fill: descriptor never blocked")
}

func drain(fd int) {
	buf := make([]byte, 1<<16)
	for i := 0; i < 100000; i++ {
		n, err := syscall.Read(fd, buf)
		if err == syscall.EAGAIN || n == 0 {
			return
		}
		if err != nil && err != syscall.EINTR {
			return
		}
	}
}

func (d *driver) streamOps(o *object, s sonic.FileDescriptor) {
	fd := s.RawFd()
	udp := o.kind == "udp"
	o.parkR = func(cb func()) {
		buf := make([]byte, 1)
		s.AsyncRead(buf, func(error, int) { cb() })
	}
	o.fireR = func() {
		if udp {
			sa, err := syscall.Getsockname(fd)
			must(err)
			must(syscall.Sendto(d.in.udpSink, []byte{1}, 0, sa))
		} else {
			_, err := syscall.Write(o.peer, []byte{1})
			must(err)
		}
	}
	if !udp {
		o.parkW = func(cb func()) {
			// default buffer sizes: tiny windows would bring in silly-window avoidance and 200 ms probe timers
			fill(fd)
			s.AsyncWrite(big[:1024], func(error, int) { cb() })
		}
		o.fireW = func() { drain(o.peer) }
	}
}

func (d *driver) listenerOps(o *object, l sonic.Listener) {
	port := portOf(l.RawFd())
	o.parkR = func(cb func()) {
		l.AsyncAccept(func(err error, c sonic.Conn) {
			if c != nil {
				syscall.Close(c.RawFd())
			}
			cb()
		})
	}
	o.fireR = func() { d.rawFds = append(d.rawFds, rawConnect(port)) }
}

func (d *driver) packetOps(o *object, p sonic.PacketConn) {
	port := portOf(p.RawFd())
	o.parkR = func(cb func()) {
		buf := make([]byte, 8)
		p.AsyncReadFrom(buf, func(error, int, net.Addr) { cb() })
	}
	o.fireR = func() {
		must(syscall.Sendto(d.in.udpSend, []byte{1}, 0, &syscall.SockaddrInet4{Port: port, Addr: [4]byte{127, 0, 0, 1}}))
	}
}

func (d *driver) peerOps(o *object, p *multicast.UDPPeer) {
	port := portOf(p.NextLayer().RawFd())
	o.parkR = func(cb func()) {
		buf := make([]byte, 8)
		p.AsyncRead(buf, func(error, int, netip.AddrPort) { cb() })
	}
	o.fireR = func() {
		must(syscall.Sendto(d.in.udpSend, []byte{1}, 0, &syscall.SockaddrInet4{Port: port, Addr: [4]byte{127, 0, 0, 1}}))
	}
}

func (d *driver) fileOps(o *object, f sonic.File) {
	o.parkR = func(cb func()) {
		buf := make([]byte, 1)
		f.AsyncRead(buf, func(error, int) { cb() })
	}
	o.fireR = func() {
		_, err := syscall.Write(d.in.fifoW, []byte{1})
		must(err)
	}
}

func (d *driver) timerOps(o *object, t *sonic.Timer) {
	o.parkR = func(cb func()) {
		if err := t.ScheduleOnce(15*time.Millisecond, cb); err != nil {
			cb() // not accepted: nothing is in flight
		}
	}
	o.fireR = func() {}
}

// ---------------------------------------------------------------------------

//go:noinline
func (d *driver) startOp(o *object, dir string) (flag *sentinelFlag, done *int32) {
	flag = &sentinelFlag{}
	done = new(int32)
	s := &sentinel{}
	runtime.SetFinalizer(s, func(*sentinel) { atomic.StoreInt32(&flag.collected, 1) })
	cb := func() {
		s.pad[0]++ // the sentinel is captured by the pending callback only
		atomic.StoreInt32(done, 1)
	}
	if dir == "r" {
		o.parkR(cb)
	} else {
		o.parkW(cb)
	}
	return
}

// sweepDone reports completions nobody asked for (a timer that expired while
// another operation was being awaited): the monitor must not keep them in flight
func (d *driver) sweepDone(except *int32) {
	ids := make([]int, 0, len(d.objs))
	for id := range d.objs {
		ids = append(ids, id)
	}
	sort.Ints(ids)
	for _, id := range ids {
		o := d.objs[id]
		for _, x := range []struct {
			dir  string
			done *int32
			rep  *bool
		}{{"r", o.doneR, &o.repR}, {"w", o.doneW, &o.repW}} {
			if x.done == nil || x.done == except || *x.rep || atomic.LoadInt32(x.done) == 0 {
				continue
			}
			*x.rep = true
			name := "Done"
			if o.dropped {
				name = "Deliver"
			}
			d.emit(Ev{Ev: name, Obj: id, Kind: o.kind, Fail: "none", Ok: 1, Dir: x.dir})
		}
	}
}

func (d *driver) park(c Cmd) {
	o := d.objs[c.Obj]
	if o == nil || !o.ok || o.dropped {
		return
	}
	if (c.Dir == "r" && o.parkR == nil) || (c.Dir == "w" && o.parkW == nil) {
		return
	}
	d.sweepDone(nil)
	if c.Arg == 1 {
		// the other deferral path: the operation starts when the dispatch counter has reached its limit
		// (as at the bottom of a long chain of inline completions) and goes to the poller untried
		saved := d.ioc.Dispatched
		d.ioc.Dispatched = sonic.MaxCallbackDispatch
		defer func() { d.ioc.Dispatched = saved }()
	}
	flag, done := d.startOp(o, c.Dir)
	if c.Dir == "r" {
		o.flagR, o.doneR, o.repR = flag, done, false
	} else {
		o.flagW, o.doneW, o.repW = flag, done, false
	}
	if atomic.LoadInt32(done) == 1 {
		// completed inline: nothing is in flight (the model expected it to park)
		if c.Dir == "r" {
			o.repR = true
		} else {
			o.repW = true
		}
		d.compare(c, 0, 0, 0, 0)
		return
	}
	d.emit(Ev{Ev: "Park", Obj: c.Obj, Kind: o.kind, Fail: "none", Ok: 1, Dir: c.Dir})
	d.compare(c, 1, 0, 0, 0)
}

func (d *driver) fire(c Cmd) {
	o := d.objs[c.Obj]
	if o == nil || !o.ok {
		return
	}
	done := o.doneR
	fire := o.fireR
	if c.Dir == "w" {
		done, fire = o.doneW, o.fireW
	}
	if done == nil || fire == nil {
		return
	}
	fire()
	budget := time.Now().Add(time.Duration(d.budgetMs) * time.Millisecond)
	for atomic.LoadInt32(done) == 0 && time.Now().Before(budget) {
		_, _ = d.ioc.PollOne()
		if atomic.LoadInt32(done) == 0 {
			time.Sleep(100 * time.Microsecond)
			if c.Dir == "w" {
				fire() // what was queued behind the peer's full buffer has moved up: drain again
			}
		}
	}
	d.sweepDone(done)
	if c.Dir == "r" && o.repR || c.Dir == "w" && o.repW {
		d.compare(c, 0, 0, 0, 0) // it had completed earlier, unasked
		return
	}
	ok := int(atomic.LoadInt32(done))
	if ok == 1 {
		if c.Dir == "r" {
			o.repR = true
		} else {
			o.repW = true
		}
	}
	name := "Done"
	if o.dropped {
		name = "Deliver"
	}
	if ok == 0 {
		name = "Deliver"
	}
	d.emit(Ev{Ev: name, Obj: c.Obj, Kind: o.kind, Fail: "none", Ok: ok, Dir: c.Dir})
	d.compare(c, ok, 0, 0, 0)
}

// collect runs the collector and waits until the finalizer goroutine has
// processed what the collection queued (a canary allocated here proves it).
func collect() {
	collectOnce()
	collectOnce() // a second round: whatever the first collection queued has certainly been finalized by now
}

func collectOnce() {
	canary := new(int32)
	func() {
		c := &sentinel{}
		runtime.SetFinalizer(c, func(*sentinel) { atomic.StoreInt32(canary, 1) })
	}()
	for i := 0; i < 2; i++ {
		runtime.GC()
	}
	deadline := time.Now().Add(20 * time.Second)
	for atomic.LoadInt32(canary) == 0 && time.Now().Before(deadline) {
		runtime.Gosched()
		time.Sleep(50 * time.Microsecond)
	}
	if atomic.LoadInt32(canary) == 0 {
		panic("collect: canary finalizer did not run within 20 s")
	}
}

func (d *driver) drop(c Cmd) {
	o := d.objs[c.Obj]
	if o == nil || !o.ok || o.dropped {
		return
	}
	flag := o.flagR
	done := o.doneR
	if c.Dir == "w" {
		flag, done = o.flagW, o.doneW
	}
	if flag == nil {
		return
	}
	d.sweepDone(nil)
	inflight := atomic.LoadInt32(done) == 0
	if !inflight {
		// it completed meanwhile (a timer that expired while something else was awaited): nothing to probe
		o.closer, o.cancel, o.parkR, o.parkW, o.stream = nil, nil, nil, nil, nil
		o.dropped = true
		return
	}
	// the program drops every reference to the object
	o.closer, o.cancel = nil, nil
	o.parkR, o.parkW = nil, nil
	o.stream = nil
	o.dropped = true
	// fireR / fireW only hold descriptor numbers and the driver
	collect()
	coll := int(atomic.LoadInt32(&flag.collected))
	d.emit(Ev{Ev: "Gc", Obj: c.Obj, Kind: o.kind, Fail: "none", Ok: 1, Dir: c.Dir, Coll: coll})
	if inflight {
		d.keys["gc:"+o.kind+":"+c.Dir+":"+d.parkedDirs(o)+dyn(o.fd)] = true
	}
	if coll == 1 {
		// never touch this IO's epoll again: it holds a pointer into the collected object
		d.poisoned = true
	}
	d.compare(c, 1, 0, 0, coll)
}

func (d *driver) parkedDirs(o *object) string {
	s := ""
	if o.doneR != nil && atomic.LoadInt32(o.doneR) == 0 {
		s += "r"
	}
	if o.doneW != nil && atomic.LoadInt32(o.doneW) == 0 {
		s += "w"
	}
	return s
}
