package fdtable

import (
	"fmt"
	"sort"
	"syscall"
	"unsafe"
)

// High-descriptor mode (-mode high[=B]). IO keeps the owners of in-flight
// operations in an array indexed by descriptor number for numbers below 4096
// and in a map for the others: two code paths in Register / Deregister. In
// this mode the driver occupies every free number below B (default 4096) with
// a placeholder (/dev/null) after its own infrastructure is built and before
// the first scenario, so that every descriptor a scenario creates (its IO, its
// listener, every object under test) is numbered >= B and goes through the map.
//
// The census then starts at B (censusLo): the placeholders are not listed.
// They and the infrastructure below B are watched with one poll(2) call
// (lowCheck) after every constructor and closing call and at the end of every
// scenario: a number that no longer answers (POLLNVAL), or a placeholder that
// has turned into something that does not look like /dev/null (readable and
// writable at once), is reported in the step's `probe` list like any other
// foreign descriptor that stopped answering, and re-plugged.

type pollFd struct {
	fd      int32
	events  int16
	revents int16
}

const (
	pollIn   = 0x1
	pollOut  = 0x4
	pollNval = 0x20
)

type lowRegion struct {
	bound int
	pfds  []pollFd
	plug  map[int]bool // placeholders (the rest is infrastructure)
	lost  []int        // infrastructure numbers found closed (cannot be restored)
}

// occupy plugs every free number below bound; called once, after newInfra.
func occupy(bound int) *lowRegion {
	var lim syscall.Rlimit
	must(syscall.Getrlimit(syscall.RLIMIT_NOFILE, &lim))
	if lim.Cur < uint64(bound+512) {
		if lim.Max < uint64(bound+512) {
			panic(fmt.Sprintf("high-descriptor mode needs RLIMIT_NOFILE >= %d (hard limit is %d)", bound+512, lim.Max))
		}
		lim.Cur = lim.Max
		must(syscall.Setrlimit(syscall.RLIMIT_NOFILE, &lim))
	}
	lr := &lowRegion{bound: bound, plug: map[int]bool{}}
	infra := census()
	for {
		fd, err := syscall.Open("/dev/null", syscall.O_RDWR|syscall.O_CLOEXEC, 0)
		must(err)
		if fd >= bound {
			syscall.Close(fd)
			break
		}
		lr.plug[fd] = true
	}
	for _, fd := range infra {
		if fd < bound {
			lr.pfds = append(lr.pfds, pollFd{fd: int32(fd)})
		}
	}
	for fd := range lr.plug {
		lr.pfds = append(lr.pfds, pollFd{fd: int32(fd), events: pollIn | pollOut})
	}
	sort.Slice(lr.pfds, func(i, j int) bool { return lr.pfds[i].fd < lr.pfds[j].fd })
	censusLo = bound
	return lr
}

// check returns the numbers below the bound that were closed (or replaced)
// since the last call, and plugs them again.
func (lr *lowRegion) check() []int {
	for {
		_, _, e := syscall.Syscall(syscall.SYS_POLL, uintptr(unsafe.Pointer(&lr.pfds[0])), uintptr(len(lr.pfds)), 0)
		if e == 0 {
			break
		}
		if e != syscall.EINTR {
			panic(fmt.Sprintf("lowCheck: poll: %v", e))
		}
	}
	var bad []int
	for i := range lr.pfds {
		p := &lr.pfds[i]
		fd := int(p.fd)
		if lr.plug[fd] {
			if p.revents&pollNval != 0 || p.revents&(pollIn|pollOut) != pollIn|pollOut {
				bad = append(bad, fd)
			}
		} else if p.revents&pollNval != 0 && !contains(lr.lost, fd) {
			bad = append(bad, fd)
			lr.lost = append(lr.lost, fd)
		}
	}
	if len(bad) == 0 {
		return nil
	}
	// restore the placeholders: a replaced one is closed first, then /dev/null is opened until the holes are gone
	for _, fd := range bad {
		if lr.plug[fd] && isOpen(fd) {
			syscall.Close(fd)
		}
	}
	for {
		fd, err := syscall.Open("/dev/null", syscall.O_RDWR|syscall.O_CLOEXEC, 0)
		must(err)
		if fd >= lr.bound {
			syscall.Close(fd)
			break
		}
		if !lr.plug[fd] {
			// the hole of a lost infrastructure descriptor: keep it occupied
			lr.plug[fd] = true
			for i := range lr.pfds {
				if int(lr.pfds[i].fd) == fd {
					lr.pfds[i].events = pollIn | pollOut
				}
			}
		}
	}
	return bad
}
