// Package wsdec replays decoder scenarios (C07) against the real
// websocket.FrameCodec on a real sonic.ByteBuffer and records what a user of
// the codec can observe.
//
// A scenario is a list of steps in the event schema of the trace:
//
//	New(max)                      fresh codec and buffers
//	Bytes(segs)                   bytes the peer will send (explicit bytes or an opaque count
//	                              that is filled from the position generator)
//	Enc(fin,rsv,op,m,plen,reuse)  build a frame through the Frame API and FrameCodec.Encode it;
//	                              the encoder's output is what the peer will send
//	Dec(take)                     append `take` more bytes (-1: all) to the decoder's buffer, Decode
//
// Every scenario is executed twice on fresh objects: first a baseline run
// (all bytes in one piece, Decode until it stops yielding frames), then the
// scripted run with the scenario's splits (followed by the same drain), so that
// the monitor can compare outcomes of the same bytes under different splits.
package wsdec

import (
	"bytes"
	"encoding/json"
	"errors"
	"fmt"

	"github.com/talostrading/sonic"
	"github.com/talostrading/sonic/codec/websocket"
	"github.com/talostrading/sonic/sonicerrors"

	"verifharness/internal/tr"
)

type Seg struct {
	N int   `json:"n"`
	B []int `json:"b"`
}

type Ev struct {
	C     string `json:"c"`
	Ev    string `json:"ev"`
	Sid   int    `json:"sid"`
	I     int    `json:"i"`
	Max   int    `json:"max"`
	Segs  []Seg  `json:"segs"`
	Take  int    `json:"take"`
	Kind  string `json:"kind"`
	Flen  int    `json:"flen"`
	Fok   int    `json:"fok"`
	Blen  int    `json:"blen"`
	Grow  int    `json:"grow"`
	Rl    int    `json:"rl"`
	Wl    int    `json:"wl"`
	Fin   int    `json:"fin"`
	Rsv   int    `json:"rsv"`
	Op    int    `json:"op"`
	M     int    `json:"m"`
	Plen  int    `json:"plen"`
	Pok   int    `json:"pok"`
	Reuse int    `json:"reuse"`
}

const explicitHead = 14 // bytes of an encoded frame that are logged explicitly

// genByte is the content of an opaque stream byte at stream offset pos.
func genByte(pos int) byte { return byte((pos*131 + 7) ^ (pos >> 8)) }

// payByte is byte j of the payload of the k-th encoded frame.
func payByte(k, j int) byte { return byte(j*31 + 17 + k*101) }

type submitted struct {
	payload []byte
}

type runState struct {
	src, dst *sonic.ByteBuffer
	codec    *websocket.FrameCodec
	stream   []byte // every byte announced in this run
	fed      int    // bytes given to the decoder
	q        int    // stream offset at which the next frame must start
	subm     []submitted
	dead     bool // a panic was recovered: no further calls in this run
}

func newRun(max int) *runState {
	r := &runState{src: sonic.NewByteBuffer(), dst: sonic.NewByteBuffer()}
	r.codec = websocket.NewFrameCodec(r.src, r.dst, max)
	return r
}

func clamp31(v int) int {
	if v < 0 {
		return -1
	}
	if v > 1<<31-1 {
		return 1<<31 - 1
	}
	return v
}

func b2i(b bool) int {
	if b {
		return 1
	}
	return 0
}

func segsOf(b []byte, explicit int) []Seg {
	if len(b) == 0 {
		return []Seg{}
	}
	if explicit > len(b) {
		explicit = len(b)
	}
	var out []Seg
	if explicit > 0 {
		s := Seg{N: explicit, B: make([]int, explicit)}
		for i := 0; i < explicit; i++ {
			s.B[i] = int(b[i])
		}
		out = append(out, s)
	}
	if len(b) > explicit {
		out = append(out, Seg{N: len(b) - explicit, B: []int{}})
	}
	return out
}

// materialise turns the segments of a Bytes step into concrete bytes.
func (r *runState) materialise(segs []Seg) []byte {
	var out []byte
	pos := len(r.stream)
	for _, s := range segs {
		if len(s.B) > 0 {
			for _, v := range s.B {
				out = append(out, byte(v))
			}
			pos += len(s.B)
		} else {
			for k := 0; k < s.N; k++ {
				out = append(out, genByte(pos))
				pos++
			}
		}
	}
	return out
}

func normSegs(segs []Seg) []Seg {
	out := make([]Seg, 0, len(segs))
	for _, s := range segs {
		if s.B == nil {
			s.B = []int{}
		}
		if len(s.B) > 0 {
			s.N = len(s.B)
		}
		if s.N > 0 {
			out = append(out, s)
		}
	}
	return out
}

// encode builds a frame through the public Frame API and encodes it.
func (r *runState) encode(g Ev, prev **websocket.Frame) (e Ev, enc []byte) {
	e = Ev{C: "wsdec", Ev: "Enc", Fin: g.Fin, Rsv: g.Rsv, Op: g.Op, M: g.M, Plen: g.Plen, Reuse: g.Reuse,
		Segs: []Seg{}, Kind: "ok", Pok: -1}
	k := len(r.subm)
	payload := make([]byte, g.Plen)
	for j := range payload {
		payload[j] = payByte(k, j)
	}
	func() {
		defer func() {
			if p := recover(); p != nil {
				e.Kind = "panic"
			}
		}()
		var f *websocket.Frame
		if g.Reuse == 1 && *prev != nil {
			f = *prev
			f.Reset() // what the stream's pool does between uses
		} else {
			nf := websocket.NewFrame()
			f = &nf
		}
		if g.M == 1 {
			f.SetIsMasked() // reserve the key before the payload is placed (AcquireFrame)
		}
		if g.Fin == 1 {
			f.SetFIN()
		}
		if g.Rsv&4 != 0 {
			f.SetRSV1()
		}
		if g.Rsv&2 != 0 {
			f.SetRSV2()
		}
		if g.Rsv&1 != 0 {
			f.SetRSV3()
		}
		f.SetOpcode(websocket.Opcode(g.Op))
		f.SetPayload(payload)
		if g.M == 1 {
			f.MaskPayload()
		}
		*prev = f
		before := r.dst.ReadLen()
		if err := r.codec.Encode(*f, r.dst); err != nil {
			e.Kind = "error"
			return
		}
		enc = append([]byte(nil), r.dst.Data()[before:]...)
		r.dst.Consume(r.dst.ReadLen())
	}()
	if e.Kind == "ok" {
		e.Segs = segsOf(enc, explicitHead)
		r.subm = append(r.subm, submitted{payload: payload})
		r.stream = append(r.stream, enc...)
	}
	return e, enc
}

// decode appends `take` bytes and calls Decode once.
func (r *runState) decode(take int) (e Ev) {
	e = Ev{C: "wsdec", Ev: "Dec", Take: take, Segs: []Seg{}, Pok: -1}
	avail := len(r.stream) - r.fed
	n := take
	if n < 0 || n > avail {
		n = avail
	}
	if n > 0 {
		_, _ = r.src.Write(r.stream[r.fed : r.fed+n])
		r.fed += n
	}
	capBefore := r.src.Cap()
	var (
		f   websocket.Frame
		err error
	)
	func() {
		defer func() {
			if p := recover(); p != nil {
				e.Kind = "panic"
				r.dead = true
			}
		}()
		f, err = r.codec.Decode(r.src)
	}()
	if e.Kind == "panic" {
		return e
	}
	e.Grow = r.src.Cap() - capBefore
	e.Blen = r.src.Len()
	e.Rl, e.Wl = r.src.ReadLen(), r.src.WriteLen()
	switch {
	case err == nil && f != nil:
		e.Kind = "frame"
		e.Flen = len(f)
		if r.q+len(f) <= r.fed && bytes.Equal(f, r.stream[r.q:r.q+len(f)]) {
			e.Fok = 1
		}
		r.q += len(f)
		func() {
			defer func() {
				if p := recover(); p != nil {
					e.Plen, e.Pok = -1, 0
				}
			}()
			e.Fin = b2i(f.IsFIN())
			e.Rsv = b2i(f.IsRSV1())*4 + b2i(f.IsRSV2())*2 + b2i(f.IsRSV3())
			e.Op = int(f.Opcode())
			e.M = b2i(f.IsMasked())
			e.Plen = clamp31(f.PayloadLength())
			if len(r.subm) > 0 {
				want := r.subm[0].payload
				r.subm = r.subm[1:]
				cp := websocket.Frame(append([]byte(nil), f...))
				cp.UnmaskPayload()
				e.Pok = b2i(bytes.Equal(cp.Payload(), want))
			}
		}()
	case err == nil:
		e.Kind = "error" // nil frame without an error is not one of the three answers
	case errors.Is(err, sonicerrors.ErrNeedMore):
		e.Kind = "needmore"
	case errors.Is(err, websocket.ErrPayloadOverMaxSize):
		e.Kind = "toobig"
	default:
		e.Kind = "error"
	}
	return e
}

type scenario struct {
	w     *tr.Writer
	sid   int
	i     int
	sum   *tr.Summary
	split bool // a frame or error was produced after a needmore in the scripted run
}

func (s *scenario) emit(e Ev) {
	s.i++
	e.Sid, e.I = s.sid, s.i
	if e.Segs == nil {
		e.Segs = []Seg{}
	}
	s.w.Emit(e)
}

func (s *scenario) drain(r *runState) {
	for k := 0; k < 64 && !r.dead; k++ {
		e := r.decode(-1)
		s.emit(e)
		if e.Kind != "frame" {
			return
		}
	}
}

func (s *scenario) play(steps []Ev) error {
	if len(steps) == 0 || steps[0].Ev != "New" {
		return fmt.Errorf("scenario must start with New")
	}
	max := steps[0].Max
	s.emit(Ev{C: "wsdec", Ev: "New", Max: max, Pok: -1})

	// ---- baseline run: everything in one piece
	base := newRun(max)
	var prev *websocket.Frame
	encoded := map[int][]byte{}
	for idx, g := range steps[1:] {
		switch g.Ev {
		case "Bytes":
			segs := normSegs(g.Segs)
			base.stream = append(base.stream, base.materialise(segs)...)
			s.emit(Ev{C: "wsdec", Ev: "Bytes", Segs: segs, Pok: -1})
		case "Enc":
			e, enc := base.encode(g, &prev)
			s.emit(e)
			if e.Kind != "ok" {
				s.emit(Ev{C: "wsdec", Ev: "End", Pok: -1})
				return nil
			}
			encoded[idx] = enc
		case "Dec":
		default:
			return fmt.Errorf("unknown step %q", g.Ev)
		}
	}
	s.drain(base)

	// ---- scripted run
	s.emit(Ev{C: "wsdec", Ev: "Run", Pok: -1})
	r := newRun(max)
	// the payloads the round trip has to give back (the baseline used up its own queue)
	k := 0
	for _, g := range steps[1:] {
		if g.Ev == "Enc" {
			p := make([]byte, g.Plen)
			for j := range p {
				p[j] = payByte(k, j)
			}
			k++
			r.subm = append(r.subm, submitted{payload: p})
		}
	}
	sawNeedMore := false
	for idx, g := range steps[1:] {
		if r.dead {
			break
		}
		switch g.Ev {
		case "Bytes":
			segs := normSegs(g.Segs)
			r.stream = append(r.stream, r.materialise(segs)...)
			s.emit(Ev{C: "wsdec", Ev: "Bytes", Segs: segs, Pok: -1})
		case "Enc":
			enc := encoded[idx]
			r.stream = append(r.stream, enc...)
			s.emit(Ev{C: "wsdec", Ev: "Bytes", Segs: segsOf(enc, explicitHead), Pok: -1})
		case "Dec":
			e := r.decode(g.Take)
			s.emit(e)
			if e.Kind == "needmore" {
				sawNeedMore = true
			} else if sawNeedMore {
				s.split = true
			}
			if g.Kind != "" && (g.Kind != e.Kind || g.Flen != e.Flen || g.Rl != e.Rl || g.Wl != e.Wl) {
				s.sum.Drift++
				if s.sum.FirstDrift == nil {
					s.sum.FirstDrift = map[string]any{"sid": s.sid, "step": idx + 2, "predicted": g, "observed": e}
				}
			}
		}
	}
	s.drain(r)
	s.emit(Ev{C: "wsdec", Ev: "End", Pok: -1})
	return nil
}

// Run replays every scenario of `in` and writes the recorded trace to `out`.
func Run(a tr.Args) error {
	w, err := tr.NewWriter(a.Out)
	if err != nil {
		return err
	}
	sum := tr.Summary{Component: "wsdec"}
	err = tr.Behaviours(a.In, func(idx int, raw json.RawMessage) error {
		var steps []Ev
		if err := json.Unmarshal(raw, &steps); err != nil {
			return err
		}
		s := &scenario{w: w, sid: idx, sum: &sum}
		sum.Scenarios++
		if err := s.play(steps); err != nil {
			return err
		}
		if s.split {
			sum.Nontrivial++
		}
		return nil
	})
	if err != nil {
		return err
	}
	sum.Events = w.N
	if err := w.Close(); err != nil {
		return err
	}
	sum.Print()
	return nil
}
