// Package dgram replays generated datagram scenarios (DatagramImpl histories)
// on real sockets: sonic.PacketConn on loopback, multicast.UDPPeer on the
// multicast-capable interface, raw harness sockets as senders/receivers, and
// records what it observes for validation against DatagramMon.
//
// Negative observations are never sleeps: after every send the driver sends a
// sentinel datagram along the same path (same pinned CPU, hence the same
// per-CPU backlog queue, which is FIFO) to a raw control socket that can
// receive it and waits for the sentinel; whatever was sent before has then
// been processed by the receive path. At the end every receiver is read dry
// through the sonic API, so a datagram that was delivered although the model
// says it must not be shows up as a read the monitor cannot match.
package dgram

import (
	"encoding/json"
	"fmt"
	"hash/fnv"
	"math/rand"
	"net"
	"net/netip"
	"strconv"
	"strings"
	"time"

	"github.com/talostrading/sonic"
	"github.com/talostrading/sonic/multicast"
	"golang.org/x/sys/unix"

	"verifharness/internal/tr"
)

// Ev is one recorded observation (uniform schema, see DatagramMon).
type Ev struct {
	C     string   `json:"c"`
	Ev    string   `json:"ev"`
	Sid   int      `json:"sid"`
	I     int      `json:"i"`
	P     int      `json:"p"`
	Kind  string   `json:"kind"`
	Api   string   `json:"api"`
	Op    int      `json:"op"`
	G     string   `json:"g"`
	Src   string   `json:"src"`
	Port  int      `json:"port"`
	Sport int      `json:"sport"`
	Ip    string   `json:"ip"`
	Err   string   `json:"err"`
	N     int      `json:"n"`
	Did   int      `json:"did"`
	Len   int      `json:"len"`
	Buf   int      `json:"buf"`
	Cap   int      `json:"cap"`
	Ok    int      `json:"ok"`
	Dirty int      `json:"dirty"`
	Mc    int      `json:"mc"`
	Loop  int      `json:"loop"`
	Cnt   int      `json:"cnt"`
	Inl   int      `json:"inl"`
	Got   []string `json:"got"`
	Kern  []string `json:"kern"`
}

// Step is one generated step (fields depend on A).
type Step struct {
	A       string          `json:"a"`
	Kind    string          `json:"kind"`
	Binds   []string        `json:"binds"`
	Writer  bool            `json:"writer"`
	Prejoin bool            `json:"prejoin"`
	Groups  []string        `json:"groups"`
	Wbind   string          `json:"wbind"`
	P       int             `json:"p"`
	Api     string          `json:"api"`
	G       string          `json:"g"`
	S       string          `json:"s"`
	Cls     string          `json:"cls"`
	Buf     int             `json:"buf"`
	Lim     bool            `json:"lim"`
	V       int             `json:"v"`
	Snd     int             `json:"snd"`
	N       int             `json:"n"`    // burst length
	Size    int             `json:"size"` // explicit size (driver-made scenarios), 0 = by class
	X       json.RawMessage `json:"x"`
	W       bool            `json:"w"`
}

const writerID = 3

type pending struct {
	op  int
	api string
}

type sock struct {
	id   int
	kind string
	peer *multicast.UDPPeer
	pc   sonic.PacketConn
	fd   int
	ip   string
	port int
	bufs map[int][]byte
	pend *pending
	bad  int // corrupt datagrams sent to this socket (each is discarded by the receive call that meets it)
	// parked/finished async write
	wop   int
	wapi  string
	wcbs  int
	werr  error
	wn    int
	wdid  int
	wlen  int
	wdst  string
	wport int
}

type env struct {
	d       *driver
	kind    string
	ioc     *sonic.IO
	socks   map[int]*sock
	order   []int
	x       int // raw receiver / sentinel receiver
	xip     string
	xport   int
	ctl     int // raw socket that sends sentinels
	ctlDst  unix.SockaddrInet4
	senders map[int]int // raw sender fds
	groups  map[string]string
	srcs    map[string]string
	port    int
	seq     int
	did     int
	op      int
	capBig  int
	capSml  int
	rbuf    []byte
	oob     []byte
	nontriv bool
	closed  bool
}

type driver struct {
	w    *tr.Writer
	sum  tr.Summary
	rng  *rand.Rand
	seed int64
	lane int
	big  bool
	mtu  int
	ifc  *mcIface
	sid  int
	i    int
	info map[string]int
}

func (d *driver) emit(e Ev) {
	e.C = "dg"
	e.Sid = d.sid
	d.i++
	e.I = d.i
	if e.Got == nil {
		e.Got = []string{}
	}
	if e.Kern == nil {
		e.Kern = []string{}
	}
	d.w.Emit(e)
}

func (d *driver) drift(what string, step int, pred, obs any) {
	d.sum.Drift++
	if d.sum.FirstDrift == nil {
		d.sum.FirstDrift = map[string]any{"sid": d.sid, "step": step, "what": what, "predicted": pred, "observed": obs}
	}
}

// ---- environment -----------------------------------------------------------

func (d *driver) newEnv(cfg Step) (*env, error) {
	e := &env{d: d, kind: cfg.Kind, socks: map[int]*sock{}, senders: map[int]int{}, groups: map[string]string{},
		srcs: map[string]string{}, x: -1, ctl: -1, capBig: 9000, capSml: 512,
		rbuf: make([]byte, 66000), oob: make([]byte, 256)}
	if d.big {
		e.capBig = 65536
	}
	ioc, err := sonic.NewIO()
	if err != nil {
		return nil, err
	}
	e.ioc = ioc
	if cfg.Kind == "mc" {
		if d.ifc == nil {
			return nil, ErrNoMulticast
		}
		oct := 1 + int((d.seed*7+int64(d.lane)*41+int64(d.sid))%250)
		for k, g := range cfg.Groups {
			e.groups[g] = fmt.Sprintf("239.77.%d.%d", oct, k+1)
		}
		gc := fmt.Sprintf("239.77.%d.%d", oct, 200)
		e.srcs["real"] = d.ifc.ipString()
		ph := d.ifc.ip
		ph[3] = 77
		if ph == d.ifc.ip {
			ph[3] = 78
		}
		e.srcs["phantom"] = ipStr(ph)
		// raw receiver: member of every group and of the control group
		// the port is taken from a plain socket first (a plain bind conflicts with every
		// other socket, so nobody else is on it), then re-bound with the reuse options
		for try := 0; ; try++ {
			tmp, port, err := rawUDP("0.0.0.0", 0, false)
			if err != nil {
				return nil, err
			}
			unix.Close(tmp)
			e.x, e.port, err = rawUDP("0.0.0.0", port, true)
			if err == nil {
				break
			}
			if try > 20 {
				return nil, err
			}
		}
		e.xip, e.xport = "0.0.0.0", e.port
		_ = unix.SetsockoptInt(e.x, unix.IPPROTO_IP, unix.IP_PKTINFO, 1)
		_ = unix.SetsockoptInt(e.x, unix.IPPROTO_IP, 49 /* IP_MULTICAST_ALL */, 0)
		for _, g := range e.groups {
			if err := joinRaw(e.x, g, d.ifc.ip); err != nil {
				return nil, fmt.Errorf("raw join %s: %w", g, err)
			}
		}
		if err := joinRaw(e.x, gc, d.ifc.ip); err != nil {
			return nil, fmt.Errorf("raw join %s: %w", gc, err)
		}
		e.ctlDst = unix.SockaddrInet4{Port: e.port, Addr: ip4(gc)}
		for _, id := range []int{0, 1} { // 0 = sentinel sender, 1 = traffic sender
			fd, _, err := rawUDP(d.ifc.ipString(), 0, false)
			if err != nil {
				return nil, err
			}
			if err := unix.SetsockoptInet4Addr(fd, unix.IPPROTO_IP, unix.IP_MULTICAST_IF, d.ifc.ip); err != nil {
				return nil, err
			}
			if id == 0 {
				e.ctl = fd
			} else {
				e.senders[id] = fd
			}
		}
	} else {
		e.x, e.xport, err = rawUDP("127.0.0.1", 0, false)
		if err != nil {
			return nil, err
		}
		e.xip = "127.0.0.1"
		_ = unix.SetsockoptInt(e.x, unix.IPPROTO_IP, unix.IP_PKTINFO, 1)
		e.ctlDst = unix.SockaddrInet4{Port: e.xport, Addr: ip4("127.0.0.1")}
		e.ctl, _, err = rawUDP("127.0.0.1", 0, false)
		if err != nil {
			return nil, err
		}
	}
	return e, nil
}

func (e *env) close() {
	if e.closed {
		return
	}
	e.closed = true
	for _, id := range e.order {
		s := e.socks[id]
		if s.peer != nil {
			_ = s.peer.Close()
		}
		if s.pc != nil {
			_ = s.pc.Close()
		}
	}
	for _, fd := range e.senders {
		unix.Close(fd)
	}
	if e.x >= 0 {
		unix.Close(e.x)
	}
	if e.ctl >= 0 {
		unix.Close(e.ctl)
	}
	_ = e.ioc.Close()
}

// flush sends a sentinel behind everything sent so far and waits for it at
// the raw receiver; returns the datagrams the raw receiver saw before it.
func (e *env) flush() ([]*wire, error) {
	e.seq++
	mark := []byte{0, 0xC1, byte(e.seq), byte(e.seq >> 8)}
	if err := unix.Sendto(e.ctl, mark, 0, &e.ctlDst); err != nil {
		return nil, fmt.Errorf("sentinel send: %w", err)
	}
	var got []*wire
	deadline := time.Now().Add(5 * time.Second)
	for {
		w, err := recvWire(e.x, e.rbuf, e.oob)
		if err == unix.EAGAIN || err == unix.EINTR {
			left := time.Until(deadline)
			if left <= 0 {
				return nil, fmt.Errorf("sentinel %d did not arrive within 5s (scenario %d)", e.seq, e.d.sid)
			}
			if _, err := pollFd(e.x, unix.POLLIN, left); err != nil {
				return nil, err
			}
			continue
		}
		if err != nil {
			return nil, fmt.Errorf("raw receiver: %w", err)
		}
		if len(w.data) == 4 && w.data[0] == 0 && w.data[1] == 0xC1 {
			if int(w.data[2])|int(w.data[3])<<8 == e.seq&0xffff {
				return got, nil
			}
			continue
		}
		got = append(got, w)
	}
}

// ---- sockets under test ----------------------------------------------------

func (e *env) addSock(s *sock) {
	e.socks[s.id] = s
	e.order = append(e.order, s.id)
	s.bufs = map[int][]byte{1: make([]byte, e.capBig), 2: make([]byte, e.capSml)}
}

// portTaken: an ephemeral bind of a socket with SO_REUSEADDR/SO_REUSEPORT (every
// UDPPeer) may be given a port that another reuse socket already holds, e.g. the
// raw receiver's or another peer's of this scenario; that would silently change
// the topology (unicast balanced between them), so such a peer is re-created.
func (e *env) portTaken(port int) bool {
	if port == e.port || port == e.xport {
		return true
	}
	for _, o := range e.socks {
		if o.port == port {
			return true
		}
	}
	return false
}

// foreignOn: a socket that is not of this scenario is bound to the port. Every UDPPeer
// has SO_REUSEADDR and SO_REUSEPORT, so an ephemeral bind made by another process
// (a parallel driver, the library's own tests) may be given a port one of this
// scenario's peers holds; unicast to it is then balanced between the two.
func (e *env) foreignOn(port int) bool {
	own := map[uint64]bool{inodeOf(e.x): true}
	for _, o := range e.socks {
		own[inodeOf(o.fd)] = true
	}
	for ino := range udpPortInodes(port) {
		if !own[ino] {
			return true
		}
	}
	return false
}

var errForeign = fmt.Errorf("a socket of another process shares a port of this scenario: address already in use")

func (e *env) openPeer(id int, addr string) error {
	var p *multicast.UDPPeer
	var s *sock
	var ev Ev
	for try := 0; ; try++ {
		var err error
		p, err = multicast.NewUDPPeer(e.ioc, "udp", addr)
		ev = Ev{Ev: "Open", P: id, Kind: "mc", Api: addr, Err: errClass(err)}
		if err != nil {
			e.d.emit(ev)
			return fmt.Errorf("NewUDPPeer(%q): %w", addr, err)
		}
		s = &sock{id: id, kind: "mc", peer: p, fd: p.NextLayer().RawFd()}
		s.ip, s.port, err = sockName(s.fd)
		if err != nil {
			return err
		}
		ephemeral := addr == "" || strings.HasSuffix(addr, ":0")
		if !ephemeral || try > 8 || !(e.portTaken(s.port) || len(udpPortInodes(s.port)) > 1) {
			break
		}
		e.d.info["ephemeral port collided with another reuse socket, peer re-created"]++
		_ = p.Close()
	}
	ev.Ip, ev.Port = s.ip, s.port
	e.addSock(s)
	e.d.emit(ev)
	e.sample(s, "Open")
	return nil
}

func (e *env) openPc(id int, addr string) error {
	c, err := sonic.NewPacketConn(e.ioc, "udp", addr)
	ev := Ev{Ev: "Open", P: id, Kind: "pc", Api: addr, Err: errClass(err)}
	if err != nil {
		e.d.emit(ev)
		return fmt.Errorf("NewPacketConn(%q): %w", addr, err)
	}
	s := &sock{id: id, kind: "pc", pc: c, fd: c.RawFd()}
	s.ip, s.port, err = sockName(s.fd)
	if err != nil {
		return err
	}
	ev.Ip, ev.Port = s.ip, s.port
	e.addSock(s)
	e.d.emit(ev)
	// PacketConn.LocalAddr() is outside the statement (it lists the settings of
	// a multicast peer); recorded for the notes only.
	if la := c.LocalAddr(); la == nil || la.String() != fmt.Sprintf("%s:%d", s.ip, s.port) {
		e.d.info["packetconn LocalAddr() differs from getsockname"]++
	}
	return nil
}

func (e *env) sample(s *sock, after string) {
	if s.peer == nil {
		return
	}
	ev := Ev{Ev: "Sample", P: s.id, Api: after}
	la := s.peer.LocalAddr()
	gotLa := ""
	if la != nil {
		gotLa = la.String()
	}
	kip, kport, _ := sockName(s.fd)
	oif, oip := s.peer.Outbound()
	oifName := ""
	if oif != nil {
		oifName = oif.Name
	}
	kttl, _ := unix.GetsockoptInt(s.fd, unix.IPPROTO_IP, unix.IP_MULTICAST_TTL)
	kloop, _ := unix.GetsockoptInt(s.fd, unix.IPPROTO_IP, unix.IP_MULTICAST_LOOP)
	kif, _ := unix.GetsockoptInet4Addr(s.fd, unix.IPPROTO_IP, unix.IP_MULTICAST_IF)
	b := func(v bool) string {
		if v {
			return "1"
		}
		return "0"
	}
	ev.Got = []string{gotLa, strconv.Itoa(int(s.peer.TTL())), b(s.peer.Loop()), oifName, oip.String()}
	ev.Kern = []string{fmt.Sprintf("%s:%d", kip, kport), strconv.Itoa(kttl), b(kloop != 0), ifaceOwning(ipStr(kif)), ipStr(kif)}
	e.d.emit(ev)
}

// ---- reads -----------------------------------------------------------------

// inspect finds where the data of a completed read went.
func (s *sock) inspect(n int) (did, ok, inbuf, dirty int) {
	var touched []int
	for _, id := range []int{1, 2, 3} {
		if b, has := s.bufs[id]; has && !allZero(b) {
			touched = append(touched, id)
		}
	}
	defer func() {
		for _, id := range touched {
			b := s.bufs[id]
			for k := range b {
				b[k] = 0
			}
		}
	}()
	if len(touched) == 0 {
		return 0, 0, 0, 0
	}
	best := touched[0]
	for _, id := range touched {
		b := s.bufs[id]
		if n <= len(b) {
			if _, m := matches(b[:n]); m && n > 0 {
				best = id
				break
			}
		}
	}
	if len(touched) > 1 {
		dirty = 1
	}
	b := s.bufs[best]
	inbuf = best
	if n < 0 || n > len(b) {
		return int(b[0]), 0, inbuf, dirty
	}
	d, m := matches(b[:n])
	did = d
	if m && allZero(b[n:]) {
		ok = 1
	}
	return
}

func addrOf(a net.Addr) (string, int) {
	switch t := a.(type) {
	case *net.TCPAddr:
		return t.IP.String(), t.Port
	case *net.UDPAddr:
		return t.IP.String(), t.Port
	}
	return "", 0
}

func (e *env) rdDone(s *sock, op int, api string, err error, n int, ip string, port int, inline bool) {
	ev := Ev{Ev: "RdDone", P: s.id, Op: op, Api: api, Err: errClass(err), N: n, Ip: ip, Port: port}
	if inline {
		ev.Inl = 1
	}
	ev.Did, ev.Ok, ev.Buf, ev.Dirty = s.inspect(n)
	if err != nil {
		ev.Ip, ev.Port = "", 0
	}
	if s.pend != nil && s.pend.op == op {
		s.pend = nil
	}
	e.d.emit(ev)
}

func (e *env) withLimit(lim bool, f func()) {
	if lim {
		e.ioc.Dispatched = sonic.MaxCallbackDispatch
	}
	f()
	if lim {
		e.ioc.Dispatched = 0
	}
}

// read issues one read; returns "done", "parked" or "wouldblock".
func (e *env) read(s *sock, api string, buf int, lim bool) string {
	e.op++
	op := e.op
	b := s.bufs[buf]
	e.d.emit(Ev{Ev: "RdCall", P: s.id, Op: op, Api: api, Buf: buf, Cap: len(b)})
	s.pend = &pending{op: op, api: api}
	returned := false
	switch api {
	case "Read":
		n, addr, err := s.peer.Read(b)
		e.rdDone(s, op, api, err, n, addr.Addr().String(), int(addr.Port()), true)
	case "ReadFrom":
		n, addr, err := s.pc.ReadFrom(b)
		ip, port := addrOf(addr)
		e.rdDone(s, op, api, err, n, ip, port, true)
	case "AsyncRead":
		e.withLimit(lim, func() {
			s.peer.AsyncRead(b, func(err error, n int, addr netip.AddrPort) {
				ip := ""
				if addr.IsValid() {
					ip = addr.Addr().String()
				}
				e.rdDone(s, op, api, err, n, ip, int(addr.Port()), !returned)
			})
		})
	case "AsyncReadFrom", "AsyncReadAllFrom":
		cb := func(err error, n int, addr net.Addr) {
			ip, port := addrOf(addr)
			e.rdDone(s, op, api, err, n, ip, port, !returned)
		}
		e.withLimit(lim, func() {
			if api == "AsyncReadFrom" {
				s.pc.AsyncReadFrom(b, cb)
			} else {
				s.pc.AsyncReadAllFrom(b, cb)
			}
		})
	default:
		panic("unknown read api " + api)
	}
	returned = true
	if s.pend != nil {
		return "parked"
	}
	return "done"
}

// readChain issues an asynchronous read whose callback issues the next one
// (same buffer): completions nest inline until a read parks. Returns the
// number of completed reads.
func (e *env) readChain(s *sock, api string, buf int) int {
	b := s.bufs[buf]
	done := 0
	chaining := true // the callback stops re-issuing once this step is over
	var issue func()
	issue = func() {
		e.op++
		op := e.op
		e.d.emit(Ev{Ev: "RdCall", P: s.id, Op: op, Api: api, Buf: buf, Cap: len(b)})
		s.pend = &pending{op: op, api: api}
		returned := false
		again := func(err error) {
			if err == nil {
				done++
				if chaining && done < 200 {
					issue()
				}
			}
		}
		if api == "AsyncRead" {
			s.peer.AsyncRead(b, func(err error, n int, addr netip.AddrPort) {
				ip := ""
				if addr.IsValid() {
					ip = addr.Addr().String()
				}
				e.rdDone(s, op, api, err, n, ip, int(addr.Port()), !returned)
				again(err)
			})
		} else {
			s.pc.AsyncReadFrom(b, func(err error, n int, addr net.Addr) {
				ip, port := addrOf(addr)
				e.rdDone(s, op, api, err, n, ip, port, !returned)
				again(err)
			})
		}
		returned = true
	}
	issue()
	chaining = false
	return done
}

// ---- writes ----------------------------------------------------------------

func (e *env) kernLoop(s *sock) int {
	v, _ := unix.GetsockoptInt(s.fd, unix.IPPROTO_IP, unix.IP_MULTICAST_LOOP)
	if v != 0 {
		return 1
	}
	return 0
}

// finishWrite logs the write and what the raw receiver saw of it.
func (e *env) finishWrite(s *sock, async bool) error {
	mc := 0
	if net.ParseIP(s.wdst).IsMulticast() {
		mc = 1
	}
	ev := Ev{Ev: "Wr", P: s.id, Op: s.wop, Api: s.wapi, G: s.wdst, Port: s.wport, Mc: mc, Loop: e.kernLoop(s),
		Did: s.wdid, Len: s.wlen, N: s.wn, Err: errClass(s.werr), Cnt: s.wcbs}
	if !async {
		ev.Cnt = 1
	}
	e.d.emit(ev)
	ws, err := e.flush()
	if err != nil {
		return err
	}
	wi := Ev{Ev: "Wire", Op: s.wop, Cnt: len(ws)}
	if len(ws) > 0 {
		w := ws[0]
		did, ok := matches(w.data)
		wi.Did, wi.Len, wi.G, wi.Port, wi.Src, wi.Sport = did, len(w.data), w.dst, e.xport, w.src, w.sport
		if ok {
			wi.Ok = 1
		}
	}
	e.d.emit(wi)
	s.wop = 0
	return nil
}

func (e *env) write(s *sock, api string, dst string, dport int, size int, lim bool) (string, error) {
	e.op++
	e.did++
	s.wop, s.wapi, s.wcbs, s.werr, s.wn = e.op, api, 0, nil, 0
	s.wdid, s.wlen, s.wdst, s.wport = e.did, size, dst, dport
	b := payload(e.did, size)
	ap := netip.AddrPortFrom(netip.MustParseAddr(dst), uint16(dport))
	ua := &net.UDPAddr{IP: net.ParseIP(dst), Port: dport}
	switch api {
	case "Write":
		s.wn, s.werr = s.peer.Write(b, ap)
		return "done", e.finishWrite(s, false)
	case "WriteTo":
		s.werr = s.pc.WriteTo(b, ua)
		if s.werr == nil {
			s.wn = size
		}
		return "done", e.finishWrite(s, false)
	case "AsyncWrite":
		e.withLimit(lim, func() {
			s.peer.AsyncWrite(b, ap, func(err error, n int) { s.wcbs++; s.werr, s.wn = err, n })
		})
	case "AsyncWriteTo":
		e.withLimit(lim, func() {
			s.pc.AsyncWriteTo(b, ua, func(err error) {
				s.wcbs++
				s.werr = err
				if err == nil {
					s.wn = size
				}
			})
		})
	default:
		panic("unknown write api " + api)
	}
	if s.wcbs > 0 {
		return "done", e.finishWrite(s, true)
	}
	if lim {
		return "parked", nil
	}
	// sendto would block (a large datagram sent earlier is still charged to the
	// send buffer): the write reactor is parked; let the loop complete it now
	e.d.info["async write deferred by would-block"]++
	for k := 0; k < 20 && s.wcbs == 0; k++ {
		if err := e.waitWritable(s); err != nil {
			return "parked", err
		}
		if _, err := e.ioc.PollOne(); err != nil {
			return "parked", fmt.Errorf("PollOne: %w", err)
		}
	}
	if s.wcbs == 0 {
		return "parked", nil
	}
	return "done", e.finishWrite(s, true)
}

// ---- poll ------------------------------------------------------------------

// waitWritable waits (poll(2), no sleeping) until the socket of a parked write
// is writable. A large datagram sent through the real interface stays charged
// to the send buffer until the device frees it, which some drivers do only on
// their next transmission; the sentinel provides that transmission.
func (e *env) waitWritable(s *sock) error {
	for k := 0; k < 40; k++ {
		r, err := pollFd(s.fd, unix.POLLOUT, 100*time.Millisecond)
		if err != nil {
			return err
		}
		if r {
			return nil
		}
		if _, err := e.flush(); err != nil {
			return err
		}
	}
	return fmt.Errorf("socket %d did not become writable within 4s (scenario %d)", s.id, e.d.sid)
}

// poll runs PollOne when the kernel says a parked operation is ready.
func (e *env) poll() ([]int, bool, error) {
	ready := false
	for _, id := range e.order {
		s := e.socks[id]
		if s.pend != nil {
			if r, _ := pollFd(s.fd, unix.POLLIN, 0); r {
				ready = true
			}
		}
		if s.wop != 0 {
			if err := e.waitWritable(s); err != nil {
				return nil, false, err
			}
			ready = true
		}
	}
	if !ready {
		return nil, false, nil
	}
	before := map[int]bool{}
	for _, id := range e.order {
		before[id] = e.socks[id].pend != nil
	}
	if _, err := e.ioc.PollOne(); err != nil {
		return nil, false, fmt.Errorf("PollOne: %w", err)
	}
	var doneReads []int
	wrote := false
	for _, id := range e.order {
		s := e.socks[id]
		if before[id] && s.pend == nil {
			doneReads = append(doneReads, id)
		}
		if s.wop != 0 && s.wcbs > 0 {
			wrote = true
			if err := e.finishWrite(s, true); err != nil {
				return nil, false, err
			}
		}
	}
	return doneReads, wrote, nil
}

// drain reads every receiver dry through the sonic API.
func (e *env) drain() error {
	if _, err := e.flush(); err != nil {
		return err
	}
	for _, id := range e.order {
		s := e.socks[id]
		if s.wop != 0 { // a write still parked: let the loop complete it
			for k := 0; k < 5 && s.wop != 0; k++ {
				if _, _, err := e.poll(); err != nil {
					return err
				}
			}
			if s.wop != 0 {
				if err := e.finishWrite(s, true); err != nil {
					return err
				}
			}
		}
	}
	for _, id := range e.order {
		s := e.socks[id]
		if id == writerID && e.kind == "mc" {
			continue
		}
		stalls := 0
		for k := 0; k < 400; k++ {
			if s.pend == nil {
				api := "AsyncRead"
				if s.kind == "pc" {
					api = "AsyncReadFrom"
				}
				if e.read(s, api, 1, false) == "done" {
					continue
				}
			}
			r, err := pollFd(s.fd, unix.POLLIN, 0)
			if err != nil {
				return err
			}
			if !r {
				break
			}
			op := s.pend.op
			if _, err := e.ioc.PollOne(); err != nil {
				return err
			}
			if s.pend != nil && s.pend.op == op {
				// readable, polled, and the parked read is still there: let the monitor see it
				// (a corrupt datagram explains one such round each)
				stalls++
				if stalls > s.bad {
					break
				}
			}
		}
		if n := sockDrops(s.fd); n > s.bad {
			return fmt.Errorf("kernel dropped %d datagrams at receiver %d (receive buffer); scenario %d unusable", n, id, e.d.sid)
		}
	}
	e.d.emit(Ev{Ev: "End"})
	return nil
}

// ---- scenario --------------------------------------------------------------

func (e *env) sizeOf(st Step) int {
	if st.Size > 0 {
		return st.Size
	}
	n := 0
	if st.Cls == "S" {
		small := []int{1, 1, 2, 3, 7, 64, 511, 512}
		n = small[e.d.rng.Intn(len(small))]
		if e.d.rng.Intn(3) == 0 {
			n = 1 + e.d.rng.Intn(e.capSml)
		}
	} else {
		large := []int{513, 514, e.d.mtu - 28, e.d.mtu - 27, 1472, 1473, 4096, 8192}
		top := 8192
		if e.d.big {
			large = append(large, 16384, 32768, 65506, 65507, 65507)
			top = 65507
		}
		n = large[e.d.rng.Intn(len(large))]
		if e.d.rng.Intn(3) == 0 {
			n = e.capSml + 1 + e.d.rng.Intn(top-e.capSml)
		}
	}
	return n
}

// fit keeps a datagram within what every receiver's receive buffer can still
// take (a dropped datagram would be the kernel's doing, not sonic's): a size
// that does not fit is replaced by the smallest size of its class.
func (e *env) fit(n int) int {
	// a parked write will be sent later, on top of whatever is queued by then
	// (Linux >= 6.1x drops when rmem + truesize > rcvbuf on a non-empty queue)
	parked := 0
	for _, id := range e.order {
		if s := e.socks[id]; s.wop != 0 {
			parked += 2*s.wlen + 1024
		}
	}
	for _, id := range e.order {
		s := e.socks[id]
		if !roomFor(s.fd, n, 72*1024+parked) {
			if n > e.capSml {
				return e.capSml + 1 + e.d.rng.Intn(64)
			}
			return n
		}
	}
	return n
}

func xString(x json.RawMessage) string {
	var s string
	_ = json.Unmarshal(x, &s)
	return s
}

func xInts(x json.RawMessage) []int {
	var v []int
	_ = json.Unmarshal(x, &v)
	return v
}

func sameInts(a, b []int) bool {
	if len(a) != len(b) {
		return false
	}
	for i := range a {
		if a[i] != b[i] {
			return false
		}
	}
	return true
}

func (d *driver) scenario(steps []Step) error {
	if len(steps) == 0 || steps[0].A != "Cfg" {
		return fmt.Errorf("behaviour must start with Cfg")
	}
	cfg := steps[0]
	d.i = 0
	d.emit(Ev{Ev: "Begin", Kind: cfg.Kind})
	e, err := d.newEnv(cfg)
	if err != nil {
		return err
	}
	defer e.close()
	// prologue: sockets
	for k, b := range cfg.Binds {
		id := k + 1
		if cfg.Kind == "mc" {
			addr := ""
			switch b {
			case "any":
				addr = fmt.Sprintf(":%d", e.port)
			case "any4":
				addr = fmt.Sprintf("0.0.0.0:%d", e.port)
			case "grp":
				addr = fmt.Sprintf("%s:%d", e.groups[cfg.Groups[0]], e.port)
			case "if":
				addr = fmt.Sprintf("%s:%d", d.ifc.ipString(), e.port)
			case "solo":
				// alone on its port, also with respect to other processes: an ephemeral bind of a
				// reuse socket may land on a port that a foreign reuse socket holds (unicast would
				// then be balanced to it), so the port is taken from a plain socket first
				tmp, port, err := rawUDP("0.0.0.0", 0, false)
				if err != nil {
					return err
				}
				unix.Close(tmp)
				addr = fmt.Sprintf(":%d", port)
			case "empty0":
				addr = ""
			case "lo0":
				addr = "localhost:0"
			case "if0":
				addr = d.ifc.ipString() + ":0"
			case "grp0":
				addr = e.groups[cfg.Groups[0]] + ":0"
			default:
				return fmt.Errorf("unknown bind form %q", b)
			}
			if err := e.openPeer(id, addr); err != nil {
				return err
			}
		} else {
			addr := map[string]string{"lo": "127.0.0.1:0", "localhost": "localhost:0", "empty": "", "port0": ":0"}[b]
			if b == "if" {
				if d.ifc == nil {
					addr = "127.0.0.1:0"
				} else {
					addr = d.ifc.ipString() + ":0"
				}
			}
			if err := e.openPc(id, addr); err != nil {
				return err
			}
		}
	}
	if cfg.Writer {
		waddr := ":0"
		if cfg.Wbind == "if0" {
			waddr = d.ifc.ipString() + ":0"
		}
		if err := e.openPeer(writerID, waddr); err != nil {
			return err
		}
	}
	if cfg.Prejoin {
		for k := range cfg.Binds {
			s := e.socks[k+1]
			for _, g := range cfg.Groups {
				err := s.peer.Join(multicast.IP(e.groups[g]))
				d.emit(Ev{Ev: "Mem", P: s.id, Api: "Join", G: e.groups[g], Err: errClass(err)})
				if err != nil {
					return fmt.Errorf("prologue Join(%s): %w", e.groups[g], err)
				}
			}
		}
	}
	for si, st := range steps[1:] {
		switch st.A {
		case "Mem":
			s := e.socks[st.P]
			g := e.groups[st.G]
			src := e.srcs[st.S]
			var err error
			switch st.Api {
			case "Join":
				err = s.peer.Join(multicast.IP(g))
			case "Leave":
				err = s.peer.Leave(multicast.IP(g))
			case "JoinSource":
				err = s.peer.JoinSource(multicast.IP(g), multicast.SourceIP(src))
			case "LeaveSource":
				err = s.peer.LeaveSource(multicast.IP(g), multicast.SourceIP(src))
			case "Block":
				err = s.peer.BlockSource(multicast.IP(g), multicast.SourceIP(src))
			case "Unblock":
				err = s.peer.UnblockSource(multicast.IP(g), multicast.SourceIP(src))
			default:
				return fmt.Errorf("unknown membership call %q", st.Api)
			}
			d.emit(Ev{Ev: "Mem", P: s.id, Api: st.Api, G: g, Src: src, Err: errClass(err)})
			if p := xString(st.X); p != "" && p != errClass(err) {
				d.drift("membership result", si+1, p, errClass(err))
			}
		case "Uni":
			// unicast to a multicast peer that is alone on its port, to one of the host's addresses
			rcv := e.socks[st.P]
			dip := "127.0.0.1"
			if (st.Snd+st.P)%2 == 0 {
				dip = d.ifc.ipString()
			}
			key := 100 + st.Snd*2 + (st.Snd+st.P)%2
			fd, ok := e.senders[key]
			if !ok {
				fd, _, err = rawUDP(dip, 0, false)
				if err != nil {
					return err
				}
				e.senders[key] = fd
			}
			e.did++
			n := e.fit(e.sizeOf(st))
			ev := Ev{Ev: "Send", Did: e.did, Len: n, G: dip, Port: rcv.port}
			ev.Src, ev.Sport, _ = sockName(fd)
			if e.foreignOn(rcv.port) {
				return errForeign
			}
			serr := unix.Sendto(fd, payload(e.did, n), 0, &unix.SockaddrInet4{Port: rcv.port, Addr: ip4(dip)})
			if e.foreignOn(rcv.port) {
				return errForeign
			}
			ev.Err = errClass(serr)
			d.emit(ev)
			if serr != nil {
				return fmt.Errorf("raw sendto %s:%d (%d bytes): %w", dip, rcv.port, n, serr)
			}
			if _, err := e.flush(); err != nil {
				return err
			}
		case "Corrupt":
			// a datagram with a wrong UDP checksum, longer than the 76 bytes up to which the kernel verifies at
			// arrival: it is queued, the socket polls readable, and the receive call that meets it drops it and
			// reports would-block - readiness without a datagram behind it
			rcv := e.socks[st.P]
			dip := rcv.ip
			if dip == "0.0.0.0" {
				dip = "127.0.0.1"
			}
			rawIP, ok := e.senders[-1]
			if !ok {
				rawIP, err = unix.Socket(unix.AF_INET, unix.SOCK_RAW|unix.SOCK_CLOEXEC, unix.IPPROTO_UDP)
				if err != nil {
					return fmt.Errorf("raw IP socket (needed for corrupt datagrams): %w", err)
				}
				e.senders[-1] = rawIP
			}
			e.did++
			n := 200
			pkt := make([]byte, 8+n)
			sport := 40000 + e.did%1000
			pkt[0], pkt[1] = byte(sport>>8), byte(sport)
			pkt[2], pkt[3] = byte(rcv.port>>8), byte(rcv.port)
			pkt[4], pkt[5] = byte((8+n)>>8), byte(8+n)
			// not the checksum of this datagram. The payload is all zero: the kernel copies a datagram into the
			// caller's buffer while it verifies the checksum, so the discarded bytes do land there - zeros leave
			// the (zeroed) read buffers as the projection expects them
			pkt[6], pkt[7] = 0xDE, 0xAD
			rcv.bad++
			ev := Ev{Ev: "Send", Did: e.did, Len: 0, G: dip, Port: rcv.port, Src: dip, Sport: sport}
			serr := unix.Sendto(rawIP, pkt, 0, &unix.SockaddrInet4{Addr: ip4(dip)})
			ev.Err = errClass(serr)
			d.emit(ev)
			if serr != nil {
				return fmt.Errorf("raw IP sendto %s (%d bytes): %w", dip, len(pkt), serr)
			}
			if _, err := e.flush(); err != nil {
				return err
			}
		case "Send", "Burst":
			count := 1
			if st.A == "Burst" {
				count = st.N
				st.Cls = "S"
			}
			for k := 0; k < count; k++ {
				e.did++
				n := e.fit(e.sizeOf(st))
				if st.A == "Burst" {
					n = 1 + d.rng.Intn(64)
				}
				var fd int
				var dst unix.SockaddrInet4
				ev := Ev{Ev: "Send", Did: e.did, Len: n, Loop: 1}
				if e.kind == "mc" {
					snd := st.Snd
					if snd < 1 {
						snd = 1
					}
					var ok bool
					if fd, ok = e.senders[snd]; !ok {
						fd, _, err = rawUDP(d.ifc.ipString(), 0, false)
						if err != nil {
							return err
						}
						if err := unix.SetsockoptInet4Addr(fd, unix.IPPROTO_IP, unix.IP_MULTICAST_IF, d.ifc.ip); err != nil {
							return err
						}
						e.senders[snd] = fd
					}
					ev.G, ev.Port, ev.Mc = e.groups[st.G], e.port, 1
				} else {
					rcv := e.socks[1]
					dip := rcv.ip
					if dip == "0.0.0.0" {
						dip = "127.0.0.1"
					}
					var ok bool
					fd, ok = e.senders[st.Snd]
					if !ok {
						fd, _, err = rawUDP(dip, 0, false)
						if err != nil {
							return err
						}
						e.senders[st.Snd] = fd
					}
					ev.G, ev.Port = dip, rcv.port
				}
				dst = unix.SockaddrInet4{Port: ev.Port, Addr: ip4(ev.G)}
				ev.Src, ev.Sport, _ = sockName(fd)
				serr := unix.Sendto(fd, payload(e.did, n), 0, &dst)
				ev.Err = errClass(serr)
				d.emit(ev)
				if serr != nil {
					return fmt.Errorf("raw sendto %s:%d (%d bytes): %w", ev.G, ev.Port, n, serr)
				}
				if k == count-1 {
					if _, err := e.flush(); err != nil {
						return err
					}
				}
				if e.kind == "mc" && len(xInts(st.X)) < len(cfg.Binds) || st.A == "Burst" {
					e.nontriv = true
				}
			}
		case "Rd":
			s := e.socks[st.P]
			if s.pend != nil {
				d.drift("read issued while one is parked", si+1, "idle", "parked")
				continue
			}
			got := e.read(s, st.Api, st.Buf, st.Lim)
			if got == "done" && s.pend == nil && st.Api != "AsyncRead" && st.Api != "AsyncReadFrom" {
				// synchronous: "done" covers would-block as well; the prediction says which
			}
			if p := xString(st.X); p == "parked" && got != "parked" || p != "parked" && got == "parked" {
				d.drift("read completion mode", si+1, p, got)
			}
			if st.Buf == 2 {
				e.nontriv = true
			}
		case "Chain":
			s := e.socks[st.P]
			if s.pend != nil {
				d.drift("read issued while one is parked", si+1, "idle", "parked")
				continue
			}
			n := e.readChain(s, st.Api, st.Buf)
			var want int
			_ = json.Unmarshal(st.X, &want)
			if n != want {
				d.drift("chained completions", si+1, want, n)
			}
			if st.Buf == 2 {
				e.nontriv = true
			}
		case "SetBuf":
			s := e.socks[st.P]
			s.peer.SetAsyncReadBuffer(s.bufs[st.Buf])
			d.emit(Ev{Ev: "SetBuf", P: s.id, Buf: st.Buf, Cap: len(s.bufs[st.Buf])})
			e.nontriv = true
		case "Wr":
			var s *sock
			var dst string
			var dport int
			if e.kind == "mc" {
				s, dst, dport = e.socks[writerID], e.groups[st.G], e.port
			} else {
				s, dst, dport = e.socks[1], e.xip, e.xport
			}
			if s.wop != 0 {
				d.drift("write issued while one is parked", si+1, "idle", "parked")
				continue
			}
			n := 65508 // class X: larger than any UDP payload, the write must fail and emit nothing
			if st.Cls != "X" {
				n = e.fit(e.sizeOf(st))
			}
			got, err := e.write(s, st.Api, dst, dport, n, st.Lim)
			if err != nil {
				return err
			}
			if p := xString(st.X); p != got {
				d.drift("write completion mode", si+1, p, got)
			}
		case "WSet":
			s := e.socks[writerID]
			var err error
			switch st.Api {
			case "SetLoop":
				err = s.peer.SetLoop(st.V != 0)
				e.nontriv = e.nontriv || st.V == 0
			case "SetTTL":
				err = s.peer.SetTTL(uint8(st.V))
			case "SetOutbound":
				err = s.peer.SetOutboundIPv4(d.ifc.name)
			default:
				return fmt.Errorf("unknown setter %q", st.Api)
			}
			d.emit(Ev{Ev: "Set", P: s.id, Api: st.Api, N: st.V, Err: errClass(err)})
			e.sample(s, st.Api)
		case "Poll":
			reads, wrote, err := e.poll()
			if err != nil {
				return err
			}
			if want := xInts(st.X); !sameInts(want, reads) || wrote != st.W {
				d.drift("poll completions", si+1, map[string]any{"reads": want, "write": st.W}, map[string]any{"reads": reads, "write": wrote})
			}
		default:
			return fmt.Errorf("unknown step %q", st.A)
		}
	}
	if err := e.drain(); err != nil {
		return err
	}
	if cfg.Writer {
		e.sample(e.socks[writerID], "End")
	}
	if e.nontriv {
		d.sum.Nontrivial++
	}
	return nil
}

// Run replays every behaviour of a.In and writes the recorded trace to a.Out.
func Run(a tr.Args) error {
	if err := pinThread(a.Seed); err != nil {
		return err
	}
	w, err := tr.NewWriter(a.Out)
	if err != nil {
		return err
	}
	d := &driver{w: w, sum: tr.Summary{Component: "dgram"}, rng: rand.New(rand.NewSource(a.Seed)), seed: a.Seed,
		info: map[string]int{}}
	d.ifc, _ = findMcIface()
	d.mtu = 1500
	if d.ifc != nil {
		if i, err := net.InterfaceByName(d.ifc.name); err == nil && i.MTU >= 576 {
			d.mtu = i.MTU
		}
	}
	for _, f := range strings.Split(a.Mode, ",") {
		switch {
		case f == "big":
			d.big = true
		case strings.HasPrefix(f, "lane="):
			d.lane, _ = strconv.Atoi(f[5:])
		}
	}
	err = tr.Behaviours(a.In, func(idx int, raw json.RawMessage) error {
		var steps []Step
		if err := json.Unmarshal(raw, &steps); err != nil {
			return err
		}
		d.sid = idx
		d.sum.Scenarios++
		// sizes depend on the seed and on the behaviour only, so that a single
		// behaviour replays with the sizes it had in the full run
		h := fnv.New64a()
		_, _ = h.Write(raw)
		d.rng = rand.New(rand.NewSource(a.Seed ^ int64(h.Sum64()>>1)))
		// a port picked for the scenario can be taken by another process between the probe and the bind:
		// start the scenario again (its Begin event resets the monitor)
		err := d.scenario(steps)
		for try := 0; try < 3 && err != nil && strings.Contains(err.Error(), "address already in use"); try++ {
			d.info["scenario started again: "+err.Error()[strings.LastIndex(err.Error(), ": ")+2:]]++
			d.rng = rand.New(rand.NewSource(a.Seed ^ int64(h.Sum64()>>1)))
			err = d.scenario(steps)
		}
		return err
	})
	if err != nil {
		_ = w.Close() // keep what was recorded, for diagnosis
		return err
	}
	d.sum.Events = w.N
	d.sum.Notes = d.info
	if err := w.Close(); err != nil {
		return err
	}
	d.sum.Print()
	return nil
}
