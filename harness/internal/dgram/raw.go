package dgram

import (
	"bufio"
	"errors"
	"fmt"
	"io"
	"net"
	"os"
	"runtime"
	"strconv"
	"strings"
	"syscall"
	"time"
	"unsafe"

	"github.com/talostrading/sonic/sonicerrors"
	"golang.org/x/sys/unix"
)

// ErrNoMulticast makes the multicast part inconclusive (exit 2).
var ErrNoMulticast = errors.New("no multicast-capable IPv4 interface is up (multicast part inconclusive)")

// pinThread locks the goroutine to its OS thread and the thread to one CPU.
// All traffic of the driver (harness sends, sonic sends, sentinels) is then
// queued on one per-CPU backlog, which is FIFO: a sentinel sent after a
// datagram is processed by the receive path after that datagram.
func pinThread(seed int64) error {
	runtime.LockOSThread()
	var set unix.CPUSet
	if err := unix.SchedGetaffinity(0, &set); err != nil {
		return fmt.Errorf("sched_getaffinity: %w", err)
	}
	var cpus []int
	for c := 0; c < 1024; c++ {
		if set.IsSet(c) {
			cpus = append(cpus, c)
		}
	}
	if len(cpus) == 0 {
		return fmt.Errorf("empty affinity mask")
	}
	pick := cpus[(int(seed)+unix.Getpid())%len(cpus)]
	var one unix.CPUSet
	one.Set(pick)
	if err := unix.SchedSetaffinity(0, &one); err != nil {
		return fmt.Errorf("sched_setaffinity: %w", err)
	}
	return nil
}

type mcIface struct {
	name  string
	index int
	ip    [4]byte
}

func (m *mcIface) ipString() string { return net.IP(m.ip[:]).String() }

func findMcIface() (*mcIface, error) {
	ifs, err := net.Interfaces()
	if err != nil {
		return nil, err
	}
	for _, i := range ifs {
		if i.Flags&net.FlagUp == 0 || i.Flags&net.FlagMulticast == 0 || i.Flags&net.FlagLoopback != 0 {
			continue
		}
		addrs, _ := i.Addrs()
		for _, a := range addrs {
			if n, ok := a.(*net.IPNet); ok {
				if v4 := n.IP.To4(); v4 != nil {
					r := &mcIface{name: i.Name, index: i.Index}
					copy(r.ip[:], v4)
					return r, nil
				}
			}
		}
	}
	return nil, ErrNoMulticast
}

func ifaceOwning(ip string) string {
	if ip == "0.0.0.0" || ip == "" {
		return ""
	}
	ifs, _ := net.Interfaces()
	for _, i := range ifs {
		addrs, _ := i.Addrs()
		for _, a := range addrs {
			if n, ok := a.(*net.IPNet); ok && n.IP.String() == ip {
				return i.Name
			}
		}
	}
	return "?"
}

func ip4(s string) (a [4]byte) {
	copy(a[:], net.ParseIP(s).To4())
	return
}

func ipStr(a [4]byte) string { return net.IP(a[:]).String() }

// rawUDP creates a non-blocking harness-owned UDP socket.
func rawUDP(bind string, port int, reuse bool) (fd int, boundPort int, err error) {
	fd, err = unix.Socket(unix.AF_INET, unix.SOCK_DGRAM|unix.SOCK_NONBLOCK|unix.SOCK_CLOEXEC, 0)
	if err != nil {
		return -1, 0, err
	}
	if reuse {
		_ = unix.SetsockoptInt(fd, unix.SOL_SOCKET, unix.SO_REUSEADDR, 1)
		_ = unix.SetsockoptInt(fd, unix.SOL_SOCKET, unix.SO_REUSEPORT, 1)
	}
	if err = unix.Bind(fd, &unix.SockaddrInet4{Port: port, Addr: ip4(bind)}); err != nil {
		unix.Close(fd)
		return -1, 0, fmt.Errorf("bind %s:%d: %w", bind, port, err)
	}
	sa, err := unix.Getsockname(fd)
	if err != nil {
		unix.Close(fd)
		return -1, 0, err
	}
	return fd, sa.(*unix.SockaddrInet4).Port, nil
}

func sockName(fd int) (string, int, error) {
	sa, err := unix.Getsockname(fd)
	if err != nil {
		return "", 0, err
	}
	s4, ok := sa.(*unix.SockaddrInet4)
	if !ok {
		return "", 0, fmt.Errorf("not an IPv4 socket")
	}
	return ipStr(s4.Addr), s4.Port, nil
}

func joinRaw(fd int, group string, ifip [4]byte) error {
	return unix.SetsockoptIPMreq(fd, unix.IPPROTO_IP, unix.IP_ADD_MEMBERSHIP,
		&unix.IPMreq{Multiaddr: ip4(group), Interface: ifip})
}

// wire is one datagram seen by a raw receiver.
type wire struct {
	data  []byte
	src   string
	sport int
	dst   string // from IP_PKTINFO
}

func recvWire(fd int, buf, oob []byte) (*wire, error) {
	n, oobn, _, from, err := unix.Recvmsg(fd, buf, oob, 0)
	if err != nil {
		return nil, err
	}
	w := &wire{data: append([]byte(nil), buf[:n]...)}
	if s4, ok := from.(*unix.SockaddrInet4); ok {
		w.src, w.sport = ipStr(s4.Addr), s4.Port
	}
	msgs, err := unix.ParseSocketControlMessage(oob[:oobn])
	if err == nil {
		for _, m := range msgs {
			if m.Header.Level == unix.IPPROTO_IP && m.Header.Type == unix.IP_PKTINFO && len(m.Data) >= 12 {
				var a [4]byte
				copy(a[:], m.Data[8:12]) // ipi_addr: header destination address
				w.dst = ipStr(a)
			}
		}
	}
	return w, nil
}

func pollFd(fd int, events int16, timeout time.Duration) (bool, error) {
	deadline := time.Now().Add(timeout)
	for {
		ms := int(time.Until(deadline) / time.Millisecond)
		if ms < 0 {
			ms = 0
		}
		fds := []unix.PollFd{{Fd: int32(fd), Events: events}}
		n, err := unix.Poll(fds, ms)
		if err == unix.EINTR {
			continue
		}
		if err != nil {
			return false, err
		}
		return n > 0 && fds[0].Revents&(events|unix.POLLERR|unix.POLLHUP) != 0, nil
	}
}

// memInfo returns SO_MEMINFO of a socket: [0] rmem_alloc, [1] rcvbuf, [8] drops.
func memInfo(fd int) (mem [16]uint32, ok bool) {
	l := uint32(len(mem) * 4)
	_, _, e := unix.Syscall6(unix.SYS_GETSOCKOPT, uintptr(fd), unix.SOL_SOCKET, 0x37, /* SO_MEMINFO */
		uintptr(unsafe.Pointer(&mem[0])), uintptr(unsafe.Pointer(&l)), 0)
	return mem, e == 0 && l >= 9*4
}

// sockDrops returns the kernel's drop counter of a socket.
func sockDrops(fd int) int {
	mem, ok := memInfo(fd)
	if !ok {
		return 0
	}
	return int(mem[8]) // SK_MEMINFO_DROPS
}

// roomFor reports whether a datagram of n bytes (skb truesize measured here:
// at most 2n + 1 KB) fits the receive buffer with `reserve` bytes to spare.
func roomFor(fd, n, reserve int) bool {
	mem, ok := memInfo(fd)
	if !ok {
		return n <= 2048
	}
	return int(mem[0])+2*n+1024+reserve <= int(mem[1])
}

func errClass(err error) string {
	if err == nil {
		return "nil"
	}
	if errors.Is(err, sonicerrors.ErrWouldBlock) {
		return "wouldblock"
	}
	if errors.Is(err, io.EOF) {
		return "eof"
	}
	var en syscall.Errno
	if errors.As(err, &en) {
		switch en {
		case syscall.EADDRINUSE:
			return "eaddrinuse"
		case syscall.EINVAL:
			return "einval"
		case syscall.EADDRNOTAVAIL:
			return "eaddrnotavail"
		case syscall.ENOBUFS:
			return "enobufs"
		case syscall.EMSGSIZE:
			return "emsgsize"
		case syscall.ENODEV:
			return "enodev"
		case syscall.EAGAIN:
			return "wouldblock"
		case syscall.EBADF:
			return "ebadf"
		}
		return fmt.Sprintf("errno:%d", int(en))
	}
	return "other"
}

// ---- payloads ------------------------------------------------------------

// gen is byte k of datagram did: never 0, byte 0 is the id.
func gen(did, k int) byte {
	if k == 0 {
		return byte(did)
	}
	v := (did*131 + k*7 + (k>>8)*13 + (k>>16)*29) % 255
	return byte(v + 1)
}

func payload(did, n int) []byte {
	b := make([]byte, n)
	for k := range b {
		b[k] = gen(did, k)
	}
	return b
}

// matches reports whether b is a prefix of datagram b[0]'s payload.
func matches(b []byte) (did int, ok bool) {
	if len(b) == 0 || b[0] == 0 || b[0] > 250 {
		return 0, false
	}
	did = int(b[0])
	for k := range b {
		if b[k] != gen(did, k) {
			return did, false
		}
	}
	return did, true
}

func allZero(b []byte) bool {
	for _, c := range b {
		if c != 0 {
			return false
		}
	}
	return true
}

// udpPortInodes: the inodes of the UDP sockets of this network namespace (IPv4 and
// IPv6) bound to the port, whoever owns them. (/proc/net/udp may list a socket more
// than once while the table changes, hence a set.)
func udpPortInodes(port int) map[uint64]bool {
	set := map[uint64]bool{}
	for _, f := range []string{"/proc/net/udp", "/proc/net/udp6"} {
		fh, err := os.Open(f)
		if err != nil {
			continue
		}
		sc := bufio.NewScanner(fh)
		sc.Buffer(make([]byte, 1<<16), 1<<20)
		for sc.Scan() {
			fs := strings.Fields(sc.Text())
			if len(fs) < 10 {
				continue
			}
			i := strings.LastIndexByte(fs[1], ':')
			if i < 0 {
				continue
			}
			if v, err := strconv.ParseInt(fs[1][i+1:], 16, 32); err != nil || int(v) != port {
				continue
			}
			if ino, err := strconv.ParseUint(fs[9], 10, 64); err == nil {
				set[ino] = true
			}
		}
		fh.Close()
	}
	return set
}

func inodeOf(fd int) uint64 {
	var st unix.Stat_t
	if unix.Fstat(fd, &st) != nil {
		return 0
	}
	return st.Ino
}
