package main

import (
	"verifharness/internal/fdtable"
	"verifharness/internal/tr"
)

func init() { tr.Components["fd"] = fdtable.Run }
