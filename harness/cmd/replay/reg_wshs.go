package main

import (
	"verifharness/internal/tr"
	"verifharness/internal/wshs"
)

func init() { tr.Components["wshs"] = wshs.Run }
