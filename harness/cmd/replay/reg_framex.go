package main

import (
	"verifharness/internal/framex"
	"verifharness/internal/tr"
)

func init() { tr.Components["frame"] = framex.Run }
