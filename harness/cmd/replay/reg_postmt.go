package main

import (
	"verifharness/internal/postmt"
	"verifharness/internal/tr"
)

func init() {
	tr.Components["post"] = postmt.Run
	tr.Components["postgate"] = postmt.RunGated
}
