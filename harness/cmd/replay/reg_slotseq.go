package main

import (
	"verifharness/internal/slotseq"
	"verifharness/internal/tr"
)

func init() {
	tr.Components["slotseq"] = func(a tr.Args) error { return slotseq.Run(a.In, a.Out, a.Mode) }
}
