package main

import (
	"verifharness/internal/rx"
	"verifharness/internal/tr"
)

func init() { tr.Components["rx"] = rx.Run }
