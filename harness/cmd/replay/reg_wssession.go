package main

import (
	"verifharness/internal/tr"
	"verifharness/internal/wssession"
)

func init() {
	tr.Components["wssession"] = wssession.RunInline
	tr.Components["wssession-deferred"] = wssession.RunDeferred
	tr.Components["wssession-real"] = wssession.RunReal
}
