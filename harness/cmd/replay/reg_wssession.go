package main

import (
	"verifharness/internal/tr"
	"verifharness/internal/wssession"
)

func init() {
	tr.Components["wssession"] = wssession.RunInline
}
