package main

import (
	"verifharness/internal/tr"
	"verifharness/internal/utilx"
)

func init() {
	tr.Components["fenwick"] = utilx.RunFenwick
	tr.Components["list"] = utilx.RunList
}
