package main

import (
	"verifharness/internal/bytebuf"
	"verifharness/internal/tr"
)

func init() { tr.Components["bytebuf"] = func(a tr.Args) error { return bytebuf.Run(a.In, a.Out) } }
