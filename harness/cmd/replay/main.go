// Command replay drives the real sonic code with generated behaviours and
// records ndjson traces for TLC trace validation.
package main

import (
	"flag"
	"fmt"
	"os"

	"verifharness/internal/bip"
)

func main() {
	if len(os.Args) < 2 {
		fmt.Fprintln(os.Stderr, "usage: replay <component> -in <behaviours> -out <trace>")
		os.Exit(2)
	}
	comp := os.Args[1]
	fs := flag.NewFlagSet(comp, flag.ExitOnError)
	in := fs.String("in", "", "behaviours file (one JSON history per line)")
	out := fs.String("out", "", "trace file (ndjson)")
	_ = fs.Parse(os.Args[2:])
	var err error
	switch comp {
	case "bip":
		err = bip.Run(*in, *out)
	default:
		err = fmt.Errorf("unknown component %q", comp)
	}
	if err != nil {
		fmt.Fprintln(os.Stderr, "replay:", err)
		os.Exit(2)
	}
}
