// Command replay drives the real sonic code with generated behaviours and
// records ndjson traces for TLC trace validation.
package main

import (
	"flag"
	"fmt"
	"os"

	"verifharness/internal/tr"
)

func main() {
	if len(os.Args) < 2 {
		fmt.Fprintln(os.Stderr, "usage: replay <component> -in <behaviours> -out <trace> [-seed n] [-mode m]")
		os.Exit(2)
	}
	comp := os.Args[1]
	fs := flag.NewFlagSet(comp, flag.ExitOnError)
	var a tr.Args
	fs.StringVar(&a.In, "in", "", "behaviours file (one JSON history per line)")
	fs.StringVar(&a.Out, "out", "", "trace file (ndjson)")
	fs.Int64Var(&a.Seed, "seed", 1, "seed for payload generators / random drivers")
	fs.StringVar(&a.Mode, "mode", "", "component specific mode")
	fs.IntVar(&a.SidBase, "sidbase", 0, "offset added to scenario numbers")
	_ = fs.Parse(os.Args[2:])
	a.Rest = fs.Args()
	run, ok := tr.Components[comp]
	if !ok {
		fmt.Fprintf(os.Stderr, "replay: unknown component %q\n", comp)
		os.Exit(2)
	}
	if err := run(a); err != nil {
		fmt.Fprintln(os.Stderr, "replay:", err)
		os.Exit(2)
	}
}
