package main

import (
	"verifharness/internal/tr"
	"verifharness/internal/wswire"
)

func init() { tr.Components["wswire"] = wswire.Run }
