package main

import (
	"verifharness/internal/codecconn"
	"verifharness/internal/tr"
)

func init() { tr.Components["codecconn"] = codecconn.Run }
