package main

import (
	"verifharness/internal/tr"
	"verifharness/internal/wsread"
)

func init() { tr.Components["wsread"] = wsread.Run }
