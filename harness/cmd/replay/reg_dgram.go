package main

import (
	"verifharness/internal/dgram"
	"verifharness/internal/tr"
)

func init() { tr.Components["dgram"] = dgram.Run }
