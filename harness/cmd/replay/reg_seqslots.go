package main

import (
	"verifharness/internal/seqslots"
	"verifharness/internal/tr"
)

func init() { tr.Components["seqslots"] = seqslots.Run }
