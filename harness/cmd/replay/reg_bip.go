package main

import (
	"verifharness/internal/bip"
	"verifharness/internal/tr"
)

func init() { tr.Components["bip"] = func(a tr.Args) error { return bip.Run(a.In, a.Out) } }
