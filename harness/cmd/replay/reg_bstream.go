package main

import (
	"verifharness/internal/bstream"
	"verifharness/internal/tr"
)

func init() { tr.Components["bstream"] = bstream.Run }
