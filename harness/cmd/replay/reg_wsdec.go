package main

import (
	"verifharness/internal/tr"
	"verifharness/internal/wsdec"
)

func init() { tr.Components["wsdec"] = wsdec.Run }
