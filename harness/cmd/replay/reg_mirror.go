package main

import (
	"verifharness/internal/mirror"
	"verifharness/internal/tr"
)

func init() { tr.Components["mirror"] = mirror.Run }
