----------------------------- MODULE FdMonTrace -----------------------------
(* Validates ndjson traces recorded from the real sonic code against FdMon.  *)
(* Scenarios are concatenated; each starts with a "Begin" event.  When the   *)
(* monitor rejects an event the rule key is printed and the rest of that     *)
(* scenario is skipped (Step keeps a rejected monitor rejected until the     *)
(* next Begin), so every scenario is examined.                               *)
EXTENDS FdMon, Json, IOUtils, TLC

Trace == ndJsonDeserialize(IOEnv.TRACE)

VARIABLE l

TraceInit == MonInit /\ l = 1

TraceNext ==
  /\ l <= Len(Trace)
  /\ l' = l + 1
  /\ LET e == Trace[l] IN
     /\ Obs(e)
     /\ (mon.bad = "" /\ mon'.bad # "" => PrintT(<<"BAD", e.sid, e.i, mon'.bad>>))

TraceSpec == TraceInit /\ [][TraceNext]_<<mon, l>>

\* one state per line + the initial state: every line was consumed
TraceAccepted == TLCGet("stats").diameter = Len(Trace) + 1
=============================================================================
