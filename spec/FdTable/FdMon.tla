-------------------------------- MODULE FdMon --------------------------------
(* Property monitor for C13 (descriptors: no leaks, no foreign close, owners  *)
(* of in-flight operations stay alive).                                       *)
(*                                                                            *)
(* It observes API-level events only.  Every event carries the descriptor     *)
(* census of the process (set of open descriptor numbers, /proc/self/fd)      *)
(* taken right before and right after the step, the descriptors the harness   *)
(* itself created during the step (`hnew`: server side of a connection, peer  *)
(* sockets) and the descriptors of other owners that no longer answer         *)
(* fcntl(F_GETFD) after the step (`probe`).  The monitor keeps the partition  *)
(* of the census by owner (object id; everything else belongs to the harness) *)
(* and the set of operations in flight.  It never blocks; a forbidden         *)
(* observation sets `bad` to the rule key:                                    *)
(*                                                                            *)
(*   C13/leak/<ctor>:<failpoint>     a failed constructor / connect / accept / *)
(*                                   handshake returned with descriptors it    *)
(*                                   created still open                        *)
(*   C13/leak/<ctor>:close           a Close opened a descriptor               *)
(*   C13/foreign-close/<kind>        a step of an object closed a descriptor   *)
(*                                   the object does not own (typically the    *)
(*                                   second Close of an object whose old       *)
(*                                   number the kernel gave to someone else)   *)
(*   C13/close-incomplete/<kind>     first Close left an owned descriptor open *)
(*   C13/owner-collected/<kind>      the sentinel captured only by the pending *)
(*                                   callback of an operation in flight was    *)
(*                                   finalized (its owner was collected)       *)
(*   C13/completion-lost/<kind>      an operation in flight whose completion   *)
(*                                   the harness made possible was not         *)
(*                                   delivered (time-budget observation)       *)
(*                                                                            *)
(* Where the statement leaves freedom (which numbers the kernel hands out,    *)
(* how many descriptors an object holds, what Close returns) everything is    *)
(* accepted.  The monitor is a pure step function Step(m, e) over one record   *)
(* so that an implementation action that produces several observations can    *)
(* feed them in sequence.                                                     *)
EXTENDS Integers, Sequences, FiniteSets

VARIABLE mon   \* record:
               \*   own        set of <<fd, obj>>: descriptors owned by live sonic objects
               \*   closedObjs objects whose Close has been observed
               \*   inflight   set of <<obj, dir>>: operations in flight
               \*   bad        "" while the property holds, else the rule key

monvars == <<mon>>
MonBad == mon.bad

Range(s) == {s[k] : k \in DOMAIN s}

Mon0 == [own |-> {}, closedObjs |-> {}, inflight |-> {}, bad |-> ""]
MonInit == mon = Mon0

Owned(m, o)  == {p[1] : p \in {q \in m.own : q[2] = o}}
Forget(m, S) == {p \in m.own : p[1] \notin S}

Fail(m, key) == [m EXCEPT !.bad = key]

\* e.before / e.after / e.hnew / e.probe are sequences of descriptor numbers
Before(e) == Range(e.before)
After(e)  == Range(e.after)
New(e)    == (After(e) \ Before(e)) \ Range(e.hnew)
Lost(e)   == (Before(e) \ After(e)) \cup Range(e.probe)

\* something the harness did itself (peer sockets, plugs, infrastructure)
StepHarness(m, e) == [m EXCEPT !.own = Forget(m, Before(e) \ After(e))]

\* constructor / connect / accept / handshake; e.ok = 1 iff it returned an object
\* (an object that connects again - a second websocket handshake on the same
\* stream - may release what it owns while doing so)
StepCtor(m, e) ==
  IF ~(Lost(e) \subseteq Owned(m, e.obj)) THEN Fail(m, "C13/foreign-close/" \o e.kind)
  ELSE IF e.ok = 0 /\ New(e) # {} THEN Fail(m, "C13/leak/" \o e.kind \o ":" \o e.fail)
  ELSE [m EXCEPT !.own = Forget(m, Lost(e)) \cup {<<f, e.obj>> : f \in (IF e.ok = 1 THEN New(e) ELSE {})}]

\* a harness descriptor handed to a sonic object (net.Conn wrapped by an adapter)
StepAdopt(m, e) == [m EXCEPT !.own = @ \cup {<<f, e.obj>> : f \in Range(e.hnew)}]

\* any closing call on the object (its Close, a repeated Close, the Close of
\* the net.Conn an adapter wraps): together they release exactly what the
\* object owns; the object's own Close (e.api = 1) leaves nothing owned
StepClose(m, e) ==
  IF ~(Lost(e) \subseteq Owned(m, e.obj)) THEN Fail(m, "C13/foreign-close/" \o e.kind)
  ELSE IF New(e) # {} THEN Fail(m, "C13/leak/" \o e.kind \o ":close")
  ELSE IF e.api = 1 /\ (Owned(m, e.obj) \ Lost(e)) # {} THEN Fail(m, "C13/close-incomplete/" \o e.kind)
  ELSE [m EXCEPT !.own = Forget(m, Lost(e)),
                 !.closedObjs = @ \cup {e.obj},
                 !.inflight = {p \in @ : p[1] # e.obj}]

\* an asynchronous operation was accepted and its callback has not run yet
StepPark(m, e) == [m EXCEPT !.inflight = @ \cup {<<e.obj, e.dir>>}]

\* its callback ran
StepDone(m, e) == [m EXCEPT !.inflight = @ \ {<<e.obj, e.dir>>}]

\* references dropped, runtime.GC() x3; e.coll = 1 iff the sentinel captured
\* only by the pending callback of (obj, dir) was finalized
StepGc(m, e) ==
  IF e.coll = 1 /\ <<e.obj, e.dir>> \in m.inflight THEN Fail(m, "C13/owner-collected/" \o e.kind)
  ELSE m

\* the harness made the completion of (obj, dir) possible and polled;
\* e.ok = 1 iff the callback ran
StepDeliver(m, e) ==
  IF e.ok = 0 /\ <<e.obj, e.dir>> \in m.inflight THEN Fail(m, "C13/completion-lost/" \o e.kind)
  ELSE [m EXCEPT !.inflight = @ \ {<<e.obj, e.dir>>}]

\* total: every event kind is accepted; a rejected scenario stays rejected
Step(m, e) ==
  IF e.ev = "Begin" THEN Mon0
  ELSE IF m.bad # "" THEN m
  ELSE CASE e.ev = "Harness" -> StepHarness(m, e)
         [] e.ev = "Ctor"    -> StepCtor(m, e)
         [] e.ev = "Adopt"   -> StepAdopt(m, e)
         [] e.ev = "Close"   -> StepClose(m, e)
         [] e.ev = "Park"    -> StepPark(m, e)
         [] e.ev = "Done"    -> StepDone(m, e)
         [] e.ev = "Gc"      -> StepGc(m, e)
         [] e.ev = "Deliver" -> StepDeliver(m, e)
         [] OTHER            -> m

Obs(e) == mon' = Step(mon, e)
=============================================================================
