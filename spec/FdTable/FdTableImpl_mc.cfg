SPECIFICATION Spec
CONSTANTS
  MaxObj = 1
  MaxOps = 3
  MaxClose = 2
  MaxPlug = 0
  Kinds = {"io", "timer", "tcp", "udp", "lst", "acc", "pkt", "peer", "file", "mir", "adp", "ws", "wsa"}
  WithFail = TRUE
  WithUninj = FALSE
  WithGc = FALSE
  TruncK = {1, 60, 128}
  BUG_ConnectLeak = TRUE
  BUG_PacketBindLeak = TRUE
  BUG_PeerLeak = TRUE
  BUG_WsLeak = TRUE
  BUG_ListenerNoGuard = TRUE
  BUG_PacketNoGuard = TRUE
  BUG_TimerRevive = TRUE
  BUG_AdapterRawClose = TRUE
  BUG_EarlyDeregister = TRUE
  BUG_SocketNonblockLeak = TRUE
  BUG_AcceptLeak = TRUE
INVARIANTS TypeOK Agree
VIEW View
ACTION_CONSTRAINT EmitEdge
CHECK_DEADLOCK FALSE
