SPECIFICATION Spec
CONSTANTS
  MaxObj = 1
  MaxOps = 3
  MaxClose = 2
  MaxPlug = 0
  Kinds = {"io", "timer", "tcp", "udp", "lst", "acc", "pkt", "peer", "file", "mir", "adp", "ws", "wsa"}
  WithFail = TRUE
  WithUninj = FALSE
  WithGc = FALSE
  WithRehs = TRUE
  TruncK = {1, 60, 128}
  BUG_ConnectLeak = FALSE
  BUG_PacketBindLeak = FALSE
  BUG_PeerLeak = FALSE
  BUG_WsLeak = FALSE
  BUG_ListenerNoGuard = FALSE
  BUG_PacketNoGuard = FALSE
  BUG_TimerRevive = FALSE
  BUG_AdapterRawClose = FALSE
  BUG_EarlyDeregister = FALSE
  BUG_CloseKeepsFd = FALSE
  BUG_RepeatRearmsClosed = FALSE
  BUG_ForeignDeregister = FALSE
  BUG_WsResetLeak = FALSE
  BUG_SocketNonblockLeak = TRUE
  BUG_AcceptLeak = TRUE
INVARIANTS TypeOK Agree
VIEW View
ACTION_CONSTRAINT EmitEdge
CHECK_DEADLOCK FALSE
