---------------------------- MODULE FdTableImpl ----------------------------
(* Implementation-shaped model of everything in sonic that creates, owns and *)
(* closes descriptors, and of the registry that keeps owners of in-flight    *)
(* operations reachable.                                                     *)
(*                                                                           *)
(*  - the process descriptor table with the kernel's lowest-free allocation; *)
(*  - every constructor as its sequence of descriptor-creating ("alloc",     *)
(*    "tmp") and fallible ("try") steps with exactly the clean-up its error  *)
(*    path performs (Steps(kind), transcribed from internal/socket_unix.go,  *)
(*    conn.go, packet.go, listen_conn.go, file.go, async_adapter.go,         *)
(*    socket.go, multicast/peer.go, timer.go, internal/timer_linux.go,       *)
(*    internal/poll_linux.go, io.go, codec/websocket/stream.go,              *)
(*    bytes/mirrored_buffer.go).  A constructor runs to completion in one    *)
(*    action (single goroutine: nothing can interleave), the failure point   *)
(*    is the nondeterministic parameter `fail`: "none", the name of a "try"  *)
(*    step, or "emfileK" = descriptor table exhausted at the K-th allocation;*)
(*  - Close of every kind with the guard the code has (or lacks), acting on  *)
(*    the descriptor *number* stored in the object: a repeated Close that    *)
(*    closes a number the kernel meanwhile gave to another object is an      *)
(*    ordinary reachable state;                                              *)
(*  - IO.Register / IO.Deregister keyed by descriptor number, interest bits, *)
(*    dropping references and garbage collection.                            *)
(*                                                                           *)
(* Every observable step is fed to the monitor FdMon.  Deviations of the     *)
(* code from the ideal are BUG_* constants (TRUE = behaviour of the code     *)
(* before the repair).                                                       *)
EXTENDS Integers, Sequences, FiniteSets, TLC, Json, SequencesExt

CONSTANTS MaxObj,     \* objects per scenario
          MaxOps,     \* commands per scenario
          MaxClose,   \* closing calls per object
          MaxPlug,    \* descriptors the harness allocates in between
          Kinds,      \* constructor kinds explored
          WithFail,   \* explore failure points of constructors
          WithUninj,  \* also failure points the driver cannot inject (model-only)
          WithRehs,   \* explore a second websocket handshake on the same stream
          WithGc,     \* explore in-flight operations, dropping references, GC
          TruncK,     \* byte offsets at which the websocket server cuts its response short
          BUG_ConnectLeak,      \* Dial tcp/udp: error paths after socket() do not close it
          BUG_PacketBindLeak,   \* NewPacketConn: failed bind does not close the socket
          BUG_PeerLeak,         \* NewUDPPeer: no error path after NewSocket closes it
          BUG_WsLeak,           \* websocket: failed upgrade keeps the net.Conn open
          BUG_ListenerNoGuard,  \* listener.Close has no closed guard
          BUG_PacketNoGuard,    \* packetConn.Close has no closed guard
          BUG_TimerRevive,      \* Timer.Cancel after Close puts the timer back to ready
          BUG_AdapterRawClose,  \* AsyncAdapter.Close closes the net.Conn's descriptor number itself
          BUG_WsResetLeak,      \* websocket: a second handshake on the same stream forgets the previous net.Conn without closing it
          BUG_ForeignDeregister,\* IO.Deregister clears the entry of the stored number whoever registered there
          BUG_RepeatRearmsClosed, \* ScheduleRepeating's wrapper arms the timer again although its callback closed it
          BUG_CloseKeepsFd,     \* file.Close returns before closing the descriptor when the poller cannot drop the (write-only) registration
          BUG_EarlyDeregister,  \* completion handlers Deregister although the other direction is parked
          BUG_SocketNonblockLeak, \* internal.socket(): failed SetNonblock returns the fd with an error, callers drop it
          BUG_AcceptLeak        \* accept(): failed getsockname drops the accepted descriptor

VARIABLES tab,    \* descriptor table: number -> 0 free | o > 0 object o | -1 nobody (leaked) | -2 harness
          reg,    \* IO.pending: number -> object whose Slot is registered there (0 none)
          objs,   \* object records
          nmade, nops, nplug,
          iodead, \* the program has closed the IO context the objects were created on
          mon,    \* monitor
          hist,   \* generated script (not in VIEW)
          done

implvars == <<tab, reg, objs, nmade, nops, nplug, iodead>>
vars     == <<implvars, mon, hist, done>>

M == INSTANCE FdMon

NFd  == 5 * MaxObj + MaxPlug + 2
Fds  == 0 .. (NFd - 1)
Objs == 1 .. MaxObj

NoObj == [kind |-> "", st |-> "none", fd |-> -1, fd2 |-> -1, closed |-> FALSE, ncl |-> 0,
          evr |-> FALSE, evw |-> FALSE, refs |-> FALSE, nconn |-> "none", coll |-> FALSE, gen |-> 0, lclosed |-> FALSE,
          rk |-> ""]
\* rk is a ghost (it is in the VIEW, nothing reads it): by which code path the object's current registry entry got where
\* it is - "" registered and not touched since, "kept" it survived the object's own Deregister because the other
\* direction was still armed, "stale" it survived the Deregister of another object that used to have the same number.
\* A transition cover continues every model state behind one history only; with rk in the state, "read and write parked,
\* read completes" and "read parked and completed, write parked" are different states although registry and interests
\* agree, and the continuation (drop the references, collect, complete the write) is generated behind both.

\* ---------------------------------------------------------------------------
\* constructors: step tables
\* ---------------------------------------------------------------------------
A(n)        == [n |-> n, t |-> "alloc", inj |-> TRUE,  clean |-> TRUE]
Tmp(n)      == [n |-> n, t |-> "tmp",   inj |-> TRUE,  clean |-> TRUE]
T(n, i, c)  == [n |-> n, t |-> "try",   inj |-> i,     clean |-> c]

SockNB == T("setnonblock", FALSE, ~BUG_SocketNonblockLeak)

Steps(kind) ==
  CASE kind = "io" ->      \* NewIO -> internal.NewPoller
         << A("epoll"), A("eventfd"), T("setread", FALSE, TRUE) >>
    [] kind = "timer" ->   \* NewTimer -> internal.NewTimer
         << A("timerfd") >>
    [] kind = "tcp" ->     \* Dial tcp -> ConnectTCP -> CreateSocketTCP, connect, SocketAddress
         << T("resolve", TRUE, TRUE), A("socket"), SockNB,
            T("opt", TRUE, ~BUG_ConnectLeak), T("bind", TRUE, ~BUG_ConnectLeak),
            T("refused", TRUE, ~BUG_ConnectLeak), T("unreach", TRUE, ~BUG_ConnectLeak),
            T("timeout", TRUE, ~BUG_ConnectLeak), T("getsockname", FALSE, ~BUG_ConnectLeak) >>
    [] kind = "udp" ->     \* Dial udp -> ConnectUDP
         << T("resolve", TRUE, TRUE), A("socket"), SockNB,
            T("opt", TRUE, ~BUG_ConnectLeak), T("bind", TRUE, ~BUG_ConnectLeak),
            T("unreach", TRUE, ~BUG_ConnectLeak), T("getsockname", FALSE, ~BUG_ConnectLeak) >>
    [] kind = "lst" ->     \* Listen -> internal.Listen (closes on every error path after the socket)
         << T("badnet", TRUE, TRUE), T("resolve", TRUE, TRUE), A("socket"), SockNB,
            T("opt", TRUE, TRUE), T("bind", TRUE, TRUE), T("listen", FALSE, TRUE) >>
    [] kind = "acc" ->     \* listener.accept
         << T("wouldblock", TRUE, TRUE), A("accept"), T("getsockname", FALSE, ~BUG_AcceptLeak) >>
    [] kind = "pkt" ->     \* NewPacketConn -> CreateSocketUDP, bind
         << T("badnet", TRUE, TRUE), T("resolve", TRUE, TRUE), A("socket"), SockNB,
            T("bind", TRUE, ~BUG_PacketBindLeak) >>
    [] kind = "peer" ->    \* multicast.NewUDPPeer
         << T("resolve", TRUE, TRUE), A("socket"),
            T("nonblock", FALSE, ~BUG_PeerLeak), T("reuseport", FALSE, ~BUG_PeerLeak),
            T("reuseaddr", FALSE, ~BUG_PeerLeak), T("bind", TRUE, ~BUG_PeerLeak),
            T("getsockname", FALSE, ~BUG_PeerLeak), T("mcastif", FALSE, ~BUG_PeerLeak),
            T("mcastloop", FALSE, ~BUG_PeerLeak), T("mcastall", FALSE, ~BUG_PeerLeak) >>
    [] kind = "file" ->    \* Open
         << T("enoent", TRUE, TRUE), A("open") >>
    [] kind = "mir" ->     \* bytes.NewMirroredBuffer: the temp file is closed by a defer on every path
         << T("size", TRUE, TRUE), Tmp("tmpfile"), T("truncate", FALSE, TRUE), T("mmap", TRUE, TRUE),
            T("remap", FALSE, TRUE) >>
    [] kind = "adp" ->     \* NewAsyncAdapter: wraps a descriptor the net.Conn already owns
         << T("control", TRUE, TRUE), T("opt", TRUE, TRUE) >>
    [] kind \in {"ws", "wsa"} ->  \* websocket Handshake / AsyncHandshake: resolve, net.Dial, NewAsyncAdapter, upgrade
         << T("badurl", TRUE, TRUE), A("socket"), T("refused", TRUE, TRUE),
            T("nodelay", FALSE, ~BUG_WsLeak), T("write", FALSE, ~BUG_WsLeak),
            T("eof", TRUE, ~BUG_WsLeak), T("truncated", TRUE, ~BUG_WsLeak),
            T("partial", TRUE, ~BUG_WsLeak), T("status", TRUE, ~BUG_WsLeak),
            T("badkey", TRUE, ~BUG_WsLeak), T("garbage", TRUE, ~BUG_WsLeak) >>

AllocIdx(kind) == SelectSeq([i \in 1..Len(Steps(kind)) |-> i], LAMBDA i : Steps(kind)[i].t \in {"alloc", "tmp"})
NAlloc(kind)   == Len(AllocIdx(kind))
EM == << "emfile0", "emfile1", "emfile2", "emfile3" >>
\* exhaustion cases: the K-th allocation fails for K < NAlloc; K = NAlloc is the
\* control (limit lowered but never reached: the constructor must succeed).  The
\* control is left out where the harness' own server needs a descriptor meanwhile.
EmFails(kind) == {EM[k] : k \in 1..(NAlloc(kind) + (IF kind \in {"ws", "wsa"} THEN 0 ELSE 1))}

\* failure points: names of the try steps + exhaustion at every allocation
FailPoints(kind) ==
  {Steps(kind)[i].n : i \in {j \in 1..Len(Steps(kind)) : Steps(kind)[j].t = "try" /\ (Steps(kind)[j].inj \/ WithUninj)}}
  \cup EmFails(kind)

\* index of the step at which the constructor fails (0: it does not)
FailStep(kind, fail) ==
  IF fail = "none" \/ fail = EM[NAlloc(kind) + 1] THEN 0
  ELSE IF \E k \in 1..NAlloc(kind) : EM[k] = fail
         THEN AllocIdx(kind)[CHOOSE k \in 1..NAlloc(kind) : EM[k] = fail]
         ELSE CHOOSE i \in 1..Len(Steps(kind)) : Steps(kind)[i].n = fail

\* outcome of running the constructor: ok, and how many descriptors it created
\* are still open when it returns (owned on success, leaked on failure)
Outcome(kind, fail) ==
  LET fs   == FailStep(kind, fail)
      upto == IF fs = 0 THEN Len(Steps(kind)) ELSE fs - 1
      held == Cardinality({i \in 1..upto : Steps(kind)[i].t = "alloc"})
  IN  IF fs = 0 THEN [ok |-> TRUE, held |-> held]
      ELSE [ok |-> FALSE, held |-> IF Steps(kind)[fs].clean THEN 0 ELSE held]

\* what the harness itself allocates around the constructor
HPre(kind, fail)  == IF kind = "adp" THEN 2             \* net.Dial: client (to be adopted) + accepted peer
                     ELSE IF kind = "acc" /\ fail # "wouldblock" THEN 1   \* raw client that connects
                     ELSE 0
HPost(kind, ok)   == IF ok /\ kind \in {"tcp", "ws", "wsa"} THEN 1 ELSE 0   \* accepted peer / server side

\* ---------------------------------------------------------------------------
\* descriptor table
\* ---------------------------------------------------------------------------
Census(t) == {f \in Fds : t[f] # 0}
Free(t)   == {f \in Fds : t[f] = 0}
Lowest(t) == CHOOSE f \in Free(t) : \A g \in Free(t) : f <= g

RECURSIVE AllocN(_, _, _)
AllocN(t, n, owner) == IF n = 0 THEN t ELSE AllocN([t EXCEPT ![Lowest(t)] = owner], n - 1, owner)

\* syscall.Close(number): closes whatever is there
CloseNum(t, f) == IF f >= 0 /\ t[f] # 0 THEN [t EXCEPT ![f] = 0] ELSE t
\* IO.Deregister(&slot) of object o: clears the registry entry of slot.Fd - before the
\* repair whoever had put it there, since then only the object's own
DeregO(r, f, o) == IF f >= 0 /\ (BUG_ForeignDeregister \/ r[f] = o) THEN [r EXCEPT ![f] = 0] ELSE r
\* the object whose entry a Deregister(number f) issued by object o leaves alone (0: none)
Survivor(r, f, o) == IF f >= 0 /\ ~BUG_ForeignDeregister /\ r[f] # 0 /\ r[f] # o THEN r[f] ELSE 0
MarkStale(os, p) == IF p = 0 THEN os ELSE [os EXCEPT ![p].rk = "stale"]

SortedSeq(S) == SetToSortSeq(S, LAMBDA a, b : a < b)

Ev(name, o, kind, fail, ok, api, dir, coll, before, after, hnew, probe) ==
  [ev |-> name, obj |-> o, kind |-> kind, fail |-> fail, ok |-> ok, api |-> api, dir |-> dir, coll |-> coll,
   before |-> SortedSeq(before), after |-> SortedSeq(after), hnew |-> SortedSeq(hnew), probe |-> SortedSeq(probe)]

\* script entry: the command + the observation the model predicts
Cmd(op, o, kind, fail, dir, xok, xnew, xlost, xcoll) ==
  [op |-> op, obj |-> o, kind |-> kind, fail |-> fail, dir |-> dir, arg |-> 0,
   xok |-> xok, xnew |-> xnew, xlost |-> xlost, xcoll |-> xcoll]

B2I(b) == IF b THEN 1 ELSE 0

Init ==
  /\ tab = [f \in Fds |-> 0] /\ reg = [f \in Fds |-> 0]
  /\ objs = [o \in Objs |-> NoObj]
  /\ nmade = 0 /\ nops = 0 /\ nplug = 0 /\ iodead = FALSE
  /\ mon = M!Mon0
  /\ hist = <<>> /\ done = FALSE

\* ---------------------------------------------------------------------------
\* Make: harness preparation, the constructor, harness follow-up
\* ---------------------------------------------------------------------------
Args(fail) == IF fail \in {"truncated", "partial"} THEN TruncK ELSE {0}

Make(kind, fail, arg) ==
  LET o    == nmade + 1
      out  == Outcome(kind, fail)
      t1   == AllocN(tab, HPre(kind, fail), -2)
      hpre == Census(t1) \ Census(tab)
      t2   == AllocN(t1, out.held, IF out.ok THEN o ELSE -1)
      mine == Census(t2) \ Census(t1)
      t3   == AllocN(t2, HPost(kind, out.ok), -2)
      hpost == Census(t3) \ Census(t2)
      \* the adapter adopts the lower of the two harness descriptors (the dialled client)
      adopt == IF kind = "adp" THEN {CHOOSE f \in hpre : \A g \in hpre : f <= g} ELSE {}
      t4   == IF kind = "adp" /\ out.ok THEN [t3 EXCEPT ![CHOOSE f \in adopt : TRUE] = o] ELSE t3
      fdsq == SortedSeq(mine \cup adopt)
      m1   == IF hpre = {} THEN mon
              ELSE M!Step(mon, Ev("Harness", 0, kind, "none", 1, 0, "", 0, Census(tab), Census(t1), hpre, {}))
      m2   == M!Step(m1, Ev("Ctor", o, kind, fail, B2I(out.ok), 0, "", 0, Census(t1), Census(t2), {}, {}))
      m3   == IF hpost = {} THEN m2
              ELSE M!Step(m2, Ev("Harness", 0, kind, "none", 1, 0, "", 0, Census(t2), Census(t3), hpost, {}))
      m4   == IF kind = "adp" /\ out.ok
              THEN M!Step(m3, Ev("Adopt", o, kind, "none", 1, 0, "", 0, Census(t3), Census(t3), adopt, {}))
              ELSE m3
  IN
  /\ nmade < MaxObj
  /\ nmade' = o
  /\ tab' = t4
  /\ objs' = [objs EXCEPT ![o] =
        IF out.ok THEN [NoObj EXCEPT !.kind = kind, !.st = "live", !.refs = TRUE, !.gen = 1,
                                     !.fd = IF Len(fdsq) >= 1 THEN fdsq[1] ELSE -1,
                                     !.fd2 = IF Len(fdsq) >= 2 THEN fdsq[2] ELSE -1,
                                     !.nconn = IF kind \in {"adp", "ws", "wsa"} THEN "open" ELSE "none"]
        ELSE [NoObj EXCEPT !.kind = kind, !.st = "failed"]]
  /\ mon' = m4
  /\ hist' = Append(hist, [Cmd("Make", o, kind, fail, "", B2I(out.ok), out.held, 0, 0) EXCEPT !.arg = arg])
  /\ UNCHANGED <<reg, nplug, iodead>>

\* the event kind of a websocket stream that has been handshaken again is "ws2" / "wsa2"
EvKind(ob) == IF ob.gen > 1 THEN ob.kind \o "2" ELSE ob.kind

\* Handshake / AsyncHandshake again on the same stream (reconnect): reset() drops
\* the previous net.Conn, then the constructor steps run as in Make
Rehandshake(o, fail, arg) ==
  LET ob   == objs[o]
      out  == Outcome(ob.kind, fail)
      t0   == IF BUG_WsResetLeak \/ ob.nconn # "open" THEN tab ELSE CloseNum(tab, ob.fd)
      t2   == AllocN(t0, out.held, IF out.ok THEN o ELSE -1)
      mine == Census(t2) \ Census(t0)
      t3   == AllocN(t2, HPost(ob.kind, out.ok), -2)
      ob2  == [ob EXCEPT !.gen = 2, !.fd = IF out.ok THEN CHOOSE f \in mine : TRUE ELSE -1,
                         !.nconn = IF out.ok THEN "open" ELSE "closed"]
      m2   == M!Step(mon, Ev("Ctor", o, EvKind(ob2), fail, B2I(out.ok), 0, "", 0, Census(tab), Census(t2), {}, {}))
      m3   == IF t3 = t2 THEN m2
              ELSE M!Step(m2, Ev("Harness", 0, ob.kind, "none", 1, 0, "", 0, Census(t2), Census(t3), Census(t3) \ Census(t2), {}))
  IN
  /\ ob.st = "live" /\ ob.kind \in {"ws", "wsa"} /\ ob.gen = 1 /\ ~ob.closed /\ ob.refs
  /\ tab' = t3
  /\ objs' = [objs EXCEPT ![o] = ob2]
  /\ mon' = m3
  /\ hist' = Append(hist, [Cmd("Rehandshake", o, ob.kind, fail, "", B2I(out.ok), out.held,
                               IF t0 = tab THEN 0 ELSE 1, 0) EXCEPT !.arg = arg])
  /\ UNCHANGED <<reg, nmade, nplug, iodead>>

\* the program closes the IO context (epoll and eventfd go away; they belong to the scenario frame, not to an
\* object of the table) while operations are parked on objects it has not closed yet
IoClose ==
  /\ WithGc /\ ~iodead
  /\ \E o \in Objs : objs[o].st = "live" /\ ~objs[o].closed /\ (objs[o].evr \/ objs[o].evw)
  /\ iodead' = TRUE
  /\ mon' = M!Step(mon, Ev("Harness", 0, "", "none", 1, 0, "", 0, Census(tab), Census(tab), {}, {}))
  /\ hist' = Append(hist, Cmd("IoClose", 0, "", "none", "", 1, 0, 0, 0))
  /\ UNCHANGED <<tab, reg, objs, nmade, nplug>>

\* the harness allocates a descriptor of its own (between two Closes)
Plug ==
  /\ nplug < MaxPlug
  /\ nplug' = nplug + 1
  /\ LET t1 == AllocN(tab, 1, -2) IN
     /\ tab' = t1
     /\ mon' = M!Step(mon, Ev("Harness", 0, "", "none", 1, 0, "", 0, Census(tab), Census(t1), Census(t1) \ Census(tab), {}))
  /\ hist' = Append(hist, Cmd("Plug", 0, "", "none", "", 1, 1, 0, 0))
  /\ UNCHANGED <<reg, objs, nmade, iodead>>

\* ---------------------------------------------------------------------------
\* Close
\* ---------------------------------------------------------------------------

Guarded(ob) ==
  CASE ob.kind = "lst"   -> ~BUG_ListenerNoGuard
    [] ob.kind = "pkt"   -> ~BUG_PacketNoGuard
    [] OTHER             -> TRUE       \* io, timer (state), file-based conns, peer, adapter, websocket (conn = nil)

\* what the call does to table, registry and the object
CloseEffect(o) ==
  LET ob == objs[o] IN
  IF ob.closed /\ Guarded(ob) THEN [t |-> tab, r |-> reg, sv |-> 0, ob |-> [ob EXCEPT !.ncl = @ + 1]]
  ELSE IF ob.kind = "adp" /\ ~BUG_AdapterRawClose THEN
       \* repaired: the adapter closes through the net.Conn, which closes its descriptor once
       [t |-> IF ob.nconn = "open" THEN CloseNum(tab, ob.fd) ELSE tab, r |-> DeregO(reg, ob.fd, o), sv |-> Survivor(reg, ob.fd, o),
        ob |-> [ob EXCEPT !.closed = TRUE, !.ncl = @ + 1, !.evr = FALSE, !.evw = FALSE, !.nconn = "closed", !.rk = ""]]
  ELSE IF ob.kind \in {"ws", "wsa"} THEN
       \* CloseNextLayer: net.Conn.Close, guarded by conn = nil
       [t |-> IF ob.nconn = "open" THEN CloseNum(tab, ob.fd) ELSE tab, r |-> reg, sv |-> 0,
        ob |-> [ob EXCEPT !.closed = TRUE, !.ncl = @ + 1, !.nconn = "closed"]]
  ELSE IF BUG_CloseKeepsFd /\ iodead /\ ob.kind \in {"tcp", "acc", "file"} /\ ob.evw /\ ~ob.evr THEN
       \* as found: poller.Del reports the failed removal of the write interest, file.Close returns the error
       \* before Deregister and close(2); the object counts as closed from then on
       [t |-> tab, r |-> reg, sv |-> 0, ob |-> [ob EXCEPT !.closed = TRUE, !.ncl = @ + 1]]
  ELSE [t |-> CloseNum(CloseNum(tab, ob.fd), ob.fd2),
        r |-> IF ob.kind \in {"io", "timer"} THEN reg ELSE DeregO(reg, ob.fd, o),
        sv |-> IF ob.kind \in {"io", "timer"} THEN 0 ELSE Survivor(reg, ob.fd, o),
        \* (ghost: which directions were parked when the object was closed after its IO context - the poller's
        \*  calls fail then, and which of them fails depends on the direction)
        ob |-> [ob EXCEPT !.closed = TRUE, !.ncl = @ + 1, !.evr = FALSE, !.evw = FALSE,
                          !.rk = IF iodead /\ (ob.evr \/ ob.evw)
                                   THEN "ioclosed-" \o (IF ob.evr THEN "r" ELSE "") \o (IF ob.evw THEN "w" ELSE "") ELSE ""]]

DoClose(o) ==
  LET ob == objs[o]
      ef == CloseEffect(o)
      lost == Census(tab) \ Census(ef.t)
      foreign == {f \in lost : tab[f] # o}
  IN
  /\ ob.st = "live" /\ ob.ncl < MaxClose /\ ob.refs     \* ("mir": Destroy)
  /\ tab' = ef.t /\ reg' = ef.r
  /\ objs' = MarkStale([objs EXCEPT ![o] = ef.ob], ef.sv)
  /\ mon' = M!Step(mon, Ev("Close", o, EvKind(ob), "none", 1, 1, "", 0, Census(tab), Census(ef.t), {}, {}))
  /\ hist' = Append(hist, Cmd("Close", o, ob.kind, "none", "", 1, 0, Cardinality(lost), 0))
  /\ UNCHANGED <<nmade, nplug, iodead>>

\* Timer.Cancel: it.Unset() (nothing armed: nil) and then state = ready, also after Close
TimerCancel(o) ==
  LET ob == objs[o] IN
  /\ ob.st = "live" /\ ob.kind = "timer" /\ ob.closed /\ ob.refs
  /\ objs' = [objs EXCEPT ![o].closed = IF BUG_TimerRevive THEN FALSE ELSE TRUE]
  /\ hist' = Append(hist, Cmd("Cancel", o, ob.kind, "none", "", 1, 0, 0, 0))
  /\ UNCHANGED <<tab, reg, nmade, nplug, iodead, mon>>

\* The callback of a repeating timer closes the timer and creates its successor (which gets the released number,
\* the lowest free one). ScheduleRepeating's wrapper, which runs after the callback, must leave the closed timer
\* alone. As found it does; BUG_RepeatRearmsClosed = the wrapper arms the closed timer again - on a number that now
\* belongs to the successor - so the object counts as open again and its next Close releases a foreign descriptor.
TimerRepl(o, o2) ==
  LET ob == objs[o]
      t1 == CloseNum(tab, ob.fd)
      t2 == AllocN(t1, 1, o2)
      nf == CHOOSE f \in Census(t2) \ Census(t1) : TRUE
      m1 == M!Step(mon, Ev("Close", o, "timer", "none", 1, 1, "", 0, Census(tab), Census(t1), {}, {}))
      m2 == M!Step(m1, Ev("Ctor", o2, "timer", "none", 1, 0, "", 0, Census(t1), Census(t2), {}, {}))
  IN
  /\ ~iodead /\ nmade < MaxObj /\ o2 = nmade + 1
  /\ ob.st = "live" /\ ob.kind = "timer" /\ ~ob.closed /\ ob.refs /\ ~ob.evr /\ ob.ncl < MaxClose
  /\ ob.fd >= 0 /\ tab[ob.fd] = o
  /\ nmade' = o2
  /\ tab' = t2
  /\ objs' = [objs EXCEPT ![o].closed = IF BUG_RepeatRearmsClosed THEN FALSE ELSE TRUE, ![o].ncl = @ + 1,
                          ![o2] = [NoObj EXCEPT !.kind = "timer", !.st = "live", !.refs = TRUE, !.gen = 1, !.fd = nf]]
  /\ mon' = m2
  /\ hist' = Append(hist, [Cmd("TimerRepl", o, "timer", "none", "", 1, 1, 1, 0) EXCEPT !.arg = o2])
  /\ UNCHANGED <<reg, nplug, iodead>>

\* the user closes the net.Conn an adapter wraps (before or after the adapter's Close)
NetClose(o) ==
  LET ob == objs[o]
      t1 == IF ob.nconn = "open" THEN CloseNum(tab, ob.fd) ELSE tab
      lost == Census(tab) \ Census(t1)
  IN
  /\ ob.st = "live" /\ ob.kind = "adp" /\ ob.ncl < MaxClose /\ ob.refs
  /\ tab' = t1
  /\ objs' = [objs EXCEPT ![o].nconn = "closed", ![o].ncl = @ + 1]
  /\ mon' = M!Step(mon, Ev("Close", o, ob.kind, "none", 1, 0, "", 0, Census(tab), Census(t1), {}, {}))
  /\ hist' = Append(hist, Cmd("NetClose", o, ob.kind, "none", "", 1, 0, Cardinality(lost), 0))
  /\ UNCHANGED <<reg, nmade, nplug, iodead>>

\* websocket: stream.NextLayer().Close(), i.e. the Close of the AsyncAdapter the
\* stream built around its net.Conn (before or after CloseNextLayer)
LayerClose(o) ==
  LET ob == objs[o]
      t1 == IF ob.lclosed THEN tab
            ELSE IF BUG_AdapterRawClose THEN CloseNum(tab, ob.fd)
            ELSE IF ob.nconn = "open" THEN CloseNum(tab, ob.fd) ELSE tab
      lost == Census(tab) \ Census(t1)
  IN
  /\ ob.st = "live" /\ ob.kind \in {"ws", "wsa"} /\ ob.gen = 1 /\ ob.ncl < MaxClose /\ ob.refs
  /\ tab' = t1
  /\ reg' = IF ob.lclosed THEN reg ELSE DeregO(reg, ob.fd, o)
  /\ objs' = MarkStale([objs EXCEPT ![o].lclosed = TRUE, ![o].ncl = @ + 1,
                                    ![o].nconn = IF BUG_AdapterRawClose \/ ob.lclosed THEN @ ELSE "closed"],
                        IF ob.lclosed THEN 0 ELSE Survivor(reg, ob.fd, o))
  /\ mon' = M!Step(mon, Ev("Close", o, ob.kind, "none", 1, 0, "", 0, Census(tab), Census(t1), {}, {}))
  /\ hist' = Append(hist, Cmd("LayerClose", o, ob.kind, "none", "", 1, 0, Cardinality(lost), 0))
  /\ UNCHANGED <<nmade, nplug, iodead>>

\* ---------------------------------------------------------------------------
\* operations in flight, references, collection
\* ---------------------------------------------------------------------------
CanRead(k)  == k \in {"tcp", "udp", "acc", "pkt", "peer", "file", "adp", "lst", "timer"}
CanWrite(k) == k \in {"tcp", "acc", "adp"}   \* (the harness opens the FIFO of "file" read-only)

\* an asynchronous operation that cannot complete now: interest set, Slot registered
\* via = 0: the operation was tried and would block; via = 1: it was started when IO.Dispatched had reached
\* MaxCallbackDispatch and went to the poller untried (another branch of the same functions). Same effect;
\* the ghost rk keeps the two apart so that Drop/Fire are generated behind both.
Park(o, dir, via) ==
  LET ob == objs[o] IN
  /\ WithGc /\ ob.st = "live" /\ ~ob.closed /\ ob.refs
  /\ ob.fd >= 0 /\ tab[ob.fd] = o     \* on a descriptor it still owns (not a revived timer)
  /\ IF dir = "r" THEN CanRead(ob.kind) /\ ~ob.evr ELSE CanWrite(ob.kind) /\ ~ob.evw
  /\ (via = 1 => ob.kind \in {"tcp", "acc", "file", "pkt", "peer", "lst", "udp"})
  /\ objs' = [objs EXCEPT ![o].evr = IF dir = "r" THEN TRUE ELSE @, ![o].evw = IF dir = "w" THEN TRUE ELSE @,
                          ![o].rk = IF via = 1 THEN "limit" ELSE @]
  /\ reg' = IF ob.kind = "timer" THEN reg ELSE [reg EXCEPT ![ob.fd] = o]
  /\ mon' = M!Step(mon, Ev("Park", o, ob.kind, "none", 1, 0, dir, 0, Census(tab), Census(tab), {}, {}))
  /\ hist' = Append(hist, [Cmd("Park", o, ob.kind, "none", dir, 1, 0, 0, 0) EXCEPT !.arg = via])
  /\ UNCHANGED <<tab, nmade, nplug, iodead>>

\* reachable: the program holds it, or the registry entry of its number points
\* at its Slot, or (timer) it is in pendingTimers
Alive(o) == LET ob == objs[o] IN
  \/ ob.refs
  \/ (ob.kind = "timer" /\ ob.evr)
  \/ (ob.kind # "timer" /\ ob.fd >= 0 /\ reg[ob.fd] = o)

\* the harness makes the operation completable and polls: the poller clears the
\* interest, the handler deregisters the Slot and completes the operation
Fire(o, dir) ==
  LET ob == objs[o]
      other == IF dir = "r" THEN ob.evw ELSE ob.evr
  IN
  /\ WithGc /\ ob.st = "live" /\ ~ob.coll
  /\ ob.fd >= 0 /\ tab[ob.fd] = o     \* readiness can only be reported for a descriptor that is still open
  /\ IF dir = "r" THEN ob.evr ELSE ob.evw
  /\ objs' = [objs EXCEPT ![o].evr = IF dir = "r" THEN FALSE ELSE @, ![o].evw = IF dir = "w" THEN FALSE ELSE @,
                          ![o].rk = IF ob.kind = "timer" THEN @ ELSE IF BUG_EarlyDeregister \/ ~other THEN "" ELSE "kept"]
  /\ reg' = IF ob.kind = "timer" THEN reg
            ELSE IF BUG_EarlyDeregister \/ ~other THEN DeregO(reg, ob.fd, o) ELSE reg
  /\ mon' = M!Step(mon, Ev(IF ob.refs THEN "Done" ELSE "Deliver", o, ob.kind, "none", 1, 0, dir, 0,
                           Census(tab), Census(tab), {}, {}))
  /\ hist' = Append(hist, Cmd("Fire", o, ob.kind, "none", dir, 1, 0, 0, 0))
  /\ UNCHANGED <<tab, nmade, nplug, iodead>>

\* the program drops every reference, the collector runs three times; the
\* sentinel captured by the pending callback tells whether the owner went
Drop(o, dir) ==
  LET ob == objs[o]
      gone == ~Alive(o) \/ (~ob.refs /\ FALSE)
      coll == LET ob2 == [ob EXCEPT !.refs = FALSE] IN
              ~((ob.kind = "timer" /\ ob.evr) \/ (ob.kind # "timer" /\ ob.fd >= 0 /\ reg[ob.fd] = o))
  IN
  /\ WithGc /\ ob.st = "live" /\ ob.refs
  /\ IF dir = "r" THEN ob.evr ELSE ob.evw
  /\ objs' = [objs EXCEPT ![o].refs = FALSE, ![o].coll = coll]
  /\ mon' = M!Step(mon, Ev("Gc", o, ob.kind, "none", 1, 0, dir, B2I(coll), Census(tab), Census(tab), {}, {}))
  /\ hist' = Append(hist, Cmd("Drop", o, ob.kind, "none", dir, 1, 0, 0, B2I(coll)))
  /\ UNCHANGED <<tab, reg, nmade, nplug, iodead>>

\* ---------------------------------------------------------------------------
Step ==
  /\ nops < MaxOps /\ nops' = nops + 1
  /\ UNCHANGED done
  /\ \/ /\ ~iodead
        /\ \E k \in Kinds : \E f \in ({"none"} \cup (IF WithFail THEN FailPoints(k) ELSE {})) :
            \E a \in Args(f) : Make(k, f, a)
     \/ Plug
     \/ IoClose
     \/ /\ WithRehs /\ ~iodead
        /\ \E o \in {x \in Objs : objs[x].kind \in {"ws", "wsa"}} :
             \* (no exhaustion here: reset() frees a number first, so RLIMIT_NOFILE cannot make the dial fail)
             \E f \in ({"none"} \cup (IF WithFail THEN FailPoints(objs[o].kind) \ EmFails(objs[o].kind) ELSE {})) :
               \E a \in Args(f) : Rehandshake(o, f, a)
     \/ \E o \in Objs : DoClose(o) \/ TimerCancel(o) \/ NetClose(o) \/ LayerClose(o)
     \/ \E o \in Objs, o2 \in Objs : TimerRepl(o, o2)
     \/ \E o \in Objs : \E d \in {"r", "w"} : (~iodead /\ (Park(o, d, 0) \/ Park(o, d, 1) \/ Fire(o, d))) \/ Drop(o, d)

\* a state in which the monitor has rejected is terminal; the rejected script
\* is emitted like any other and judged on the real code
Next == mon.bad = "" /\ Step

Spec == Init /\ [][Next]_vars

NotBad == mon.bad = ""

TypeOK ==
  /\ \A f \in Fds : tab[f] \in -2 .. MaxObj
  /\ \A f \in Fds : reg[f] \in 0 .. MaxObj
  /\ Cardinality(Free(tab)) >= 1

\* the monitor's partition and the table agree while nothing is rejected
Agree == mon.bad = "" => \A f \in Fds : \A o \in Objs : (tab[f] = o) <=> (<<f, o>> \in mon.own)

View == <<implvars, mon>>

EmitEdge == /\ PrintT(<<"EDGE", ToJson(hist')>>)
            /\ (mon'.bad # "" => PrintT(<<"MODELBAD", mon'.bad, ToJson(hist')>>))

\* model-only runs: print just the rejected scripts
EmitBad == mon'.bad # "" => PrintT(<<"MODELBAD", mon'.bad, ToJson(hist')>>)
=============================================================================
