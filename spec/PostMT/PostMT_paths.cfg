SPECIFICATION Spec
CONSTANTS
  Posters = {"p1"}
  PerPoster = 1
  Nested = 1
  Arms = 0
  BUG_LockHeld = FALSE
  BUG_PlainCount = FALSE
  BUG_SignalFirst = FALSE
INVARIANTS AtMostOnce Ordered RestExact
CONSTRAINT EmitTerminal
CHECK_DEADLOCK FALSE
