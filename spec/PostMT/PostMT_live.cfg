SPECIFICATION FairSpec
CONSTANTS
  Posters = {"p1", "p2"}
  PerPoster = 1
  Nested = 1
  Arms = 1
  BUG_LockHeld = FALSE
  BUG_PlainCount = FALSE
  BUG_SignalFirst = FALSE
PROPERTIES EventuallyDone
VIEW View
CHECK_DEADLOCK FALSE
