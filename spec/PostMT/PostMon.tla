------------------------------- MODULE PostMon -------------------------------
(* Property monitor for C05 over traces of the real IO.Post under load (and   *)
(* under gated, TLC-chosen interleavings): exactly once, on the loop          *)
(* goroutine, per-poster order, Post returns, the loop is not left asleep     *)
(* with handlers outstanding, Pending()/Posted() exact at rest, no data race. *)
EXTENDS Integers, Sequences, FiniteSets, TLC

VARIABLES postedB,  \* handlers whose Post call has started: {<<p, seq, nest>>}
          openPost, \* Post calls that have not returned yet
          ran,      \* handlers that ran
          last,     \* poster -> highest non-nested seq run so far
          bad

monvars == <<postedB, openPost, ran, last, bad>>

MonInit == postedB = {} /\ openPost = {} /\ ran = {} /\ last = <<>> /\ bad = ""

Fail(key) == bad' = key /\ UNCHANGED <<postedB, openPost, ran, last>>

ObsReset(e) ==
  /\ postedB' = {} /\ openPost' = {} /\ ran' = {} /\ last' = [p \in 1..e.n |-> 0] /\ bad' = ""

K(e) == <<e.p, e.seq, e.nest>>

ObsPostB(e) ==
  /\ postedB' = postedB \cup {K(e)} /\ openPost' = openPost \cup {K(e)}
  /\ UNCHANGED <<ran, last, bad>>

ObsPostE(e) ==
  IF e.err # "nil" THEN Fail("C05/post-error")
  ELSE openPost' = openPost \ {K(e)} /\ UNCHANGED <<postedB, ran, last, bad>>

ObsRun(e) ==
  IF K(e) \notin postedB THEN Fail("C05/run-unposted")
  ELSE IF K(e) \in ran THEN Fail("C05/run-twice")
  ELSE IF e.loop # 1 THEN Fail("C05/wrong-thread")
  ELSE IF e.nest = 0 /\ e.p \in DOMAIN last /\ e.seq <= last[e.p] THEN Fail("C05/order")
  ELSE /\ ran' = ran \cup {K(e)}
       /\ last' = IF e.nest = 0 /\ e.p \in DOMAIN last THEN [last EXCEPT ![e.p] = e.seq] ELSE last
       /\ UNCHANGED <<postedB, openPost, bad>>

ObsStuck(e) ==
  IF e.what = "post" THEN
     Fail(IF \E k \in openPost : k[3] = 1 THEN "C05/post-stuck/reentrant" ELSE "C05/post-stuck/plain")
  ELSE IF \E k \in openPost : k[3] = 1 THEN Fail("C05/post-stuck/reentrant")
  ELSE Fail("C05/wait-stuck")

ObsEnd(e) ==
  IF postedB \ ran # {} THEN Fail("C05/not-run")
  ELSE IF e.pending # 0 THEN Fail("C05/ledger/pending")
  ELSE IF e.posted # 0 THEN Fail("C05/ledger/posted")
  ELSE UNCHANGED monvars

Obs(e) ==
  CASE e.ev = "Reset" -> ObsReset(e)
    [] e.ev = "PostB" -> ObsPostB(e)
    [] e.ev = "PostE" -> ObsPostE(e)
    [] e.ev = "Run"   -> ObsRun(e)
    [] e.ev = "Stuck" -> ObsStuck(e)
    [] e.ev = "Race"  -> Fail("C05/race/" \o e.what)
    [] e.ev = "Gate"  -> UNCHANGED monvars
    [] e.ev = "End"   -> ObsEnd(e)
    [] OTHER          -> Fail("har/unknown-event")
=============================================================================
