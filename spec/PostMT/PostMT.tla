------------------------------- MODULE PostMT -------------------------------
(* IO.Post from several goroutines against the loop goroutine, at the        *)
(* granularity of internal/poll_linux.go: Post = lock; append; count; unlock; *)
(* eventfd write.  Loop = epoll_wait (blocks unless the eventfd is readable   *)
(* or other work is ready); drain the eventfd; take the queue; run the        *)
(* handlers; count down.  Handlers may Post again (re-entrancy).  The loop    *)
(* also arms/disarms other descriptors, which updates the same `pending`      *)
(* counter.                                                                   *)
(* Switches keep the code as it was before the repairs:                       *)
(*   BUG_LockHeld   handlers run while the mutex is held (Post from a posted  *)
(*                  handler blocks for good);                                 *)
(*   BUG_PlainCount `pending` is a plain int: the loop's read-modify-write    *)
(*                  outside the mutex races with the posters' under it;       *)
(*   BUG_SignalFirst (mutation, never in the code) eventfd written before the *)
(*                  append: lost wake-up.                                     *)
EXTENDS Integers, Sequences, FiniteSets, TLC, Json

CONSTANTS Posters,      \* set of poster ids (model values or strings)
          PerPoster,    \* posts per poster
          Nested,       \* how many handlers post one more handler when they run
          Arms,         \* loop-side arm/disarm pairs (pending +1 / -1 outside the mutex)
          BUG_LockHeld, BUG_PlainCount, BUG_SignalFirst

VARIABLES ppc,       \* poster -> "idle" | "lock" | "append" | "unlock" | "signal" | "done"
          pn,        \* poster -> posts completed
          queue,     \* poller.posts : Seq(handler)   handler = [by, seq, nest]
          running,   \* handlers taken by dispatch, not yet run (repaired code) / the range snapshot (old code)
          lck,       \* "free" | poster id | "loop"
          evfd,      \* eventfd counter
          pending,   \* poller.pending
          lpc,       \* loop pc: "wait" | "drain" | "lock" | "run" | "after" | "unlock" | "arm1" | "arm2" | "dis1" | "dis2" | "nest-lock" | "nest-append" | "nest-unlock" | "nest-signal"
          ltmp,      \* loop's register for the non-atomic update
          ptmp,      \* poster -> register for the non-atomic update
          cur,       \* handler being run by the loop (or <<>>)
          armsLeft, armed,
          nestLeft,
          ran,       \* Seq(handler) in run order
          hist

vars == <<ppc, pn, queue, running, lck, evfd, pending, lpc, ltmp, ptmp, cur, armsLeft, armed, nestLeft, ran, hist>>

H(by, seq, nest) == [by |-> by, seq |-> seq, nest |-> nest]

Init ==
  /\ ppc = [p \in Posters |-> "idle"] /\ pn = [p \in Posters |-> 0]
  /\ queue = <<>> /\ running = <<>> /\ lck = "free" /\ evfd = 0 /\ pending = 0
  /\ lpc = "wait" /\ ltmp = 0 /\ ptmp = [p \in Posters |-> 0] /\ cur = <<>>
  /\ armsLeft = Arms /\ armed = 0 /\ nestLeft = Nested /\ ran = <<>> /\ hist = <<>>

Log(who, what) == hist' = Append(hist, [who |-> who, what |-> what])

\* ------------------------------------------------------------------ posters
PStart(p) ==
  /\ ppc[p] = "idle" /\ pn[p] < PerPoster
  /\ ppc' = [ppc EXCEPT ![p] = IF BUG_SignalFirst THEN "signal0" ELSE "lock"]
  /\ Log(p, "post.enter")
  /\ UNCHANGED <<pn, queue, running, lck, evfd, pending, lpc, ltmp, ptmp, cur, armsLeft, armed, nestLeft, ran>>

PSignal0(p) ==   \* mutation: wake the loop before the handler is queued
  /\ ppc[p] = "signal0"
  /\ evfd' = evfd + 1 /\ ppc' = [ppc EXCEPT ![p] = "lock"]
  /\ Log(p, "post.signalled")
  /\ UNCHANGED <<pn, queue, running, lck, pending, lpc, ltmp, ptmp, cur, armsLeft, armed, nestLeft, ran>>

PLock(p) ==
  /\ ppc[p] = "lock" /\ lck = "free"
  /\ lck' = p /\ ppc' = [ppc EXCEPT ![p] = "append"]
  /\ Log(p, "post.locked")
  /\ UNCHANGED <<pn, queue, running, evfd, pending, lpc, ltmp, ptmp, cur, armsLeft, armed, nestLeft, ran>>

PAppend(p) ==
  /\ ppc[p] = "append"
  /\ queue' = Append(queue, H(p, pn[p] + 1, FALSE))
  /\ IF BUG_PlainCount
       THEN ptmp' = [ptmp EXCEPT ![p] = pending] /\ UNCHANGED pending /\ ppc' = [ppc EXCEPT ![p] = "count"]
       ELSE pending' = pending + 1 /\ UNCHANGED ptmp /\ ppc' = [ppc EXCEPT ![p] = "unlock"]
  /\ Log(p, "post.appended")
  /\ UNCHANGED <<pn, running, lck, evfd, lpc, ltmp, cur, armsLeft, armed, nestLeft, ran>>

PCount(p) ==     \* second half of the plain `p.pending++`
  /\ ppc[p] = "count"
  /\ pending' = ptmp[p] + 1 /\ ppc' = [ppc EXCEPT ![p] = "unlock"]
  /\ Log(p, "post.counted")
  /\ UNCHANGED <<pn, queue, running, lck, evfd, lpc, ltmp, ptmp, cur, armsLeft, armed, nestLeft, ran>>

PUnlock(p) ==
  /\ ppc[p] = "unlock"
  /\ lck' = "free" /\ ppc' = [ppc EXCEPT ![p] = IF BUG_SignalFirst THEN "ret" ELSE "signal"]
  /\ Log(p, "post.unlocked")
  /\ UNCHANGED <<pn, queue, running, evfd, pending, lpc, ltmp, ptmp, cur, armsLeft, armed, nestLeft, ran>>

PSignal(p) ==
  /\ ppc[p] = "signal"
  /\ evfd' = evfd + 1 /\ ppc' = [ppc EXCEPT ![p] = "ret"]
  /\ Log(p, "post.signalled")
  /\ UNCHANGED <<pn, queue, running, lck, pending, lpc, ltmp, ptmp, cur, armsLeft, armed, nestLeft, ran>>

PRet(p) ==
  /\ ppc[p] = "ret"
  /\ pn' = [pn EXCEPT ![p] = @ + 1]
  /\ ppc' = [ppc EXCEPT ![p] = IF pn[p] + 1 < PerPoster THEN "idle" ELSE "done"]
  /\ Log(p, "post.return")
  /\ UNCHANGED <<queue, running, lck, evfd, pending, lpc, ltmp, ptmp, cur, armsLeft, armed, nestLeft, ran>>

\* ------------------------------------------------------------------ the loop
\* epoll_wait returns only when the eventfd is readable (other descriptors are
\* abstracted into the arm/disarm steps, which happen between polls)
LWait ==
  /\ lpc = "wait" /\ evfd > 0
  /\ lpc' = "drain" /\ Log("loop", "poll.woken")
  /\ UNCHANGED <<ppc, pn, queue, running, lck, evfd, pending, ltmp, ptmp, cur, armsLeft, armed, nestLeft, ran>>

LDrain ==
  /\ lpc = "drain"
  /\ evfd' = 0 /\ lpc' = "lock" /\ Log("loop", "dispatch.drained")
  /\ UNCHANGED <<ppc, pn, queue, running, lck, pending, ltmp, ptmp, cur, armsLeft, armed, nestLeft, ran>>

LLock ==
  /\ lpc = "lock" /\ lck = "free"
  /\ IF BUG_LockHeld
       THEN lck' = "loop" /\ running' = queue /\ UNCHANGED queue     \* range snapshot, mutex kept
       ELSE lck' = "free" /\ running' = queue /\ queue' = <<>>       \* take the queue, release
  /\ lpc' = "run" /\ Log("loop", "dispatch.taken")
  /\ UNCHANGED <<ppc, pn, evfd, pending, ltmp, ptmp, cur, armsLeft, armed, nestLeft, ran>>

LRun ==
  /\ lpc = "run"
  /\ IF running = <<>> THEN
        /\ lpc' = IF BUG_LockHeld THEN "unlock" ELSE "wait"
        /\ UNCHANGED <<cur, running, ran, nestLeft>> /\ Log("loop", "dispatch.done")
     ELSE
        /\ cur' = Head(running) /\ running' = Tail(running) /\ ran' = Append(ran, Head(running))
        \* some handlers post one more handler while they run
        /\ IF nestLeft > 0 /\ ~Head(running).nest
             THEN lpc' = "nest-lock" /\ nestLeft' = nestLeft - 1
             ELSE lpc' = "after" /\ UNCHANGED nestLeft
        /\ Log("loop", "run")
  /\ UNCHANGED <<ppc, pn, queue, lck, evfd, pending, ltmp, ptmp, armsLeft, armed>>

\* Post called from inside the handler (same thread as the loop)
LNestLock ==
  /\ lpc = "nest-lock" /\ lck = "free"          \* with BUG_LockHeld the loop holds it itself: blocks for good
  /\ lck' = "loopnest" /\ lpc' = "nest-append" /\ Log("loop", "nest.locked")
  /\ UNCHANGED <<ppc, pn, queue, running, evfd, pending, ltmp, ptmp, cur, armsLeft, armed, nestLeft, ran>>

LNestAppend ==
  /\ lpc = "nest-append"
  /\ queue' = Append(queue, H(cur.by, cur.seq, TRUE))
  /\ pending' = pending + 1          \* under the mutex, on the loop thread
  /\ lpc' = "nest-unlock" /\ Log("loop", "nest.appended")
  /\ UNCHANGED <<ppc, pn, running, lck, evfd, ltmp, ptmp, cur, armsLeft, armed, nestLeft, ran>>

LNestUnlock ==
  /\ lpc = "nest-unlock"
  /\ lck' = "free" /\ lpc' = "nest-signal" /\ Log("loop", "nest.unlocked")
  /\ UNCHANGED <<ppc, pn, queue, running, evfd, pending, ltmp, ptmp, cur, armsLeft, armed, nestLeft, ran>>

LNestSignal ==
  /\ lpc = "nest-signal"
  /\ evfd' = evfd + 1 /\ lpc' = "after" /\ Log("loop", "nest.signalled")
  /\ UNCHANGED <<ppc, pn, queue, running, lck, pending, ltmp, ptmp, cur, armsLeft, armed, nestLeft, ran>>

\* `p.pending--` after the handler returned
LAfter ==
  /\ lpc = "after"
  /\ IF BUG_PlainCount /\ ~BUG_LockHeld     \* plain read-modify-write outside the mutex
       THEN ltmp' = pending /\ lpc' = "after2" /\ UNCHANGED pending
       ELSE pending' = pending - 1 /\ lpc' = "run" /\ UNCHANGED ltmp
  /\ cur' = <<>> /\ Log("loop", "counted-down")
  /\ UNCHANGED <<ppc, pn, queue, running, lck, evfd, ptmp, armsLeft, armed, nestLeft, ran>>

LAfter2 ==
  /\ lpc = "after2"
  /\ pending' = ltmp - 1 /\ lpc' = "run" /\ Log("loop", "counted-down2")
  /\ UNCHANGED <<ppc, pn, queue, running, lck, evfd, ltmp, ptmp, cur, armsLeft, armed, nestLeft, ran>>

LUnlock ==
  /\ lpc = "unlock"
  /\ queue' = <<>>                   \* p.posts = p.posts[:0]
  /\ lck' = "free" /\ lpc' = "wait" /\ Log("loop", "dispatch.unlocked")
  /\ UNCHANGED <<ppc, pn, running, evfd, pending, ltmp, ptmp, cur, armsLeft, armed, nestLeft, ran>>

\* between polls the loop arms / disarms other descriptors: pending +1 / -1
\* without the mutex (SetRead, DelRead from handlers and from the poll loop)
LArm ==
  /\ lpc = "wait" /\ armsLeft > 0 /\ armed = 0
  /\ armsLeft' = armsLeft - 1
  /\ IF BUG_PlainCount THEN ltmp' = pending /\ lpc' = "arm2" /\ UNCHANGED <<pending, armed>>
                       ELSE pending' = pending + 1 /\ armed' = 1 /\ UNCHANGED <<ltmp, lpc>>
  /\ Log("loop", "arm")
  /\ UNCHANGED <<ppc, pn, queue, running, lck, evfd, ptmp, cur, nestLeft, ran>>

LArm2 ==
  /\ lpc = "arm2"
  /\ pending' = ltmp + 1 /\ armed' = 1 /\ lpc' = "wait" /\ Log("loop", "arm2")
  /\ UNCHANGED <<ppc, pn, queue, running, lck, evfd, ltmp, ptmp, cur, armsLeft, nestLeft, ran>>

LDisarm ==
  /\ lpc = "wait" /\ armed = 1
  /\ IF BUG_PlainCount THEN ltmp' = pending /\ lpc' = "dis2" /\ UNCHANGED <<pending, armed>>
                       ELSE pending' = pending - 1 /\ armed' = 0 /\ UNCHANGED <<ltmp, lpc>>
  /\ Log("loop", "disarm")
  /\ UNCHANGED <<ppc, pn, queue, running, lck, evfd, ptmp, cur, armsLeft, nestLeft, ran>>

LDisarm2 ==
  /\ lpc = "dis2"
  /\ pending' = ltmp - 1 /\ armed' = 0 /\ lpc' = "wait" /\ Log("loop", "disarm2")
  /\ UNCHANGED <<ppc, pn, queue, running, lck, evfd, ltmp, ptmp, cur, armsLeft, nestLeft, ran>>

Loop == LWait \/ LDrain \/ LLock \/ LRun \/ LNestLock \/ LNestAppend \/ LNestUnlock \/ LNestSignal
          \/ LAfter \/ LAfter2 \/ LUnlock \/ LArm \/ LArm2 \/ LDisarm \/ LDisarm2

Poster(p) == PStart(p) \/ PSignal0(p) \/ PLock(p) \/ PAppend(p) \/ PCount(p) \/ PUnlock(p) \/ PSignal(p) \/ PRet(p)

Next == Loop \/ \E p \in Posters : Poster(p)

Spec == Init /\ [][Next]_vars
FairSpec == Spec /\ WF_vars(Loop) /\ \A p \in Posters : WF_vars(Poster(p))

\* ------------------------------------------------------------------ properties (C05)
AllPosted == \A p \in Posters : ppc[p] = "done"
Outstanding == Len(queue) + Len(running) + (IF cur # <<>> THEN 0 ELSE 0)
Quiescent == AllPosted /\ lpc = "wait" /\ evfd = 0 /\ armed = 0

\* every handler runs at most once
AtMostOnce == \A i, j \in DOMAIN ran : i # j => ran[i] # ran[j]

\* handlers of one poster run in the order they were posted
Ordered == \A i, j \in DOMAIN ran :
             (i < j /\ ran[i].by = ran[j].by /\ ~ran[i].nest /\ ~ran[j].nest) => ran[i].seq < ran[j].seq

\* when everything is at rest: nothing is left queued, the counter is exact
\* (a handler left in the queue with the loop asleep is a lost wake-up)
RestExact == Quiescent => (queue = <<>> /\ running = <<>> /\ pending = 0)

\* total number of handlers that must run
Total == Cardinality(Posters) * PerPoster + (Nested - nestLeft)
Done == AllPosted /\ Len(ran) = Total /\ lpc = "wait" /\ armed = 0

\* liveness (FairSpec): every posted handler is eventually run and the system comes to rest
EventuallyDone == <>[](AllPosted /\ Len(ran) = Cardinality(Posters) * PerPoster + Nested - nestLeft /\ queue = <<>>)

\* deadlock freedom is checked by TLC's deadlock check; a terminal state must be Done
TerminalOK == (~ENABLED Next) => Done

\* generation of interleavings: print the history at terminal states
EmitTerminal == (~ENABLED Next) => PrintT(<<"EDGE", ToJson(hist)>>)

View == <<ppc, pn, queue, running, lck, evfd, pending, lpc, ltmp, ptmp, cur, armsLeft, armed, nestLeft, ran>>
=============================================================================
