SPECIFICATION Spec
CONSTANTS
  Posters = {"p1", "p2"}
  PerPoster = 2
  Nested = 1
  Arms = 1
  BUG_LockHeld = FALSE
  BUG_PlainCount = FALSE
  BUG_SignalFirst = FALSE
INVARIANTS AtMostOnce Ordered RestExact TerminalOK
VIEW View
CHECK_DEADLOCK FALSE
