SPECIFICATION Spec
CONSTANTS
  Kind = "mc"
  NR = 1
  Binds = {"any"}
  WBinds = {"any0"}
  NG = 2
  Sources = {"real", "phantom"}
  NS = 1
  Acts = {"mem", "send"}
  PreJoin = FALSE
  MaxSteps = 4
  MaxHist = 12
  BUG_LoopDefault = TRUE
  BUG_OutboundCopy = FALSE
  BUG_StaleBuffer = FALSE
  BUG_LeaveKeeps = FALSE
  BUG_AllOn = FALSE
INVARIANTS NotBad GettersOK Agree AgreeRead

CONSTRAINT EmitLeaf
CHECK_DEADLOCK FALSE
