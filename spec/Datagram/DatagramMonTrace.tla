--------------------------- MODULE DatagramMonTrace ---------------------------
(* Validates ndjson traces recorded from real sockets against DatagramMon.    *)
(* Scenarios are concatenated; each starts with a "Begin" event.  A rejection *)
(* prints the rule key and skips the rest of that scenario; getter findings   *)
(* (m.gbad) are printed as they appear and do not stop the scenario.          *)
EXTENDS DatagramMon, Json, IOUtils, TLC

Trace == ndJsonDeserialize(IOEnv.TRACE)

VARIABLES m, l, skip

TraceInit == m = M0 /\ l = 1 /\ skip = FALSE

TraceNext ==
  /\ l <= Len(Trace)
  /\ l' = l + 1
  /\ LET e == Trace[l] IN
     IF e.ev = "Begin" THEN m' = M0 /\ skip' = FALSE
     ELSE IF skip THEN UNCHANGED <<m, skip>>
     ELSE /\ m' = Apply(m, e)
          /\ skip' = (m'.bad # "")
          /\ (m'.bad # "" => PrintT(<<"BAD", e.sid, e.i, m'.bad>>))
          /\ \A k \in (m'.gbad \ m.gbad) : PrintT(<<"BAD", e.sid, e.i, k>>)

TraceSpec == TraceInit /\ [][TraceNext]_<<m, l, skip>>

TraceAccepted == TLCGet("stats").diameter = Len(Trace) + 1
=============================================================================
