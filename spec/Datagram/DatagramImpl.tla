----------------------------- MODULE DatagramImpl -----------------------------
(* Implementation-shaped model behind C12: what packet.go, multicast/peer.go, *)
(* multicast/reactor.go and net/ipv4/multicast.go do per operation, on top of *)
(* a small model of the Linux kernel (per-socket receive queue, per-socket    *)
(* multicast filter  ip_mc_socklist  with its include/exclude mode and the    *)
(* mode switch on empty filters, IP_MULTICAST_LOOP/TTL/IF options).           *)
(*                                                                            *)
(*   one action = one API call (= one recvfrom/sendto/setsockopt) or one      *)
(*   PollOne; an asynchronous call either completes inline or parks its       *)
(*   reactor record (would-block, or the dispatch limit: `lim`), a parked     *)
(*   read is completed by Poll from the reactor record's *current* buffer.    *)
(*                                                                            *)
(* Every observable step is handed to the property monitor (DatagramMon) as   *)
(* the events the Go driver would record, so TLC checks  m.bad = ""  over     *)
(* every history within the bound; the histories are also the scenarios       *)
(* replayed on real sockets.                                                  *)
EXTENDS Integers, Sequences, FiniteSets, TLC, Json

CONSTANTS
  Kind,          \* "mc": multicast.UDPPeer receivers + writer; "pc": one sonic.PacketConn
  NR,            \* receivers 1..NR
  Binds,         \* bind forms of the receivers: "any" (":P"), "grp" ("<first group>:P"), ...
  WBinds,        \* bind forms of the writer: "any0" (":0"), "if0" ("<interface address>:0")
  NG,            \* number of groups: "g1" .. "g<NG>"
  Sources,       \* {"real", "phantom"}: only "real" ever sends
  NS,            \* raw senders (pc mode)
  Acts,          \* enabled families: "mem" "send" "wr" "wset" "rd" "sync" "lim" "setbuf" "readall"
  PreJoin,       \* receivers join every group (any source) in the prologue
  MaxSteps,      \* bound on API/traffic steps (Poll is free)
  MaxHist,       \* > 0: generation by simulation, histories end with a Finish step
  BUG_LoopDefault,   \* TRUE = the code as it is: Loop() after construction is the inverse of the kernel's flag
  BUG_OutboundCopy,  \* TRUE = before the fix: SetOutboundIPv4 hands 0.0.0.0 to IP_MULTICAST_IF
  BUG_StaleBuffer,   \* mutation: a parked read completes into the buffer given to AsyncRead
  BUG_LeaveKeeps,    \* mutation: Leave returns nil without dropping the membership
  BUG_AllOn          \* mutation: IP_MULTICAST_ALL left at the kernel default (1)

VARIABLES km,    \* kernel: km[p][g] = [mode, srcs, sfl]     (ip_mc_socklist entry; sfl = sflist allocated)
          kq,    \* kernel: receive queue of receiver p: Seq([did, cls, src, sport])
          rr,    \* reactor record of receiver p: [st, op, buf0, cur, api]
          ws,    \* writer: [kloop, cloop, kttl, cttl, kif, cif, cip]
          wp,    \* writer: parked write [op, g, did, cls, api] (op = 0: none)
          bnd,   \* bind form per receiver
          wb,    \* bind form of the writer
          nd, nop, steps,
          m,     \* monitor state
          hist, done

implvars == <<km, kq, rr, ws, wp, bnd, wb, nd, nop, steps>>
vars == <<implvars, m, hist, done>>

Mon == INSTANCE DatagramMon

DispatchLimit == 32             \* sonic.MaxCallbackDispatch
Rcv == 1..NR
W == 3                          \* socket id of the writer (mc mode)
HasW == Kind = "mc" /\ ({"wr", "wset"} \cap Acts # {})
GrpSeq == [k \in 1..NG |-> "g" \o ToString(k)]
Groups == {GrpSeq[k] : k \in DOMAIN GrpSeq}
G1 == GrpSeq[1]

LenOf(cls) == IF cls = "S" THEN 1 ELSE IF cls = "L" THEN 3 ELSE 9     \* "X": larger than any UDP payload
CapOf(buf) == IF buf = 1 THEN 4 ELSE 2
Bufs == {1, 2}

\* mc: "any" = ":P", "grp" = "<g1>:P", "if" = "<interface address>:P" (never receives multicast);
\* pc: "lo" "localhost" "empty" "port0" "if" - all the same to the model
\*     "empty0" = "", "lo0" = "localhost:0", "if0" = "<interface address>:0", "grp0" = "<g1>:0": own ephemeral
\*     port, so nothing of the scenario's traffic is addressed to them (constructor/getter coverage)
\*     "solo" = ":Q": alone on its own port Q, reached by unicast only (act "uni")
\*     "any4" = "0.0.0.0:P": the wildcard spelled out (the same socket as ":P" to the kernel and to the model)
BindIp(b) == IF b \in {"any", "any4", "solo"} THEN "0.0.0.0" ELSE IF b = "grp" THEN G1
             ELSE IF b = "if" /\ Kind = "mc" THEN "ifip"
             ELSE IF b \in {"empty0", "lo0", "if0", "grp0"} THEN "other-port" ELSE "lo"
RPort == 1
WPort == 2
XPortPc == 5

E0 == [c |-> "dg", ev |-> "", sid |-> 0, i |-> 0, p |-> 0, kind |-> "", api |-> "", op |-> 0, g |-> "",
       src |-> "", port |-> 0, sport |-> 0, ip |-> "", err |-> "", n |-> 0, did |-> 0, len |-> 0,
       buf |-> 0, cap |-> 0, ok |-> 0, dirty |-> 0, mc |-> 0, loop |-> 0, cnt |-> 0, inl |-> 0,
       got |-> <<>>, kern |-> <<>>]

B2S(b) == IF b THEN "1" ELSE "0"
I2S(i) == ToString(i)

\* ----------------------------------------------------------------- kernel
NoMem == [mode |-> "none", srcs |-> {}, sfl |-> FALSE]

\* [k |-> new entry, err |-> errno class] for one membership call on entry k
KMem(k, api, s) ==
  CASE api = "Join" ->
         IF k.mode # "none" THEN [k |-> k, err |-> "eaddrinuse"]
         ELSE [k |-> [mode |-> "ex", srcs |-> {}, sfl |-> FALSE], err |-> "nil"]
    [] api = "Leave" ->
         IF k.mode = "none" THEN [k |-> k, err |-> "eaddrnotavail"]
         ELSE IF BUG_LeaveKeeps THEN [k |-> k, err |-> "nil"]
         ELSE [k |-> NoMem, err |-> "nil"]
    [] api = "JoinSource" ->
         IF k.mode = "none" THEN [k |-> [mode |-> "in", srcs |-> {s}, sfl |-> TRUE], err |-> "nil"]
         ELSE IF k.mode = "ex" /\ k.sfl THEN [k |-> k, err |-> "einval"]
         ELSE IF k.mode = "in" /\ s \in k.srcs THEN [k |-> k, err |-> "eaddrnotavail"]
         ELSE [k |-> [mode |-> "in", srcs |-> (IF k.mode = "in" THEN k.srcs ELSE {}) \cup {s}, sfl |-> TRUE],
               err |-> "nil"]
    [] api = "LeaveSource" ->
         IF k.mode = "none" THEN [k |-> k, err |-> "einval"]
         ELSE IF k.mode = "ex" /\ k.sfl THEN [k |-> k, err |-> "einval"]
         ELSE IF k.mode = "ex" THEN [k |-> [k EXCEPT !.mode = "in"], err |-> "eaddrnotavail"]   \* silent mode switch
         ELSE IF ~k.sfl \/ s \notin k.srcs THEN [k |-> k, err |-> "eaddrnotavail"]
         ELSE IF Cardinality(k.srcs) = 1 THEN [k |-> NoMem, err |-> "nil"]                       \* (INCLUDE, {}) = leave
         ELSE [k |-> [k EXCEPT !.srcs = @ \ {s}], err |-> "nil"]
    [] api = "Block" ->
         IF k.mode = "none" THEN [k |-> k, err |-> "einval"]
         ELSE IF k.mode = "in" /\ k.sfl THEN [k |-> k, err |-> "einval"]
         ELSE IF k.mode = "ex" /\ s \in k.srcs THEN [k |-> k, err |-> "eaddrnotavail"]
         ELSE [k |-> [mode |-> "ex", srcs |-> (IF k.mode = "ex" THEN k.srcs ELSE {}) \cup {s}, sfl |-> TRUE],
               err |-> "nil"]
    [] api = "Unblock" ->
         IF k.mode = "none" THEN [k |-> k, err |-> "einval"]
         ELSE IF k.mode = "in" /\ k.sfl THEN [k |-> k, err |-> "einval"]
         ELSE IF k.mode = "in" THEN [k |-> [k EXCEPT !.mode = "ex"], err |-> "eaddrnotavail"]
         ELSE IF ~k.sfl \/ s \notin k.srcs THEN [k |-> k, err |-> "eaddrnotavail"]
         ELSE [k |-> [k EXCEPT !.srcs = @ \ {s}], err |-> "nil"]

\* does the kernel queue a datagram (group g, source s, looped) on receiver p
KDeliver(p, g, s) ==
  /\ bnd[p] # "solo"
  /\ BindIp(bnd[p]) \in {"0.0.0.0", g}
  /\ LET k == km[p][g] IN
     CASE k.mode = "none" -> BUG_AllOn /\ BindIp(bnd[p]) = "0.0.0.0"    \* the raw control socket is a member of every group
       [] k.mode = "ex"   -> s \notin k.srcs
       [] k.mode = "in"   -> s \in k.srcs

\* ----------------------------------------------------------------- events
EvOpen(p, kind, ip, port) == [E0 EXCEPT !.ev = "Open", !.p = p, !.kind = kind, !.ip = ip, !.port = port, !.err = "nil"]

EvSample(p, after, laddr, cttl, kttl, cloop, kloop, cif, kif, cip, kip) ==
  [E0 EXCEPT !.ev = "Sample", !.p = p, !.api = after,
             !.got = <<laddr, I2S(cttl), B2S(cloop), cif, cip>>,
             !.kern = <<laddr, I2S(kttl), B2S(kloop), kif, kip>>]

FreshSample(p, laddr) ==
  EvSample(p, "Open", laddr, 1, 1, (IF BUG_LoopDefault THEN FALSE ELSE TRUE), TRUE, "", "", "0.0.0.0", "0.0.0.0")

WSample(after, w) ==
  EvSample(W, after, "0.0.0.0:2", w.cttl, w.kttl, w.cloop, w.kloop, w.cif, w.kif, w.cip, w.kip)

EvMem(p, api, g, s, err) == [E0 EXCEPT !.ev = "Mem", !.p = p, !.api = api, !.g = g, !.src = s, !.err = err]

EvSend(g, port, mc, src, sport, did, cls) ==
  [E0 EXCEPT !.ev = "Send", !.g = g, !.port = port, !.mc = mc, !.loop = 1, !.src = src, !.sport = sport,
             !.did = did, !.len = LenOf(cls), !.err = "nil"]

EvRdCall(p, op, api, buf) == [E0 EXCEPT !.ev = "RdCall", !.p = p, !.op = op, !.api = api, !.buf = buf, !.cap = CapOf(buf)]

EvRdDone(p, op, api, d, buf, inl) ==
  [E0 EXCEPT !.ev = "RdDone", !.p = p, !.op = op, !.api = api, !.err = "nil", !.did = d.did, !.ok = 1,
             !.n = Mon!Min(LenOf(d.cls), CapOf(buf)), !.ip = d.src, !.port = d.sport, !.buf = buf, !.inl = inl]

EvRdBlock(p, op, api) == [E0 EXCEPT !.ev = "RdDone", !.p = p, !.op = op, !.api = api, !.err = "wouldblock", !.inl = 1]

EvSetBuf(p, buf) == [E0 EXCEPT !.ev = "SetBuf", !.p = p, !.buf = buf, !.cap = CapOf(buf)]

EvSet(api, v) == [E0 EXCEPT !.ev = "Set", !.p = W, !.api = api, !.n = v, !.err = "nil"]

EvWr(p, op, api, g, port, mc, loop, did, cls) ==
  [E0 EXCEPT !.ev = "Wr", !.p = p, !.op = op, !.api = api, !.g = g, !.port = port, !.mc = mc,
             !.loop = (IF loop THEN 1 ELSE 0), !.did = did, !.len = LenOf(cls), !.n = LenOf(cls),
             !.err = "nil", !.cnt = 1]

EvWire(op, cnt, g, port, src, sport, did, cls) ==
  IF cnt = 0 THEN [E0 EXCEPT !.ev = "Wire", !.op = op]
  ELSE [E0 EXCEPT !.ev = "Wire", !.op = op, !.cnt = cnt, !.g = g, !.port = port, !.src = src, !.sport = sport,
                  !.did = did, !.ok = 1, !.len = LenOf(cls)]

\* ------------------------------------------------------------------- init
Idle == [st |-> "idle", op |-> 0, buf0 |-> 0, cur |-> 0, api |-> ""]
W0 == [kloop |-> TRUE, cloop |-> (IF BUG_LoopDefault THEN FALSE ELSE TRUE), kttl |-> 1, cttl |-> 1,
       kif |-> "", cif |-> "", kip |-> "0.0.0.0", cip |-> "0.0.0.0"]

RECURSIVE SeqOfSet(_)
SeqOfSet(S) == IF S = {} THEN <<>> ELSE LET x == CHOOSE x \in S : \A y \in S : x <= y IN <<x>> \o SeqOfSet(S \ {x})

RcvSeq == [p \in Rcv |-> p]

RECURSIVE Flat(_)
Flat(ss) == IF ss = <<>> THEN <<>> ELSE Head(ss) \o Flat(Tail(ss))

PortOf(b, p) == IF BindIp(b[p]) = "other-port" THEN 20 + p ELSE IF b[p] = "solo" THEN 30 + p ELSE RPort

WIp(w) == IF w = "if0" THEN "ifip" ELSE "0.0.0.0"

Prologue(b, w) ==
  <<[E0 EXCEPT !.ev = "Begin"]>>
  \o Flat([p \in Rcv |-> <<EvOpen(p, Kind, BindIp(b[p]), PortOf(b, p))>>
                          \o (IF Kind = "mc" THEN <<FreshSample(p, BindIp(b[p]) \o ":1")>> ELSE <<>>)])
  \o (IF HasW THEN <<EvOpen(W, "mc", WIp(w), WPort), FreshSample(W, "0.0.0.0:2")>> ELSE <<>>)
  \o (IF PreJoin THEN Flat([p \in Rcv |-> [k \in DOMAIN GrpSeq |-> EvMem(p, "Join", GrpSeq[k], "", "nil")]]) ELSE <<>>)

Init ==
  /\ bnd \in [Rcv -> Binds]
  /\ wb \in (IF HasW THEN WBinds ELSE {"any0"})
  /\ km = [p \in Rcv |-> [g \in Groups |-> IF PreJoin THEN [mode |-> "ex", srcs |-> {}, sfl |-> FALSE] ELSE NoMem]]
  /\ kq = [p \in Rcv |-> <<>>]
  /\ rr = [p \in Rcv |-> Idle]
  /\ ws = W0
  /\ wp = [op |-> 0, g |-> "", did |-> 0, cls |-> "", api |-> ""]
  /\ nd = 1 /\ nop = 1 /\ steps = 0
  /\ m = Mon!ApplyAll(Mon!M0, Prologue(bnd, wb))
  /\ hist = << [a |-> "Cfg", kind |-> Kind, binds |-> [p \in Rcv |-> bnd[p]], writer |-> HasW,
                prejoin |-> PreJoin, groups |-> GrpSeq, wbind |-> wb] >>
  /\ done = FALSE

Emit(es, h) == /\ m' = Mon!ApplyAll(m, es)
               /\ hist' = Append(hist, h)

Tick == steps' = steps + 1

\* ------------------------------------------------------------- membership
DoMem(p, api, g, s) ==
  LET r == KMem(km[p][g], api, s) IN
  /\ km' = [km EXCEPT ![p][g] = r.k]
  /\ Emit(<<EvMem(p, api, g, s, r.err)>>, [a |-> "Mem", p |-> p, api |-> api, g |-> g, s |-> s, x |-> r.err])
  /\ Tick
  /\ UNCHANGED <<kq, rr, ws, wp, bnd, wb, nd, nop>>

MemStep ==
  /\ "mem" \in Acts
  /\ \E p \in Rcv, g \in Groups :
       \/ \E api \in {"Join", "Leave"} : DoMem(p, api, g, "")
       \/ \E api \in {"JoinSource", "LeaveSource", "Block", "Unblock"}, s \in Sources : DoMem(p, api, g, s)

\* ---------------------------------------------------------------- traffic
Targets(g, s) == {p \in Rcv : KDeliver(p, g, s)}

Queue(T, d) == [p \in Rcv |-> IF p \in T THEN Append(kq[p], d) ELSE kq[p]]

SendMc(g, cls, snd) ==
  LET T == Targets(g, "real")
      d == [did |-> nd, cls |-> cls, src |-> "real", sport |-> 8 + snd] IN
  /\ kq' = Queue(T, d)
  /\ nd' = nd + 1
  /\ Emit(<<EvSend(g, RPort, 1, "real", 8 + snd, nd, cls)>>,
          [a |-> "Send", g |-> g, cls |-> cls, snd |-> snd, x |-> SeqOfSet(T)])
  /\ Tick
  /\ UNCHANGED <<km, rr, ws, wp, bnd, wb, nop>>

SendPc(snd, cls) ==
  LET d == [did |-> nd, cls |-> cls, src |-> "lo", sport |-> 10 + snd] IN
  /\ kq' = Queue({1}, d)
  /\ nd' = nd + 1
  /\ Emit(<<EvSend(BindIp(bnd[1]), RPort, 0, "lo", 10 + snd, nd, cls)>>,
          [a |-> "Send", g |-> "", cls |-> cls, snd |-> snd, x |-> <<1>>])
  /\ Tick
  /\ UNCHANGED <<km, rr, ws, wp, bnd, wb, nop>>

\* a burst of BurstLen small datagrams from one sender (longer than the dispatch limit)
BurstLen == DispatchLimit + 2

SendBurst(g, snd) ==
  LET mc  == Kind = "mc"
      T   == IF mc THEN Targets(g, "real") ELSE {1}
      ds  == [k \in 1..BurstLen |-> [did |-> nd + k - 1, cls |-> "S", src |-> (IF mc THEN "real" ELSE "lo"),
                                      sport |-> (IF mc THEN 9 ELSE 10 + snd)]]
      evs == [k \in 1..BurstLen |->
                IF mc THEN EvSend(g, RPort, 1, "real", 9, nd + k - 1, "S")
                      ELSE EvSend(BindIp(bnd[1]), RPort, 0, "lo", 10 + snd, nd + k - 1, "S")]
  IN
  /\ "burst" \in Acts
  /\ nd + BurstLen <= 250
  /\ kq' = [p \in Rcv |-> IF p \in T THEN kq[p] \o ds ELSE kq[p]]
  /\ nd' = nd + BurstLen
  /\ Emit(evs, [a |-> "Burst", g |-> g, snd |-> snd, n |-> BurstLen, x |-> SeqOfSet(T)])
  /\ Tick
  /\ UNCHANGED <<km, rr, ws, wp, bnd, wb, nop>>

BurstStep == IF Kind = "mc" THEN \E g \in Groups : SendBurst(g, 1) ELSE \E snd \in 1..NS : SendBurst("", snd)

\* unicast from a raw sender to a multicast peer that is alone on its port
SendUni(p, cls, snd) ==
  LET d == [did |-> nd, cls |-> cls, src |-> "uni", sport |-> 40 + snd] IN
  /\ "uni" \in Acts /\ Kind = "mc" /\ bnd[p] = "solo"
  /\ kq' = [kq EXCEPT ![p] = Append(@, d)]
  /\ nd' = nd + 1
  /\ Emit(<<[EvSend("uni", 30 + p, 0, "uni", 40 + snd, nd, cls) EXCEPT !.loop = 0]>>,
          [a |-> "Uni", p |-> p, cls |-> cls, snd |-> snd, x |-> <<p>>])
  /\ Tick
  /\ UNCHANGED <<km, rr, ws, wp, bnd, wb, nop>>

UniStep == \E p \in Rcv, cls \in {"S", "L"}, snd \in 1..NS : SendUni(p, cls, snd)

\* a datagram with a wrong checksum arrives for a receiver with a parked read and an empty queue: the socket polls
\* readable; the receive call that meets the datagram discards it and reports would-block (Linux verifies the
\* checksum of datagrams longer than 76 bytes only when they are copied out)
Corrupt(p) ==
  /\ "corrupt" \in Acts /\ (Kind = "pc" \/ bnd[p] = "solo")
  /\ rr[p].st = "parked" /\ kq[p] = <<>>
  /\ kq' = [kq EXCEPT ![p] = <<[did |-> nd, cls |-> "C", src |-> "uni", sport |-> 0]>>]
  /\ nd' = nd + 1
  /\ Emit(<<[EvSend(IF Kind = "pc" THEN BindIp(bnd[1]) ELSE "uni", IF Kind = "pc" THEN RPort ELSE 30 + p, 0,
                     IF Kind = "pc" THEN "lo" ELSE "uni", 0, nd, "C") EXCEPT !.loop = 0, !.len = 0]>>,
          [a |-> "Corrupt", p |-> p])
  /\ Tick
  /\ UNCHANGED <<km, rr, ws, wp, bnd, wb, nop>>

CorruptStep == \E p \in Rcv : Corrupt(p)

SendStep ==
  /\ "send" \in Acts
  /\ \E cls \in {"S", "L"} :
       \E snd \in 1..NS : IF Kind = "mc" THEN \E g \in Groups : SendMc(g, cls, snd) ELSE SendPc(snd, cls)

\* ------------------------------------------------------------------ reads
AsyncApi == IF Kind = "mc" THEN "AsyncRead" ELSE "AsyncReadFrom"
SyncApi  == IF Kind = "mc" THEN "Read" ELSE "ReadFrom"

ReadSync(p, buf) ==
  /\ "sync" \in Acts
  /\ rr[p].st = "idle"
  /\ IF kq[p] = <<>>
       THEN /\ Emit(<<EvRdCall(p, nop, SyncApi, buf), EvRdBlock(p, nop, SyncApi)>>,
                    [a |-> "Rd", p |-> p, api |-> SyncApi, buf |-> buf, lim |-> FALSE, x |-> "wouldblock"])
            /\ UNCHANGED kq
       ELSE /\ Emit(<<EvRdCall(p, nop, SyncApi, buf), EvRdDone(p, nop, SyncApi, Head(kq[p]), buf, 1)>>,
                    [a |-> "Rd", p |-> p, api |-> SyncApi, buf |-> buf, lim |-> FALSE, x |-> "done"])
            /\ kq' = [kq EXCEPT ![p] = Tail(@)]
  /\ nop' = nop + 1
  /\ Tick
  /\ UNCHANGED <<km, rr, ws, wp, bnd, wb, nd>>

\* AsyncRead: read.b = b; read.fn = fn; below the dispatch limit recvfrom now,
\* would-block (or the limit) parks the reactor record
ReadAsync(p, api, buf, lim) ==
  /\ rr[p].st = "idle"
  /\ lim => "lim" \in Acts
  /\ IF ~lim /\ kq[p] # <<>>
       THEN /\ Emit(<<EvRdCall(p, nop, api, buf), EvRdDone(p, nop, api, Head(kq[p]), buf, 1)>>,
                    [a |-> "Rd", p |-> p, api |-> api, buf |-> buf, lim |-> lim, x |-> "done"])
            /\ kq' = [kq EXCEPT ![p] = Tail(@)]
            /\ UNCHANGED rr
       ELSE /\ Emit(<<EvRdCall(p, nop, api, buf)>>,
                    [a |-> "Rd", p |-> p, api |-> api, buf |-> buf, lim |-> lim, x |-> "parked"])
            /\ rr' = [rr EXCEPT ![p] = [st |-> "parked", op |-> nop, buf0 |-> buf, cur |-> buf, api |-> api]]
            /\ UNCHANGED kq
  /\ nop' = nop + 1
  /\ Tick
  /\ UNCHANGED <<km, ws, wp, bnd, wb, nd>>

\* SetAsyncReadBuffer: read.b = to
SetBuf(p, buf) ==
  /\ "setbuf" \in Acts /\ Kind = "mc"
  /\ rr[p].st = "parked" /\ rr[p].cur # buf
  /\ rr' = [rr EXCEPT ![p].cur = buf]
  /\ Emit(<<EvSetBuf(p, buf)>>, [a |-> "SetBuf", p |-> p, buf |-> buf])
  /\ Tick
  /\ UNCHANGED <<km, kq, ws, wp, bnd, wb, nd, nop>>

\* AsyncRead whose callback issues the next AsyncRead: the completions nest inline
\* until recvfrom would block, the last read parks
ReadChain(p, buf) ==
  /\ "chain" \in Acts
  /\ rr[p].st = "idle" /\ kq[p] # <<>>
  /\ LET n == Mon!Min(Len(kq[p]), DispatchLimit)      \* the (limit+1)-th nested AsyncRead is parked unread
         evs == Flat([k \in 1..n |-> <<EvRdCall(p, nop + k - 1, AsyncApi, buf),
                                        EvRdDone(p, nop + k - 1, AsyncApi, kq[p][k], buf, 1)>>])
                \o <<EvRdCall(p, nop + n, AsyncApi, buf)>>
     IN /\ Emit(evs, [a |-> "Chain", p |-> p, api |-> AsyncApi, buf |-> buf, x |-> n])
        /\ kq' = [kq EXCEPT ![p] = SubSeq(@, n + 1, Len(@))]
        /\ rr' = [rr EXCEPT ![p] = [st |-> "parked", op |-> nop + n, buf0 |-> buf, cur |-> buf, api |-> AsyncApi]]
        /\ nop' = nop + n + 1
  /\ Tick
  /\ UNCHANGED <<km, ws, wp, bnd, wb, nd>>

RdStep ==
  /\ "rd" \in Acts
  /\ \E p \in Rcv, buf \in Bufs :
       \/ ReadChain(p, buf)
       \/ ReadSync(p, buf)
       \/ \E lim \in BOOLEAN : ReadAsync(p, AsyncApi, buf, lim)
       \* packet.go: asyncReadNow calls back after one datagram whether or not readAll is set
       \/ /\ Kind = "pc" /\ "readall" \in Acts
          /\ \E lim \in BOOLEAN : ReadAsync(p, "AsyncReadAllFrom", buf, lim)
       \/ SetBuf(p, buf)

\* ----------------------------------------------------------------- writer
WrEvents(op, api, g, did, cls) ==
  IF cls = "X"        \* sendto fails with EMSGSIZE: the error is reported, nothing is emitted
    THEN LET p == IF Kind = "mc" THEN W ELSE 1 IN
         <<[EvWr(p, op, api, IF Kind = "mc" THEN g ELSE "lo", IF Kind = "mc" THEN RPort ELSE XPortPc,
                 IF Kind = "mc" THEN 1 ELSE 0, Kind # "mc" \/ ws.kloop, did, cls) EXCEPT !.err = "emsgsize", !.n = 0],
           EvWire(op, 0, "", 0, "", 0, 0, cls)>>
  ELSE IF Kind = "mc"
    THEN <<EvWr(W, op, api, g, RPort, 1, ws.kloop, did, cls),
           EvWire(op, IF ws.kloop THEN 1 ELSE 0, g, RPort, "real", WPort, did, cls)>>
    ELSE <<EvWr(1, op, api, "lo", XPortPc, 0, TRUE, did, cls),
           EvWire(op, 1, "lo", XPortPc, "lo", RPort, did, cls)>>

WrQueue(g, did, cls) ==
  IF Kind = "mc" /\ ws.kloop /\ cls # "X"
    THEN Queue(Targets(g, "real"), [did |-> did, cls |-> cls, src |-> "real", sport |-> WPort])
    ELSE kq

WriteNow(api, g, cls) ==
  /\ wp.op = 0
  /\ kq' = WrQueue(g, nd, cls)
  /\ Emit(WrEvents(nop, api, g, nd, cls), [a |-> "Wr", api |-> api, g |-> g, cls |-> cls, lim |-> FALSE, x |-> "done"])
  /\ nd' = nd + 1 /\ nop' = nop + 1
  /\ Tick
  /\ UNCHANGED <<km, rr, ws, wp, bnd, wb>>

\* at the dispatch limit the write reactor record is parked and sendto happens in the poll
WritePark(api, g, cls) ==
  /\ "lim" \in Acts
  /\ wp.op = 0
  /\ wp' = [op |-> nop, g |-> g, did |-> nd, cls |-> cls, api |-> api]
  /\ hist' = Append(hist, [a |-> "Wr", api |-> api, g |-> g, cls |-> cls, lim |-> TRUE, x |-> "parked"])
  /\ nd' = nd + 1 /\ nop' = nop + 1
  /\ Tick
  /\ UNCHANGED <<km, kq, rr, ws, bnd, wb, m>>

WrStep ==
  /\ "wr" \in Acts
  /\ \E cls \in ({"S", "L"} \cup (IF "oversize" \in Acts THEN {"X"} ELSE {})), g \in (IF Kind = "mc" THEN Groups ELSE {""}) :
       \/ WriteNow(IF Kind = "mc" THEN "Write" ELSE "WriteTo", g, cls)
       \/ WriteNow(IF Kind = "mc" THEN "AsyncWrite" ELSE "AsyncWriteTo", g, cls)
       \/ WritePark(IF Kind = "mc" THEN "AsyncWrite" ELSE "AsyncWriteTo", g, cls)

DoWSet(api, v, w) ==
  /\ ws' = w
  /\ Emit(<<EvSet(api, v), WSample(api, w)>>, [a |-> "WSet", api |-> api, v |-> v])
  /\ Tick
  /\ UNCHANGED <<km, kq, rr, wp, bnd, wb, nd, nop>>

WSetStep ==
  /\ "wset" \in Acts /\ Kind = "mc"
  /\ \/ \E b \in BOOLEAN : DoWSet("SetLoop", IF b THEN 1 ELSE 0, [ws EXCEPT !.kloop = b, !.cloop = b])
     \/ \E t \in {0, 7}  : DoWSet("SetTTL", t, [ws EXCEPT !.kttl = t, !.cttl = t])
     \/ DoWSet("SetOutbound", 1,
               [ws EXCEPT !.cif = "eth0",
                          !.kif = IF BUG_OutboundCopy THEN "" ELSE "eth0",
                          !.kip = IF BUG_OutboundCopy THEN "0.0.0.0" ELSE "real",
                          !.cip = IF BUG_OutboundCopy THEN "0.0.0.0" ELSE "real"])

\* ------------------------------------------------------------------- poll
Ready == {p \in Rcv : rr[p].st = "parked" /\ kq[p] # <<>>}
\* recvfrom discards corrupt datagrams it meets and goes on to the next one (Linux: "goto try_again"); with nothing
\* behind them it reports would-block and the read is parked again
RECURSIVE Strip(_)
Strip(q) == IF q # <<>> /\ Head(q).cls = "C" THEN Strip(Tail(q)) ELSE q
Spurious == {p \in Ready : Strip(kq[p]) = <<>>}

ReadyEvents ==
  Flat([p \in Rcv |->
     IF p \in Ready \ Spurious
       THEN <<EvRdDone(p, rr[p].op, rr[p].api, Head(Strip(kq[p])),
                       IF BUG_StaleBuffer THEN rr[p].buf0 ELSE rr[p].cur, 0)>>
       ELSE <<>>])

Poll ==
  /\ Ready # {} \/ wp.op # 0
  /\ LET kq1 == [p \in Rcv |-> IF p \in Spurious THEN <<>> ELSE IF p \in Ready THEN Tail(Strip(kq[p])) ELSE kq[p]]
         wev == IF wp.op = 0 THEN <<>> ELSE WrEvents(wp.op, wp.api, wp.g, wp.did, wp.cls)
     IN
     /\ kq' = IF wp.op # 0 /\ Kind = "mc" /\ ws.kloop /\ wp.cls # "X"
                THEN [p \in Rcv |-> IF p \in Targets(wp.g, "real")
                                      THEN Append(kq1[p], [did |-> wp.did, cls |-> wp.cls, src |-> "real", sport |-> WPort])
                                      ELSE kq1[p]]
                ELSE kq1
     /\ Emit(ReadyEvents \o wev,
             [a |-> "Poll", x |-> SeqOfSet(Ready \ Spurious), w |-> (wp.op # 0)])
  /\ rr' = [p \in Rcv |-> IF p \in Ready \ Spurious THEN Idle ELSE rr[p]]
  /\ wp' = [op |-> 0, g |-> "", did |-> 0, cls |-> "", api |-> ""]
  /\ UNCHANGED <<km, ws, bnd, wb, nd, nop, steps>>

\* ------------------------------------------------------------------- next
Step ==
  /\ UNCHANGED done
  /\ \/ Poll
     \/ /\ steps < MaxSteps
        /\ (MemStep \/ SendStep \/ UniStep \/ CorruptStep \/ BurstStep \/ RdStep \/ WrStep \/ WSetStep)

Finish == /\ ~done /\ done' = TRUE /\ UNCHANGED <<implvars, m, hist>>

Next ==
  IF done THEN FALSE
  ELSE IF m.bad # "" \/ (MaxHist > 0 /\ Len(hist) >= MaxHist)
    THEN MaxHist > 0 /\ Finish
    ELSE Step \/ (MaxHist > 0 /\ steps >= MaxSteps /\ Finish)

Spec == Init /\ [][Next]_vars

\* ------------------------------------------------------------- properties
NotBad == m.bad = ""
GettersOK == m.gbad \subseteq (IF BUG_LoopDefault THEN {"C12/getter/loop-default"} ELSE {})

RECURSIVE IsSubseq(_, _)
IsSubseq(a, b) ==       \* a can be obtained from b by deleting elements
  IF a = <<>> THEN TRUE
  ELSE IF b = <<>> THEN FALSE
  ELSE IF Head(a) = Head(b) THEN IsSubseq(Tail(a), Tail(b))
  ELSE IsSubseq(a, Tail(b))

Dids(s) == [k \in DOMAIN s |-> s[k].did]
MandDids(s) == Dids(SelectSeq(s, LAMBDA d : ~d.opt))

\* the monitor's FIFO and the kernel queue of the model agree (up to optional entries)
Agree ==
  m.bad = "" => \A p \in Rcv : /\ IsSubseq(MandDids(m.q[p]), Dids(kq[p]))
                               /\ IsSubseq(Dids(kq[p]), Dids(m.q[p]))

\* the monitor's pending read is the reactor record
AgreeRead ==
  m.bad = "" => \A p \in Rcv : IF rr[p].st = "parked"
                                 THEN m.rd[p].op = rr[p].op /\ m.rd[p].buf = rr[p].cur
                                 ELSE m.rd[p].op = 0

\* ------------------------------------------------------------- generation
View == <<implvars, m>>

EmitEdge == /\ PrintT(<<"EDGE", ToJson(hist')>>)
            /\ (m'.bad # "" /\ m.bad = "" => PrintT(<<"MODELBAD", m'.bad, ToJson(hist')>>))

EmitLeaf == done => PrintT(<<"EDGE", ToJson(hist)>>)
=============================================================================
