----------------------------- MODULE DatagramMon -----------------------------
(* Property monitor for C12 (UDP datagram boundaries, addressing, multicast   *)
(* membership, reported settings).                                            *)
(*                                                                            *)
(* The monitor is a pure function  Apply(m, e)  from a monitor state record   *)
(* and one observed event to the next monitor state; it never blocks.  A      *)
(* forbidden observation sets  m.bad  to a stable rule key (list at the end   *)
(* of this file).  Getter disagreements do not stop a scenario: they are      *)
(* collected in the set  m.gbad  (the getters do not change what is           *)
(* delivered, so the rest of the scenario remains meaningful).                *)
(*                                                                            *)
(* What is observed (API level and raw-socket level only):                    *)
(*   Open/Close   construction of a sonic socket (bound address taken with    *)
(*                getsockname by the driver), kind "mc" = multicast.UDPPeer,  *)
(*                "pc" = sonic.PacketConn                                     *)
(*   Mem          Join/JoinSource/Leave/LeaveSource/Block/Unblock + result    *)
(*   Set          SetLoop/SetTTL/SetOutbound + result                         *)
(*   Sample       getters next to getsockopt/getsockname on the same fd       *)
(*   Send         a raw (harness) socket sent one datagram                    *)
(*   Wr, Wire     a sonic socket was asked to write one datagram / what the   *)
(*                raw receivers saw of it                                     *)
(*   RdCall, SetBuf, RdDone   a read was issued / its buffer re-designated /  *)
(*                it completed (callback or synchronous return)               *)
(*   End          the driver drained every receiver (reads until the kernel   *)
(*                queue is empty)                                             *)
(*                                                                            *)
(* Delivery model (what "deliverable" means): a datagram is deliverable to a  *)
(* receiving socket iff port and bound address match, and - for a multicast   *)
(* destination - the sending socket loops multicast back and the receiving    *)
(* peer's membership table admits (group, source).  The table is updated only *)
(* by calls that returned nil; which calls the kernel refuses is taken from   *)
(* the trace.  Where the kernel-side state is not determined by the history   *)
(* of successful calls (a refused LeaveSource on an any-source membership     *)
(* silently flips Linux' filter mode; a success the table cannot explain),    *)
(* the group becomes "murky" for that peer and both delivery and non-delivery *)
(* are accepted until the group is left.                                      *)
EXTENDS Integers, Sequences, FiniteSets

PIDs == 1..4          \* sonic sockets of one scenario

Min(a, b) == IF a < b THEN a ELSE b

NoRead == [op |-> 0, buf |-> 0, cap |-> 0, api |-> ""]
NoSock == [kind |-> "", ip |-> "", port |-> 0, open |-> FALSE, lset |-> FALSE]
NoWr   == [op |-> 0, p |-> 0, did |-> 0, len |-> 0, g |-> "", port |-> 0, expect |-> 0, mc |-> 0, loop |-> 0]

M0 == [ sk    |-> [p \in PIDs |-> NoSock],
        jany  |-> [p \in PIDs |-> {}],      \* groups joined for any source
        jsrc  |-> [p \in PIDs |-> {}],      \* <<group, source>> joined source-specifically
        blk   |-> [p \in PIDs |-> {}],      \* <<group, source>> blocked
        murky |-> [p \in PIDs |-> {}],      \* groups whose kernel-side filter is not determined
        q     |-> [p \in PIDs |-> <<>>],    \* deliverable, not yet read: [did, len, ip, port, opt]
        rd    |-> [p \in PIDs |-> NoRead],  \* the single pending read
        seen  |-> {},                       \* <<p, did>> that completed a read
        sent  |-> {},                       \* dids put on the wire by anybody
        wr    |-> NoWr,                     \* sonic write waiting for its wire observation
        bad   |-> "",
        gbad  |-> {} ]

Fail(m, key) == IF m.bad = "" THEN [m EXCEPT !.bad = key] ELSE m

\* ---------------------------------------------------------------- sockets
ObsOpen(m, e) ==
  IF e.err # "nil" THEN m
  ELSE [m EXCEPT !.sk[e.p] = [kind |-> e.kind, ip |-> e.ip, port |-> e.port, open |-> TRUE, lset |-> FALSE],
                 !.jany[e.p] = {}, !.jsrc[e.p] = {}, !.blk[e.p] = {}, !.murky[e.p] = {},
                 !.q[e.p] = <<>>, !.rd[e.p] = NoRead]

ObsClose(m, e) ==
  [m EXCEPT !.sk[e.p].open = FALSE, !.q[e.p] = <<>>, !.rd[e.p] = NoRead]

\* ------------------------------------------------------------- membership
Mode(m, p, g) ==
  IF g \in m.murky[p] THEN "murky"
  ELSE IF g \in m.jany[p] THEN "any"
  ELSE IF \E t \in m.jsrc[p] : t[1] = g THEN "inc"
  ELSE "none"

HasBlocks(m, p, g) == \E t \in m.blk[p] : t[1] = g

Murk(m, p, g) == [m EXCEPT !.murky[p] = @ \cup {g}]

ObsMem(m, e) ==
  LET p == e.p  g == e.g  s == e.src  md == Mode(m, p, g) IN
  IF e.err # "nil" THEN
     \* a refused call changes nothing - except Linux' silent switch of an
     \* empty any-source filter to include mode on a refused source-leave
     IF e.api = "LeaveSource" /\ e.err = "eaddrnotavail" /\ md = "any" /\ ~HasBlocks(m, p, g)
        THEN Murk(m, p, g) ELSE m
  ELSE IF md = "murky" THEN
     IF e.api = "Leave"
        THEN [m EXCEPT !.murky[p] = @ \ {g}, !.jany[p] = @ \ {g},
                       !.jsrc[p] = {t \in @ : t[1] # g}, !.blk[p] = {t \in @ : t[1] # g}]
        ELSE m
  ELSE CASE e.api = "Join" ->
              IF md = "none" THEN [m EXCEPT !.jany[p] = @ \cup {g}] ELSE Murk(m, p, g)
         [] e.api = "JoinSource" ->
              IF md \in {"none", "inc"} THEN [m EXCEPT !.jsrc[p] = @ \cup {<<g, s>>}]
              ELSE IF ~HasBlocks(m, p, g)    \* Linux: empty any-source filter switches to {s}
                   THEN [m EXCEPT !.jany[p] = @ \ {g}, !.jsrc[p] = @ \cup {<<g, s>>}]
              ELSE Murk(m, p, g)
         [] e.api = "Leave" ->
              [m EXCEPT !.jany[p] = @ \ {g}, !.jsrc[p] = {t \in @ : t[1] # g},
                        !.blk[p] = {t \in @ : t[1] # g}]
         [] e.api = "LeaveSource" ->
              IF <<g, s>> \in m.jsrc[p] THEN [m EXCEPT !.jsrc[p] = @ \ {<<g, s>>}] ELSE Murk(m, p, g)
         [] e.api = "Block" ->
              \* (outside any-source mode the kernel refuses the call; a peer that reports success all the
              \*  same has promised that the source is blocked, and is held to it)
              [m EXCEPT !.blk[p] = @ \cup {<<g, s>>}]
         [] e.api = "Unblock" ->
              IF md = "any" THEN [m EXCEPT !.blk[p] = @ \ {<<g, s>>}] ELSE Murk(m, p, g)
         [] OTHER -> Fail(m, "C12/harness/unknown-membership-call")

\* "yes" / "no" / "maybe"
Filter(m, p, g, s) ==
  LET md == Mode(m, p, g) IN
  IF md = "murky" THEN "maybe"
  ELSE IF <<g, s>> \in m.blk[p] THEN "no"
  ELSE IF md = "any" THEN "yes"
  ELSE IF <<g, s>> \in m.jsrc[p] THEN "yes"
  ELSE "no"

AddrOK(m, p, dip, dport) ==
  /\ m.sk[p].open
  /\ m.sk[p].port = dport
  /\ (m.sk[p].ip = "0.0.0.0" \/ m.sk[p].ip = dip)

\* e: g = destination ip, port = destination port, mc, loop, src = source ip
Deliver(m, p, e) ==
  IF ~AddrOK(m, p, e.g, e.port) THEN "no"
  ELSE IF e.mc = 0 THEN "yes"
  ELSE IF e.loop = 0 THEN "no"
  ELSE IF m.sk[p].kind # "mc" THEN "maybe"     \* a plain packet conn keeps IP_MULTICAST_ALL
  ELSE Filter(m, p, e.g, e.src)

Enqueue(m, e) ==
  [m EXCEPT !.q = [p \in PIDs |->
       LET d == Deliver(m, p, e) IN
       IF d = "no" THEN m.q[p]
       \* e.len = 0: a datagram the kernel will discard when a receive call meets it (wrong checksum): the socket
       \* becomes readable, nobody ever gets it
       ELSE Append(m.q[p], [did |-> e.did, len |-> e.len, ip |-> e.src, port |-> e.sport, opt |-> (d = "maybe" \/ e.len = 0)])],
            !.sent = @ \cup {e.did}]

ObsSend(m, e) == IF e.err # "nil" THEN m ELSE Enqueue(m, e)

\* ------------------------------------------------------------------ writes
IsAsyncWrite(api) == api \in {"AsyncWrite", "AsyncWriteTo"}

ObsWr(m, e) ==
  IF m.wr.op # 0 THEN Fail(m, "C12/harness/write-without-wire")
  ELSE IF IsAsyncWrite(e.api) /\ e.cnt # 1 THEN Fail(m, "C12/write/callback")
  ELSE IF e.err = "nil" /\ e.n # e.len THEN Fail(m, "C12/write/count-returned")
  ELSE [m EXCEPT !.wr = [op |-> e.op, p |-> e.p, did |-> e.did, len |-> e.len, g |-> e.g, port |-> e.port,
                         mc |-> e.mc, loop |-> e.loop,
                         expect |-> IF e.err # "nil" THEN 0 ELSE IF e.mc = 1 /\ e.loop = 0 THEN 0 ELSE 1],
                 !.sent = @ \cup {e.did}]

\* e.cnt datagrams of this write reached the raw receivers; for cnt >= 1 the
\* fields describe the first: did, ok, len, g = destination ip (IP_PKTINFO),
\* port = port of the receiving raw socket, src/sport = source as seen there
ObsWire(m, e) ==
  LET w == m.wr IN
  IF w.op = 0 \/ w.op # e.op THEN Fail(m, "C12/harness/wire-without-write")
  ELSE IF e.cnt # w.expect THEN Fail(m, IF e.cnt > w.expect THEN "C12/write/extra-datagram" ELSE "C12/write/no-datagram")
  ELSE IF e.cnt = 0 THEN [m EXCEPT !.wr = NoWr]
  ELSE IF e.did # w.did \/ e.ok # 1 \/ e.len # w.len THEN Fail(m, "C12/write/content")
  ELSE IF e.g # w.g \/ e.port # w.port THEN Fail(m, "C12/write/destination")
  ELSE LET m1 == [m EXCEPT !.wr = NoWr] IN
       Enqueue(m1, [e EXCEPT !.mc = w.mc, !.loop = w.loop])

\* ------------------------------------------------------------------- reads
ObsRdCall(m, e) ==
  IF m.rd[e.p].op # 0 THEN Fail(m, "C12/harness/overlapping-read")
  ELSE [m EXCEPT !.rd[e.p] = [op |-> e.op, buf |-> e.buf, cap |-> e.cap, api |-> e.api]]

ObsSetBuf(m, e) ==
  IF m.rd[e.p].op = 0 THEN m
  ELSE [m EXCEPT !.rd[e.p].buf = e.buf, !.rd[e.p].cap = e.cap]

Mandatory(m, p) == \E k \in DOMAIN m.q[p] : ~m.q[p][k].opt

Cls(key, api) == IF api = "AsyncReadAllFrom" THEN key \o "/readall" ELSE key

ObsRdDone(m, e) ==
  LET p == e.p
      Q == m.q[p]
      r == m.rd[p]
      hits == {k \in DOMAIN Q : Q[k].did = e.did /\ \A j \in 1..(k - 1) : Q[j].opt}
  IN
  IF r.op = 0 \/ r.op # e.op THEN Fail(m, "C12/duplicate/callback")
  \* an asynchronous read waits for a datagram: it never completes with "would block"
  ELSE IF e.err = "wouldblock" /\ r.api \in {"AsyncRead", "AsyncReadFrom", "AsyncReadAllFrom"} THEN
       Fail(m, "C12/spurious-completion/" \o r.api)
  ELSE IF e.err = "wouldblock" THEN
       IF Mandatory(m, p) THEN Fail(m, Cls("C12/lost/wouldblock", r.api))
       ELSE [m EXCEPT !.rd[p] = NoRead]
  ELSE IF e.err # "nil" THEN
       IF Mandatory(m, p) THEN Fail(m, Cls("C12/lost/error", r.api))
       ELSE [m EXCEPT !.rd[p] = NoRead]
  ELSE IF e.did = 0 \/ e.ok # 1 THEN Fail(m, Cls("C12/boundary/content", r.api))
  ELSE IF hits = {} THEN
       IF <<p, e.did>> \in m.seen THEN Fail(m, "C12/duplicate")
       ELSE IF \E k \in DOMAIN Q : Q[k].did = e.did THEN Fail(m, "C12/boundary/order")
       ELSE IF e.did \in m.sent THEN Fail(m, "C12/not-joined-delivered")
       ELSE Fail(m, "C12/boundary/unknown-datagram")
  ELSE LET k == CHOOSE k \in hits : TRUE
           d == Q[k] IN
       IF e.n # Min(d.len, r.cap) THEN Fail(m, Cls("C12/boundary/length", r.api))
       ELSE IF e.ip # d.ip \/ e.port # d.port THEN Fail(m, "C12/address")
       ELSE IF e.buf # r.buf \/ e.dirty # 0 THEN Fail(m, "C12/buffer")
       ELSE [m EXCEPT !.q[p] = SubSeq(Q, k + 1, Len(Q)),
                      !.seen = @ \cup {<<p, e.did>>},
                      !.rd[p] = NoRead]

\* the driver has read every receiver dry
ObsEnd(m, e) ==
  IF m.wr.op # 0 THEN Fail(m, "C12/harness/write-without-wire")
  ELSE IF \E p \in PIDs : m.sk[p].open /\ Mandatory(m, p) THEN
       LET p == CHOOSE p \in PIDs : m.sk[p].open /\ Mandatory(m, p) IN
       Fail(m, Cls("C12/lost/never-read", m.rd[p].api))
  ELSE m

\* ---------------------------------------------------------------- settings
ObsSet(m, e) ==
  IF e.api = "SetLoop" /\ e.err = "nil" THEN [m EXCEPT !.sk[e.p].lset = TRUE] ELSE m

\* got/kern = <<local address, ttl, loop, outbound interface, outbound ip>> as strings
GetterKeys(m, e) ==
  IF m.sk[e.p].kind # "mc" \/ Len(e.got) # 5 \/ Len(e.kern) # 5 THEN {}
  ELSE (IF e.got[1] # e.kern[1] THEN {"C12/getter/laddr"} ELSE {})
       \cup (IF e.got[2] # e.kern[2] THEN {"C12/getter/ttl"} ELSE {})
       \cup (IF e.got[3] # e.kern[3]
                THEN {IF m.sk[e.p].lset THEN "C12/getter/loop" ELSE "C12/getter/loop-default"} ELSE {})
       \cup (IF e.got[4] # e.kern[4] THEN {"C12/getter/outbound-if"} ELSE {})
       \cup (IF e.got[5] # e.kern[5] THEN {"C12/getter/outbound-ip"} ELSE {})

ObsSample(m, e) == [m EXCEPT !.gbad = @ \cup GetterKeys(m, e)]

\* ------------------------------------------------------------------ total
Apply(m, e) ==
  IF m.bad # "" THEN m
  ELSE CASE e.ev = "Begin"  -> M0
         [] e.ev = "Open"   -> ObsOpen(m, e)
         [] e.ev = "Close"  -> ObsClose(m, e)
         [] e.ev = "Mem"    -> ObsMem(m, e)
         [] e.ev = "Set"    -> ObsSet(m, e)
         [] e.ev = "Sample" -> ObsSample(m, e)
         [] e.ev = "Send"   -> ObsSend(m, e)
         [] e.ev = "Wr"     -> ObsWr(m, e)
         [] e.ev = "Wire"   -> ObsWire(m, e)
         [] e.ev = "RdCall" -> ObsRdCall(m, e)
         [] e.ev = "SetBuf" -> ObsSetBuf(m, e)
         [] e.ev = "RdDone" -> ObsRdDone(m, e)
         [] e.ev = "End"    -> ObsEnd(m, e)
         [] e.ev = "Info"   -> m
         [] OTHER           -> Fail(m, "C12/harness/unknown-event")

RECURSIVE ApplyAll(_, _)
ApplyAll(m, es) == IF es = <<>> THEN m ELSE ApplyAll(Apply(m, Head(es)), Tail(es))

(* Rule keys:
   C12/boundary/content[/readall]    bytes of a completed read are not the bytes of one sent datagram
   C12/boundary/length[/readall]     n differs from min(datagram length, capacity of the current buffer)
   C12/boundary/order                a deliverable datagram overtook an older one
   C12/boundary/unknown-datagram     a read completed with a datagram nobody sent
   C12/address                       reported source ip/port differ from the sender's
   C12/not-joined-delivered          a datagram the membership table does not admit completed a read
   C12/duplicate                     a second read completed with the same datagram
   C12/duplicate/callback            a completion for a read that is not pending
   C12/spurious-completion/<api>     an asynchronous read completed with "would block" (readiness without a datagram)
   C12/lost/wouldblock|error|never-read[/readall]   a deliverable datagram did not complete a read
   C12/buffer                        data not in the most recently designated buffer, or another buffer touched
   C12/write/no-datagram|extra-datagram|content|destination|callback|count-returned
   C12/getter/laddr|ttl|loop|loop-default|outbound-if|outbound-ip     (collected in gbad)
   C12/harness/...                   the driver broke its own protocol (never a finding about sonic) *)
=============================================================================
