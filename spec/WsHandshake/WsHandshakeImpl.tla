--------------------------- MODULE WsHandshakeImpl ---------------------------
(* Implementation-shaped model of the client opening handshake of           *)
(* codec/websocket/stream.go (Handshake, AsyncHandshake, handshake, dial,   *)
(* upgrade, reset) together with the scripted server of the harness.        *)
(*                                                                          *)
(* Bytes are positions of the server's byte stream of one round:            *)
(*   1 .. R            the HTTP response up to and including the blank line *)
(*   R+1 ..            WebSocket frames F1 F2 [F3 = Ping/Close]             *)
(* R and the length D by which httputil.DumpResponse's re-serialisation     *)
(* differs from the bytes on the wire are computed from the response shape  *)
(* with the real lengths of the real header lines, so the boundary          *)
(* arithmetic of upgrade() is transcribed literally:                        *)
(*   n      := bytes in handshakeBuffer                                     *)
(*   resLen := len(DumpResponse)   (BUG_DumpBoundary)  |  index of blank    *)
(*   extra  := n - resLen; if extra > 0 { src.Write(buf[resLen:]) }         *)
(* so the frame decoder starts at stream position                           *)
(*   fstart = resLen+1 if n > resLen else n+1          (correct: R+1).      *)
(*                                                                          *)
(* BUG_* constants select the behaviour of the code as found (TRUE) or as   *)
(* repaired (FALSE):                                                        *)
(*   BUG_SingleRead      one stream.Read into a buffer of BufCap bytes      *)
(*   BUG_DumpBoundary    boundary = length of the re-serialised response    *)
(*   BUG_PendingSurvive  reset() leaves pendingFrames alone                 *)
(*                                                                          *)
(* TLC enumerates the rounds of the profile sets below (decision table:     *)
(* verdict inputs x shape x segmentation x piggy-backed frames x close      *)
(* point x mode x repetition), every observable step is handed to           *)
(* HandshakeMon, and every completed round is printed as a replayable       *)
(* scenario (parameters + predicted observations).                          *)
EXTENDS Integers, Sequences, FiniteSets, TLC, Json

CONSTANTS MaxRounds,          \* handshakes per scenario (on one Stream)
          Tier,               \* "quick" | "thorough"  (breadth of the profile sets)
          BufCap,             \* capacity of handshakeBuffer (1024)
          BUG_SingleRead, BUG_DumpBoundary, BUG_PendingSurvive

VARIABLES
  \* ---- websocket.Stream fields ----
  st,        \* Stream.state
  pend,      \* len(pendingFrames)
  hsn,       \* bytes held by handshakeBuffer
  fstart,    \* first stream position the frame decoder will see (0 = n/a)
  srcDirty,  \* src holds bytes of an earlier connection
  \* ---- wire / scripted server ----
  wsent,     \* bytes written by the server so far
  wclosed,   \* server closed the connection
  crd,       \* bytes the client took from the socket
  rdone,     \* client stopped reading the response
  rerr,      \* read error seen by the client ("" | "eof")
  \* ---- control ----
  phase, round, p, ndel, flushed, stale,
  resid,     \* ghost: what reset() found (state, frames pending, src dirty, handshakeBuffer dirty);
             \* keeps rounds that start from different leftovers apart in the state graph, so
             \* that each is generated as a scenario although the repaired reset() makes them equal
  \* ---- monitor ----
  mstage, mexp, mwhy, mfeat, mnsent, mndel, mkeys, bad,
  \* ---- generation ----
  hist

streamvars == <<st, pend, hsn, fstart, srcDirty>>
wirevars   == <<wsent, wclosed, crd, rdone, rerr>>
ctlvars    == <<phase, round, p, ndel, flushed, stale, resid>>
monvars    == <<mstage, mexp, mwhy, mfeat, mnsent, mndel, mkeys, bad>>
vars       == <<streamvars, wirevars, ctlvars, monvars, hist>>

Mon == INSTANCE HandshakeMon

Min(a, b) == IF a < b THEN a ELSE b
SetMin(S) == CHOOSE x \in S : \A y \in S : x <= y

\* --------------------------------------------------------------------------
\* Round parameters
\* --------------------------------------------------------------------------
Modes == {"sync", "async"}

Base == [mode |-> "sync", kind |-> "resp", status |-> 101, upg |-> "ok", acc |-> "ok",
         ord |-> "canon", hcase |-> "canon", ws |-> "canon", xh |-> "none", long |-> 0,
         cuts |-> <<>>, piggy |-> "none", closept |-> "none", tail |-> "none", xreq |-> 0,
         sl |-> "canon"]

NoP == [Base EXCEPT !.kind = "idle"]

\* ---- layout of the response (real byte lengths) ----
StatusLen(q) == CASE q.status = 101 /\ q.sl = "noreason" -> 14   \* "HTTP/1.1 101\r\n"
                  [] q.status = 101 /\ q.sl = "custom" -> 44     \* "HTTP/1.1 101 Web Socket Protocol Handshake\r\n"
                  [] q.status = 101 -> 34    \* "HTTP/1.1 101 Switching Protocols\r\n"
                  [] q.status = 200 -> 17    \* "HTTP/1.1 200 OK\r\n"
                  [] OTHER          -> 26    \* "HTTP/1.1 400 Bad Request\r\n"

H(n, v, drop) == [n |-> n, v |-> v, drop |-> drop]

HUpg(q)  == IF q.upg = "missing" THEN <<>> ELSE << H(7, IF q.upg = "ok" THEN 9 ELSE 3, FALSE) >>
HConn(q) == IF q.xh = "noconn" THEN <<>> ELSE << H(10, 7, FALSE) >>
HAcc(q)  == IF q.acc = "missing" THEN <<>> ELSE << H(20, 28, FALSE) >>
\* "Content-Length: 0" is dropped by DumpResponse for a 101 response
HClen(q) == IF q.xh = "clen" THEN << H(14, 1, TRUE) >> ELSE <<>>
HPre(q)  == IF q.xh = "extra" THEN << H(6, 9, FALSE) >> ELSE <<>>      \* Server: verif/1.0
HPost(q) == IF q.xh = "extra" THEN << H(4, 29, FALSE) >> ELSE <<>>     \* Date: ...
\* long = 1: one 1000-byte header (past the initial 1024-byte buffer); long = 2: two 2500-byte headers, the
\* blank line lies past 4096 bytes (the buffer has grown to 8192; also the size of a bufio window)
HLong(q) == CASE q.long = 1 -> << H(9, 1000, FALSE) >>                 \* X-Padding: xxxx...
              [] q.long = 2 -> << H(9, 2500, FALSE), H(10, 2500, FALSE) >>  \* X-Padding, X-Padding2
              [] OTHER      -> <<>>

Hdrs(q) ==
  HPre(q) \o
  (IF q.ord = "canon" THEN HUpg(q) \o HConn(q) \o HClen(q) \o HAcc(q)
                      ELSE HAcc(q) \o HClen(q) \o HConn(q) \o HUpg(q)) \o
  HPost(q) \o HLong(q)

WsPre(q)  == CASE q.ws = "none" -> 0 [] q.ws = "wide" -> 2 [] OTHER -> 1
WsPost(q) == IF q.ws = "wide" THEN 1 ELSE 0

LineLen(q, h) == h.n + 1 + WsPre(q) + h.v + WsPost(q) + 2
DumpLen(q, h) == IF h.drop THEN 0 ELSE h.n + 2 + h.v + 2

RECURSIVE SumLine(_, _, _), SumDump(_, _, _)
SumLine(q, hs, k) == IF k = 0 THEN 0 ELSE LineLen(q, hs[k]) + SumLine(q, hs, k - 1)
SumDump(q, hs, k) == IF k = 0 THEN 0 ELSE DumpLen(q, hs[k]) + SumDump(q, hs, k - 1)

\* length of the response on the wire, blank line included
R(q) == StatusLen(q) + SumLine(q, Hdrs(q), Len(Hdrs(q))) + 2
\* len(DumpResponse) - R for a 101 response
\* (a status line without reason phrase is re-serialised as "HTTP/1.1 101 101")
D(q) == SumDump(q, Hdrs(q), Len(Hdrs(q))) - SumLine(q, Hdrs(q), Len(Hdrs(q)))
        + (IF q.sl = "noreason" THEN 4 ELSE 0)

\* ---- frames after the blank line ----
F1Len(q) == CASE q.piggy = "big"  -> 1504        \* text, 1500 payload bytes
              [] q.piggy = "huge" -> 6004        \* text, 6000 payload bytes (fills the grown buffer together with a long response)
              [] OTHER            -> 7           \* text, 5 payload bytes
F2Len == 5                                          \* binary, 3 payload bytes
F3Len(q) == IF q.tail = "none" THEN 0 ELSE 4        \* ping / close, 2 payload bytes
NFrames(q) == IF q.tail = "none" THEN 2 ELSE 3
\* frame bytes written together with the response, before the client is done
Pg(q) == CASE q.piggy = "none"    -> 0
           [] q.piggy = "partial" -> 3
           [] q.piggy = "two"     -> F1Len(q) + F2Len
           [] OTHER               -> F1Len(q)       \* whole, big
\* stream position at which frame k starts (k = NFrames+1: end of stream)
FrameAt(q, k) == R(q) + 1 + (IF k >= 2 THEN F1Len(q) ELSE 0) + (IF k >= 3 THEN F2Len ELSE 0)
                          + (IF k >= 4 THEN F3Len(q) ELSE 0)

\* ---- split classes -> offsets (a cut at c: bytes 1..c | c+1..) ----
CutClasses == {"sl-mid", "sl-crlf", "h1-name", "h1-val", "h1-crlf", "hl-end", "bl-crlf",
               "bl-after", "f-hdr", "f-pay", "f-between"}
H1Len(q) == IF Len(Hdrs(q)) = 0 THEN 0 ELSE LineLen(q, Hdrs(q)[1])
CutOff(q, cls) ==
  CASE cls = "sl-mid"    -> 5
    [] cls = "sl-crlf"   -> StatusLen(q) - 1
    [] cls = "h1-name"   -> IF H1Len(q) = 0 THEN 0 ELSE StatusLen(q) + 3
    [] cls = "h1-val"    -> IF H1Len(q) = 0 THEN 0 ELSE StatusLen(q) + H1Len(q) - 4
    [] cls = "h1-crlf"   -> IF H1Len(q) = 0 THEN 0 ELSE StatusLen(q) + H1Len(q) - 1
    [] cls = "hl-end"    -> R(q) - 2
    [] cls = "bl-crlf"   -> R(q) - 1
    [] cls = "bl-after"  -> R(q)
    [] cls = "f-hdr"     -> R(q) + 1
    [] cls = "f-pay"     -> R(q) + 4
    [] cls = "f-between" -> IF q.piggy = "two" THEN R(q) + F1Len(q) ELSE 0
    [] OTHER             -> 0
ValidCut(q, o) == o > 0 /\ o < R(q) + Pg(q)
MkCut(q, cls) == [cls |-> cls, off |-> CutOff(q, cls)]
WithCuts(q, cs) == [q EXCEPT !.cuts = cs]
CutSet(q) == {q.cuts[k].off : k \in DOMAIN q.cuts}

\* input class of a response (used in rule keys)
Feat(q) ==
  IF q.kind = "badurl" THEN "badurl"
  ELSE IF q.long >= 1 THEN "long"
  ELSE IF Len(q.cuts) > 0 THEN "segmented"
  ELSE IF q.ws # "canon" THEN "whitespace"
  ELSE IF q.xh # "none" THEN "headers"
  ELSE IF q.sl # "canon" THEN "statusline"
  ELSE IF q.hcase # "canon" THEN "case"
  ELSE IF q.ord # "canon" THEN "order"
  ELSE IF q.piggy # "none" THEN "piggyback"
  ELSE "canonical"

\* ---- profile sets ----
Thorough == Tier = "thorough"

ProfVerdict ==
  {[Base EXCEPT !.mode = m, !.status = s, !.upg = u, !.acc = a, !.piggy = g] :
     m \in Modes, s \in {101, 200, 400}, u \in {"ok", "missing", "wrong"},
     a \in {"ok", "wrong", "missing"}, g \in {"none", "whole"}}

ProfShape ==
  {[Base EXCEPT !.mode = m, !.ord = o, !.hcase = c, !.ws = w, !.xh = x, !.long = l, !.piggy = g] :
     m \in Modes, o \in {"canon", "rev"}, c \in {"canon", "lower", "upper"},
     w \in {"canon", "none", "wide", "tab"}, x \in {"none", "extra", "clen", "noconn"},
     l \in {0, 1}, g \in {"none", "whole"}}

\* large responses with large piggy-backed frames (every growth step of the handshake buffer up to 8192)
LargeBase == {[Base EXCEPT !.mode = m, !.ws = w, !.long = l, !.piggy = g] :
                m \in Modes, w \in {"canon", "none"}, l \in {1, 2}, g \in {"whole", "two", "big", "huge"}}
ProfLarge == LargeBase \cup {WithCuts(q, <<MkCut(q, c)>>) : q \in LargeBase, c \in {"hl-end", "bl-after", "f-pay"}}

ProfReq == {[Base EXCEPT !.mode = m, !.xreq = r] : m \in Modes, r \in {1, 2, 3}}

SegBase ==
  {[Base EXCEPT !.mode = m, !.ws = w, !.xh = x, !.long = l, !.piggy = g] :
     m \in Modes, w \in {"canon", "none", "wide"}, x \in {"none", "clen"}, l \in {0, 1},
     g \in {"none", "whole", "partial", "two", "big"}}

ProfSeg1 == {WithCuts(q, <<MkCut(q, c)>>) : q \in SegBase, c \in CutClasses}

SegBase2 == {q \in SegBase : q.xh = "none" /\ q.long = 0}
ProfSeg2 == {WithCuts(q, <<MkCut(q, c1), MkCut(q, c2)>>) :
               q \in SegBase2, c1 \in CutClasses, c2 \in CutClasses}
ProfSeg3 == {WithCuts(q, <<MkCut(q, "sl-crlf"), MkCut(q, c2), MkCut(q, c3)>>) :
               q \in SegBase2, c2 \in {"h1-val", "bl-crlf", "bl-after"}, c3 \in {"f-hdr", "f-pay", "f-between"}}
AbsBase == {q \in SegBase : q.xh = "none" /\ q.long = 0 /\ q.piggy \in {"whole", "two"}}
ProfAbs == UNION {{WithCuts(q, <<[cls |-> "abs", off |-> k]>>) : k \in 1..(R(q) + Pg(q) - 1)} : q \in AbsBase}

SegOK(q) == /\ \A k \in DOMAIN q.cuts : ValidCut(q, q.cuts[k].off)
            /\ \A j, k \in DOMAIN q.cuts : j < k => q.cuts[j].off < q.cuts[k].off

ProfSeg == {q \in ProfSeg1 \cup (IF Thorough THEN ProfSeg2 \cup ProfSeg3 \cup ProfAbs ELSE {}) : SegOK(q)}

ProfClose ==
  {[Base EXCEPT !.mode = m, !.closept = c] : m \in Modes, c \in {"prereq", "noresp", "afterresp"}}
  \cup {WithCuts([Base EXCEPT !.mode = m, !.closept = c], <<MkCut(Base, k)>>) :
          m \in Modes, c \in {"midresp", "afterresp"}, k \in {"sl-mid", "h1-val", "h1-crlf", "hl-end", "bl-crlf"}}

ProfStatusLine ==
  LET B == {[Base EXCEPT !.mode = m, !.sl = l, !.ws = w, !.piggy = g] :
              m \in Modes, l \in {"noreason", "custom"}, w \in {"canon", "none"}, g \in {"none", "whole", "two"}}
  IN B \cup {WithCuts(q, <<MkCut(q, c)>>) : q \in B, c \in {"sl-mid", "sl-crlf", "bl-after"}}

\* the server goes away inside a piggy-backed frame
ProfMidFrame ==
  LET B == {[Base EXCEPT !.mode = m, !.piggy = "partial", !.closept = "midframe", !.ws = w] :
              m \in Modes, w \in {"canon", "none", "wide"}}
  IN B \cup {WithCuts(q, <<MkCut(q, c)>>) : q \in B, c \in {"hl-end", "bl-after", "f-hdr"}}

ProfTail ==
  {[Base EXCEPT !.mode = m, !.tail = t, !.piggy = g] :
     m \in Modes, t \in {"ping", "close"}, g \in {"none", "whole", "two"}}

ProfBadUrl == {[Base EXCEPT !.mode = m, !.kind = "badurl"] : m \in Modes}

Prof1 == ProfVerdict \cup ProfShape \cup ProfReq \cup {q \in ProfLarge : SegOK(q)} \cup {q \in ProfStatusLine \cup ProfMidFrame : SegOK(q)}
         \cup ProfSeg \cup ProfClose \cup ProfTail \cup ProfBadUrl

\* rounds after the first: a handshake on a stream that was used before
Prof2 ==
  {[Base EXCEPT !.mode = m, !.piggy = g] : m \in Modes, g \in {"none", "whole"}}
  \cup {[Base EXCEPT !.mode = m, !.status = 400] : m \in Modes}
  \cup {[Base EXCEPT !.mode = m, !.acc = a] : m \in Modes, a \in {"wrong", "stale"}}   \* stale: right for the previous key
  \cup {[Base EXCEPT !.mode = m, !.closept = "noresp"] : m \in Modes}
  \cup {[Base EXCEPT !.mode = m, !.tail = "ping", !.piggy = "whole"] : m \in Modes}
  \cup {WithCuts([Base EXCEPT !.mode = m, !.ws = "none", !.piggy = "whole"],
                 <<MkCut([Base EXCEPT !.ws = "none", !.piggy = "whole"], "bl-after")>>) : m \in Modes}
  \cup ProfBadUrl

\* --------------------------------------------------------------------------
\* Observations
\* --------------------------------------------------------------------------
E0 == [ev |-> "", round |-> 0, mode |-> "", kind |-> "",
       got |-> 0, method |-> 0, host |-> 0, upg |-> 0, conn |-> 0, ver |-> 0, key16 |-> 0,
       fresh |-> 0, keyid |-> 0, xhdr |-> 0, wf |-> 0,
       status |-> 0, rupg |-> "", racc |-> "", complete |-> 0, feat |-> "", nsent |-> 0,
       err |-> "", state |-> "", cbs |-> 0, pending |-> 0,
       n |-> 0, match |-> 0, ndeliv |-> 0, cbytes |-> 0, probe |-> ""]

Ev(name, q, r) == [E0 EXCEPT !.ev = name, !.round = r, !.mode = q.mode, !.kind = q.kind]

Emit(e) == /\ Mon!Obs(e)
           /\ hist' = [hist EXCEPT ![Len(hist)].pred = Append(@, e)]

\* bytes the server writes before it waits for the client / closes
WriteLimit(q) ==
  CASE q.closept \in {"prereq", "noresp"} -> 0
    [] q.closept = "midresp"   -> SetMin(CutSet(q))
    [] q.closept = "afterresp" -> R(q)
    [] OTHER                   -> R(q) + Pg(q)

Complete(q) == WriteLimit(q) >= R(q)

\* frames the server sends after the blank line in this round
NSent(q) == IF q.closept = "none" THEN NFrames(q) ELSE 0

\* --------------------------------------------------------------------------
Init ==
  /\ st = "state_handshake" /\ pend = 0 /\ hsn = 0 /\ fstart = 0 /\ srcDirty = FALSE
  /\ wsent = 0 /\ wclosed = FALSE /\ crd = 0 /\ rdone = FALSE /\ rerr = ""
  /\ phase = "idle" /\ round = 0 /\ p = NoP /\ ndel = 0 /\ flushed = FALSE /\ stale = FALSE
  /\ resid = <<"state_handshake", FALSE, FALSE, FALSE>>
  /\ Mon!MonInit
  /\ hist = <<>>

\* Handshake()/AsyncHandshake(): reset(), then the handshake proper
Begin(q) ==
  /\ phase = "idle" /\ round < MaxRounds
  /\ round' = round + 1 /\ p' = q
  /\ resid' = <<st, pend > 0, srcDirty, hsn > 0>>
  \* reset()
  /\ st' = "state_handshake" /\ hsn' = 0 /\ fstart' = 0 /\ srcDirty' = FALSE
  /\ pend' = IF BUG_PendingSurvive THEN pend ELSE 0
  /\ wsent' = 0 /\ wclosed' = FALSE /\ crd' = 0 /\ rdone' = FALSE /\ rerr' = ""
  /\ ndel' = 0 /\ flushed' = FALSE /\ stale' = FALSE
  /\ phase' = IF q.kind = "badurl" THEN "upgraded" ELSE "begun"
  /\ Mon!Obs(Ev("Begin", q, round + 1))
  /\ hist' = Append(hist, [p |-> q, r |-> R(q), d |-> D(q), pred |-> <<Ev("Begin", q, round + 1)>>])

\* resolve + dial + req.Write: the server reads and judges the request
Request ==
  /\ phase = "begun" /\ phase' = "req"
  /\ Emit(IF p.closept = "prereq"
            THEN Ev("Req", p, round)
            ELSE [Ev("Req", p, round) EXCEPT !.got = 1, !.method = 1, !.host = 1, !.upg = 1, !.conn = 1,
                    !.ver = 1, !.key16 = 1, !.fresh = 1, !.keyid = round, !.xhdr = 1, !.wf = 1])
  /\ UNCHANGED <<streamvars, wirevars, round, p, ndel, flushed, stale, resid>>

\* the server's script for this round
Script ==
  /\ phase = "req" /\ phase' = "responding"
  /\ Emit([Ev("Resp", p, round) EXCEPT !.status = p.status, !.rupg = p.upg, !.racc = p.acc,
             !.complete = IF Complete(p) THEN 1 ELSE 0, !.feat = Feat(p), !.nsent = NSent(p)])
  /\ UNCHANGED <<streamvars, wirevars, round, p, ndel, flushed, stale, resid>>

\* the server writes the next segment once the client has taken the previous one
ServerWrite ==
  /\ phase = "responding" /\ ~rdone /\ ~wclosed
  /\ crd = wsent /\ wsent < WriteLimit(p)
  /\ wsent' = SetMin({c \in CutSet(p) : c > wsent} \cup {WriteLimit(p)})
  /\ UNCHANGED <<streamvars, wclosed, crd, rdone, rerr, ctlvars, monvars, hist>>

ServerClose ==
  /\ phase = "responding" /\ ~rdone /\ ~wclosed
  /\ crd = wsent /\ wsent = WriteLimit(p) /\ p.closept # "none"
  /\ wclosed' = TRUE
  /\ UNCHANGED <<streamvars, wsent, crd, rdone, rerr, ctlvars, monvars, hist>>

\* stream.Read(handshakeBuffer...)
ClientRead ==
  /\ phase = "responding" /\ ~rdone
  /\ \/ /\ wsent > crd
        /\ LET take == IF BUG_SingleRead THEN Min(wsent - crd, BufCap) ELSE wsent - crd IN
           /\ crd' = crd + take /\ hsn' = hsn + take
           /\ rdone' = (BUG_SingleRead \/ hsn + take >= R(p))
           /\ rerr' = rerr
     \/ /\ wsent = crd /\ wclosed
        /\ rerr' = "eof" /\ rdone' = TRUE
        /\ UNCHANGED <<crd, hsn>>
  /\ UNCHANGED <<st, pend, fstart, srcDirty, wsent, wclosed, ctlvars, monvars, hist>>

\* parse, boundary, leftover, acceptance test, state assignment in Handshake()
Upgrade ==
  /\ \/ phase = "responding" /\ rdone
     \/ phase = "upgraded"               \* bad URL: resolve() failed, nothing was dialled
  /\ LET parsed == p.kind = "resp" /\ rerr = "" /\ hsn >= R(p)
         resLen == IF BUG_DumpBoundary THEN R(p) + D(p) ELSE R(p)
         ok     == parsed /\ p.status = 101 /\ p.upg = "ok" /\ p.acc = "ok"
         e      == IF ok THEN "nil" ELSE IF parsed THEN "cannotupgrade" ELSE "other"
     IN
     /\ fstart' = IF ~parsed THEN 0 ELSE IF hsn > resLen THEN resLen + 1 ELSE hsn + 1
     /\ srcDirty' = (parsed /\ hsn > resLen)      \* leftover written to src (consumed later if accepted)
     /\ hsn' = IF parsed THEN 0 ELSE hsn
     /\ st' = IF ok THEN "state_active" ELSE "state_terminated"
     /\ phase' = IF ok THEN "reading" ELSE "ending"
     /\ Emit([Ev("Result", p, round) EXCEPT !.err = e, !.state = st', !.cbs = 1, !.pending = pend])
  /\ UNCHANGED <<pend, wirevars, round, p, ndel, flushed, stale, resid>>

\* frames the decoder yields when it starts at stream position fstart:
\* from a frame boundary on, the remaining frames; anywhere else, garbage
Delivered ==
  IF \E k \in 1..(NSent(p) + 1) : fstart = FrameAt(p, k)
    THEN LET k0 == CHOOSE k \in 1..(NSent(p) + 1) : fstart = FrameAt(p, k)
         IN [j \in 1..(NSent(p) - k0 + 1) |-> k0 + j - 1]
    ELSE << 0 >>

\* first NextFrame: Flush() writes whatever sits in pendingFrames
FirstFlush ==
  /\ phase = "reading" /\ ~flushed
  /\ flushed' = TRUE /\ stale' = (pend > 0) /\ pend' = 0
  /\ UNCHANGED <<st, hsn, fstart, srcDirty, wirevars, phase, round, p, ndel, resid, monvars, hist>>

\* NextFrame / AsyncNextFrame returns a frame
Deliver ==
  /\ phase = "reading" /\ flushed /\ ndel < Len(Delivered)
  /\ ndel' = ndel + 1
  /\ LET m == Delivered[ndel + 1]
         ctl == p.tail # "none" /\ m = NFrames(p)      \* the Ping / Close at the end
     IN /\ pend' = IF ctl THEN pend + 1 ELSE pend      \* pong / close reply prepared, not flushed
        /\ st' = IF ctl /\ p.tail = "close" THEN "state_closed_by_peer" ELSE st
        /\ Emit([Ev("Msg", p, round) EXCEPT !.n = ndel + 1, !.match = m])
  /\ UNCHANGED <<hsn, fstart, srcDirty, wirevars, phase, round, p, flushed, stale, resid>>

\* reading ends (EOF after the server's shutdown, or the script stops after the
\* control frame), the driver closes the connection (CloseNextLayer)
EndRound ==
  /\ \/ phase = "reading" /\ flushed /\ ndel = Len(Delivered)
     \/ phase = "ending"
  /\ LET acc == phase = "reading"
         stop == acc /\ p.tail # "none" /\ ndel = NFrames(p)
     IN /\ st' = IF acc /\ ~stop THEN "state_terminated" ELSE st
        /\ Emit([Ev("End", p, round) EXCEPT !.ndeliv = ndel, !.err = IF ~acc THEN "" ELSE IF stop THEN "stopped" ELSE "eof",
                   !.state = st', !.cbytes = IF stale THEN 1 ELSE 0,
                   \* a terminated stream refuses NextFrame (EOF), Write (cancelled), Close (EOF)
                   !.probe = IF acc THEN "" ELSE "ok"])
  /\ phase' = "idle" /\ p' = NoP
  /\ wsent' = 0 /\ wclosed' = FALSE /\ crd' = 0 /\ rdone' = FALSE /\ rerr' = ""
  /\ ndel' = 0 /\ flushed' = FALSE /\ stale' = FALSE
  /\ fstart' = 0
  /\ hsn' = IF hsn > 0 THEN 1 ELSE 0      \* only "dirty or not" matters to the next reset()
  \* src still holds bytes: a leftover nobody read (rejected round), or the last
  \* frame returned (the decoder consumes a frame lazily, on the next Decode)
  /\ srcDirty' = \/ phase = "ending" /\ srcDirty
                 \/ phase = "reading" /\ p.tail # "none" /\ ndel = NFrames(p)
  /\ UNCHANGED <<pend, round, resid>>

\* A state in which the monitor has rejected is terminal (every disjunct is
\* guarded, and Next is a plain disjunction so that TLC reports coverage per action).
Live == bad = ""
BeginAny == Live /\ \E q \in (IF round = 0 THEN Prof1 ELSE Prof2) : Begin(q)
DoRequest == Live /\ Request
DoScript == Live /\ Script
DoServerWrite == Live /\ ServerWrite
DoServerClose == Live /\ ServerClose
DoClientRead == Live /\ ClientRead
DoUpgrade == Live /\ Upgrade
DoFirstFlush == Live /\ FirstFlush
DoDeliver == Live /\ Deliver
DoEndRound == Live /\ EndRound
Next ==
  \/ BeginAny
  \/ DoRequest
  \/ DoScript
  \/ DoServerWrite
  \/ DoServerClose
  \/ DoClientRead
  \/ DoUpgrade
  \/ DoFirstFlush
  \/ DoDeliver
  \/ DoEndRound

Spec == Init /\ [][Next]_vars

\* ---- properties ----
NotBad == bad = ""

TypeOK ==
  /\ st \in {"state_handshake", "state_active", "state_terminated", "state_closed_by_peer"}
  /\ pend \in 0..3 /\ hsn >= 0 /\ crd <= wsent /\ (phase = "responding" => hsn = crd)
  /\ round \in 0..MaxRounds

\* the repaired design hands the decoder exactly the bytes after the blank line
BoundaryExact == (phase = "reading" /\ ~BUG_DumpBoundary) => fstart = R(p) + 1

\* ---- generation ----
View == <<streamvars, wirevars, ctlvars, monvars>>

\* every completed round (and every rejection by the monitor) is one scenario
EmitEdge ==
  /\ ((phase' = "idle" /\ phase # "idle") \/ (bad' # "" /\ bad = ""))
       => PrintT(<<"EDGE", ToJson(hist')>>)
  /\ (bad' # "" /\ bad = "") => PrintT(<<"MODELBAD", bad', ToJson(hist')>>)
=============================================================================
