---------------------------- MODULE HandshakeMon ----------------------------
(* Property monitor for C18 (WebSocket opening handshake).                  *)
(*                                                                          *)
(* One scenario = up to a few handshake rounds on ONE websocket.Stream.     *)
(* Observed per round (API level / wire level only):                        *)
(*   Begin   the round starts (mode sync|async, kind resp|badurl)           *)
(*   Req     the upgrade request as judged by the harness server's own      *)
(*           parser (one 0/1 flag per requirement, key identity)            *)
(*   Resp    what the server really put on the wire (status, Upgrade and    *)
(*           Accept class, whether the whole response incl. the blank line  *)
(*           was written before the server closed, number of frames that    *)
(*           follow the blank line, input class `feat`)                     *)
(*   Result  error class and State()/Pending() when Handshake returned or   *)
(*           the AsyncHandshake callback ran (cbs = number of invocations)  *)
(*   Msg     n-th frame delivered by NextFrame/AsyncNextFrame/NextMessage;  *)
(*           match = index of the sent frame it is byte-identical with, 0   *)
(*           if it equals none                                              *)
(*   End     reading stopped (EOF after the server's shutdown, or the       *)
(*           script told the client to stop); cbytes = bytes the server     *)
(*           received from the client after the request although the        *)
(*           script never asked the client to write                         *)
(*                                                                          *)
(* The monitor states what C18 promises and nothing else: the verdict is a  *)
(* function of (status, Upgrade, Accept, response complete) only - header   *)
(* order, letter case, optional whitespace, extra headers, length and       *)
(* segmentation are not inputs of the expected verdict, which is how        *)
(* "the outcome does not depend on ..." is expressed.  It is total.         *)
(*                                                                          *)
(* Rule keys:                                                               *)
(*   C18/request/<field>          method host upgrade connection version    *)
(*                                key16 key-reused extra-headers wellformed *)
(*   C18/accepted-wrongly/<why>   incomplete status upgrade accept badurl   *)
(*   C18/rejected-wrongly/<feat>  feat = input class of the response        *)
(*   C18/half-open                error reported but State() # terminated   *)
(*   C18/half-open/<call>         ... or the failed stream accepts a call    *)
(*                                (nextframe write close pending panic)      *)
(*   C18/state                    no error but State() # active             *)
(*   C18/callback-count           completion not reported exactly once      *)
(*   C18/leftover/<feat>          frames after the blank line lost,         *)
(*                                duplicated or garbled                     *)
(*   C18/not-fresh/pending        Pending() # 0 right after a handshake     *)
(*   C18/not-fresh/stale-frame-sent  unsolicited client bytes on the wire   *)
(*   C18/panic/<where>            the library panicked (handshake | read)   *)
(*   C18/harness/<what>           malformed trace (never a verdict on code) *)
EXTENDS Integers, Sequences, FiniteSets

VARIABLES mstage,  \* "idle" "begun" "req" "resp" "reading" "failed" "ended"
          mexp,    \* expected verdict of the current round: "" "acc" "rej"
          mwhy,    \* why the round must be rejected (first failing condition)
          mfeat,   \* input class of the current round's response
          mnsent,  \* frames the server sends after the blank line
          mndel,   \* frames delivered so far in this round
          mkeys,   \* key identities seen in earlier rounds of the scenario
          bad

monvars == <<mstage, mexp, mwhy, mfeat, mnsent, mndel, mkeys, bad>>

MonInit ==
  /\ mstage = "idle" /\ mexp = "" /\ mwhy = "" /\ mfeat = "" /\ mnsent = 0
  /\ mndel = 0 /\ mkeys = {} /\ bad = ""

Fail(key) == /\ bad' = key
             /\ UNCHANGED <<mstage, mexp, mwhy, mfeat, mnsent, mndel, mkeys>>

\* A round begins.  Round 1 starts a new scenario (everything is forgotten).
ObsBegin(e) ==
  /\ mstage' = "begun"
  /\ mexp' = IF e.kind = "badurl" THEN "rej" ELSE ""
  /\ mwhy' = IF e.kind = "badurl" THEN "badurl" ELSE ""
  /\ mfeat' = IF e.kind = "badurl" THEN "badurl" ELSE ""
  /\ mnsent' = 0 /\ mndel' = 0
  /\ mkeys' = IF e.round = 1 THEN {} ELSE mkeys
  /\ bad' = IF e.round = 1 THEN "" ELSE bad

ReqFault(e) ==
  IF e.method = 0 THEN "method"
  ELSE IF e.host = 0 THEN "host"
  ELSE IF e.upg = 0 THEN "upgrade"
  ELSE IF e.conn = 0 THEN "connection"
  ELSE IF e.ver = 0 THEN "version"
  ELSE IF e.key16 = 0 THEN "key16"
  ELSE IF e.fresh = 0 \/ e.keyid \in mkeys THEN "key-reused"
  ELSE IF e.xhdr = 0 THEN "extra-headers"
  ELSE IF e.wf = 0 THEN "wellformed"
  ELSE ""

ObsReq(e) ==
  IF mstage # "begun" THEN Fail("C18/harness/req-out-of-order")
  ELSE IF e.got = 0 THEN   \* the server closed without reading a request
       /\ mstage' = "req"
       /\ UNCHANGED <<mexp, mwhy, mfeat, mnsent, mndel, mkeys, bad>>
  ELSE IF ReqFault(e) # "" THEN Fail("C18/request/" \o ReqFault(e))
  ELSE /\ mstage' = "req"
       /\ mkeys' = mkeys \cup {e.keyid}
       /\ UNCHANGED <<mexp, mwhy, mfeat, mnsent, mndel, bad>>

ObsResp(e) ==
  IF mstage # "req" THEN Fail("C18/harness/resp-out-of-order")
  ELSE
  LET why == IF e.complete = 0 THEN "incomplete"
             ELSE IF e.status # 101 THEN "status"
             ELSE IF e.rupg # "ok" THEN "upgrade"
             ELSE IF e.racc # "ok" THEN "accept"
             ELSE ""
  IN /\ mstage' = "resp"
     /\ mexp' = IF why = "" THEN "acc" ELSE "rej"
     /\ mwhy' = why
     /\ mfeat' = e.feat
     /\ mnsent' = e.nsent
     /\ UNCHANGED <<mndel, mkeys, bad>>

ObsResult(e) ==
  LET acc == e.err = "nil" IN
  IF e.err = "panic" THEN Fail("C18/panic/handshake")
  \* the complete response was delivered, the connection stayed open, and the handshake call
  \* neither accepted nor rejected within the budget (bounded-time observation)
  ELSE IF e.err = "stalled" THEN Fail("C18/no-result/stalled")
  ELSE IF ~(mstage = "resp" \/ (mstage = "begun" /\ mexp = "rej"))
     THEN Fail("C18/harness/result-out-of-order")
  ELSE IF e.cbs # 1 THEN Fail("C18/callback-count")
  ELSE IF acc /\ mexp = "rej" THEN Fail("C18/accepted-wrongly/" \o mwhy)
  ELSE IF ~acc /\ mexp = "acc" THEN Fail("C18/rejected-wrongly/" \o mfeat)
  ELSE IF ~acc /\ e.state # "state_terminated" THEN Fail("C18/half-open")
  ELSE IF acc /\ e.state # "state_active" THEN Fail("C18/state")
  ELSE IF acc /\ e.pending # 0 THEN Fail("C18/not-fresh/pending")
  ELSE /\ mstage' = IF acc THEN "reading" ELSE "failed"
       /\ UNCHANGED <<mexp, mwhy, mfeat, mnsent, mndel, mkeys, bad>>

\* Frames after the blank line: the n-th delivered frame is the n-th sent one.
ObsMsg(e) ==
  IF mstage # "reading" THEN Fail("C18/harness/msg-out-of-order")
  ELSE IF e.n # mndel + 1 THEN Fail("C18/harness/msg-count")
  ELSE IF e.n > mnsent \/ e.match # e.n THEN Fail("C18/leftover/" \o mfeat)
  ELSE /\ mndel' = mndel + 1
       /\ UNCHANGED <<mstage, mexp, mwhy, mfeat, mnsent, mkeys, bad>>

ObsEnd(e) ==
  IF mstage \notin {"reading", "failed"} THEN Fail("C18/harness/end-out-of-order")
  ELSE IF e.err = "panic" THEN Fail("C18/panic/read")
  \* after a successful handshake an application write goes through (also when an earlier connection of the
  \* same stream was given up with a write in flight)
  ELSE IF mstage = "reading" /\ e.probe \notin {"", "ok"} THEN Fail("C18/not-fresh/" \o e.probe)
  ELSE IF mstage = "reading" /\ (e.ndeliv # mndel) THEN Fail("C18/harness/end-count")
  ELSE IF mstage = "reading" /\ mndel # mnsent THEN Fail("C18/leftover/" \o mfeat)
  ELSE IF mstage = "failed" /\ e.probe # "ok" THEN Fail("C18/half-open/" \o e.probe)
  ELSE IF e.cbytes > 0 THEN Fail("C18/not-fresh/stale-frame-sent")
  ELSE /\ mstage' = "ended"
       /\ UNCHANGED <<mexp, mwhy, mfeat, mnsent, mndel, mkeys, bad>>

Obs(e) ==
  CASE e.ev = "Begin"  -> ObsBegin(e)
    [] e.ev = "Req"    -> ObsReq(e)
    [] e.ev = "Resp"   -> ObsResp(e)
    [] e.ev = "Result" -> ObsResult(e)
    [] e.ev = "Msg"    -> ObsMsg(e)
    [] e.ev = "End"    -> ObsEnd(e)
    [] OTHER           -> Fail("C18/harness/unknown-event")

NotBad == bad = ""
=============================================================================
