SPECIFICATION Spec
CONSTANTS
  MaxRounds = 2
  Tier = "quick"
  BufCap = 1024
  BUG_SingleRead = FALSE
  BUG_DumpBoundary = FALSE
  BUG_PendingSurvive = FALSE
INVARIANTS TypeOK BoundaryExact
VIEW View
ACTION_CONSTRAINT EmitEdge
CHECK_DEADLOCK FALSE
