------------------------------ MODULE WsReadMon ------------------------------
(* Property monitor for C06 (message delivery fidelity) and C15 (protocol    *)
(* violations are reported, never delivered) of the WebSocket read path.     *)
(*                                                                           *)
(* Observations (one record shape for all events, unused fields 0 / ""):     *)
(*   Begin   max            new scenario, configured maximum message size    *)
(*   Run     api            one of the four read APIs starts on a fresh      *)
(*                          stream fed with the scenario's wire bytes        *)
(*   Sent    fid op fin len mk viol    the peer put this frame on the wire   *)
(*                          (viol = "" for a conforming frame, else the      *)
(*                          class of the single violation it carries)        *)
(*   Frame   op fin len tok ok err     NextFrame/AsyncNextFrame returned     *)
(*   Msg     op n toks ok err          NextMessage/AsyncNextMessage returned *)
(*   Ctl     op len tok ok             control callback (not judged)         *)
(*   Post    code wr        after an error return: status of the Close frame *)
(*                          found on the captured transport output after a   *)
(*                          flush (0 = none), wr = 1 iff an application      *)
(*                          write was accepted afterwards                    *)
(*   Panic                  a read API panicked                              *)
(*   EndRun                 the run is over                                  *)
(* Payload contents are tokens: the Go projection maps delivered bytes back  *)
(* to the ids of the frames whose generator produced them (ok = 0 if some    *)
(* byte matches no generator).                                               *)
(*                                                                           *)
(* The monitor keeps the queue of frames sent and not yet accounted for.     *)
(* It is total; a forbidden observation sets `bad` to the rule key:          *)
(*   C06/order/<api>          item delivered that is not the next one sent   *)
(*                            (wrong opcode/type/FIN, phantom, duplicate)    *)
(*   C06/length/<api>         reported length differs from payload length    *)
(*   C06/content/<api>        payload is not the sent payload                *)
(*   C06/not-delivered/<api>  error / end of run although conforming data    *)
(*                            was still to be delivered                      *)
(*   C06/api-disagree/<api>   this API's run ended differently from the run  *)
(*                            of another API over the same bytes             *)
(*   C06/panic/<api>  C15/panic/<api>                                        *)
(*   C15/delivered/<class>    payload of the violating frame handed out with *)
(*                            a nil error                                    *)
(*   C15/not-reported/<class>:<api>  nil returned over a violating frame     *)
(*   C15/no-1002/<class>      framing violation, but no Close(1002) on the   *)
(*                            wire after the next flush                      *)
(*   C15/write-accepted/<class>  application write accepted after a framing  *)
(*                            violation                                      *)
(* Where the statements are silent the monitor accepts everything: control   *)
(* callbacks, what the frame API does with sequences that only break the     *)
(* fragmentation rules, everything after the first reported violation.       *)
EXTENDS Integers, Sequences, FiniteSets

VARIABLES mmax,    \* configured maximum
          mapi,    \* API of the current run
          pre,     \* frames announced before the first run (trace mode: the frame list is
                   \* announced once per scenario and holds for every run)
          q,       \* frames sent and not yet accounted for (oldest first)
          mode,    \* "idle" | "run" | "free" | "violated" | "ended"
          vcls,    \* class of the violation that was reported in this run
          nd,      \* complete data messages accounted for in this run
          hasv,    \* some frame of the scenario carries a violation
          refF,    \* [nd, fin] summary of the first frame-level run (nd = -1: none yet)
          refM,    \* same for the message-level runs
          bad

monvars == <<mmax, mapi, pre, q, mode, vcls, nd, hasv, refF, refM, bad>>

Framing    == {"rsv", "resop", "masked", "fragctl", "bigctl"}   \* RFC 6455 framing rules: 1002 + no writes
FrameLevel == Framing \cup {"frame-over-max"}                     \* every read API must report these
MsgLevel   == {"contnostart", "newdata", "msg-over-max"}          \* the message API must report these
FrameApis  == {"NF", "ANF", "NF+lc", "ANF+lc"}
\* "+lc": the application has sent its own Close before it goes on reading (state closed-by-us). Violations must
\* still be reported and never delivered; a Close(1002) cannot be queued any more (one Close per session) and
\* application writes are refused anyway, so the two rules about what follows a violation do not apply.
LcApis     == {"NF+lc", "ANF+lc", "NM+lc", "ANM+lc"}
IsData(op) == op \in {"text", "binary", "cont"}

NoRef == [nd |-> -1, fin |-> ""]

MonInit ==
  /\ mmax = 0 /\ mapi = "" /\ pre = <<>> /\ q = <<>> /\ mode = "idle" /\ vcls = "" /\ nd = 0
  /\ hasv = FALSE /\ refF = NoRef /\ refM = NoRef /\ bad = ""

Fail(key) == /\ bad' = key
             /\ UNCHANGED <<mmax, mapi, pre, q, mode, vcls, nd, hasv, refF, refM>>

ObsBegin(e) ==
  /\ mmax' = e.n /\ mapi' = "" /\ pre' = <<>> /\ q' = <<>> /\ mode' = "idle" /\ vcls' = "" /\ nd' = 0
  /\ hasv' = FALSE /\ refF' = NoRef /\ refM' = NoRef /\ bad' = ""

ObsRun(e) ==
  /\ mapi' = e.api /\ q' = pre /\ mode' = "run" /\ vcls' = "" /\ nd' = 0
  /\ UNCHANGED <<mmax, pre, hasv, refF, refM, bad>>

ObsSent(e) ==
  LET r == [fid |-> e.fid, op |-> e.op, fin |-> e.fin, len |-> e.len, viol |-> e.viol] IN
  /\ IF mode = "idle" THEN pre' = Append(pre, r) /\ q' = q
                      ELSE q' = Append(q, r) /\ pre' = pre
  /\ hasv' = (hasv \/ e.viol # "")
  /\ UNCHANGED <<mmax, mapi, mode, vcls, nd, refF, refM, bad>>

Drop(s, k) == SubSeq(s, k + 1, Len(s))

\* ---- frame-level APIs ----
ObsFrame(e) ==
  IF mode # "run" THEN UNCHANGED monvars
  ELSE IF e.err = "nil" THEN
     IF q = <<>> THEN Fail("C06/order/" \o mapi)
     ELSE LET h == q[1] IN
       IF h.viol \in FrameLevel THEN
          IF e.tok = h.fid /\ h.len > 0 THEN Fail("C15/delivered/" \o h.viol)
          ELSE Fail("C15/not-reported/" \o h.viol \o ":" \o mapi)
       ELSE IF h.viol \in MsgLevel THEN
          \* a sequence that only breaks the fragmentation rules / the message
          \* limit: nothing is promised for the frame API from here on
          /\ mode' = "free" /\ q' = Tail(q)
          /\ UNCHANGED <<mmax, mapi, pre, vcls, nd, hasv, refF, refM, bad>>
       ELSE IF e.op # h.op \/ e.fin # h.fin THEN Fail("C06/order/" \o mapi)
       ELSE IF e.len # h.len THEN Fail("C06/length/" \o mapi)
       ELSE IF e.ok # 1 \/ e.tok # (IF h.len > 0 THEN h.fid ELSE 0) THEN Fail("C06/content/" \o mapi)
       ELSE /\ q' = Tail(q)
            /\ nd' = nd + (IF IsData(h.op) /\ h.fin = 1 THEN 1 ELSE 0)
            /\ UNCHANGED <<mmax, mapi, pre, mode, vcls, hasv, refF, refM, bad>>
  ELSE \* an error was returned
     IF q # <<>> /\ q[1].viol # "" THEN
        /\ mode' = "violated" /\ vcls' = q[1].viol
        /\ UNCHANGED <<mmax, mapi, pre, q, nd, hasv, refF, refM, bad>>
     ELSE IF e.err = "eof" /\ q = <<>> THEN
        /\ mode' = "ended"
        /\ UNCHANGED <<mmax, mapi, pre, q, vcls, nd, hasv, refF, refM, bad>>
     ELSE Fail("C06/not-delivered/" \o mapi)

\* ---- message-level APIs ----
Inf == 1000000
MinOf(S) == IF S = {} THEN Inf ELSE CHOOSE x \in S : \A y \in S : x <= y
EndIdx  == MinOf({k \in DOMAIN q : IsData(q[k].op) /\ q[k].fin = 1})   \* frame that completes the next message
ViolIdx == MinOf({k \in DOMAIN q : q[k].viol # ""})

RECURSIVE SumLen(_, _)
SumLen(s, k) == IF k = 0 THEN 0 ELSE SumLen(s, k - 1) + (IF IsData(s[k].op) THEN s[k].len ELSE 0)

RECURSIVE Toks(_, _)
Toks(s, k) == IF k = 0 THEN <<>>
              ELSE IF IsData(s[k].op) /\ s[k].len > 0 THEN Append(Toks(s, k - 1), s[k].fid)
              ELSE Toks(s, k - 1)

FirstData(k) == q[MinOf({j \in 1..k : IsData(q[j].op)})]

InSeq(x, s) == \E k \in DOMAIN s : s[k] = x

ObsMsg(e) ==
  IF mode # "run" THEN UNCHANGED monvars
  ELSE IF e.err = "nil" THEN
     IF ViolIdx # Inf /\ ViolIdx <= EndIdx THEN
        \* the call ran over the violating frame and returned nil
        LET v == q[ViolIdx] IN
        IF v.len > 0 /\ InSeq(v.fid, e.toks) THEN Fail("C15/delivered/" \o v.viol)
        ELSE Fail("C15/not-reported/" \o v.viol \o ":" \o mapi)
     ELSE IF EndIdx = Inf THEN Fail("C06/order/" \o mapi)
     ELSE LET k == EndIdx IN
       IF e.op # FirstData(k).op THEN Fail("C06/order/" \o mapi)
       ELSE IF e.n # SumLen(q, k) THEN Fail("C06/length/" \o mapi)
       ELSE IF e.ok # 1 \/ e.toks # Toks(q, k) THEN Fail("C06/content/" \o mapi)
       ELSE /\ q' = Drop(q, k) /\ nd' = nd + 1
            /\ UNCHANGED <<mmax, mapi, pre, mode, vcls, hasv, refF, refM, bad>>
  ELSE
     IF ViolIdx # Inf /\ ViolIdx <= EndIdx THEN
        /\ mode' = "violated" /\ vcls' = q[ViolIdx].viol
        /\ UNCHANGED <<mmax, mapi, pre, q, nd, hasv, refF, refM, bad>>
     ELSE IF e.err = "eof" /\ \A k \in DOMAIN q : ~IsData(q[k].op) THEN
        /\ mode' = "ended"
        /\ UNCHANGED <<mmax, mapi, pre, q, vcls, nd, hasv, refF, refM, bad>>
     ELSE Fail("C06/not-delivered/" \o mapi)

ObsPost(e) ==
  \* e.k: Close frames on the wire so far - whatever went wrong, and whoever started the closing
  \* handshake, an endpoint sends one Close frame
  IF e.k > 1 THEN Fail("C15/second-close/" \o mapi)
  ELSE IF mode = "violated" /\ vcls \in Framing /\ mapi \notin LcApis THEN
     IF e.code # 1002 THEN Fail("C15/no-1002/" \o vcls)
     ELSE IF e.wr # 0 THEN Fail("C15/write-accepted/" \o vcls)
     ELSE UNCHANGED monvars
  ELSE UNCHANGED monvars

\* After the error return the caller went on reading and got, as application data,
\* bytes that the rejected frame carried in its payload.
ObsAfter(e) ==
  IF mode = "violated" THEN Fail("C15/delivered-after/" \o vcls) ELSE Fail("C06/harness/after-without-violation")

ObsPanic(e) == Fail((IF hasv THEN "C15/panic/" ELSE "C06/panic/") \o mapi)

\* End of a run.  A run that neither reported a justified error nor reached
\* the end of the stream has left sent data undelivered.  Sync and async
\* variants of one level must have ended alike; without a violation in the
\* scenario all four must have accounted for the same number of messages.
ObsEndRun(e) ==
  IF mode = "run" THEN Fail("C06/not-delivered/" \o mapi)
  ELSE IF mapi \in LcApis THEN   \* not compared with the runs of the other APIs (the session ends differently)
       /\ mode' = "idle"
       /\ UNCHANGED <<mmax, mapi, pre, q, vcls, nd, hasv, refF, refM, bad>>
  ELSE LET fin == IF mode = "free" THEN "free" ELSE IF mode = "violated" THEN "violated:" \o vcls ELSE mode
           me  == [nd |-> nd, fin |-> fin]
           isF == mapi \in FrameApis
           own == IF isF THEN refF ELSE refM
           oth == IF isF THEN refM ELSE refF
       IN
       IF own.nd # -1 /\ own # me THEN Fail("C06/api-disagree/" \o mapi)
       ELSE IF ~hasv /\ oth.nd # -1 /\ oth # me THEN Fail("C06/api-disagree/" \o mapi)
       ELSE /\ refF' = IF isF /\ refF.nd = -1 THEN me ELSE refF
            /\ refM' = IF ~isF /\ refM.nd = -1 THEN me ELSE refM
            /\ mode' = "idle"
            /\ UNCHANGED <<mmax, mapi, pre, q, vcls, nd, hasv, bad>>

Obs(e) ==
  CASE e.ev = "Begin"  -> ObsBegin(e)
    [] e.ev = "Run"    -> ObsRun(e)
    [] e.ev = "Sent"   -> ObsSent(e)
    [] e.ev = "Frame"  -> ObsFrame(e)
    [] e.ev = "Msg"    -> ObsMsg(e)
    [] e.ev = "Ctl"    -> UNCHANGED monvars
    [] e.ev = "Chunk"  -> UNCHANGED monvars
    [] e.ev = "Post"   -> ObsPost(e)
    [] e.ev = "After"  -> ObsAfter(e)
    [] e.ev = "Panic"  -> ObsPanic(e)
    [] e.ev = "EndRun" -> ObsEndRun(e)
    [] OTHER           -> Fail("C06/harness/unknown-event")

NotBad == bad = ""
=============================================================================
