SPECIFICATION Spec
CONSTANTS
  Max = 70000
  Ops = {"text", "binary"}
  CtlOps = {"ping", "pong"}
  Lens = {0, 1, 126, 65536}
  CtlLens = {0, 1, 125}
  MaxMsgs = 2
  MaxFrags = 2
  MaxCtl = 1
  MaxFrames = 5
  MaxInFlight = 2
  Apis = {"NF", "NM"}
  Viols = {}
  VLens = {0, 1, 126}
  PairConf = TRUE
  MaxHist = 0
  BUG_CtlResetsCont = FALSE
  BUG_ConsumeShort = FALSE
INVARIANTS TypeOK CellsOK
VIEW View
ACTION_CONSTRAINT EmitEdge
CHECK_DEADLOCK FALSE
