------------------------------ MODULE WsReadImpl ------------------------------
(* Implementation-shaped model of the WebSocket read path                    *)
(* (codec/websocket/stream.go, frame_codec.go, codec.go, byte_buffer.go):    *)
(*   - src ByteBuffer: bytes received (read area [0,ri), write area [ri,wi)) *)
(*   - FrameCodec.Decode: lazy consume of the frame handed out before        *)
(*     (decodeReset), PrepareRead per header section (2 bytes, extended      *)
(*     length, size check, mask, payload), ErrNeedMore                        *)
(*   - CodecConn.ReadNext/AsyncReadNext: ErrNeedMore -> transport read ->    *)
(*     decode again                                                          *)
(*   - Stream.NextFrame: flush pending, canRead, handleFrame (verifyFrame,   *)
(*     handleControlFrame, handleDataFrame, Close(1002) on error)            *)
(*   - Stream.NextMessage: reassembly with `continuation`, size limit        *)
(* Bytes are abstracted to cells (a run of w bytes of one frame that the     *)
(* transport never splits): every header byte boundary that matters (each    *)
(* section: before / inside / after) and the payload at {0,1,len-1,len} are  *)
(* cell boundaries, so the segmentations TLC enumerates are the split        *)
(* classes; the driver expands them to concrete offsets.                     *)
(* The peer emits frames lazily (at most MaxInFlight undecoded frames), the  *)
(* monitor only keeps the frames not yet accounted for, so the state graph   *)
(* stays small although histories are long.                                  *)
EXTENDS Integers, Sequences, FiniteSets, TLC, Json

CONSTANTS Max,          \* SetMaxMessageSize
          Ops,          \* message types the peer uses: subset of {"text","binary"}
          CtlOps,       \* control frames the peer interleaves: subset of {"ping","pong"}
          Lens,         \* payload lengths of data frames
          CtlLens,      \* payload lengths of control frames
          MaxMsgs, MaxFrags, MaxCtl, MaxFrames, MaxInFlight,
          Apis,         \* subset of {"NF","NM"}: frame-level / message-level read API
          Viols,        \* violation classes the peer may inject (at most one per history)
          VLens,        \* payload lengths used for violating frames
          PairConf,     \* TRUE: two conforming frames may be in flight together (FALSE: the second
                        \* frame in flight is the violating one or the one right after it)
          MaxHist,      \* generation: forced Finish (0 = none)
          BUG_CtlResetsCont,   \* model mutation: a control frame between fragments clears `continuation`
          BUG_ConsumeShort     \* model mutation: the lazy consume forgets the extended length bytes

VARIABLES
  \* peer / transport
  wire,     \* cells sent and not yet read by the transport
  fl,       \* frame records whose cells are in wire/buf (oldest first)
  nfid, pmsgs, pfrags, psum, pctl, pviol, pafter, pfin,
  \* reader
  api, pc, buf, ri, dreset, dlen, state, pend,
  cont, mtype, mtoks, rb, lasterr,
  \* monitor
  mmax, mapi, pre, q, mode, vcls, nd, hasv, refF, refM, bad,
  hist, done

peervars == <<wire, fl, nfid, pmsgs, pfrags, psum, pctl, pviol, pafter, pfin>>
readvars == <<api, pc, buf, ri, dreset, dlen, state, pend, cont, mtype, mtoks, rb, lasterr>>
monvars  == <<mmax, mapi, pre, q, mode, vcls, nd, hasv, refF, refM, bad>>
vars     == <<peervars, readvars, monvars, hist, done>>

Mon == INSTANCE WsReadMon

\* ---------------------------------------------------------------- events
E0 == [ev |-> "", api |-> "", fid |-> 0, op |-> "", fin |-> 0, len |-> 0, mk |-> 0, viol |-> "",
       n |-> 0, tok |-> 0, toks |-> <<>>, ok |-> 0, err |-> "", code |-> 0, wr |-> 0, k |-> 0]

\* the history keeps a compact form of each event (what the driver needs to
\* rebuild the scenario and the model's predicted deliveries)
Compact(e) ==
  CASE e.ev = "Sent"   -> <<"S", e.fid, e.op, e.fin, e.len, e.mk, e.viol>>
    [] e.ev = "Chunk"  -> <<"C", e.k>>
    [] e.ev = "Frame"  -> <<"F", e.op, e.fin, e.len, e.tok, e.err>>
    [] e.ev = "Msg"    -> <<"M", e.op, e.n, e.toks, e.err>>
    [] e.ev = "Ctl"    -> <<"L", e.op, e.len, e.tok>>
    [] e.ev = "Post"   -> <<"P", e.code, e.wr>>
    [] e.ev = "EndRun" -> <<"E">>
    [] e.ev = "Begin"  -> <<"B", e.n>>
    [] e.ev = "Run"    -> <<"R", e.api>>

Emit(e) == Mon!Obs(e) /\ hist' = Append(hist, Compact(e))

\* ---------------------------------------------------------------- cells
ExtBytes(l) == IF l > 65535 THEN 8 ELSE IF l > 125 THEN 2 ELSE 0
Pieces(n) == IF n = 0 THEN <<>> ELSE IF n = 1 THEN <<1>> ELSE IF n = 2 THEN <<1, 1>> ELSE <<1, n - 2, 1>>
Sizes(fr) == <<1, 1>> \o Pieces(ExtBytes(fr.len)) \o Pieces(4 * fr.mk) \o Pieces(fr.len)
Cells(fr) == LET s == Sizes(fr) IN [k \in 1..Len(s) |-> [f |-> fr.fid, w |-> s[k]]]

RECURSIVE Weight(_)
Weight(s) == IF s = <<>> THEN 0 ELSE s[1].w + Weight(Tail(s))

\* remove n bytes from the front (cells are never split: n falls on a boundary
\* unless the model is mutated; then the straddled cell goes as a whole)
RECURSIVE DropBytes(_, _)
DropBytes(s, n) == IF n <= 0 \/ s = <<>> THEN s ELSE DropBytes(Tail(s), n - s[1].w)

\* ---------------------------------------------------------------- peer
Frame(fid, op, fin, len, mk, viol) == [fid |-> fid, op |-> op, fin |-> fin, len |-> len, mk |-> mk, viol |-> viol]

InMsg == pfrags > 0

\* conforming data frame shapes <<op, fin>> in the current context
ConfShapes ==
  IF InMsg THEN {<<"cont", f>> : f \in (IF pfrags >= MaxFrags - 1 THEN {1} ELSE {0, 1})}
  ELSE IF pmsgs < MaxMsgs THEN {<<o, f>> : o \in Ops, f \in (IF MaxFrags > 1 THEN {0, 1} ELSE {1})}
  ELSE {}
\* conforming choices <<op, fin, len>>
ConfData == {<<sh[1], sh[2], l>> : sh \in ConfShapes, l \in {x \in Lens : psum + x <= Max}}
ConfCtl == IF pctl < MaxCtl THEN {<<o, 1, l>> : o \in CtlOps, l \in CtlLens} ELSE {}

VData == {<<sh[1], sh[2], l>> : sh \in ConfShapes, l \in {x \in VLens : psum + x <= Max}}
VCtl  == {<<o, 1, l>> : o \in CtlOps, l \in (CtlLens \cap VLens)}

\* violating choices: <<op, fin, len, mk, viol>>
ViolChoices ==
  (IF "rsv" \in Viols THEN {<<c[1], c[2], c[3], 0, "rsv">> : c \in VData \cup VCtl} ELSE {})
  \cup (IF "masked" \in Viols THEN {<<c[1], c[2], c[3], 1, "masked">> : c \in VData \cup VCtl} ELSE {})
  \cup (IF "resop" \in Viols THEN {<<o, 1, l, 0, "resop">> : o \in {"res3", "resB"}, l \in (VLens \cap CtlLens)} ELSE {})
  \cup (IF "fragctl" \in Viols THEN {<<o, 0, l, 0, "fragctl">> : o \in CtlOps, l \in (VLens \cap CtlLens)} ELSE {})
  \cup (IF "bigctl" \in Viols THEN {<<o, 1, 126, 0, "bigctl">> : o \in CtlOps} ELSE {})
  \cup (IF "contnostart" \in Viols /\ ~InMsg THEN {<<"cont", f, l, 0, "contnostart">> : f \in {0, 1}, l \in VLens} ELSE {})
  \cup (IF "newdata" \in Viols /\ InMsg THEN {<<o, f, l, 0, "newdata">> : o \in Ops, f \in {0, 1}, l \in VLens} ELSE {})
  \cup (IF "frame-over-max" \in Viols THEN {<<c[1], c[2], Max + 1, 0, "frame-over-max">> : c \in VData} ELSE {})
  \cup (IF "msg-over-max" \in Viols /\ InMsg
          THEN {<<"cont", f, l, 0, "msg-over-max">> : f \in {0, 1}, l \in {x \in Lens : psum + x > Max}} ELSE {})

CanSend == /\ pc = "needread" /\ ~pfin /\ nfid < MaxFrames
           /\ Len(fl) < MaxInFlight + (IF dreset THEN 1 ELSE 0)
           /\ (pviol => pafter = 0)

SendFrame(fr) ==
  /\ wire' = wire \o Cells(fr)
  /\ fl' = Append(fl, fr)
  /\ nfid' = nfid + 1
  /\ Emit([E0 EXCEPT !.ev = "Sent", !.fid = fr.fid, !.op = fr.op, !.fin = fr.fin, !.len = fr.len,
                     !.mk = fr.mk, !.viol = fr.viol])
  /\ UNCHANGED <<readvars, pfin>>

PeerConf ==
  /\ CanSend
  /\ (PairConf \/ pviol \/ Len(fl) = (IF dreset THEN 1 ELSE 0))
  /\ \E c \in ConfData \cup ConfCtl :
       /\ SendFrame(Frame(nfid + 1, c[1], c[2], c[3], 0, ""))
       /\ IF c[1] \in {"ping", "pong"}
            THEN /\ pctl' = pctl + 1 /\ UNCHANGED <<pmsgs, pfrags, psum>>
            ELSE /\ pctl' = pctl
                 /\ pmsgs' = IF InMsg THEN pmsgs ELSE pmsgs + 1
                 /\ pfrags' = IF c[2] = 1 THEN 0 ELSE pfrags + 1
                 /\ psum' = IF c[2] = 1 THEN 0 ELSE psum + c[3]
       /\ pafter' = IF pviol THEN pafter + 1 ELSE pafter
       /\ UNCHANGED pviol

PeerViol ==
  /\ CanSend /\ ~pviol
  /\ \E c \in ViolChoices :
       /\ SendFrame(Frame(nfid + 1, c[1], c[2], c[3], c[4], c[5]))
       /\ pviol' = TRUE
       /\ UNCHANGED <<pmsgs, pfrags, psum, pctl, pafter>>

\* the peer stops (the transport reports end of stream after the last byte)
PeerFin ==
  /\ pc = "needread" /\ ~pfin /\ (~InMsg \/ pviol)
  /\ pfin' = TRUE
  /\ UNCHANGED <<wire, fl, nfid, pmsgs, pfrags, psum, pctl, pviol, pafter, readvars, monvars, hist>>

\* ---------------------------------------------------------------- reader
CanRead == state \in {"active", "closedByUs"}

\* a read API is called at top level: flush pending frames, check canRead
Call ==
  /\ pc = "idle"
  /\ pend' = <<>>
  /\ IF CanRead THEN pc' = "decode" /\ lasterr' = lasterr
                ELSE pc' = "err" /\ lasterr' = "eof"
  /\ IF api = "NM" THEN cont' = FALSE /\ mtype' = "none" /\ mtoks' = <<>> /\ rb' = 0
                   ELSE UNCHANGED <<cont, mtype, mtoks, rb>>
  /\ UNCHANGED <<peervars, api, buf, ri, dreset, dlen, state, monvars, hist>>

Max2(a, b) == IF a > b THEN a ELSE b

\* FrameCodec.Decode on buffer b0 with read area r0 (after resetDecode)
DecodeOutcome(b0, r0) ==
  LET w == Weight(b0) IN
  IF w < 2 THEN [kind |-> "need", ri |-> r0]
  ELSE
    LET fr == fl[IF dreset THEN 2 ELSE 1]
        n1 == 2
        n2 == n1 + ExtBytes(fr.len)
        n3 == n2 + 4 * fr.mk
        n4 == n3 + fr.len
    IN
    IF w < n2 THEN [kind |-> "need", ri |-> Max2(r0, n1)]
    ELSE IF fr.len > Max THEN [kind |-> "toobig", ri |-> Max2(r0, n2)]
    ELSE IF w < n3 THEN [kind |-> "need", ri |-> Max2(r0, n2)]
    ELSE IF w < n4 THEN [kind |-> "need", ri |-> Max2(r0, n3)]
    ELSE [kind |-> "frame", ri |-> Max2(r0, n4), fr |-> fr, n |-> n4]

\* verifyFrame + handleControlFrame + handleDataFrame (client role)
FrameError(fr) ==
  IF fr.viol = "rsv" THEN "proto:rsv"
  ELSE IF fr.mk = 1 THEN "proto:masked"
  ELSE IF fr.op \in {"ping", "pong"} THEN
       IF fr.fin = 0 THEN "proto:badctl"
       ELSE IF fr.len > 125 THEN "proto:ctlbig"
       ELSE "nil"
  ELSE IF fr.op \in {"res3", "resB"} THEN "proto:resop"
  ELSE "nil"

FrameEv(fr, err) ==
  [E0 EXCEPT !.ev = "Frame", !.op = fr.op, !.fin = fr.fin, !.len = fr.len,
             !.tok = IF fr.len > 0 THEN fr.fid ELSE 0, !.ok = 1, !.err = err]

MsgEv(err, type, n, toks) ==
  [E0 EXCEPT !.ev = "Msg", !.op = type, !.n = n, !.toks = toks, !.ok = 1, !.err = err]

Decode ==
  /\ pc = "decode"
  /\ LET skip == IF dreset THEN (IF BUG_ConsumeShort THEN dlen - ExtBytes(fl[1].len) ELSE dlen) ELSE 0
         b0 == DropBytes(buf, skip)
         r0 == ri - skip
         fl0 == IF dreset THEN Tail(fl) ELSE fl
         o  == DecodeOutcome(b0, r0)
     IN
     /\ buf' = b0 /\ ri' = o.ri /\ fl' = fl0
     /\ UNCHANGED <<wire, nfid, pmsgs, pfrags, psum, pctl, pviol, pafter, pfin, api>>
     /\ CASE o.kind = "need" ->
               /\ pc' = "needread" /\ dreset' = FALSE /\ dlen' = 0
               /\ UNCHANGED <<state, pend, cont, mtype, mtoks, rb, lasterr, monvars, hist>>
          [] o.kind = "toobig" ->
               /\ pc' = "err" /\ lasterr' = "toobig" /\ dreset' = FALSE /\ dlen' = 0
               /\ UNCHANGED <<state, pend, cont, mtype, mtoks, rb, monvars, hist>>
          [] o.kind = "frame" ->
               LET fr == o.fr
                   fe == FrameError(fr)
               IN
               /\ dreset' = TRUE /\ dlen' = o.n
               /\ IF fe # "nil" THEN
                     \* handleFrame: closed by us, Close(1002) queued
                     /\ state' = "closedByUs" /\ pend' = Append(pend, 1002)
                     /\ pc' = "err" /\ lasterr' = fe
                     /\ UNCHANGED <<cont, mtype, mtoks, rb, monvars, hist>>
                  ELSE IF api = "NF" THEN
                     /\ pend' = IF fr.op = "ping" /\ state = "active" THEN Append(pend, 0) ELSE pend
                     /\ pc' = "idle"
                     /\ Emit(FrameEv(fr, "nil"))
                     /\ UNCHANGED <<state, cont, mtype, mtoks, rb, lasterr>>
                  ELSE IF fr.op \in {"ping", "pong"} THEN
                     \* control callback, then NextFrame again (which flushes the pong)
                     /\ pend' = <<>>
                     /\ pc' = "decode"
                     /\ cont' = IF BUG_CtlResetsCont THEN FALSE ELSE cont
                     /\ Emit([E0 EXCEPT !.ev = "Ctl", !.op = fr.op, !.len = fr.len,
                                        !.tok = IF fr.len > 0 THEN fr.fid ELSE 0, !.ok = 1])
                     /\ UNCHANGED <<state, mtype, mtoks, rb, lasterr>>
                  ELSE
                     LET mt  == IF mtype = "none" THEN fr.op ELSE mtype
                         tk  == IF fr.len > 0 THEN Append(mtoks, fr.fid) ELSE mtoks
                         nrb == rb + fr.len
                         ce  == IF ~cont THEN (IF fr.op = "cont" THEN "proto:unexpcont" ELSE "nil")
                                ELSE (IF fr.op # "cont" THEN "proto:expcont" ELSE "nil")
                     IN
                     /\ mtype' = mt /\ mtoks' = tk /\ rb' = nrb
                     /\ IF nrb > Max THEN
                           \* Close(1001, "payload too big") queued and flushed
                           /\ state' = IF state = "active" THEN "closedByUs" ELSE state
                           /\ pend' = <<>>
                           /\ pc' = "post" /\ lasterr' = "toobig" /\ cont' = cont
                           /\ Emit(MsgEv("toobig", mt, nrb, tk))
                        ELSE IF ce # "nil" THEN
                           /\ pc' = "post" /\ lasterr' = ce /\ cont' = (fr.fin = 0)
                           /\ Emit(MsgEv(ce, mt, nrb, tk))
                           /\ UNCHANGED <<state, pend>>
                        ELSE IF fr.fin = 1 THEN
                           /\ pc' = "idle" /\ cont' = FALSE
                           /\ Emit(MsgEv("nil", mt, nrb, tk))
                           /\ UNCHANGED <<state, pend, lasterr>>
                        ELSE
                           /\ pc' = "decode" /\ cont' = TRUE /\ pend' = <<>>
                           /\ UNCHANGED <<state, lasterr, monvars, hist>>

\* the transport hands over the next k cells (ErrNeedMore -> ReadFrom / AsyncReadFrom)
Read ==
  /\ pc = "needread" /\ wire # <<>>
  /\ \E k \in 1..Len(wire) :
       /\ buf' = buf \o SubSeq(wire, 1, k)
       /\ wire' = SubSeq(wire, k + 1, Len(wire))
       /\ Emit([E0 EXCEPT !.ev = "Chunk", !.k = k])
  /\ pc' = "decode"
  /\ UNCHANGED <<fl, nfid, pmsgs, pfrags, psum, pctl, pviol, pafter, pfin,
                 api, ri, dreset, dlen, state, pend, cont, mtype, mtoks, rb, lasterr>>

\* end of stream: nextFrame turns io.EOF into StateTerminated (+ a 1006 close frame)
ReadEof ==
  /\ pc = "needread" /\ wire = <<>> /\ pfin
  /\ state' = "terminated" /\ pc' = "err" /\ lasterr' = "eof"
  /\ UNCHANGED <<peervars, api, buf, ri, dreset, dlen, pend, cont, mtype, mtoks, rb, monvars, hist>>

\* the error return of the API call (frame API, or message API passing on NextFrame's error)
ErrReturn ==
  /\ pc = "err"
  /\ pc' = IF lasterr = "eof" THEN "end" ELSE "post"
  /\ Emit(IF api = "NF" THEN [E0 EXCEPT !.ev = "Frame", !.err = lasterr]
                        ELSE MsgEv(lasterr, mtype, rb, mtoks))
  /\ UNCHANGED <<peervars, api, buf, ri, dreset, dlen, state, pend, cont, mtype, mtoks, rb, lasterr>>

\* after an error: flush, look at the wire, try an application write
Post ==
  /\ pc = "post" /\ pc' = "end"
  /\ Emit([E0 EXCEPT !.ev = "Post",
                     !.code = IF 1002 \in {pend[k] : k \in DOMAIN pend} THEN 1002
                              ELSE IF lasterr = "toobig" /\ api = "NM" /\ rb > Max THEN 1001 ELSE 0,
                     !.wr = IF state = "active" THEN 1 ELSE 0])
  /\ pend' = <<>>
  /\ UNCHANGED <<peervars, api, buf, ri, dreset, dlen, state, cont, mtype, mtoks, rb, lasterr>>

EndRun ==
  /\ pc = "end" /\ pc' = "done"
  /\ Emit([E0 EXCEPT !.ev = "EndRun"])
  /\ UNCHANGED <<peervars, api, buf, ri, dreset, dlen, state, pend, cont, mtype, mtoks, rb, lasterr>>

Step == /\ UNCHANGED done
        /\ \/ PeerConf \/ PeerViol \/ PeerFin
           \/ Call \/ Decode \/ Read \/ ReadEof \/ ErrReturn \/ Post \/ EndRun

Finish == /\ ~done /\ done' = TRUE /\ UNCHANGED <<peervars, readvars, monvars, hist>>

Next == IF bad # "" \/ pc = "done" \/ (MaxHist > 0 /\ Len(hist) >= MaxHist)
          THEN MaxHist > 0 /\ Finish
          ELSE Step

Init ==
  /\ wire = <<>> /\ fl = <<>> /\ nfid = 0 /\ pmsgs = 0 /\ pfrags = 0 /\ psum = 0 /\ pctl = 0
  /\ pviol = FALSE /\ pafter = 0 /\ pfin = FALSE
  /\ api \in Apis /\ pc = "idle" /\ buf = <<>> /\ ri = 0 /\ dreset = FALSE /\ dlen = 0
  /\ state = "active" /\ pend = <<>> /\ cont = FALSE /\ mtype = "none" /\ mtoks = <<>> /\ rb = 0
  /\ lasterr = ""
  /\ mmax = Max /\ mapi = api /\ pre = <<>> /\ q = <<>> /\ mode = "run" /\ vcls = "" /\ nd = 0 /\ hasv = FALSE
  /\ refF = Mon!NoRef /\ refM = Mon!NoRef /\ bad = ""
  /\ hist = << <<"B", Max>>, <<"R", api>> >>
  /\ done = FALSE

Spec == Init /\ [][Next]_vars

\* ---------------------------------------------------------------- properties
NotBad == bad = ""

\* structural invariants of the read buffer
TypeOK ==
  /\ 0 <= ri /\ ri <= Weight(buf)
  /\ (dreset => dlen <= ri /\ dlen > 0)
  \* the buffer starts at a frame boundary: its first cell is the first cell of the oldest frame in flight
  /\ (buf # <<>> => buf[1].f = fl[1].fid)
  /\ Len(fl) <= MaxInFlight + 1

\* no byte is lost or duplicated between the wire and the buffer
CellsOK ==
  LET all == buf \o wire
      RECURSIVE Exp(_)
      Exp(s) == IF s = <<>> THEN <<>> ELSE Cells(s[1]) \o Exp(Tail(s))
  IN all = Exp(fl)

\* ---------------------------------------------------------------- generation
View == <<peervars, readvars, monvars>>

\* transition cover restricted to the transitions that carry a choice of the
\* environment the driver can reproduce: every transport read (state x chunk)
\* and every completed run; a history that stops short is completed by the
\* driver (rest of the wire in one chunk, message in progress finished).
EmitEdge == /\ ((pc' = "done" \/ (Len(hist') > Len(hist) /\ hist'[Len(hist')][1] = "C"))
                  => PrintT(<<"EDGE", ToJson(hist')>>))
            /\ (bad' # "" => PrintT(<<"EDGE", ToJson(hist')>>) /\ PrintT(<<"MODELBAD", bad', ToJson(hist')>>))

EmitLeaf == done => PrintT(<<"EDGE", ToJson(hist)>>)
=============================================================================
