-------------------------------- MODULE ListImpl --------------------------------
(* Implementation-shaped model of util/list.go: a heap of nodes (value, next), *)
(* the head pointer and the count `n`, every method transcribed with its       *)
(* pointer walk.  Composed with ListMon.                                       *)
EXTENDS Integers, Sequences, FiniteSets, TLC, Json

CONSTANTS K,         \* values 0..K-1
          Lmax,      \* Add is generated while the list is shorter than Lmax
          MaxHist,
          BUG_RemoveValueStuck   \* TRUE: RemoveValue as in the code before the fix - the loop
                                 \* never advances `cur`, so it only terminates when the list is
                                 \* empty or the head holds the value

Nodes == 1..(Lmax + 1)     \* node addresses; 0 = nil

VARIABLES val, nxt,          \* heap: val[p], nxt[p] for p \in Nodes
          hd, cnt,           \* List.head, List.n
          lst, lbad,         \* monitor
          hist, done

implvars == <<val, nxt, hd, cnt>>
lmonvars == <<lst, lbad>>
vars == <<implvars, lmonvars, hist, done>>

Mon == INSTANCE ListMon

RECURSIVE Reach(_)
Reach(p) == IF p = 0 THEN {} ELSE {p} \cup Reach(nxt[p])

\* allocation: the lowest address not reachable from head (garbage is reused)
Fresh == CHOOSE p \in Nodes : p \notin Reach(hd) /\ \A q \in Nodes : q < p => q \in Reach(hd)

RECURSIVE Last(_)
Last(p) == IF nxt[p] = 0 THEN p ELSE Last(nxt[p])

RECURSIVE Walk(_, _)
Walk(p, k) == IF k = 0 THEN p ELSE Walk(nxt[p], k - 1)      \* k times p = p.next

RECURSIVE Contents(_)
Contents(p) == IF p = 0 THEN <<>> ELSE <<val[p]>> \o Contents(nxt[p])

RECURSIVE Find(_, _, _)
\* <<prev, cur>> of the first node holding v, <<_, 0>> if none
Find(prev, cur, v) == IF cur = 0 THEN <<prev, 0>>
                      ELSE IF val[cur] = v THEN <<prev, cur>> ELSE Find(cur, nxt[cur], v)

Ev(name, a, ret, ok, vals, sz, pan, hang) ==
  [ev |-> name, a |-> a, ret |-> ret, ok |-> ok, vals |-> vals, n |-> sz, pan |-> pan, hang |-> hang]

Emit(e) == Mon!LObs(e) /\ hist' = Append(hist, e)

Init == /\ val = [p \in Nodes |-> 0] /\ nxt = [p \in Nodes |-> 0] /\ hd = 0 /\ cnt = 0
        /\ lst = <<>> /\ lbad = ""
        /\ hist = <<Ev("New", 0, 0, 0, <<>>, 0, 0, 0)>> /\ done = FALSE

Add(v) ==
  LET p == Fresh IN
  /\ val' = [val EXCEPT ![p] = v]
  /\ IF hd = 0 THEN hd' = p /\ nxt' = [nxt EXCEPT ![p] = 0]
               ELSE hd' = hd /\ nxt' = [nxt EXCEPT ![p] = 0, ![Last(hd)] = p]
  /\ cnt' = cnt + 1
  /\ Emit(Ev("Add", v, 0, 0, <<>>, cnt + 1, 0, 0))

At(ix) ==
  /\ UNCHANGED implvars
  /\ IF ix >= cnt THEN Emit(Ev("At", ix, 0, 0, <<>>, cnt, 2, 0))
     ELSE Emit(Ev("At", ix, val[Walk(hd, ix)], 0, <<>>, cnt, 0, 0))

Exists(v) ==
  /\ UNCHANGED implvars
  /\ Emit(Ev("Exists", v, 0, IF Find(0, hd, v)[2] # 0 THEN 1 ELSE 0, <<>>, cnt, 0, 0))

Unlink(prev, cur) ==
  /\ IF prev = 0 THEN hd' = nxt[cur] /\ UNCHANGED nxt
                 ELSE nxt' = [nxt EXCEPT ![prev] = nxt[cur]] /\ UNCHANGED hd
  /\ cnt' = cnt - 1
  /\ UNCHANGED val

RemoveValue(v) ==
  IF BUG_RemoveValueStuck THEN
     IF hd = 0 THEN UNCHANGED implvars /\ Emit(Ev("RemoveValue", v, 0, 0, <<>>, cnt, 0, 0))
     ELSE IF val[hd] = v THEN Unlink(0, hd) /\ Emit(Ev("RemoveValue", v, 0, 1, <<>>, cnt - 1, 0, 0))
     ELSE UNCHANGED implvars /\ Emit(Ev("RemoveValue", v, 0, 0, <<>>, cnt, 0, 1))     \* spins for ever
  ELSE
     LET f == Find(0, hd, v) IN
     IF f[2] = 0 THEN UNCHANGED implvars /\ Emit(Ev("RemoveValue", v, 0, 0, <<>>, cnt, 0, 0))
     ELSE Unlink(f[1], f[2]) /\ Emit(Ev("RemoveValue", v, 0, 1, <<>>, cnt - 1, 0, 0))

RemoveIndex(ix) ==
  IF ix >= cnt THEN UNCHANGED implvars /\ Emit(Ev("RemoveIndex", ix, 0, 0, <<>>, cnt, 2, 0))
  ELSE LET prev == IF ix = 0 THEN 0 ELSE Walk(hd, ix - 1)
           cur  == Walk(hd, ix)
       IN Unlink(prev, cur) /\ Emit(Ev("RemoveIndex", ix, val[cur], 0, <<>>, cnt - 1, 0, 0))

Size == UNCHANGED implvars /\ Emit(Ev("Size", 0, cnt, 0, <<>>, cnt, 0, 0))

Iterate == UNCHANGED implvars /\ Emit(Ev("Iterate", 0, 0, 0, Contents(hd), cnt, 0, 0))

IterMod ==
  /\ val' = [p \in Nodes |-> IF p \in Reach(hd) THEN (val[p] + 1) % K ELSE val[p]]
  /\ UNCHANGED <<nxt, hd, cnt>>
  /\ Emit(Ev("IterMod", K, 0, 0, Contents(hd), cnt, 0, 0))

Step ==
  /\ UNCHANGED done
  /\ \/ \E v \in 0..(K - 1) : (cnt < Lmax /\ Add(v)) \/ Exists(v) \/ RemoveValue(v)
     \/ \E ix \in 0..Lmax : At(ix) \/ RemoveIndex(ix)
     \/ Size \/ Iterate \/ IterMod

Finish == /\ ~done /\ done' = TRUE /\ UNCHANGED <<implvars, lmonvars, hist>>

Next ==
  IF lbad # "" \/ (MaxHist > 0 /\ Len(hist) >= MaxHist)
    THEN MaxHist > 0 /\ Finish
    ELSE Step

Spec == Init /\ [][Next]_vars

NotBad == lbad = ""

\* representation invariant: the chain from head is acyclic, has cnt nodes and
\* spells the monitor's sequence
Repr == lbad = "" => (Contents(hd) = lst /\ Cardinality(Reach(hd)) = cnt /\ Len(lst) = cnt)

\* the heap is abstracted to what is reachable
View == <<Contents(hd), cnt, lst, lbad>>
EmitEdge == /\ PrintT(<<"EDGE", ToJson(hist')>>)
            /\ (lbad' # "" => PrintT(<<"MODELBAD", lbad', ToJson(hist')>>))
EmitLeaf == done => PrintT(<<"EDGE", ToJson(hist)>>)
=============================================================================
