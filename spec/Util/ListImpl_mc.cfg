SPECIFICATION Spec
CONSTANTS
  K = 3
  Lmax = 4
  MaxHist = 0
  BUG_RemoveValueStuck = FALSE
INVARIANTS Repr
VIEW View
ACTION_CONSTRAINT EmitEdge
CHECK_DEADLOCK FALSE
