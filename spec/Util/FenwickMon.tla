------------------------------ MODULE FenwickMon ------------------------------
(* Monitor for util.FenwickTree (serves no listed property; extra).           *)
(* Reading: a FenwickTree of size n is an array a[0..n-1] of integers, all 0  *)
(* after New/Reset, a = xs after NewFenwickTreeFrom(xs); Add(i, d) adds d to  *)
(* a[i]; the queries return sums over a:                                      *)
(*   SumUntil(i) = a[0] + .. + a[i]   (0 for i = -1)                          *)
(*   SumFrom(i)  = a[i] + .. + a[n-1]    Sum() = a[0] + .. + a[n-1]           *)
(*   SumRange(l, r) = a[l] + .. + a[r]   At(i) = a[i]                         *)
(*   Clear(i) returns a[i] and sets it to 0;  Size() = n.                     *)
(* Events: [ev, a, b, ret, n, xs, pan]; indices outside 0..n-1 are not part   *)
(* of the reading (Add at index n.. is observed to be ignored; the monitor    *)
(* accepts that or a panic).  Rule keys FEN/<rule>.                           *)
EXTENDS Integers, Sequences, FiniteSets

VARIABLES arr,   \* the array, a function 0..n-1 -> Int
          fbad

fmonvars == <<arr, fbad>>

FMonInit == arr = <<>> /\ fbad = ""

N == Len(arr)               \* arr is kept as a sequence: a[i] is arr[i+1]

RECURSIVE SumTo(_, _)
SumTo(s, k) == IF k <= 0 THEN 0 ELSE s[k] + SumTo(s, k - 1)    \* s[1] + .. + s[k]

FFail(key) == fbad' = key /\ UNCHANGED arr

Expect(e, v, key) == IF e.ret = v THEN UNCHANGED fmonvars ELSE FFail(key)

InRange(i) == i >= 0 /\ i < N

FObs(e) ==
  IF e.ev = "New" THEN
       /\ arr' = [k \in 1..e.n |-> 0] /\ fbad' = IF e.pan # 0 THEN "FEN/panic/New" ELSE ""
  ELSE IF e.ev = "From" THEN
       /\ arr' = e.xs /\ fbad' = IF e.pan # 0 THEN "FEN/panic/From" ELSE ""
  ELSE IF e.ev = "Add" THEN
       IF InRange(e.a) THEN
            IF e.pan # 0 THEN FFail("FEN/panic/Add")
            ELSE arr' = [arr EXCEPT ![e.a + 1] = @ + e.b] /\ UNCHANGED fbad
       ELSE UNCHANGED fmonvars                   \* outside the reading: ignored or panics
  ELSE IF e.pan # 0 THEN
       (IF e.ev \in {"Sum", "Size", "Reset"} \/ (InRange(e.a) /\ (e.ev # "SumRange" \/ InRange(e.b)))
           \/ (e.ev = "SumUntil" /\ e.a = -1)
        THEN FFail("FEN/panic/" \o e.ev) ELSE UNCHANGED fmonvars)
  ELSE IF e.ev = "SumUntil" THEN
       (IF InRange(e.a) \/ e.a = -1 THEN Expect(e, SumTo(arr, e.a + 1), "FEN/sum-until") ELSE UNCHANGED fmonvars)
  ELSE IF e.ev = "SumFrom" THEN
       (IF InRange(e.a) THEN Expect(e, SumTo(arr, N) - SumTo(arr, e.a), "FEN/sum-from") ELSE UNCHANGED fmonvars)
  ELSE IF e.ev = "Sum" THEN Expect(e, SumTo(arr, N), "FEN/sum")
  ELSE IF e.ev = "SumRange" THEN
       (IF InRange(e.a) /\ InRange(e.b) /\ e.a <= e.b
          THEN Expect(e, SumTo(arr, e.b + 1) - SumTo(arr, e.a), "FEN/sum-range") ELSE UNCHANGED fmonvars)
  ELSE IF e.ev = "At" THEN
       (IF InRange(e.a) THEN Expect(e, arr[e.a + 1], "FEN/at") ELSE UNCHANGED fmonvars)
  ELSE IF e.ev = "Clear" THEN
       (IF InRange(e.a) THEN
           IF e.ret # arr[e.a + 1] THEN FFail("FEN/clear") 
           ELSE arr' = [arr EXCEPT ![e.a + 1] = 0] /\ UNCHANGED fbad
        ELSE UNCHANGED fmonvars)
  ELSE IF e.ev = "Reset" THEN arr' = [k \in 1..N |-> 0] /\ UNCHANGED fbad
  ELSE IF e.ev = "Size" THEN Expect(e, N, "FEN/size")
  ELSE FFail("FEN/harness/unknown-event")

FNotBad == fbad = ""
=============================================================================
