------------------------------ MODULE FenwickImpl ------------------------------
(* Implementation-shaped model of util/fenwick_tree.go: the `data` slice and   *)
(* the index walks i | (i+1) (update) and (i & (i+1)) - 1 (query), with the    *)
(* O(n) construction of NewFenwickTreeFrom.  Composed with FenwickMon.         *)
EXTENDS Integers, Sequences, FiniteSets, TLC, Json, Bitwise

CONSTANTS Nmax,      \* sizes 1..Nmax (chosen by the first step)
          Dneg, Dpos,  \* deltas for Add range over -Dneg..Dpos without 0
          Vmax,      \* generation bound: entries of the logical array stay within -Vmax..Vmax
          MaxHist

VARIABLES data,              \* the slice, as a sequence: data[i] is data[i+1] here
          arr, fbad,         \* monitor
          hist, done

implvars == <<data>>
fmonvars == <<arr, fbad>>
vars == <<data, arr, fbad, hist, done>>

Mon == INSTANCE FenwickMon

Deltas == ((0 - Dneg)..Dpos) \ {0}

n == Len(data)

RECURSIVE AddWalk(_, _, _)
AddWalk(d, i, delta) ==
  IF i < Len(d) THEN AddWalk([d EXCEPT ![i + 1] = @ + delta], i | (i + 1), delta) ELSE d

RECURSIVE SumUntil(_, _)
SumUntil(d, i) == IF i >= 0 THEN d[i + 1] + SumUntil(d, (i & (i + 1)) - 1) ELSE 0

SumRange(d, l, r) == SumUntil(d, r) - SumUntil(d, l - 1)

RECURSIVE BuildFrom(_, _, _)
BuildFrom(d, xs, i) ==
  IF i >= Len(xs) THEN d
  ELSE LET d1 == [d EXCEPT ![i + 1] = @ + xs[i + 1]]
           after == i | (i + 1)
           d2 == IF after < Len(xs) THEN [d1 EXCEPT ![after + 1] = @ + d1[i + 1]] ELSE d1
       IN BuildFrom(d2, xs, i + 1)

Ev(name, a, b, ret, sz, xs) == [ev |-> name, a |-> a, b |-> b, ret |-> ret, n |-> sz, xs |-> xs, pan |-> 0]

Emit(e) == Mon!FObs(e) /\ hist' = Append(hist, e)

Init == /\ data = <<>> /\ arr = <<>> /\ fbad = "" /\ hist = <<>> /\ done = FALSE

New(k) == /\ hist = <<>>
          /\ data' = [j \in 1..k |-> 0]
          /\ Emit(Ev("New", 0, 0, 0, k, <<>>))

From(xs) == /\ hist = <<>>
            /\ data' = BuildFrom([j \in 1..Len(xs) |-> 0], xs, 0)
            /\ Emit(Ev("From", 0, 0, 0, Len(xs), xs))

Add(i, delta) == /\ data' = AddWalk(data, i, delta)
                 /\ Emit(Ev("Add", i, delta, 0, 0, <<>>))

Query ==
  /\ UNCHANGED data
  /\ \/ \E i \in -1..(n - 1) : Emit(Ev("SumUntil", i, 0, SumUntil(data, i), 0, <<>>))
     \/ \E i \in 0..(n - 1) : Emit(Ev("SumFrom", i, 0, SumUntil(data, n - 1) - SumUntil(data, i - 1), 0, <<>>))
     \/ Emit(Ev("Sum", 0, 0, SumUntil(data, n - 1), 0, <<>>))
     \/ \E l \in 0..(n - 1) : \E r \in l..(n - 1) : Emit(Ev("SumRange", l, r, SumRange(data, l, r), 0, <<>>))
     \/ \E i \in 0..(n - 1) : Emit(Ev("At", i, 0, SumRange(data, i, i), 0, <<>>))
     \/ Emit(Ev("Size", 0, 0, n, 0, <<>>))

Clear(i) == LET v == SumRange(data, i, i) IN
            /\ data' = AddWalk(data, i, 0 - v)
            /\ Emit(Ev("Clear", i, 0, v, 0, <<>>))

Reset == /\ data' = [j \in 1..n |-> 0]
         /\ Emit(Ev("Reset", 0, 0, 0, 0, <<>>))

Step ==
  /\ UNCHANGED done
  /\ IF hist = <<>> THEN
        \/ \E k \in 1..Nmax : New(k)
        \/ \E k \in 1..Nmax : \E xs \in [1..k -> Deltas] : From(xs)
     ELSE
        \/ \E i \in 0..n : \E dl \in Deltas : Add(i, dl)      \* i = n: ignored by the code
        \/ Query
        \/ \E i \in 0..(n - 1) : Clear(i)
        \/ Reset

Finish == /\ ~done /\ done' = TRUE /\ UNCHANGED <<data, arr, fbad, hist>>

Next ==
  IF fbad # "" \/ (MaxHist > 0 /\ Len(hist) >= MaxHist)
    THEN MaxHist > 0 /\ Finish
    ELSE Step

Spec == Init /\ [][Next]_vars

NotBad == fbad = ""

\* the representation invariant: data[i] = sum of arr over (i & (i+1)) .. i
Repr == fbad = "" =>
  /\ Len(data) = Len(arr)
  /\ \A i \in 0..(n - 1) : data[i + 1] = Mon!SumTo(arr, i + 1) - Mon!SumTo(arr, i & (i + 1))

Bounded == \A k \in DOMAIN arr : arr[k] >= 0 - Vmax /\ arr[k] <= Vmax

View == <<data, arr, fbad>>
EmitEdge == /\ PrintT(<<"EDGE", ToJson(hist')>>)
            /\ (fbad' # "" => PrintT(<<"MODELBAD", fbad', ToJson(hist')>>))
EmitLeaf == done => PrintT(<<"EDGE", ToJson(hist)>>)
=============================================================================
