-------------------------------- MODULE ListMon --------------------------------
(* Monitor for util.List[T] (serves no listed property; extra).               *)
(* Reading: a List is a finite sequence; Add appends; At(i)/RemoveIndex(i)    *)
(* address the i-th element (0-based) and panic with ErrOutOfBounds for       *)
(* i >= Size(); Exists(v) tells whether v occurs; RemoveValue(v) removes the  *)
(* first occurrence of v and tells whether there was one; Iterate visits the  *)
(* elements in order and may update them in place; Size() is the length.      *)
(* Every call returns.                                                        *)
(* Events: [ev, a, ret, ok, vals, n, pan, hang]: a = value or index (or the   *)
(* modulus for IterMod), ret = value returned, ok = boolean returned (0/1),   *)
(* vals = values visited by Iterate, n = Size() sampled after the call,       *)
(* pan = 0 none / 1 some panic / 2 panic(ErrOutOfBounds), hang = 1 if the     *)
(* call did not return.  Rule keys LIST/<rule>.                               *)
EXTENDS Integers, Sequences, FiniteSets

VARIABLES lst, lbad

lmonvars == <<lst, lbad>>

LMonInit == lst = <<>> /\ lbad = ""

LFail(key) == lbad' = key /\ UNCHANGED lst

Elems == {lst[k] : k \in DOMAIN lst}

FirstIx(v) == CHOOSE k \in DOMAIN lst : lst[k] = v /\ \A j \in 1..(k - 1) : lst[j] # v

Without(k) == SubSeq(lst, 1, k - 1) \o SubSeq(lst, k + 1, Len(lst))

B(x) == IF x THEN 1 ELSE 0

LObs(e) ==
  IF e.ev = "New" THEN lst' = <<>> /\ lbad' = (IF e.n # 0 THEN "LIST/size" ELSE "")
  ELSE IF e.hang # 0 THEN LFail("LIST/hang/" \o e.ev)
  ELSE IF e.ev = "Add" THEN
       IF e.pan # 0 THEN LFail("LIST/panic/Add")
       ELSE IF e.n # Len(lst) + 1 THEN LFail("LIST/size")
       ELSE lst' = Append(lst, e.a) /\ UNCHANGED lbad
  ELSE IF e.ev = "At" THEN
       IF e.a >= Len(lst) THEN (IF e.pan = 2 THEN UNCHANGED lmonvars ELSE LFail("LIST/bounds/At"))
       ELSE IF e.a < 0 THEN UNCHANGED lmonvars
       ELSE IF e.pan # 0 THEN LFail("LIST/panic/At")
       ELSE IF e.ret # lst[e.a + 1] THEN LFail("LIST/at")
       ELSE IF e.n # Len(lst) THEN LFail("LIST/size")
       ELSE UNCHANGED lmonvars
  ELSE IF e.ev = "Exists" THEN
       IF e.pan # 0 THEN LFail("LIST/panic/Exists")
       ELSE IF e.ok # B(e.a \in Elems) THEN LFail("LIST/exists")
       ELSE IF e.n # Len(lst) THEN LFail("LIST/size")
       ELSE UNCHANGED lmonvars
  ELSE IF e.ev = "RemoveValue" THEN
       IF e.pan # 0 THEN LFail("LIST/panic/RemoveValue")
       ELSE IF e.ok # B(e.a \in Elems) THEN LFail("LIST/remove-value/result")
       ELSE IF e.n # Len(lst) - e.ok THEN LFail("LIST/size")
       ELSE /\ lst' = IF e.a \in Elems THEN Without(FirstIx(e.a)) ELSE lst
            /\ UNCHANGED lbad
  ELSE IF e.ev = "RemoveIndex" THEN
       IF e.a >= Len(lst) THEN (IF e.pan = 2 THEN UNCHANGED lmonvars ELSE LFail("LIST/bounds/RemoveIndex"))
       ELSE IF e.a < 0 THEN UNCHANGED lmonvars
       ELSE IF e.pan # 0 THEN LFail("LIST/panic/RemoveIndex")
       ELSE IF e.ret # lst[e.a + 1] THEN LFail("LIST/remove-index")
       ELSE IF e.n # Len(lst) - 1 THEN LFail("LIST/size")
       ELSE lst' = Without(e.a + 1) /\ UNCHANGED lbad
  ELSE IF e.ev = "Size" THEN
       IF e.ret # Len(lst) \/ e.n # Len(lst) THEN LFail("LIST/size") ELSE UNCHANGED lmonvars
  ELSE IF e.ev = "Iterate" THEN
       IF e.pan # 0 THEN LFail("LIST/panic/Iterate")
       ELSE IF e.vals # lst THEN LFail("LIST/iterate")
       ELSE UNCHANGED lmonvars
  ELSE IF e.ev = "IterMod" THEN       \* fn: *v = (*v + 1) % a
       IF e.pan # 0 THEN LFail("LIST/panic/Iterate")
       ELSE IF e.vals # lst THEN LFail("LIST/iterate")
       ELSE lst' = [k \in DOMAIN lst |-> (lst[k] + 1) % e.a] /\ UNCHANGED lbad
  ELSE LFail("LIST/harness/unknown-event")

LNotBad == lbad = ""
=============================================================================
