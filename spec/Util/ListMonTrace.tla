---------------------------- MODULE ListMonTrace ----------------------------
EXTENDS ListMon, Json, IOUtils, TLC

Trace == ndJsonDeserialize(IOEnv.TRACE)

VARIABLES l, skip

TraceInit == LMonInit /\ l = 1 /\ skip = FALSE

TraceNext ==
  /\ l <= Len(Trace)
  /\ l' = l + 1
  /\ LET e == Trace[l] IN
     IF e.ev # "New" /\ skip THEN UNCHANGED lmonvars /\ skip' = TRUE
     ELSE /\ LObs(e)
          /\ skip' = (lbad' # "")
          /\ (lbad' # "" => PrintT(<<"BAD", e.sid, e.i, lbad'>>))

TraceSpec == TraceInit /\ [][TraceNext]_<<lmonvars, l, skip>>
TraceAccepted == TLCGet("stats").diameter = Len(Trace) + 1
=============================================================================
