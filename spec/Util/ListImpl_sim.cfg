SPECIFICATION Spec
CONSTANTS
  K = 3
  Lmax = 4
  MaxHist = 30
  BUG_RemoveValueStuck = FALSE
INVARIANTS Repr
CONSTRAINT EmitLeaf
CHECK_DEADLOCK FALSE
