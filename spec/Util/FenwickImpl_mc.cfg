SPECIFICATION Spec
CONSTANTS
  Nmax = 4
  Dneg = 1
  Dpos = 2
  Vmax = 2
  MaxHist = 0
INVARIANTS NotBad Repr
CONSTRAINT Bounded
VIEW View
ACTION_CONSTRAINT EmitEdge
CHECK_DEADLOCK FALSE
