------------------------- MODULE ByteBufferMonTrace -------------------------
(* Validates ndjson traces recorded from the real sonic.ByteBuffer against    *)
(* ByteBufferMon.  Scenarios are concatenated; each starts with "New".  A     *)
(* rejection prints the rule key and skips the rest of that scenario.         *)
EXTENDS ByteBufferMon, Json, IOUtils, TLC

Trace == ndJsonDeserialize(IOEnv.TRACE)

VARIABLES l, skip

TraceInit == MonInit /\ l = 1 /\ skip = FALSE

TraceNext ==
  /\ l <= Len(Trace)
  /\ l' = l + 1
  /\ LET e == Trace[l] IN
     IF e.ev = "New" THEN /\ ObsNew(e)
                          /\ skip' = (bad' # "")
                          /\ (bad' # "" => PrintT(<<"BAD", e.sid, e.i, bad'>>))
     ELSE IF skip THEN UNCHANGED monvars /\ skip' = TRUE
     ELSE /\ Obs(e)
          /\ skip' = (bad' # "")
          /\ (bad' # "" => PrintT(<<"BAD", e.sid, e.i, bad'>>))

TraceSpec == TraceInit /\ [][TraceNext]_<<monvars, l, skip>>

TraceAccepted == TLCGet("stats").diameter = Len(Trace) + 1
=============================================================================
