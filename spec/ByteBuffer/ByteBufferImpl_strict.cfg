SPECIFICATION Spec
CONSTANTS
  K = 1
  Cap0 = 0
  MaxW = 3
  MaxCap = 16
  MaxHist = 0
  ArbOn = TRUE
  BUG_CommitOvf = FALSE
  BUG_ClaimOvf = FALSE
  BUG_ReserveMin = FALSE
  BUG_DiscardOOB = FALSE
  BUG_ReadEOF = FALSE
  BUG_PrepareReadMin = FALSE
  BUG_Prefault = FALSE
  KNOWN_ReserveHuge = TRUE
INVARIANTS NotBadButKnown TypeOK Agree Ordered
VIEW View

CHECK_DEADLOCK FALSE
