---------------------------- MODULE ByteBufferImpl ----------------------------
(* Implementation-shaped model of byte_buffer.go (+ slot.go): the indices     *)
(* si, ri, wi, the capacity and the backing array as a sequence of tokens,    *)
(* every public method with the memmoves and clamps the Go code performs,     *)
(* append growth as the Go runtime does it (nextslicecap + malloc size        *)
(* classes), and the caller's bookkeeping of the slots it holds (OffsetSlot). *)
(* All lengths are real bytes; one token stands for K bytes, so K = 200 with  *)
(* Cap0 = 512 reallocates after the third token.  Integer arguments are       *)
(* classes that the Go driver maps to concrete ints the same way (ArgVal).    *)
(* Every action feeds the observation it predicts to ByteBufferMon.           *)
(*                                                                            *)
(* Repaired defects stay in the model behind BUG_* switches (TRUE = the code  *)
(* as it was); KNOWN_ReserveHuge models Reserve(math.MaxInt) = makeslice      *)
(* panic, which is a recorded finding.                                        *)
EXTENDS Integers, Sequences, FiniteSets, TLC, Json

CONSTANTS K,          \* real bytes per token
          Cap0,       \* capacity of the fresh buffer: 512 (NewByteBuffer) or 0 (zero value)
          MaxW,       \* tokens ever written in one history
          MaxCap,     \* Reserve may not grow the capacity beyond this (keeps the model finite)
          MaxHist,    \* generation: history length bound (0 = none)
          ArbOn,      \* TRUE: arbitrary {Index, Length} discards are part of the model
          BUG_CommitOvf, BUG_ClaimOvf, BUG_ReserveMin, BUG_DiscardOOB,
          BUG_ReadEOF, BUG_PrepareReadMin, BUG_Prefault,
          KNOWN_ReserveHuge

VARIABLES si, ri, wi, cap, data,   \* ByteBuffer fields; data = tokens of data[0:wi]
          nxt,                     \* tokens produced so far (generator position)
          slots,                   \* slots the caller holds: Seq([idx, len]), real bytes, kept adjusted
          mk, saved, readable, pendingW, mslots, mres, bad,   \* monitor
          hist, done

implvars == <<si, ri, wi, cap, data, nxt, slots>>
monvars  == <<mk, saved, readable, pendingW, mslots, mres, bad>>
vars     == <<implvars, monvars, hist, done>>

Mon == INSTANCE ByteBufferMon

BIG == Mon!BIG
Min(a, b) == IF a < b THEN a ELSE b
Max(a, b) == IF a > b THEN a ELSE b
Clamp(n, hi) == Max(0, Min(n, hi))
Cut(s, a, b) == SubSeq(s, 1, a) \o SubSeq(s, b + 1, Len(s))
T(c) == c \div K

\* ---- Go runtime: growslice for []byte ----
SizeClasses == {0, 8, 16, 24, 32, 48, 64, 80, 96, 112, 128, 144, 160, 176, 192, 208, 224, 240, 256,
                288, 320, 352, 384, 416, 448, 480, 512, 576, 640, 704, 768, 896, 1024, 1152, 1280,
                1408, 1536, 1792, 2048, 2304, 2688, 3072, 3200, 3456, 4096, 4864, 5376, 6144, 6528,
                6784, 6912, 8192, 9472, 9728, 10240, 10880, 12288, 13568, 14336, 16384, 18432,
                19072, 20480, 21760, 24576, 27264, 28672, 32768}
RoundUp(n) == IF n > 32768 THEN ((n + 8191) \div 8192) * 8192
              ELSE CHOOSE c \in SizeClasses : c >= n /\ \A d \in SizeClasses : d >= n => c <= d
RECURSIVE Quarter(_, _)
Quarter(nc, newLen) == LET x == nc + ((nc + 768) \div 4) IN IF x >= newLen THEN x ELSE Quarter(x, newLen)
NextCap(newLen, old) == IF newLen > 2 * old THEN newLen
                        ELSE IF old < 256 THEN 2 * old ELSE Quarter(old, newLen)
Grow(old, newLen) == RoundUp(NextCap(newLen, old))
\* append of m bytes to a slice of length w
AppendCap(c, w, m) == IF w + m > c THEN Grow(c, w + m) ELSE c
\* m single-byte appends: every time the length reaches the capacity the next
\* byte grows it for capacity + 1
RECURSIVE GrowTo(_, _)
GrowTo(c, target) == IF target <= c THEN c ELSE LET g == Grow(c, c + 1) IN GrowTo(g, target)
ByteWise(c, w, m) == GrowTo(c, w + m)

\* ---- events ----
E0 == [ev |-> "", k |-> K, zero |-> 0, cls |-> "", n |-> 0,
       sel |-> 0, icls |-> "", lcls |-> "", idx |-> 0, len |-> 0,
       script |-> "", toks |-> <<>>, ret |-> 0, err |-> "", out |-> <<>>, ridx |-> 0, rlen |-> 0,
       shown |-> <<>>, acc |-> <<>>, errs |-> <<>>, cb |-> 0, plen |-> 0,
       panic |-> 0, opanic |-> 0,
       saved |-> <<>>, data |-> <<>>, wr |-> <<>>, wrok |-> 1, tiles |-> <<>>,
       savelen |-> 0, readlen |-> 0, writelen |-> 0, blen |-> 0, cap |-> 0, reserved |-> 0]

WithObs(r, nsi, nri, nwi, ncap, nd, nsl) ==
  [r EXCEPT !.saved = SubSeq(nd, 1, T(nsi)), !.data = SubSeq(nd, T(nsi) + 1, T(nri)),
            !.wr = SubSeq(nd, T(nri) + 1, T(nwi)),
            !.tiles = [j \in 1..Len(nsl) |-> SubSeq(nd, T(nsl[j].idx) + 1, T(nsl[j].idx + nsl[j].len))],
            !.savelen = nsi, !.readlen = nri - nsi, !.writelen = nwi - nri, !.blen = nwi,
            !.cap = ncap, !.reserved = ncap - nwi]

\* what the history keeps of an event: what the driver needs to issue the call
\* plus the predicted results (compared step by step during replay)
Slim(e) == [ev |-> e.ev, k |-> e.k, zero |-> e.zero, cls |-> e.cls, n |-> e.n, sel |-> e.sel,
            icls |-> e.icls, lcls |-> e.lcls, script |-> e.script, ret |-> e.ret, err |-> e.err,
            saved |-> e.saved, data |-> e.data, wr |-> e.wr, cap |-> e.cap, panic |-> e.panic + e.opanic]

Emit(e) == Mon!Obs(e) /\ hist' = Append(hist, Slim(e))

\* the call completes: new field values + the observation after it
Do(r, nsi, nri, nwi, ncap, nd, nsl, nn) ==
  /\ si' = nsi /\ ri' = nri /\ wi' = nwi /\ cap' = ncap /\ data' = nd /\ slots' = nsl /\ nxt' = nn
  /\ Emit(WithObs(r, nsi, nri, nwi, ncap, nd, nsl))

Keep(r) == Do(r, si, ri, wi, cap, data, slots, nxt)

\* the call panics (p = 1) or leaves indices on which the getters panic (p = 0)
Blow(r, p) == /\ UNCHANGED implvars
              /\ Emit([r EXCEPT !.panic = p, !.opanic = 1 - p])

ArgVal(cls, avail) ==
  CASE cls = "NEG" -> -1 [] cls = "ZERO" -> 0 [] cls = "ONE" -> K [] cls = "TWO" -> 2 * K
    [] cls = "AVAIL" -> avail [] cls = "AVAIL1" -> avail + 1
    [] cls = "HUGE" -> BIG [] cls = "MINHUGE" -> -BIG
NField(cls, v) == IF cls \in {"HUGE", "MINHUGE"} THEN 0 ELSE v
Call(name, cls, v) == [E0 EXCEPT !.ev = name, !.cls = cls, !.n = NField(cls, v)]

Fresh(m) == [j \in 1..m |-> nxt + j]
Room == cap - wi

Init ==
  /\ si = 0 /\ ri = 0 /\ wi = 0 /\ cap = Cap0 /\ data = <<>> /\ nxt = 0 /\ slots = <<>>
  /\ mk = K /\ saved = <<>> /\ readable = <<>> /\ pendingW = <<>> /\ mslots = <<>> /\ mres = Cap0 /\ bad = ""
  /\ hist = << Slim([E0 EXCEPT !.ev = "New", !.zero = IF Cap0 = 0 THEN 1 ELSE 0, !.cap = Cap0, !.reserved = Cap0]) >>
  /\ done = FALSE

\* ---- Write family ----
Write(name, m) ==
  /\ nxt + m <= MaxW
  /\ LET nc == IF name = "WriteByte" THEN ByteWise(cap, wi, m * K) ELSE AppendCap(cap, wi, m * K)
         r == [Call(name, IF m = 1 THEN "ONE" ELSE "TWO", m * K) EXCEPT
                 !.toks = Fresh(m), !.ret = m * K, !.err = "nil"] IN
     Do(r, si, ri, wi + m * K, nc, data \o Fresh(m), slots, nxt + m)

Reserve(cls) ==
  LET n == CASE cls = "RES" -> Room [] cls = "RES1" -> Room + 1 [] cls = "GROW" -> Room + 2 * K
             [] OTHER -> ArgVal(cls, Room)
      need == n - Room
      r == Call("Reserve", cls, n) IN
  IF cls = "HUGE" THEN (IF KNOWN_ReserveHuge THEN Blow(r, 1) ELSE Keep(r))
  ELSE IF cls = "MINHUGE" THEN (IF BUG_ReserveMin /\ Room >= 1 THEN Blow(r, 1) ELSE Keep(r))
  ELSE IF need > 0 THEN /\ Grow(cap, cap + need) <= MaxCap
                        /\ Do(r, si, ri, wi, Grow(cap, cap + need), data, slots, nxt)
  ELSE Keep(r)

Commit(cls) ==
  LET n == ArgVal(cls, wi - ri)
      c == Clamp(n, wi - ri)
      r == Call("Commit", cls, n) IN
  IF BUG_CommitOvf /\ cls = "HUGE" /\ ri >= 1 THEN Blow(r, 0)     \* ri + MaxInt wraps negative
  ELSE Do(r, si, ri + c, wi, cap, data, slots, nxt)

Consume(cls) ==
  LET n == ArgVal(cls, ri - si)
      c == Clamp(n, ri - si) IN
  Do(Call("Consume", cls, n), si, ri - c, wi - c, cap, Cut(data, T(si), T(si + c)), slots, nxt)

Save(cls) ==
  LET n == ArgVal(cls, ri - si)
      c == Clamp(n, ri - si)
      r == Call("Save", cls, n) IN
  IF c = 0 THEN Keep(r)
  ELSE Do([r EXCEPT !.ridx = si, !.rlen = c], si + c, ri, wi, cap, data,
          Append(slots, [idx |-> si, len |-> c]), nxt)

\* the caller discards the j-th slot it holds and offsets the later ones
Discard(j) ==
  LET s == slots[j]
      r == [E0 EXCEPT !.ev = "Discard", !.sel = j, !.idx = s.idx, !.len = s.len, !.ret = s.len]
      rest == [q \in 1..(Len(slots) - 1) |->
                 IF q < j THEN slots[q] ELSE [idx |-> slots[q + 1].idx - s.len, len |-> slots[q + 1].len]] IN
  Do(r, si - s.len, ri - s.len, wi - s.len, cap, Cut(data, T(s.idx), T(s.idx + s.len)), rest, nxt)

IdxVal(c) == CASE c = "NEG" -> -K [] c = "ZERO" -> 0 [] c = "ONE" -> K [] c = "SI" -> si
               [] c = "SI1" -> si + K [] c = "HUGE" -> BIG [] c = "MINHUGE" -> -BIG
LenVal(c) == CASE c = "NEG" -> -1 [] c = "ZERO" -> 0 [] c = "ONE" -> K [] c = "SI" -> si
               [] c = "SI1" -> si + K [] c = "HUGE" -> BIG [] c = "MINHUGE" -> -BIG
WholeSlot(nsi) == IF nsi > 0 THEN <<[idx |-> 0, len |-> nsi]>> ELSE <<>>

DiscardArb(ic, lc) ==
  LET ix == IdxVal(ic)
      ln == LenVal(lc)
      r == [E0 EXCEPT !.ev = "Discard", !.icls = ic, !.lcls = lc, !.idx = NField(ic, ix), !.len = NField(lc, ln)]
      inside == ix >= 0 /\ ln <= si - ix IN
  IF ln <= 0 THEN Do(r, si, ri, wi, cap, data, WholeSlot(si), nxt)
  ELSE IF inside THEN
     Do([r EXCEPT !.ret = ln], si - ln, ri - ln, wi - ln, cap, Cut(data, T(ix), T(ix + ln)), WholeSlot(si - ln), nxt)
  ELSE IF ~BUG_DiscardOOB THEN Do(r, si, ri, wi, cap, data, WholeSlot(si), nxt)    \* repaired: ignored
  ELSE IF ix < 0 \/ ix > wi \/ ln >= BIG \/ ix + ln > wi THEN Blow(r, 1)            \* slice bounds
  ELSE IF si - ln < 0 THEN Blow(r, 0)                                               \* si negative
  ELSE Do([r EXCEPT !.ret = ln], si - ln, ri - ln, wi - ln, cap, Cut(data, T(ix), T(ix + ln)), WholeSlot(si - ln), nxt)

DiscardAll ==
  Do([E0 EXCEPT !.ev = "DiscardAll"], 0, ri - si, wi - si, cap, Cut(data, 0, T(si)), <<>>, nxt)

Reset == Do([E0 EXCEPT !.ev = "Reset"], 0, 0, 0, cap, <<>>, <<>>, nxt)

Prefault ==
  Do([E0 EXCEPT !.ev = "Prefault"], si, ri, wi, cap,
     IF BUG_Prefault THEN [j \in 1..Len(data) |-> 0] ELSE data, slots, nxt)

\* ---- readers ----
Read(cls) ==
  LET n == ArgVal(cls, ri - si)
      c == Clamp(n, ri - si)
      r == Call("Read", cls, n) IN
  IF n = 0 THEN Keep([r EXCEPT !.err = "nil"])
  ELSE IF (IF BUG_ReadEOF THEN ri = 0 ELSE ri = si) THEN Keep([r EXCEPT !.err = "eof"])
  ELSE Do([r EXCEPT !.err = "nil", !.ret = c, !.out = SubSeq(data, T(si) + 1, T(si + c))],
          si, ri - c, wi - c, cap, Cut(data, T(si), T(si + c)), slots, nxt)

ReadByte ==
  LET r == [E0 EXCEPT !.ev = "ReadByte"] IN
  IF ri > si THEN Do([r EXCEPT !.err = "nil", !.ret = K, !.out = <<data[T(si) + 1]>>],
                     si, ri - K, wi - K, cap, Cut(data, T(si), T(si) + 1), slots, nxt)
  ELSE IF BUG_ReadEOF /\ ri > 0 THEN Keep([r EXCEPT !.err = "nil", !.ret = K, !.out = <<-1>>])   \* stale byte, no error
  ELSE Keep([r EXCEPT !.err = "eof"])

UnreadByte ==
  LET r == [E0 EXCEPT !.ev = "UnreadByte"] IN
  IF wi > ri THEN Do([r EXCEPT !.err = "nil", !.ret = K], si, ri, wi - K, cap, SubSeq(data, 1, Len(data) - 1), slots, nxt)
  ELSE Keep([r EXCEPT !.err = "eof"])

\* reader scripts: how many tokens it delivers into the room it is offered, and its error
RScripts == {"one", "fill", "zero", "eof", "dataeof", "err"}
ARScripts == {"one", "dataeof", "err"}
RTok(s) == CASE s \in {"one", "dataeof"} -> Min(1, T(Room)) [] s = "fill" -> T(Room) [] OTHER -> 0
RErr(s) == CASE s \in {"eof", "dataeof"} -> "eof" [] s = "err" -> "other" [] OTHER -> "nil"

ReadFrom(name, s) ==
  LET m == RTok(s)
      r == [E0 EXCEPT !.ev = name, !.script = s, !.toks = Fresh(m), !.ret = m * K, !.err = RErr(s),
                      !.plen = Room, !.cb = IF name = "AsyncReadFrom" THEN 1 ELSE 0] IN
  /\ nxt + m <= MaxW
  /\ IF RErr(s) = "nil" THEN Do(r, si, ri, wi + m * K, cap, data \o Fresh(m), slots, nxt + m)
     ELSE Do(r, si, ri, wi, cap, data, slots, nxt + m)

\* writer scripts
WScripts == {"all", "one", "err0", "oneerr", "onethenerr"}
Rd == SubSeq(data, T(si) + 1, T(ri))
WriteTo(s) ==
  LET R == Rd
      rl == ri - si
      nR == Len(R)
      r == [E0 EXCEPT !.ev = "WriteTo", !.script = s]
      fin(rr, c) == Do(rr, si, ri - c, wi - c, cap, Cut(data, T(si), T(si + c)), slots, nxt) IN
  IF nR = 0 THEN Keep([r EXCEPT !.err = "nil"])
  ELSE CASE s = "all" -> fin([r EXCEPT !.shown = <<R>>, !.acc = <<rl>>, !.errs = <<0>>, !.ret = rl, !.err = "nil"], rl)
         [] s = "one" -> fin([r EXCEPT !.shown = [j \in 1..nR |-> SubSeq(R, j, nR)], !.acc = [j \in 1..nR |-> K],
                                       !.errs = [j \in 1..nR |-> 0], !.ret = rl, !.err = "nil"], rl)
         [] s = "err0" -> fin([r EXCEPT !.shown = <<R>>, !.acc = <<0>>, !.errs = <<1>>, !.ret = 0, !.err = "other"], 0)
         [] s = "oneerr" -> fin([r EXCEPT !.shown = <<R>>, !.acc = <<K>>, !.errs = <<1>>, !.ret = 0, !.err = "other"], 0)
         [] s = "onethenerr" ->
              IF nR = 1 THEN fin([r EXCEPT !.shown = <<R>>, !.acc = <<K>>, !.errs = <<0>>, !.ret = K, !.err = "nil"], K)
              ELSE fin([r EXCEPT !.shown = <<R, Tail(R)>>, !.acc = <<K, 0>>, !.errs = <<0, 1>>, !.ret = K, !.err = "other"], K)

AWScripts == {"all", "short", "err", "parterr"}
AsyncWriteTo(s) ==
  LET R == Rd
      rl == ri - si
      n == CASE s = "all" -> rl [] s \in {"short", "parterr"} -> Min(K, rl) [] OTHER -> 0
      er == IF s \in {"err", "parterr"} THEN "other" ELSE "nil"
      c == IF er = "nil" THEN n ELSE 0
      r == [E0 EXCEPT !.ev = "AsyncWriteTo", !.script = s, !.shown = <<R>>, !.acc = <<n>>,
                      !.errs = <<IF er = "nil" THEN 0 ELSE 1>>, !.cb = 1, !.ret = n, !.err = er] IN
  Do(r, si, ri - c, wi - c, cap, Cut(data, T(si), T(si + c)), slots, nxt)

PrepareRead(cls) ==
  LET rl == ri - si
      wl == wi - ri
      n == CASE cls = "RL" -> rl [] cls = "RL1" -> rl + K [] OTHER -> ArgVal(cls, rl + wl)
      need == n - rl
      r == Call("PrepareRead", cls, n) IN
  IF cls = "MINHUGE" /\ BUG_PrepareReadMin /\ rl >= 1 THEN Keep([r EXCEPT !.err = "needmore"])  \* MinInt - rl wraps positive
  ELSE IF need <= 0 THEN Keep([r EXCEPT !.err = "nil"])
  ELSE IF wl >= need THEN Do([r EXCEPT !.err = "nil"], si, ri + need, wi, cap, data, slots, nxt)
  ELSE Keep([r EXCEPT !.err = "needmore"])

\* ---- claims ----
ClaimVal(cls) == CASE cls = "RES" -> K * T(Room) [] cls = "RES1" -> Room + 1 [] OTHER -> ArgVal(cls, Room)

Claim(cls) ==
  LET n == ClaimVal(cls)
      fits == n >= 0 /\ n <= Room
      m == IF fits THEN T(n) ELSE 0
      r == [Call("Claim", cls, n) EXCEPT !.plen = Room, !.toks = Fresh(m)] IN
  /\ nxt + m <= MaxW
  /\ IF BUG_ClaimOvf /\ cls = "HUGE" /\ wi >= 1 THEN Blow(r, 1)    \* wi + MaxInt wraps negative, passes the test
     ELSE IF fits THEN Do(r, si, ri, wi + n, cap, data \o Fresh(m), slots, nxt + m)
     ELSE Keep(r)

ClaimFixed(cls) ==
  LET n == ClaimVal(cls)
      fits == n >= 0 /\ n <= Room
      m == IF fits THEN T(n) ELSE 0
      r == [Call("ClaimFixed", cls, n) EXCEPT !.toks = Fresh(m), !.ret = IF fits THEN n ELSE 0] IN
  /\ nxt + m <= MaxW
  /\ IF BUG_ClaimOvf /\ cls = "HUGE" /\ wi >= 1 THEN Blow(r, 1)
     ELSE IF fits THEN Do(r, si, ri, wi + n, cap, data \o Fresh(m), slots, nxt + m)
     ELSE Keep(r)

ShrinkBy(cls) ==
  LET n == ArgVal(cls, wi - ri)
      c == Clamp(n, wi - ri) IN
  Do([Call("ShrinkBy", cls, n) EXCEPT !.ret = c], si, ri, wi - c, cap, SubSeq(data, 1, Len(data) - T(c)), slots, nxt)

ShrinkTo(cls) ==
  LET wl == wi - ri
      n == ArgVal(cls, wl)
      \* ShrinkBy(WriteLen - n); WriteLen - MinInt wraps negative
      c == IF cls = "MINHUGE" THEN 0 ELSE Clamp(wl - n, wl) IN
  Do([Call("ShrinkTo", cls, n) EXCEPT !.ret = c], si, ri, wi - c, cap, SubSeq(data, 1, Len(data) - T(c)), slots, nxt)

Classes == {"NEG", "ZERO", "ONE", "TWO", "AVAIL", "AVAIL1", "HUGE", "MINHUGE"}
ArbIdx == {"NEG", "ZERO", "ONE", "SI", "SI1", "HUGE", "MINHUGE"}
ArbLen == {"NEG", "ZERO", "ONE", "SI", "SI1", "HUGE"}

\* action descriptors <<kind, parameter, parameter>>
Acts ==
  {<<"Write", "Write", 1>>, <<"Write", "Write", 2>>, <<"Write", "WriteString", 1>>, <<"Write", "WriteByte", 1>>}
  \cup {<<"Reserve", c, 0>> : c \in {"NEG", "ZERO", "ONE", "RES", "RES1", "GROW", "HUGE", "MINHUGE"}}
  \cup {<<k, c, 0>> : k \in {"Commit", "Consume", "Save", "ShrinkBy"}, c \in Classes}
  \cup {<<"ShrinkTo", c, 0>> : c \in Classes \ {"TWO"}}
  \cup {<<"DiscardSel", j, 0>> : j \in 1..Len(slots)}
  \cup (IF ArbOn THEN {<<"DiscardArb", ic, lc>> : ic \in ArbIdx, lc \in ArbLen} ELSE {})
  \cup {<<"DiscardAll", 0, 0>>, <<"Reset", 0, 0>>, <<"Prefault", 0, 0>>, <<"ReadByte", 0, 0>>, <<"UnreadByte", 0, 0>>}
  \cup {<<"Read", c, 0>> : c \in {"ZERO", "ONE", "TWO", "AVAIL", "AVAIL1"}}
  \cup {<<"ReadFrom", "ReadFrom", sc>> : sc \in RScripts}
  \cup {<<"ReadFrom", "AsyncReadFrom", sc>> : sc \in ARScripts}
  \cup {<<"WriteTo", sc, 0>> : sc \in WScripts}
  \cup {<<"AsyncWriteTo", sc, 0>> : sc \in AWScripts}
  \cup {<<"PrepareRead", c, 0>> : c \in {"NEG", "ZERO", "ONE", "RL", "RL1", "AVAIL", "AVAIL1", "HUGE", "MINHUGE"}}
  \cup {<<k, c, 0>> : k \in {"Claim", "ClaimFixed"}, c \in {"NEG", "ZERO", "ONE", "TWO", "RES", "RES1", "HUGE"}}

Apply(a) ==
  CASE a[1] = "Write" -> Write(a[2], a[3])
    [] a[1] = "Reserve" -> Reserve(a[2])
    [] a[1] = "Commit" -> Commit(a[2])
    [] a[1] = "Consume" -> Consume(a[2])
    [] a[1] = "Save" -> Save(a[2])
    [] a[1] = "ShrinkBy" -> ShrinkBy(a[2])
    [] a[1] = "ShrinkTo" -> ShrinkTo(a[2])
    [] a[1] = "DiscardSel" -> Discard(a[2])
    [] a[1] = "DiscardArb" -> DiscardArb(a[2], a[3])
    [] a[1] = "DiscardAll" -> DiscardAll
    [] a[1] = "Reset" -> Reset
    [] a[1] = "Prefault" -> Prefault
    [] a[1] = "ReadByte" -> ReadByte
    [] a[1] = "UnreadByte" -> UnreadByte
    [] a[1] = "Read" -> Read(a[2])
    [] a[1] = "ReadFrom" -> ReadFrom(a[2], a[3])
    [] a[1] = "WriteTo" -> WriteTo(a[2])
    [] a[1] = "AsyncWriteTo" -> AsyncWriteTo(a[2])
    [] a[1] = "PrepareRead" -> PrepareRead(a[2])
    [] a[1] = "Claim" -> Claim(a[2])
    [] a[1] = "ClaimFixed" -> ClaimFixed(a[2])

Step == UNCHANGED done /\ \E a \in Acts : Apply(a)

\* ---- random long histories (simulation mode): one weighted random action per step, so
\* that TLC evaluates one successor instead of all of them ----
ClaimTok(cls) == LET n == ClaimVal(cls) IN IF n >= 0 /\ n <= Room THEN T(n) ELSE 0
Guard(a) ==
  CASE a[1] = "Write" -> nxt + a[3] <= MaxW
    [] a[1] = "Reserve" -> LET n == CASE a[2] = "RES1" -> Room + 1 [] a[2] = "GROW" -> Room + 2 * K [] a[2] = "ONE" -> K [] OTHER -> 0
                           IN n <= Room \/ Grow(cap, cap + n - Room) <= MaxCap
    [] a[1] = "ReadFrom" -> nxt + RTok(a[3]) <= MaxW
    [] a[1] \in {"Claim", "ClaimFixed"} -> nxt + ClaimTok(a[2]) <= MaxW
    [] OTHER -> TRUE
Weights == <<"Write", "Write", "Write", "Write", "Claim", "ClaimFixed", "ReadFrom", "Commit", "Commit", "Commit", "Commit",
             "Consume", "Save", "Save", "Save", "DiscardSel", "DiscardSel", "DiscardSel", "DiscardArb", "Read", "ReadByte",
             "WriteTo", "AsyncWriteTo", "PrepareRead", "PrepareRead", "ShrinkBy", "ShrinkTo", "Reserve", "Reserve",
             "UnreadByte", "Prefault", "Any", "Any">>
\* (bound variables, not LET: a LET body would re-evaluate RandomElement at every use)
SimStep ==
  /\ UNCHANGED done
  /\ \E w \in {RandomElement(1..Len(Weights))} :
       LET en == {a \in Acts : Guard(a)}
           ofkind == {a \in en : a[1] = Weights[w]}
       IN \E a \in {RandomElement(IF ofkind = {} THEN en ELSE ofkind)} : Apply(a)

Finish == /\ ~done /\ done' = TRUE /\ UNCHANGED <<implvars, monvars, hist>>

Next ==
  IF bad # "" \/ (MaxHist > 0 /\ Len(hist) >= MaxHist)
    THEN MaxHist > 0 /\ Finish
    ELSE Step

Spec == Init /\ [][Next]_vars

SimNext ==
  IF bad # "" \/ (MaxHist > 0 /\ Len(hist) >= MaxHist)
    THEN MaxHist > 0 /\ Finish
    ELSE SimStep
SimSpec == Init /\ [][SimNext]_vars

\* ---- properties ----
NotBad == bad = ""
\* the only rejection the repaired code still produces is the recorded finding
NotBadButKnown == bad \in {"", "C09/panic/Reserve:HUGE"}

TypeOK ==
  /\ 0 <= si /\ si <= ri /\ ri <= wi /\ wi <= cap
  /\ si % K = 0 /\ ri % K = 0 /\ wi % K = 0
  /\ Len(data) = T(wi) /\ nxt <= MaxW

\* the monitor's regions are the regions of the array; the caller's slots tile the save area
Agree ==
  bad = "" =>
    /\ saved = SubSeq(data, 1, T(si)) /\ readable = SubSeq(data, T(si) + 1, T(ri))
    /\ pendingW = SubSeq(data, T(ri) + 1, T(wi))
    /\ Len(mslots) = Len(slots)
    /\ \A j \in 1..Len(slots) : mslots[j] = SubSeq(data, T(slots[j].idx) + 1, T(slots[j].idx + slots[j].len))
    /\ mres = cap - wi

\* no byte is lost, duplicated or invented: the array holds distinct generator positions in order
Ordered == \A a, b \in 1..Len(data) : a < b => (data[a] < data[b] \/ data[a] = 0)

View == <<implvars, monvars>>

EmitEdge == /\ PrintT(<<"EDGE", ToJson(hist')>>)
            /\ (bad' # "" => PrintT(<<"MODELBAD", bad', ToJson(hist')>>))

EmitLeaf == done => PrintT(<<"EDGE", ToJson(hist)>>)
=============================================================================
