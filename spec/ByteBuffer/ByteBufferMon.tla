---------------------------- MODULE ByteBufferMon ----------------------------
(* Property monitor for C09 (sonic.ByteBuffer = three adjacent FIFO regions). *)
(*                                                                            *)
(* Observes API-level events only: one event per public call with its         *)
(* arguments, its results, whether it panicked, and - sampled right after     *)
(* the call - Saved(), Data(), the write area (peeked by re-slicing Data()    *)
(* up to its capacity, a passive observation), SavedSlot(s) for every slot    *)
(* the caller still holds, all *Len getters, Cap and Reserved.                *)
(*                                                                            *)
(* Bytes are abstracted to tokens by the harness: one token per K real bytes  *)
(* (K = mk, 1 or 200); lengths and integer arguments are real byte counts.    *)
(* Arguments that do not fit TLC's 32-bit integers are classes: cls = "HUGE"  *)
(* (math.MaxInt) / "MINHUGE" (math.MinInt), read here as +-BIG.               *)
(*                                                                            *)
(* The monitor is total: a forbidden observation sets `bad` to a rule key     *)
(*   C09/panic/<Method>:<class>     the call (or the getters after it) panics *)
(*   C09/result/<Method>            wrong return value / error                *)
(*   C09/content/<Method>           a region's bytes differ from the model    *)
(*   C09/uncommitted-visible        Data() shows bytes that were not committed*)
(*   C09/slots/<Method>             a held slot no longer addresses its bytes *)
(*   C09/lengths/<Method>           getters do not add up                     *)
(*   C09/reserve                    Reserved() < n after Reserve(n)           *)
(*   C09/callback/<Method>          async variant: callback not exactly once  *)
(*   C09/harness/...                driver problem (never a code verdict)     *)
(* Where the statement leaves freedom every choice is accepted: negative      *)
(* arguments may be ignored or clamped to 0, slots that are not inside the    *)
(* save area may be ignored or clamped to it, a reader/writer that reports    *)
(* bytes together with an error may or may not have them accounted, Read on   *)
(* an empty read area may report nil or io.EOF, Cap() is unconstrained.       *)
EXTENDS Integers, Sequences, FiniteSets

VARIABLES mk,        \* real bytes per token
          saved,     \* tokens in the save area, oldest first
          readable,  \* tokens in the read area
          pendingW,  \* tokens written but not committed
          mslots,    \* slots the caller holds, in save order: Seq(Seq(token)); their concatenation = saved
          mres,      \* Reserved() as observed after the previous call (real bytes)
          bad

monvars == <<mk, saved, readable, pendingW, mslots, mres, bad>>

BIG == 536870912   \* stands for math.MaxInt (every real length is far below)

MonInit == /\ mk = 1 /\ saved = <<>> /\ readable = <<>> /\ pendingW = <<>>
           /\ mslots = <<>> /\ mres = 0 /\ bad = ""

Min(a, b) == IF a < b THEN a ELSE b
Max(a, b) == IF a > b THEN a ELSE b
Clamp(n, hi) == Max(0, Min(n, hi))

Arg(e) == IF e.cls = "HUGE" THEN BIG ELSE IF e.cls = "MINHUGE" THEN -BIG ELSE e.n
ClsInt(c, v) == IF c = "HUGE" THEN BIG ELSE IF c = "MINHUGE" THEN -BIG ELSE v

Range(s) == {s[j] : j \in DOMAIN s}

RECURSIVE Flat(_)
Flat(ss) == IF ss = <<>> THEN <<>> ELSE ss[1] \o Flat(Tail(ss))

RECURSIVE SumTo(_, _)
SumTo(s, j) == IF j <= 0 THEN 0 ELSE s[j] + SumTo(s, j - 1)

Drop(s, c) == SubSeq(s, c + 1, Len(s))          \* without the first c
Take(s, c) == SubSeq(s, 1, c)
DropLast(s, c) == SubSeq(s, 1, Len(s) - c)
Cut(s, a, b) == SubSeq(s, 1, a) \o SubSeq(s, b + 1, Len(s))   \* without positions a+1..b

RemoveAt(ss, j) == SubSeq(ss, 1, j - 1) \o SubSeq(ss, j + 1, Len(ss))

Whole(s) == IF s = <<>> THEN <<>> ELSE <<s>>

\* real byte lengths of the regions
SL == mk * Len(saved)
RL == mk * Len(readable)
WL == mk * Len(pendingW)

Fail(key) == /\ bad' = key
             /\ UNCHANGED <<mk, saved, readable, pendingW, mslots, mres>>

St(s, r, w, sl) == [s |-> s, r |-> r, w |-> w, sl |-> sl]
Same == St(saved, readable, pendingW, mslots)

PanicKey(e) ==
  "C09/panic/" \o e.ev \o ":" \o
     (IF e.ev = "Discard" THEN (IF e.sel > 0 THEN "saved" ELSE "arbitrary")
      ELSE IF e.script # "" THEN e.script
      ELSE IF e.cls # "" THEN e.cls ELSE "-")

\* Common tail of every observation: `aligned` = the byte counts involved are
\* whole tokens (else the harness produced something it cannot tokenise),
\* `resok` = return values are right, `cands` = the region contents the
\* statement allows after this call.
Conclude(e, aligned, resok, cands) ==
  IF e.panic = 1 \/ e.opanic = 1 THEN Fail(PanicKey(e))
  ELSE IF ~aligned THEN Fail("C09/harness/unaligned")
  ELSE IF ~resok THEN Fail("C09/result/" \o e.ev)
  ELSE
    LET m == {c \in cands : c.s = e.saved /\ c.r = e.data /\ (IF e.wrok = 1 THEN c.w = e.wr ELSE mk * Len(c.w) = e.writelen)} IN
    IF m = {} THEN
       IF \A c \in cands : c.r # e.data /\ \E t \in Range(e.data) : t \in Range(c.w) /\ t \notin Range(c.r)
         THEN Fail("C09/uncommitted-visible")
         ELSE Fail("C09/content/" \o e.ev)
    ELSE
      LET c == CHOOSE x \in m : TRUE IN
      IF e.tiles # c.sl THEN Fail("C09/slots/" \o e.ev)
      ELSE IF \/ e.savelen # mk * Len(c.s) \/ e.readlen # mk * Len(c.r) \/ e.writelen # mk * Len(c.w)
              \/ e.blen # e.savelen + e.readlen + e.writelen
              \/ e.cap < e.blen \/ e.reserved < 0 \/ e.reserved > e.cap - e.blen
        THEN Fail("C09/lengths/" \o e.ev)
      ELSE /\ saved' = c.s /\ readable' = c.r /\ pendingW' = c.w /\ mslots' = c.sl
           /\ mres' = e.reserved
           /\ UNCHANGED <<mk, bad>>

Al(c) == c % mk = 0
T(c) == c \div mk      \* bytes -> tokens

ObsNew(e) ==
  /\ mk' = e.k /\ saved' = <<>> /\ readable' = <<>> /\ pendingW' = <<>> /\ mslots' = <<>>
  /\ mres' = e.reserved
  /\ bad' = IF e.panic = 1 \/ e.opanic = 1 THEN "C09/panic/New:-"
            ELSE IF e.saved # <<>> \/ e.data # <<>> \/ e.wr # <<>> \/ e.savelen # 0 \/ e.readlen # 0
                    \/ e.writelen # 0 \/ e.blen # 0 \/ e.reserved < 0 THEN "C09/lengths/New"
            ELSE ""

\* Write, WriteString, WriteByte: the supplied bytes join the write area
ObsWrite(e) ==
  Conclude(e, TRUE, e.ret = mk * Len(e.toks) /\ e.err = "nil",
           {St(saved, readable, pendingW \o e.toks, mslots)})

ObsReserve(e) ==
  IF e.panic = 0 /\ e.opanic = 0 /\ e.reserved < Arg(e) THEN Fail("C09/reserve")
  ELSE Conclude(e, TRUE, TRUE, {Same})

ObsCommit(e) ==
  LET c == Clamp(Arg(e), WL) IN
  Conclude(e, Al(c), TRUE, {St(saved, readable \o Take(pendingW, T(c)), Drop(pendingW, T(c)), mslots)})

ObsConsume(e) ==
  LET c == Clamp(Arg(e), RL) IN
  Conclude(e, Al(c), TRUE, {St(saved, Drop(readable, T(c)), pendingW, mslots)})

\* Save(n): the first min(n, ReadLen) readable bytes become the newest slot,
\* which must address exactly them: Index = end of the save area before.
ObsSave(e) ==
  LET c == Clamp(Arg(e), RL) IN
  Conclude(e, Al(c),
           IF c = 0 THEN e.rlen = 0 ELSE e.ridx = SL /\ e.rlen = c,
           {St(saved \o Take(readable, T(c)), Drop(readable, T(c)), pendingW,
               IF c = 0 THEN mslots ELSE Append(mslots, Take(readable, T(c))))})

\* Discard(slot).  sel > 0: the caller discards the sel-th slot it holds
\* (index adjusted the way OffsetSlot / SlotOffsetter do).  sel = 0: an
\* arbitrary {Index, Length} pair; if it lies inside the save area it is an
\* ordinary discard, otherwise it may be ignored or clamped; afterwards the
\* caller holds one slot spanning whatever is left of the save area.
ObsDiscard(e) ==
  LET ix == ClsInt(e.icls, e.idx)
      ln == ClsInt(e.lcls, e.len)
  IN
  IF e.sel > 0 THEN
     IF e.sel > Len(mslots) THEN Fail("C09/harness/slot-selection")
     ELSE LET before == mk * Len(Flat(SubSeq(mslots, 1, e.sel - 1)))
              l == mk * Len(mslots[e.sel]) IN
          IF e.panic = 0 /\ (ix # before \/ ln # l) THEN Fail("C09/harness/slot-geometry")
          ELSE Conclude(e, TRUE, e.ret = l,
                        {St(Cut(saved, T(before), T(before + l)), readable, pendingW, RemoveAt(mslots, e.sel))})
  ELSE IF ln <= 0 THEN Conclude(e, TRUE, e.ret = 0, {St(saved, readable, pendingW, Whole(saved))})
  ELSE IF ix >= 0 /\ ix + ln <= SL THEN
       Conclude(e, Al(ix) /\ Al(ln), e.ret = ln,
                {St(Cut(saved, T(ix), T(ix + ln)), readable, pendingW, Whole(Cut(saved, T(ix), T(ix + ln))))})
  ELSE LET a == Clamp(ix, SL)
           b == Clamp(Min(ix, BIG) + Min(ln, BIG), SL)   \* ix + ln without leaving 32 bits
           clamped == IF a < b THEN Cut(saved, T(a), T(b)) ELSE saved IN
       Conclude(e, Al(a) /\ Al(b), TRUE,
                {St(saved, readable, pendingW, Whole(saved)), St(clamped, readable, pendingW, Whole(clamped))})

ObsDiscardAll(e) == Conclude(e, TRUE, TRUE, {St(<<>>, readable, pendingW, <<>>)})

ObsReset(e) == Conclude(e, TRUE, TRUE, {St(<<>>, <<>>, <<>>, <<>>)})

ObsPrefault(e) == Conclude(e, TRUE, TRUE, {Same})

\* Read(dst), len(dst) = n: min(n, ReadLen) bytes are handed out and consumed
ObsRead(e) ==
  LET c == Clamp(Arg(e), RL) IN
  Conclude(e, Al(c),
           /\ e.ret = c /\ e.out = Take(readable, T(c))
           /\ (IF c > 0 THEN e.err = "nil" ELSE e.err \in {"nil", "eof"}),
           {St(saved, Drop(readable, T(c)), pendingW, mslots)})

\* ReadByte (K calls make one event): one token or an error
ObsReadByte(e) ==
  IF Len(readable) > 0
    THEN Conclude(e, TRUE, e.err = "nil" /\ e.out = Take(readable, 1), {St(saved, Drop(readable, 1), pendingW, mslots)})
    ELSE Conclude(e, TRUE, e.err # "nil" /\ e.out = <<>>, {Same})

\* UnreadByte removes the newest uncommitted byte (as documented), else errors
ObsUnreadByte(e) ==
  IF Len(pendingW) > 0
    THEN Conclude(e, TRUE, e.err = "nil", {St(saved, readable, DropLast(pendingW, 1), mslots)})
    ELSE Conclude(e, TRUE, e.err # "nil", {Same})

\* ReadFrom / AsyncReadFrom: the reader put e.toks into the space it was
\* offered and reported (ret, err); on success they join the write area.
ObsReadFrom(e) ==
  LET joined == St(saved, readable, pendingW \o e.toks, mslots) IN
  IF e.ev = "AsyncReadFrom" /\ e.panic = 0 /\ e.cb # 1 THEN Fail("C09/callback/AsyncReadFrom")
  ELSE IF e.err = "nil" THEN Conclude(e, TRUE, e.ret = mk * Len(e.toks), {joined})
  ELSE Conclude(e, TRUE, TRUE, {Same, joined})

\* WriteTo: the writer is called with p = the unwritten rest of the read
\* area; call j accepts acc[j] bytes and fails iff errs[j] = 1 (last call).
ObsWriteTo(e) ==
  LET m == Len(e.shown)
      okcalls == \A j \in 1..m :
                   /\ Al(e.acc[j])
                   /\ e.shown[j] = Drop(readable, T(SumTo(e.acc, j - 1)))
                   /\ (e.errs[j] = 1 => j = m)
      failed == m > 0 /\ e.errs[m] = 1
      full == SumTo(e.acc, m)
      part == IF failed THEN SumTo(e.acc, m - 1) ELSE full
  IN
  IF e.panic = 1 \/ e.opanic = 1 THEN Fail(PanicKey(e))
  ELSE IF ~okcalls THEN Fail("C09/content/WriteTo")    \* the writer saw something else than the unread bytes
  ELSE IF ~failed THEN
       Conclude(e, TRUE, e.err = "nil" /\ e.ret = RL /\ full = RL, {St(saved, <<>>, pendingW, mslots)})
  ELSE Conclude(e, TRUE, e.err # "nil" /\ e.ret \in {part, full} /\ full <= RL,
                {St(saved, Drop(readable, T(e.ret)), pendingW, mslots)})

\* AsyncWriteTo: one AsyncWriteAll(Data()) whose completion (err, n) consumes n on success
ObsAsyncWriteTo(e) ==
  IF e.panic = 1 \/ e.opanic = 1 THEN Fail(PanicKey(e))
  ELSE IF e.cb # 1 THEN Fail("C09/callback/AsyncWriteTo")
  ELSE IF Len(e.shown) # 1 \/ e.shown[1] # readable THEN Fail("C09/content/AsyncWriteTo")
  ELSE IF e.err = "nil" THEN Conclude(e, Al(e.acc[1]), e.ret = e.acc[1], {St(saved, Drop(readable, T(Clamp(e.acc[1], RL))), pendingW, mslots)})
  ELSE Conclude(e, Al(e.acc[1]), TRUE, {Same, St(saved, Drop(readable, T(Clamp(e.acc[1], RL))), pendingW, mslots)})

\* PrepareRead(n): nil iff n bytes can be made readable; commits what is missing
ObsPrepareRead(e) ==
  LET n == Arg(e) IN
  IF n <= RL THEN Conclude(e, TRUE, e.err = "nil", {Same})
  ELSE IF n <= RL + WL THEN
       Conclude(e, Al(n - RL), e.err = "nil",
                {St(saved, readable \o Take(pendingW, T(n - RL)), Drop(pendingW, T(n - RL)), mslots)})
  ELSE Conclude(e, TRUE, e.err = "needmore", {Same})

\* Claim(fn): fn was offered plen bytes, wrote e.toks and returned n
ObsClaim(e) ==
  LET n == Arg(e) IN
  IF n >= 0 /\ n <= e.plen
    THEN Conclude(e, Al(n) /\ mk * Len(e.toks) = n, TRUE, {St(saved, readable, pendingW \o e.toks, mslots)})
    ELSE Conclude(e, TRUE, TRUE, {Same})

\* ClaimFixed(n): must succeed when 0 <= n <= Reserved(); a returned slice has
\* exactly n bytes (the harness fills it with e.toks); nil changes nothing
ObsClaimFixed(e) ==
  LET n == Arg(e) IN
  IF e.ret > 0 \/ (n = 0 /\ e.ret = 0)
    THEN Conclude(e, Al(e.ret) /\ mk * Len(e.toks) = e.ret, e.ret = n,
                  {St(saved, readable, pendingW \o e.toks, mslots)})
    ELSE Conclude(e, TRUE, e.ret = 0 /\ ~(n >= 0 /\ n <= mres), {Same})

ObsShrinkBy(e) ==
  LET c == Clamp(Arg(e), WL) IN
  Conclude(e, Al(c), e.ret = c, {St(saved, readable, DropLast(pendingW, T(c)), mslots)})

\* ShrinkTo(n): the write area keeps min(n, WriteLen) bytes; negative n is
\* ignored or read as 0
ObsShrinkTo(e) ==
  LET n == Arg(e)
      keep == St(saved, readable, pendingW, mslots)
      none == St(saved, readable, <<>>, mslots)
  IN
  IF n >= 0 THEN
     LET c == Max(WL - n, 0) IN
     Conclude(e, Al(c), e.ret = c, {St(saved, readable, DropLast(pendingW, T(c)), mslots)})
  ELSE Conclude(e, TRUE, e.ret \in {0, WL}, IF e.ret = 0 THEN {keep} ELSE {none})

Obs(e) ==
  CASE e.ev = "New"           -> ObsNew(e)
    [] e.ev \in {"Write", "WriteString", "WriteByte"} -> ObsWrite(e)
    [] e.ev = "Reserve"       -> ObsReserve(e)
    [] e.ev = "Commit"        -> ObsCommit(e)
    [] e.ev = "Consume"       -> ObsConsume(e)
    [] e.ev = "Save"          -> ObsSave(e)
    [] e.ev = "Discard"       -> ObsDiscard(e)
    [] e.ev = "DiscardAll"    -> ObsDiscardAll(e)
    [] e.ev = "Reset"         -> ObsReset(e)
    [] e.ev = "Prefault"      -> ObsPrefault(e)
    [] e.ev = "Read"          -> ObsRead(e)
    [] e.ev = "ReadByte"      -> ObsReadByte(e)
    [] e.ev = "UnreadByte"    -> ObsUnreadByte(e)
    [] e.ev \in {"ReadFrom", "AsyncReadFrom"} -> ObsReadFrom(e)
    [] e.ev = "WriteTo"       -> ObsWriteTo(e)
    [] e.ev = "AsyncWriteTo"  -> ObsAsyncWriteTo(e)
    [] e.ev = "PrepareRead"   -> ObsPrepareRead(e)
    [] e.ev = "Claim"         -> ObsClaim(e)
    [] e.ev = "ClaimFixed"    -> ObsClaimFixed(e)
    [] e.ev = "ShrinkBy"      -> ObsShrinkBy(e)
    [] e.ev = "ShrinkTo"      -> ObsShrinkTo(e)
    [] OTHER                  -> Fail("C09/harness/unknown-event")

NotBad == bad = ""
=============================================================================
