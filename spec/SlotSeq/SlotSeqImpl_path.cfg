SPECIFICATION PathSpec
CONSTANTS
  Mode = "seq"
  Seqs = {1, 2, 3, 4, 5, 6}
  Sizes = {1, 2}
  MaxSlots = 4
  MaxBytes = 16
  LiveSizes = {1}
  MaxHist = 0
  ResetOnEmpty = TRUE
  BUG_ResetEarly = FALSE
  BUG_NoVirtual = FALSE
  PathK = 4
  PathM = 2
  PathMul = 1
  PathMod = 7
  PathAll = FALSE
INVARIANTS TypeOK Agree
VIEW ViewP
CONSTRAINT EmitLeaf
CHECK_DEADLOCK FALSE
