------------------------------ MODULE SlotSeqImpl ------------------------------
(* Implementation-shaped model of slot_sequencer.go, sequenced_slots.go,      *)
(* slot_offsetter.go, util/fenwick_tree.go and the save-area part of          *)
(* byte_buffer.go, driven by a caller that follows the documented workflow    *)
(* (Write, Commit, Save, Push ... Pop, SavedSlot, Discard; a Push that does   *)
(* not take the slot is followed by discarding the just-saved tail), also     *)
(* while readable and uncommitted bytes sit behind the save area.             *)
(* Mode "seq": SlotSequencer.  Mode "off": the caller uses a bare             *)
(* SlotOffsetter (Add / Offset) and keeps the handles itself.                 *)
(* The Fenwick tree is the array with the bit tricks of the Go code.          *)
EXTENDS Integers, Sequences, FiniteSets, TLC, Json, Bitwise

CONSTANTS Mode,       \* "seq" or "off"
          Seqs,       \* sequence numbers (handles in mode "off")
          Sizes,      \* packet sizes in tokens
          MaxSlots, MaxBytes,
          LiveSizes,  \* sizes of the readable packet behind the save area
          MaxHist,
          ResetOnEmpty,   \* mode "off": the caller resets the offsetter when it holds no handle (as the sequencer does)
          BUG_ResetEarly, \* offsetter reset when one slot is still stored
          BUG_NoVirtual,  \* Add does not shift the index by the total discarded so far
          \* path-sensitive enumeration (PathSpec): park PathK packets, pop some of them in every order,
          \* park up to PathM more, pop everything; the i-th packet saved carries the number (i * PathMul) % PathMod
          PathK, PathM, PathMul, PathMod,
          PathAll         \* TRUE: every pop order in the second round too; FALSE: any stored number first, then ascending

VARIABLES buf, si, ri,           \* ByteBuffer: tokens of data[0:wi], end of save area, end of read area
          tree,                  \* Fenwick array, size MaxBytes
          sl,                    \* sequencedSlots.slots: Seq([seq, idx, len]) ascending by seq (idx = virtual index)
          bytes,                 \* SlotSequencer.bytes
          tail,                  \* caller: just-saved slot not yet taken by Push: [seq, idx, len, failed] or NoSlot
          pop,                   \* caller: popped slot not yet discarded: [idx, len] or NoSlot
          area, mlive, munc, mcfg, bad,   \* monitor
          ph,                    \* PathSpec only: where the phase-structured caller is (constant in the other specs)
          hist, done

implvars == <<buf, si, ri, tree, sl, bytes, tail, pop>>
monvars  == <<area, mlive, munc, mcfg, bad>>
vars     == <<implvars, monvars, ph, hist, done>>

Mon == INSTANCE SlotSeqMon

N == MaxBytes
NoSlot == [seq |-> 0, idx |-> -1, len |-> 0, failed |-> FALSE]
Min(a, b) == IF a < b THEN a ELSE b
Max(a, b) == IF a > b THEN a ELSE b
Cut(s, a, b) == SubSeq(s, 1, a) \o SubSeq(s, b + 1, Len(s))

\* ---- util.FenwickTree ----
RECURSIVE FAdd(_, _, _)
FAdd(t, i, d) == IF i < N THEN FAdd([t EXCEPT ![i] = @ + d], i | (i + 1), d) ELSE t
RECURSIVE FSumUntil(_, _)
FSumUntil(t, i) == IF i >= 0 THEN t[i] + FSumUntil(t, (i & (i + 1)) - 1) ELSE 0
FSum(t) == FSumUntil(t, N - 1)
Zeros == [i \in 0..(N - 1) |-> 0]

\* ---- tokens: a packet is identified by (sequence number, variant) ----
PktToks(s, n, v) == [j \in 1..n |-> 10 * s + 5 * v + j]
LiveToks(n) == [j \in 1..n |-> 200 + j]
UncToks(n) == [j \in 1..n |-> 210 + j]

E0 == [ev |-> "", mode |-> Mode, roe |-> IF ResetOnEmpty THEN 1 ELSE 0, maxslots |-> MaxSlots, maxbytes |-> MaxBytes, seq |-> 0, v |-> 0, n |-> 0,
       toks |-> <<>>, ok |-> 0, err |-> "", idx |-> 0, len |-> 0, slotbytes |-> <<>>, ret |-> 0, panic |-> 0,
       saved |-> <<>>, data |-> <<>>, wr |-> <<>>, bytes |-> 0, size |-> 0]

WithObs(r, nbuf, nsi, nri, nsl, nbytes) ==
  [r EXCEPT !.saved = SubSeq(nbuf, 1, nsi), !.data = SubSeq(nbuf, nsi + 1, nri), !.wr = SubSeq(nbuf, nri + 1, Len(nbuf)),
            !.bytes = IF Mode = "seq" THEN nbytes ELSE 0, !.size = IF Mode = "seq" THEN Len(nsl) ELSE 0]

Slim(e) == [ev |-> e.ev, mode |-> e.mode, roe |-> e.roe, maxslots |-> e.maxslots, maxbytes |-> e.maxbytes, seq |-> e.seq, v |-> e.v,
            n |-> e.n, ok |-> e.ok, err |-> e.err, idx |-> e.idx, len |-> e.len, ret |-> e.ret,
            saved |-> e.saved, data |-> e.data, wr |-> e.wr, bytes |-> e.bytes, size |-> e.size]

Emit(e) == Mon!Obs(e) /\ hist' = Append(hist, Slim(e))

Do(r, nbuf, nsi, nri, ntree, nsl, nbytes, ntail, npop) ==
  /\ buf' = nbuf /\ si' = nsi /\ ri' = nri /\ tree' = ntree /\ sl' = nsl /\ bytes' = nbytes
  /\ tail' = ntail /\ pop' = npop
  /\ Emit(WithObs(r, nbuf, nsi, nri, nsl, nbytes))

Init ==
  /\ buf = <<>> /\ si = 0 /\ ri = 0 /\ tree = Zeros /\ sl = <<>> /\ bytes = 0 /\ tail = NoSlot /\ pop = NoSlot
  /\ area = <<>> /\ mlive = <<>> /\ munc = <<>>
  /\ mcfg = [mode |-> Mode, maxslots |-> MaxSlots, maxbytes |-> MaxBytes] /\ bad = ""
  /\ hist = << Slim([E0 EXCEPT !.ev = "New"]) >>
  /\ ph = [r |-> 1, parks |-> 0, pops |-> 0, pops2 |-> 0]
  /\ done = FALSE

Idle == tail = NoSlot /\ pop = NoSlot
Behind == Len(buf) > si      \* readable or uncommitted bytes behind the save area

\* Write(packet) Commit Save: the packet becomes the newest slot
Held == {sl[i].seq : i \in 1..Len(sl)}
SaveStep(s, n, v) ==
  /\ Idle /\ ~Behind
  /\ (Mode = "off" => s \notin Held)          \* handles name the slots the caller holds
  /\ Do([E0 EXCEPT !.ev = "Save", !.seq = s, !.v = v, !.n = n, !.toks = PktToks(s, n, v), !.idx = si, !.len = n],
        buf \o PktToks(s, n, v), si + n, si + n, tree, sl, bytes,
        [seq |-> s, idx |-> si, len |-> n, failed |-> FALSE], NoSlot)

\* sequencedSlots.Push: position of the first stored number >= seq
Pos(s) == LET c == {i \in 1..Len(sl) : sl[i].seq >= s} IN IF c = {} THEN Len(sl) + 1 ELSE CHOOSE i \in c : \A k \in c : i <= k
InsertAt(q, i, x) == SubSeq(q, 1, i - 1) \o <<x>> \o SubSeq(q, i, Len(q))

PushStep ==
  /\ tail # NoSlot /\ ~tail.failed
  /\ LET r == [E0 EXCEPT !.ev = "Push", !.seq = tail.seq, !.n = tail.len]
         refuse(err) == Do([r EXCEPT !.ok = 0, !.err = err], buf, si, ri, tree, sl, bytes, [tail EXCEPT !.failed = TRUE], NoSlot)
         vidx == IF BUG_NoVirtual THEN tail.idx ELSE tail.idx + FSum(tree)
         ix == Pos(tail.seq)
         take(nsl) == Do([r EXCEPT !.ok = 1, !.err = "nil"], buf, si, ri, tree, nsl, bytes + tail.len, NoSlot, NoSlot)
         new == [seq |-> tail.seq, idx |-> vidx, len |-> tail.len]
     IN
     IF Mode = "off" THEN
        \* SlotOffsetter.Add; the caller keeps the handle (kept here in sl, ascending by handle)
        IF vidx >= N THEN refuse("nospace") ELSE take(InsertAt(sl, ix, new))
     ELSE IF bytes + tail.len > MaxBytes THEN refuse("nospace")
     ELSE IF vidx >= N THEN refuse("nospace")
     ELSE IF ix > Len(sl) \/ sl[ix].seq # tail.seq THEN
          IF Len(sl) >= MaxSlots THEN refuse("nospace") ELSE take(InsertAt(sl, ix, new))
     ELSE refuse("nil")                                   \* duplicate: (false, nil)

\* the caller discards the slot the sequencer did not take (it is the tail of the save area)
DropTail ==
  /\ tail # NoSlot /\ tail.failed
  /\ Do([E0 EXCEPT !.ev = "DropTail", !.seq = tail.seq, !.idx = tail.idx, !.len = tail.len, !.ret = tail.len],
        Cut(buf, tail.idx, tail.idx + tail.len), si - tail.len, ri - tail.len, tree, sl, bytes, NoSlot, NoSlot)

RemoveAt(q, i) == SubSeq(q, 1, i - 1) \o SubSeq(q, i + 1, Len(q))

PopStep(s) ==
  /\ Idle
  /\ (Mode = "off" => \E i \in 1..Len(sl) : sl[i].seq = s)     \* a caller only offsets handles it holds
  /\ LET ix == Pos(s)
         r == [E0 EXCEPT !.ev = "Pop", !.seq = s] IN
     IF ix <= Len(sl) /\ sl[ix].seq = s THEN
        LET x == sl[ix]
            nsl == RemoveAt(sl, ix)
            offset == FSumUntil(tree, x.idx)
            t1 == FAdd(tree, x.idx, x.len)
            empty == IF BUG_ResetEarly THEN Len(nsl) <= 1 ELSE Len(nsl) = 0
            t2 == IF empty /\ (Mode = "seq" \/ ResetOnEmpty) THEN Zeros ELSE t1
            real == x.idx - Min(Max(offset, 0), x.idx)        \* OffsetSlot
        IN Do([r EXCEPT !.ok = 1, !.idx = real, !.len = x.len, !.n = x.len,
                        !.slotbytes = SubSeq(buf, real + 1, real + x.len)],
              buf, si, ri, t2, nsl, bytes - x.len, NoSlot, [NoSlot EXCEPT !.idx = real, !.len = x.len])
     ELSE Do(r, buf, si, ri, tree, sl, bytes, NoSlot, NoSlot)

\* ByteBuffer.Discard(popped slot); slots that are not inside the save area are ignored
DiscardStep ==
  /\ pop # NoSlot
  /\ LET r == [E0 EXCEPT !.ev = "Discard", !.idx = pop.idx, !.len = pop.len] IN
     IF pop.len <= 0 \/ pop.idx < 0 \/ pop.len > si - pop.idx
       THEN Do(r, buf, si, ri, tree, sl, bytes, NoSlot, NoSlot)
       ELSE Do([r EXCEPT !.ret = pop.len], Cut(buf, pop.idx, pop.idx + pop.len), si - pop.len, ri - pop.len,
               tree, sl, bytes, NoSlot, NoSlot)

\* bytes behind the save area
Live(n) == /\ tail = NoSlot /\ ~Behind
           /\ Do([E0 EXCEPT !.ev = "Live", !.n = n, !.toks = LiveToks(n)], buf \o LiveToks(n), si, ri + n, tree, sl, bytes, tail, pop)
Unc == /\ Len(buf) = ri /\ tail = NoSlot
       /\ Do([E0 EXCEPT !.ev = "Unc", !.n = 1, !.toks = UncToks(1)], buf \o UncToks(1), si, ri, tree, sl, bytes, tail, pop)
Eat == /\ ri > si
       /\ Do([E0 EXCEPT !.ev = "Eat"], Cut(buf, si, ri), si, si, tree, sl, bytes, tail, pop)
Shrink == /\ Len(buf) > ri
          /\ Do([E0 EXCEPT !.ev = "Shrink"], SubSeq(buf, 1, ri), si, ri, tree, sl, bytes, tail, pop)

ResetAll == /\ Idle /\ si > 0
            /\ Do([E0 EXCEPT !.ev = "ResetAll"], Cut(buf, 0, si), 0, ri - si, Zeros, <<>>, 0, NoSlot, NoSlot)

Step ==
  /\ UNCHANGED <<done, ph>>
  /\ \/ \E s \in Seqs, n \in Sizes, v \in {0, 1} : SaveStep(s, n, v)
     \/ PushStep \/ DropTail \/ DiscardStep
     \/ \E s \in Seqs : PopStep(s)
     \/ \E n \in LiveSizes : Live(n)
     \/ Unc \/ Eat \/ Shrink \/ ResetAll

Finish == /\ ~done /\ done' = TRUE /\ UNCHANGED <<implvars, monvars, ph, hist>>

Next == IF bad # "" \/ (MaxHist > 0 /\ Len(hist) >= MaxHist) THEN MaxHist > 0 /\ Finish ELSE Step
Spec == Init /\ [][Next]_vars

\* random long histories: one random enabled action per step, biased towards a full sequencer
SimStep ==
  /\ UNCHANGED <<done, ph>>
  /\ IF tail # NoSlot THEN PushStep \/ DropTail
     ELSE IF pop # NoSlot THEN DiscardStep
     ELSE \E w \in {RandomElement(1..12)} :
       CASE w <= 5 /\ ~Behind /\ Mode = "off" /\ Seqs \ Held = {} -> \E s \in {RandomElement(Held)} : PopStep(s)
         [] w <= 5 /\ ~Behind -> \E s \in {RandomElement(IF Mode = "off" THEN Seqs \ Held ELSE Seqs)}, n \in {RandomElement(Sizes)}, v \in {RandomElement({0, 1})} : SaveStep(s, n, v)
         [] w <= 5 /\ Behind -> IF ri > si THEN Eat ELSE Shrink
         [] w \in 6..8 -> IF sl = <<>> THEN UNCHANGED <<implvars, monvars, hist>>
                           ELSE \E s \in {RandomElement({sl[i].seq : i \in 1..Len(sl)})} : PopStep(s)     \* a stored number
         [] w = 9 -> IF Mode = "off" THEN UNCHANGED <<implvars, monvars, hist>>
                     ELSE \E s \in {RandomElement(Seqs)} : PopStep(s)                                 \* any number
         [] w = 10 -> IF ~Behind THEN \E n \in {RandomElement(LiveSizes)} : Live(n) ELSE IF Len(buf) = ri THEN Unc ELSE Shrink
         [] w = 11 -> IF ri > si THEN Eat ELSE IF Len(buf) > ri THEN Shrink ELSE UNCHANGED <<implvars, monvars, hist>>
         [] OTHER -> IF si > 0 /\ RandomElement(1..6) = 1 THEN ResetAll ELSE UNCHANGED <<implvars, monvars, hist>>
SimNext == IF bad # "" \/ (MaxHist > 0 /\ Len(hist) >= MaxHist) THEN MaxHist > 0 /\ Finish ELSE SimStep
SimSpec == Init /\ [][SimNext]_vars

\* ---- path-sensitive bounded-exhaustive enumeration ----
\* A transition cover continues every model state behind ONE history (the shortest). Two pop orders that
\* lead to the same model state (the Fenwick array only holds sums) may leave an implementation that
\* treats some pops specially (a pop at the tail of the save area, a pop in front of parked packets, ...)
\* in different internal states.  PathSpec is a caller in two rounds - park PathK packets (all sizes), pop
\* any of them in every order (every subset, draining or not), park up to PathM more, pop everything - and
\* its VIEW contains the history, so the state graph is the tree of all such histories: every continuation
\* is generated behind every distinct pop order.  Only complete histories are printed (EmitLeaf); every
\* prefix is validated with them.
PSeq(i) == (i * PathMul) % PathMod
MinHeld == CHOOSE s \in Held : \A t \in Held : s <= t
PStep ==
  /\ UNCHANGED done
  /\ IF tail # NoSlot THEN (PushStep \/ DropTail) /\ UNCHANGED ph
     ELSE IF pop # NoSlot THEN DiscardStep /\ UNCHANGED ph
     ELSE \/ /\ ph.r = 1 /\ ph.pops = 0 /\ ph.parks < PathK
             /\ \E n \in Sizes : SaveStep(PSeq(ph.parks + 1), n, 0)
             /\ ph' = [ph EXCEPT !.parks = @ + 1]
          \/ /\ ph.r = 1 /\ ph.parks = PathK /\ sl # <<>>
             /\ \E s \in Held : PopStep(s)
             /\ ph' = [ph EXCEPT !.pops = @ + 1]
          \/ /\ ph.pops >= 1 /\ ph.pops2 = 0 /\ ph.parks < PathK + PathM /\ Len(sl) < MaxSlots
             /\ \E n \in Sizes : SaveStep(PSeq(ph.parks + 1), n, 0)
             /\ ph' = [ph EXCEPT !.parks = @ + 1, !.r = 2]
          \/ /\ ph.r = 2 /\ sl # <<>>
             /\ \E s \in (IF ph.pops2 = 0 \/ PathAll THEN Held ELSE {MinHeld}) : PopStep(s)
             /\ ph' = [ph EXCEPT !.pops2 = @ + 1]
PTerminal == Idle /\ sl = <<>> /\ ph.r = 2
PNext == IF bad # "" \/ PTerminal THEN Finish ELSE PStep
PathSpec == Init /\ [][PNext]_vars
ViewP == <<implvars, monvars, ph, hist, done>>

\* ---- properties ----
NotBad == bad = ""

TypeOK ==
  /\ 0 <= si /\ si <= ri /\ ri <= Len(buf)
  /\ bytes >= 0 /\ (Mode = "seq" => Len(sl) <= MaxSlots /\ bytes <= MaxBytes)
  /\ \A i \in 1..(Len(sl) - 1) : sl[i].seq < sl[i + 1].seq

\* the real position of every stored slot is its virtual index minus what was discarded before it,
\* and it addresses the packet the monitor has parked under that number
RealIdx(x) == x.idx - FSumUntil(tree, x.idx)
Agree ==
  bad = "" =>
    /\ Mon!FlatToks(area) = SubSeq(buf, 1, si)
    /\ \A i \in 1..Len(sl) :
         /\ sl[i].seq \in Mon!ParkedSeqs(area)
         /\ LET j == Mon!IdxOf(area, sl[i].seq) IN
            /\ (pop = NoSlot => RealIdx(sl[i]) = Mon!LenBefore(area, j))   \* (between Pop and Discard the tree is ahead)
            /\ sl[i].len = Len(area[j].toks)
    /\ Cardinality(Mon!Parked(area)) = Len(sl)

View == <<implvars, monvars>>

EmitEdge == /\ PrintT(<<"EDGE", ToJson(hist')>>)
            /\ (bad' # "" => PrintT(<<"MODELBAD", bad', ToJson(hist')>>))
EmitLeaf == done => PrintT(<<"EDGE", ToJson(hist)>>)
=============================================================================
