SPECIFICATION Spec
CONSTANTS
  Mode = "seq"
  Seqs = {1, 2, 3}
  Sizes = {1, 2}
  MaxSlots = 2
  MaxBytes = 4
  LiveSizes = {1}
  MaxHist = 0
  ResetOnEmpty = TRUE
  BUG_ResetEarly = FALSE
  BUG_NoVirtual = FALSE
  PathK = 0
  PathM = 0
  PathMul = 1
  PathMod = 7
  PathAll = FALSE
INVARIANTS TypeOK Agree
VIEW View
ACTION_CONSTRAINT EmitEdge
CHECK_DEADLOCK FALSE
