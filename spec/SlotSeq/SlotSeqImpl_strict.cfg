SPECIFICATION Spec
CONSTANTS
  Mode = "seq"
  Seqs = {1, 2, 3}
  Sizes = {1, 2}
  MaxSlots = 2
  MaxBytes = 4
  LiveSizes = {1}
  MaxHist = 0
  ResetOnEmpty = TRUE
  BUG_ResetEarly = FALSE
  BUG_NoVirtual = FALSE
INVARIANTS NotBad TypeOK Agree
VIEW View

CHECK_DEADLOCK FALSE
