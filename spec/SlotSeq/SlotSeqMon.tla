------------------------------ MODULE SlotSeqMon ------------------------------
(* Property monitor for C20: packets parked in a ByteBuffer's save area and   *)
(* indexed through a SlotSequencer (mode "seq") or a bare SlotOffsetter       *)
(* (mode "off", handles instead of sequence numbers) can be retrieved and     *)
(* discarded in any order.                                                    *)
(*                                                                            *)
(* Observed (API level): the documented workflow                              *)
(*   Save     Write(packet) Commit Save -> slot            (packet = e.toks)  *)
(*   Push     sequencer.Push(seq, slot) / offsetter.Add(slot) -> ok, err      *)
(*   DropTail ByteBuffer.Discard(slot) after a Push that did not take it      *)
(*   Pop      sequencer.Pop(seq) / offsetter.Offset(handle) -> slot, ok, and  *)
(*            the bytes SavedSlot(slot) addresses at that moment              *)
(*   Discard  ByteBuffer.Discard(slot) of the popped slot                     *)
(*   Live / Unc / Eat / Shrink   readable and uncommitted bytes that sit      *)
(*            behind the save area come and go                                *)
(*   ResetAll sequencer.Reset() + DiscardAll()                                *)
(* and after every call Saved(), Data(), the write area, Bytes(), Size().     *)
(*                                                                            *)
(* Rule keys                                                                  *)
(*   C20/slot-bytes            the slot of a sequence number does not address *)
(*                             exactly the bytes saved under it               *)
(*   C20/slot-bytes/pop-missing   a parked number cannot be popped            *)
(*   C20/slot-bytes/pop-phantom   a number that is not parked pops            *)
(*   C20/other-disturbed       another packet (or the bytes behind the save   *)
(*                             area) changed                                  *)
(*   C20/duplicate             a duplicate number was accepted                *)
(*   C20/duplicate/false-reject  a new number was refused without an error    *)
(*   C20/capacity              a push beyond a limit was accepted             *)
(*   C20/totals                Bytes()/Size() differ from the parked totals   *)
(*   C20/panic/<call>                                                         *)
(* Freedom left by the statement: a Push may fail with an error at any time   *)
(* (the statement only demands that limits are reported as errors and that    *)
(* state stays intact); such pushes are counted by the harness.               *)
EXTENDS Integers, Sequences, FiniteSets

VARIABLES area,     \* save area in save order: Seq([seq, toks, st]), st \in {"loose", "parked", "popped"}
          mlive,    \* readable tokens behind the save area
          munc,     \* uncommitted tokens behind them
          mcfg,     \* [mode, maxslots, maxbytes]
          bad

monvars == <<area, mlive, munc, mcfg, bad>>

MonInit == /\ area = <<>> /\ mlive = <<>> /\ munc = <<>>
           /\ mcfg = [mode |-> "seq", maxslots |-> 0, maxbytes |-> 0] /\ bad = ""

RECURSIVE FlatToks(_)
FlatToks(a) == IF a = <<>> THEN <<>> ELSE a[1].toks \o FlatToks(Tail(a))

RECURSIVE LenBefore(_, _)
LenBefore(a, j) == IF j <= 1 THEN 0 ELSE Len(a[j - 1].toks) + LenBefore(a, j - 1)

RECURSIVE SumLen(_, _)
SumLen(a, S) == IF S = {} THEN 0 ELSE LET j == CHOOSE x \in S : TRUE IN Len(a[j].toks) + SumLen(a, S \ {j})

Parked(a) == {j \in DOMAIN a : a[j].st = "parked"}
ParkedSeqs(a) == {a[j].seq : j \in Parked(a)}
IdxOf(a, s) == CHOOSE j \in Parked(a) : a[j].seq = s
RemoveAt(a, j) == SubSeq(a, 1, j - 1) \o SubSeq(a, j + 1, Len(a))

Fail(key) == bad' = key /\ UNCHANGED <<area, mlive, munc, mcfg>>

\* common tail: what the getters must show after the call
Conclude(e, narea, nlive, nunc) ==
  IF e.panic = 1 THEN Fail("C20/panic/" \o e.ev)
  ELSE IF e.saved # FlatToks(narea) \/ e.data # nlive \/ e.wr # nunc THEN Fail("C20/other-disturbed")
  ELSE IF mcfg.mode = "seq" /\ (e.size # Cardinality(Parked(narea)) \/ e.bytes # SumLen(narea, Parked(narea)))
       THEN Fail("C20/totals")
  ELSE /\ area' = narea /\ mlive' = nlive /\ munc' = nunc /\ UNCHANGED <<mcfg, bad>>

ObsNew(e) ==
  /\ area' = <<>> /\ mlive' = <<>> /\ munc' = <<>>
  /\ mcfg' = [mode |-> e.mode, maxslots |-> e.maxslots, maxbytes |-> e.maxbytes]
  /\ bad' = IF e.panic = 1 THEN "C20/panic/New"
            ELSE IF e.saved # <<>> \/ e.data # <<>> \/ e.wr # <<>> \/ e.size # 0 \/ e.bytes # 0 THEN "C20/totals" ELSE ""

HasLoose == Len(area) > 0 /\ area[Len(area)].st = "loose"
HasPopped == \E j \in DOMAIN area : area[j].st = "popped"

ObsSave(e) ==
  IF HasLoose \/ mlive # <<>> \/ munc # <<>> \/ e.toks = <<>> THEN Fail("C20/harness/workflow")
  ELSE IF e.panic = 0 /\ (e.idx # Len(FlatToks(area)) \/ e.len # Len(e.toks)) THEN Fail("C20/slot-bytes")
  ELSE Conclude(e, Append(area, [seq |-> e.seq, toks |-> e.toks, st |-> "loose"]), mlive, munc)

ObsPush(e) ==
  IF ~HasLoose THEN Fail("C20/harness/workflow")
  ELSE
    LET n == Len(area)
        p == area[n]
        dup == p.seq \in ParkedSeqs(area)
        over == mcfg.mode = "seq" /\ (\/ Cardinality(Parked(area)) >= mcfg.maxslots
                                      \/ SumLen(area, Parked(area)) + Len(p.toks) > mcfg.maxbytes)
    IN
    IF e.panic = 1 THEN Fail("C20/panic/Push")
    ELSE IF e.ok = 1 THEN
       IF dup THEN Fail("C20/duplicate")
       ELSE IF over \/ e.err # "nil" THEN Fail("C20/capacity")
       ELSE Conclude(e, [area EXCEPT ![n].st = "parked"], mlive, munc)
    ELSE IF e.err = "nil" /\ ~dup THEN Fail("C20/duplicate/false-reject")
    ELSE Conclude(e, area, mlive, munc)

ObsDropTail(e) ==
  IF ~HasLoose THEN Fail("C20/harness/workflow")
  ELSE Conclude(e, SubSeq(area, 1, Len(area) - 1), mlive, munc)

ObsPop(e) ==
  IF HasLoose \/ HasPopped THEN Fail("C20/harness/workflow")
  ELSE IF e.panic = 1 THEN Fail("C20/panic/Pop")
  ELSE IF e.seq \in ParkedSeqs(area) THEN
     LET j == IdxOf(area, e.seq) IN
     IF e.ok # 1 THEN Fail("C20/slot-bytes/pop-missing")
     ELSE IF e.slotbytes # area[j].toks \/ e.idx # LenBefore(area, j) \/ e.len # Len(area[j].toks)
       THEN Fail("C20/slot-bytes")
     ELSE Conclude(e, [area EXCEPT ![j].st = "popped"], mlive, munc)
  ELSE IF e.ok # 0 THEN Fail("C20/slot-bytes/pop-phantom")
  ELSE Conclude(e, area, mlive, munc)

ObsDiscard(e) ==
  IF ~HasPopped THEN Fail("C20/harness/workflow")
  ELSE LET j == CHOOSE x \in DOMAIN area : area[x].st = "popped" IN
       IF e.panic = 0 /\ e.ret # Len(area[j].toks) THEN Fail("C20/other-disturbed")
       ELSE Conclude(e, RemoveAt(area, j), mlive, munc)

ObsLive(e) == IF mlive # <<>> \/ munc # <<>> THEN Fail("C20/harness/workflow") ELSE Conclude(e, area, e.toks, munc)
ObsUnc(e) == Conclude(e, area, mlive, munc \o e.toks)
ObsEat(e) == Conclude(e, area, <<>>, munc)
ObsShrink(e) == Conclude(e, area, mlive, <<>>)
ObsResetAll(e) == Conclude(e, <<>>, mlive, munc)

Obs(e) ==
  CASE e.ev = "New" -> ObsNew(e)
    [] e.ev = "Save" -> ObsSave(e)
    [] e.ev = "Push" -> ObsPush(e)
    [] e.ev = "DropTail" -> ObsDropTail(e)
    [] e.ev = "Pop" -> ObsPop(e)
    [] e.ev = "Discard" -> ObsDiscard(e)
    [] e.ev = "Live" -> ObsLive(e)
    [] e.ev = "Unc" -> ObsUnc(e)
    [] e.ev = "Eat" -> ObsEat(e)
    [] e.ev = "Shrink" -> ObsShrink(e)
    [] e.ev = "ResetAll" -> ObsResetAll(e)
    [] OTHER -> Fail("C20/harness/unknown-event")

NotBad == bad = ""
=============================================================================
