-------------------------------- MODULE FrameImpl --------------------------------
(* Implementation-shaped model of codec/frame/frame.go on top of the three     *)
(* areas of sonic.ByteBuffer (byte_buffer.go): the source buffer is the token  *)
(* sequence `data` with the indices si <= ri <= Len(data) = wi, the decoder    *)
(* state is decodeReset / decodeBytes, Decode is transcribed statement by      *)
(* statement (resetDecode, PrepareRead(4), the big-endian parse, the bound     *)
(* check, PrepareRead(4+len), Consume(4), the lent slice).  The caller hands   *)
(* the encoded stream over in arbitrary pieces (Feed), may commit bytes itself *)
(* (Commit), and may start with a non-empty save area.  Capacity is not        *)
(* modelled.  Composed with FrameMon.                                          *)
(*                                                                             *)
(* Bytes are tokens <<id, len, j>>: byte j of the encoding of the frame with   *)
(* identity id and payload length len (j < 4: prefix; len = -1: a prefix that  *)
(* declares more than the limit); <<-1, 0, j>> is a byte of the initial save   *)
(* area.                                                                       *)
EXTENDS Integers, Sequences, FiniteSets, TLC, Json

CONSTANTS Lens,        \* payload lengths Encode is called with
          NF,          \* Encode is generated while fewer than NF frames are outstanding
          IdMod,       \* frame identities are 0..IdMod-1, handed out cyclically (IdMod >= NF + 2)
          PreSaves,    \* lengths of the initial save area
          Direct,      \* TRUE: Encode writes into the source buffer itself (dst = src)
          Hostile,     \* TRUE: over-limit prefixes and over-limit Encode calls are generated
          UserCommit,  \* TRUE: the caller commits bytes of the source buffer itself
          MaxHist,
          BUG_EagerConsume,  \* Decode consumes the payload when it returns it (nothing deferred)
          BUG_StaleReset     \* resetDecode never clears decodeReset

Max == 1073741824
Hdr == 4

VARIABLES data, si, ri,        \* source ByteBuffer (wi = Len(data))
          dreset, dbytes,      \* Codec.decodeReset, Codec.decodeBytes
          wire,                \* encoded bytes still in the encoder's buffer
          nid,                 \* next frame identity
          lent,                \* <<>> or <<position, tokens>> of the slice the last Decode returned
          q, have, unfed, sv, fbad,   \* monitor
          hist, done

implvars == <<data, si, ri, dreset, dbytes, wire, nid, lent>>
fmonvars == <<q, have, unfed, sv, fbad>>
vars == <<implvars, fmonvars, hist, done>>

Mon == INSTANCE FrameMon

Min(a, b) == IF a < b THEN a ELSE b

\* ---------------------------------------------------------------- ByteBuffer
Buf == [d |-> data, si |-> si, ri |-> ri]
ReadLen(b) == b.ri - b.si
WriteLen(b) == Len(b.d) - b.ri

BCommit(b, n) == IF n <= 0 THEN b ELSE [b EXCEPT !.ri = @ + Min(n, WriteLen(b))]

BConsume(b, n) ==
  LET m == Min(n, ReadLen(b)) IN
  IF m <= 0 THEN b
  ELSE [d |-> SubSeq(b.d, 1, b.si) \o SubSeq(b.d, b.si + m + 1, Len(b.d)), si |-> b.si, ri |-> b.ri - m]

\* <<buffer, enough>>
BPrepareRead(b, n) ==
  IF n > ReadLen(b)
    THEN LET need == n - ReadLen(b) IN
         IF WriteLen(b) >= need THEN <<BCommit(b, need), TRUE>> ELSE <<b, FALSE>>
    ELSE <<b, TRUE>>

BData(b) == SubSeq(b.d, b.si + 1, b.ri)

\* ---------------------------------------------------------------- bytes
Encoding(id, len) == [j \in 1..(Hdr + (IF len < 0 THEN 0 ELSE len)) |-> <<id, len, j - 1>>]

Val(t) == IF t[1] = -1 THEN 1                      \* save-area filler
          ELSE IF t[3] >= Hdr THEN 1                \* payload byte
          ELSE IF t[2] = -1 THEN 64                 \* prefix above the limit (0x40404040)
          ELSE IF t[3] = 3 THEN t[2] ELSE 0         \* big-endian prefix of a small length

BE32(s) == ((Val(s[1]) * 256 + Val(s[2])) * 256 + Val(s[3])) * 256 + Val(s[4])

\* identity of the frame whose payload the tokens are: the prefix just parsed (hd)
\* belongs to one frame and the slice is exactly its payload
Pids(hd, pay) ==
  IF /\ \A j \in 1..Hdr : hd[j] = <<hd[1][1], hd[1][2], j - 1>>
     /\ hd[1][1] >= 0 /\ hd[1][2] = Len(pay)
     /\ \A j \in 1..Len(pay) : pay[j] = <<hd[1][1], hd[1][2], Hdr + j - 1>>
  THEN <<hd[1][1]>> ELSE <<>>

\* u is the byte that follows t in the encoded stream
Follows(t, u) ==
  IF t[1] = -1 THEN FALSE
  ELSE IF t[3] + 1 < Hdr + (IF t[2] < 0 THEN 0 ELSE t[2]) THEN u = <<t[1], t[2], t[3] + 1>>
  ELSE u[1] = (t[1] + 1) % IdMod /\ u[3] = 0

TailOk(d, s, wr) ==
  LET x == SubSeq(d, s + 1, Len(d)) \o wr IN
  \A k \in 1..(Len(x) - 1) : Follows(x[k], x[k + 1])

\* is the slice lent by the previous Decode still what it was?  (memory past the
\* end of the buffer is taken to be intact)
Held(d) ==
  IF lent = <<>> THEN 1
  ELSE IF \A k \in 1..Len(lent[2]) : lent[1] + k > Len(d) \/ d[lent[1] + k] = lent[2][k] THEN 1 ELSE 0

\* ---------------------------------------------------------------- events
\* hist keeps what the driver needs (call, argument, predicted observation); the
\* monitor gets the full event
G(ev, a, id, res, plen, pids, held, b) ==
  [ev |-> ev, a |-> a, id |-> id, res |-> res, plen |-> plen, pids |-> pids, held |-> held,
   s |-> b.si, r |-> ReadLen(b), w |-> WriteLen(b)]

Full(g, b, wr) ==
  [ev |-> g.ev, a |-> g.a, id |-> g.id, direct |-> IF Direct THEN 1 ELSE 0, res |-> g.res,
   plen |-> g.plen, pids |-> g.pids, held |-> g.held,
   n |-> IF g.ev = "Enc" /\ g.res = "ok" THEN Hdr + g.a ELSE 0, same |-> 1, good |-> 1,
   s |-> g.s, r |-> g.r, w |-> g.w, blen |-> Len(b.d), rsv |-> 1, capg |-> 0,
   sgood |-> IF SubSeq(b.d, 1, b.si) = [j \in 1..b.si |-> <<-1, 0, j - 1>>] THEN 1 ELSE 0,
   tailok |-> IF TailOk(b.d, b.si, wr) THEN 1 ELSE 0]

\* b = source buffer after the step, wr = encoder's buffer after the step
Emit(g, b, wr) ==
  /\ Mon!FObs(Full(g, b, wr))
  /\ hist' = Append(hist, g)
  /\ data' = b.d /\ si' = b.si /\ ri' = b.ri /\ wire' = wr

Init ==
  /\ \E p \in PreSaves :
       /\ data = [j \in 1..p |-> <<-1, 0, j - 1>>] /\ si = p /\ ri = p /\ sv = p
       /\ hist = <<[ev |-> "New", a |-> p, id |-> 0, res |-> "", plen |-> 0, pids |-> <<>>, held |-> 1,
                    s |-> p, r |-> 0, w |-> 0]>>
  /\ dreset = FALSE /\ dbytes = 0 /\ wire = <<>> /\ nid = 0 /\ lent = <<>>
  /\ q = <<>> /\ have = 0 /\ unfed = 0 /\ fbad = ""
  /\ done = FALSE

NoHostileYet == \A k \in DOMAIN q : q[k].over = 0

\* Encode: Reserve(4 + len), Claim: prefix, payload - left in the write area
Enc(len) ==
  /\ Len(q) < NF /\ NoHostileYet
  /\ LET enc == Encoding(nid, len)
         b == IF Direct THEN [Buf EXCEPT !.d = @ \o enc] ELSE Buf
         wr == IF Direct THEN wire ELSE wire \o enc
     IN Emit(G("Enc", len, nid, "ok", 0, <<>>, 1, b), b, wr)
  /\ nid' = (nid + 1) % IdMod
  /\ UNCHANGED <<dreset, dbytes, lent>>

\* Encode of a payload above the limit: refused before anything is touched
EncOver ==
  /\ Hostile
  /\ Emit(G("Enc", Max + 1, nid, "overflow", 0, <<>>, 1, Buf), Buf, wire)
  /\ UNCHANGED <<dreset, dbytes, nid, lent>>

\* the harness appends a prefix that declares more than the limit
Raw ==
  /\ Hostile /\ Len(q) < NF /\ NoHostileYet
  /\ LET enc == Encoding(nid, -1)
         b == IF Direct THEN [Buf EXCEPT !.d = @ \o enc] ELSE Buf
         wr == IF Direct THEN wire ELSE wire \o enc
     IN Emit(G("Raw", 0, nid, "", 0, <<>>, 1, b), b, wr)
  /\ nid' = (nid + 1) % IdMod
  /\ UNCHANGED <<dreset, dbytes, lent>>

Feed(k) ==
  /\ k \in 1..Len(wire)
  /\ LET b == [Buf EXCEPT !.d = @ \o SubSeq(wire, 1, k)] IN
     Emit(G("Feed", k, 0, "", 0, <<>>, 1, b), b, SubSeq(wire, k + 1, Len(wire)))
  /\ UNCHANGED <<dreset, dbytes, nid, lent>>

Commit(k) ==
  /\ UserCommit /\ k \in 1..WriteLen(Buf)
  /\ LET b == BCommit(Buf, k) IN Emit(G("Commit", k, 0, "", 0, <<>>, 1, b), b, wire)
  /\ UNCHANGED <<dreset, dbytes, nid, lent>>

\* Codec.Decode(src) with c.src = src
Dec ==
  LET held == Held(data)
      \* resetDecode
      b0 == IF dreset THEN BConsume(Buf, dbytes) ELSE Buf
      dr0 == IF dreset /\ ~BUG_StaleReset THEN FALSE ELSE dreset
      db0 == IF dreset /\ ~BUG_StaleReset THEN 0 ELSE dbytes
      p1 == BPrepareRead(b0, Hdr)
  IN
  IF ~p1[2] THEN      \* header incomplete
     /\ Emit(G("Dec", 0, 0, "needmore", 0, <<>>, held, b0), b0, wire)
     /\ dreset' = dr0 /\ dbytes' = db0 /\ lent' = <<>> /\ UNCHANGED nid
  ELSE
     LET b1 == p1[1]
         hd == SubSeq(BData(b1), 1, Hdr)
         plen == BE32(hd)
     IN
     IF plen > Max THEN
        /\ Emit(G("Dec", 0, 0, "overflow", 0, <<>>, held, b1), b1, wire)
        /\ dreset' = dr0 /\ dbytes' = db0 /\ lent' = <<>> /\ UNCHANGED nid
     ELSE
        LET p2 == BPrepareRead(b1, Hdr + plen) IN
        IF ~p2[2] THEN      \* payload incomplete (Reserve: capacity is not modelled)
           /\ Emit(G("Dec", 0, 0, "needmore", 0, <<>>, held, b1), b1, wire)
           /\ dreset' = dr0 /\ dbytes' = db0 /\ lent' = <<>> /\ UNCHANGED nid
        ELSE
           LET b3 == BConsume(p2[1], Hdr)
               pay == SubSeq(BData(b3), 1, plen)
               b4 == IF BUG_EagerConsume THEN BConsume(b3, plen) ELSE b3
           IN
           /\ Emit(G("Dec", 0, 0, "ok", plen, Pids(hd, pay), held, b4), b4, wire)
           /\ dreset' = ~BUG_EagerConsume /\ dbytes' = IF BUG_EagerConsume THEN 0 ELSE plen
           /\ lent' = <<b3.si, pay>> /\ UNCHANGED nid

Step ==
  /\ UNCHANGED done
  /\ \/ \E len \in Lens : Enc(len)
     \/ EncOver \/ Raw
     \/ \E k \in 1..Len(wire) : Feed(k)
     \/ \E k \in 1..(Len(data) - ri) : Commit(k)
     \/ Dec

Finish ==
  /\ ~done /\ done' = TRUE
  /\ hist' = Append(hist, G("End", 0, 0, "", 0, <<>>, Held(data), Buf))
  /\ UNCHANGED <<implvars, fmonvars>>

Next ==
  IF fbad # "" \/ (MaxHist > 0 /\ Len(hist) >= MaxHist)
    THEN MaxHist > 0 /\ Finish
    ELSE Step

Spec == Init /\ [][Next]_vars

NotBad == fbad = ""

TypeOK == /\ 0 <= si /\ si <= ri /\ ri <= Len(data)
          /\ dbytes >= 0 /\ (dreset \/ BUG_StaleReset \/ dbytes = 0)

\* the source buffer starts with the save area, then (while a payload is lent) the
\* lent payload, then the stream from a frame boundary on; the monitor's count of
\* outstanding bytes is what is behind the lent payload
Aligned ==
  fbad = "" =>
    LET lp == IF dreset THEN dbytes ELSE 0 IN
    /\ Len(data) - si = lp + have
    /\ (q # <<>> /\ have > 0 => data[si + lp + 1] = <<Head(q).id, IF Head(q).over = 1 THEN -1 ELSE Head(q).len, 0>>)
    /\ Len(wire) = unfed

View == <<implvars, fmonvars>>
EmitEdge == /\ PrintT(<<"EDGE", ToJson(hist')>>)
            /\ (fbad' # "" => PrintT(<<"MODELBAD", fbad', ToJson(hist')>>))
EmitLeaf == done => PrintT(<<"EDGE", ToJson(hist)>>)
=============================================================================
