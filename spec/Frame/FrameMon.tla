-------------------------------- MODULE FrameMon --------------------------------
(* Monitor for codec/frame (length-prefixed frames over sonic.ByteBuffer).     *)
(* Serves no listed property (extra).                                          *)
(*                                                                             *)
(* Reading.  Encode(p, dst) appends exactly BE32(len p) ++ p behind what dst   *)
(* already holds and disturbs nothing else; a payload longer than              *)
(* MaxPayloadLength is refused with ErrPayloadLengthOverflow and dst is left   *)
(* alone.  The encoded stream, handed to the source buffer in arbitrary        *)
(* pieces, decodes to exactly the encoded payloads, in order, each once:       *)
(* Decode returns the oldest payload not yet returned as soon as all its bytes *)
(* have been handed over (byte identical), ErrNeedMore while they have not     *)
(* (leaving room in the buffer for more), ErrPayloadLengthOverflow - without   *)
(* growing the buffer - once the four bytes of a prefix above the limit are    *)
(* there.  Between calls the source buffer's save area is untouched, its       *)
(* areas add up, read area ++ write area is a suffix of what was handed over   *)
(* and still holds every byte of the payloads not yet returned; a returned     *)
(* payload stays intact until the next Decode.                                 *)
(*                                                                             *)
(* Freedom: whether Encode commits what it wrote, where the decoder keeps the  *)
(* lent payload, how much it commits/reserves, when it drops returned frames.  *)
(*                                                                             *)
(* Events [ev, a, id, direct, res, plen, pids, held, n, same, good,            *)
(*         s, r, w, blen, rsv, capg, sgood, tailok] (all numbers in bytes):    *)
(*  New    a = length of the save area the source buffer starts with           *)
(*  Enc    Encode of a payload of a bytes, frame id `id`; direct = 1 when dst  *)
(*         is the source buffer itself; res ok/overflow/panic/other; n = growth*)
(*         of dst's read+write areas; same = 1 iff everything dst held before  *)
(*         is unchanged; good = 1 iff the new bytes are BE32(a) ++ payload     *)
(*  Raw    the harness wrote a 4-byte prefix declaring more than the limit     *)
(*  Feed   a bytes moved from the encoder's buffer to the source write area    *)
(*  Commit a bytes committed by the caller in the source buffer                *)
(*  Dec    Decode: res ok/needmore/overflow/panic/other; plen = length of the  *)
(*         returned slice; pids = ids of the encoded frames whose payload      *)
(*         bytes equal it; held = 1 iff the slice returned by the previous     *)
(*         Decode was still intact when this call was made; capg = 1 iff the   *)
(*         buffer's capacity grew during the call                              *)
(*  End    end of the scenario (held as for Dec)                               *)
(*  s, r, w, blen, rsv = SaveLen, ReadLen, WriteLen, Len, Reserved of the      *)
(*  source buffer after the step; sgood = 1 iff the save area's bytes are      *)
(*  unchanged; tailok = 1 iff read ++ write area equals the last r+w bytes     *)
(*  handed over.  Rule keys FRAME/<rule>.                                      *)
EXTENDS Integers, Sequences

Max == 1073741824      \* frame.MaxPayloadLength
Hdr == 4               \* frame.HeaderLen

VARIABLES q,       \* frames encoded and not yet returned: Seq([id, len, over])
          have,    \* bytes of those frames handed to the source buffer
          unfed,   \* bytes encoded and not yet handed over
          sv,      \* length of the save area
          fbad

fmonvars == <<q, have, unfed, sv, fbad>>

FMonInit == q = <<>> /\ have = 0 /\ unfed = 0 /\ sv = 0 /\ fbad = ""

FFail(key) == fbad' = key /\ UNCHANGED <<q, have, unfed, sv>>

\* what the source buffer must look like after a step that leaves `h` bytes of
\* unreturned frames in it; "" if fine
SrcRule(e, h) ==
  IF e.s # sv \/ e.sgood # 1 THEN "FRAME/buffer/save-area"
  ELSE IF e.r < 0 \/ e.w < 0 \/ e.blen # e.s + e.r + e.w THEN "FRAME/buffer/areas"
  ELSE IF e.tailok # 1 THEN "FRAME/buffer/content"
  ELSE IF e.r + e.w < h THEN "FRAME/buffer/lost"
  ELSE ""

Has(seq, x) == \E k \in DOMAIN seq : seq[k] = x

\* the answer the bytes handed over so far determine
Expect == IF q = <<>> \/ have < Hdr THEN "needmore"
          ELSE IF Head(q).over = 1 THEN "overflow"
          ELSE IF have < Hdr + Head(q).len THEN "needmore"
          ELSE "ok"

FObs(e) ==
  IF e.ev = "New" THEN
       /\ q' = <<>> /\ have' = 0 /\ unfed' = 0 /\ sv' = e.a
       /\ fbad' = IF e.s # e.a \/ e.r # 0 \/ e.w # 0 \/ e.blen # e.a THEN "FRAME/harness/new" ELSE ""
  ELSE IF e.ev = "Enc" THEN
       IF e.res = "panic" THEN FFail("FRAME/panic/Encode")
       ELSE IF e.a > Max THEN
            IF e.res # "overflow" THEN FFail("FRAME/over-limit/encoded")
            ELSE IF e.n # 0 \/ e.same # 1 THEN FFail("FRAME/encode/disturbed")
            ELSE UNCHANGED fmonvars
       ELSE IF e.res # "ok" THEN FFail("FRAME/encode/refused")
       ELSE IF e.n # Hdr + e.a THEN FFail("FRAME/encode/length")
       ELSE IF e.good # 1 THEN FFail("FRAME/encode/content")
       ELSE IF e.same # 1 THEN FFail("FRAME/encode/disturbed")
       ELSE LET h == IF e.direct = 1 THEN have + Hdr + e.a ELSE have
                k == SrcRule(e, h) IN
            IF k # "" THEN FFail(k)
            ELSE /\ q' = Append(q, [id |-> e.id, len |-> e.a, over |-> 0])
                 /\ have' = h
                 /\ unfed' = IF e.direct = 1 THEN unfed ELSE unfed + Hdr + e.a
                 /\ UNCHANGED <<sv, fbad>>
  ELSE IF e.ev = "Raw" THEN
       /\ q' = Append(q, [id |-> e.id, len |-> 0, over |-> 1])
       /\ have' = IF e.direct = 1 THEN have + Hdr ELSE have
       /\ unfed' = IF e.direct = 1 THEN unfed ELSE unfed + Hdr
       /\ UNCHANGED <<sv, fbad>>
  ELSE IF e.ev = "Feed" THEN
       IF e.a < 0 \/ e.a > unfed THEN FFail("FRAME/harness/feed")
       ELSE LET k == SrcRule(e, have + e.a) IN
            IF k # "" THEN FFail(k)
            ELSE have' = have + e.a /\ unfed' = unfed - e.a /\ UNCHANGED <<q, sv, fbad>>
  ELSE IF e.ev = "Commit" THEN
       LET k == SrcRule(e, have) IN IF k # "" THEN FFail(k) ELSE UNCHANGED fmonvars
  ELSE IF e.ev = "End" THEN
       IF e.held # 1 THEN FFail("FRAME/payload/clobbered")
       ELSE LET k == SrcRule(e, have) IN IF k # "" THEN FFail(k) ELSE UNCHANGED fmonvars
  ELSE IF e.ev = "Dec" THEN
       IF e.res = "panic" THEN FFail("FRAME/panic/Decode")
       ELSE IF e.held # 1 THEN FFail("FRAME/payload/clobbered")
       ELSE IF e.res = "other" THEN FFail("FRAME/decode/spurious-error")
       ELSE IF Expect = "overflow" THEN
            IF e.res # "overflow" THEN FFail("FRAME/over-limit/accepted")
            ELSE IF e.capg # 0 THEN FFail("FRAME/over-limit/reserved")
            ELSE LET k == SrcRule(e, 0) IN IF k # "" THEN FFail(k) ELSE UNCHANGED fmonvars
       ELSE IF e.res = "overflow" THEN FFail("FRAME/decode/spurious-error")
       ELSE IF Expect = "needmore" THEN
            IF e.res # "needmore" THEN FFail("FRAME/payload/invented")
            ELSE IF e.rsv < 1 THEN FFail("FRAME/need-more/no-room")
            ELSE LET k == SrcRule(e, have) IN IF k # "" THEN FFail(k) ELSE UNCHANGED fmonvars
       ELSE \* a complete frame is there
            IF e.res # "ok" THEN FFail("FRAME/payload/not-returned")
            ELSE IF e.plen # Head(q).len THEN FFail("FRAME/payload/length")
            ELSE IF e.pids = <<>> THEN FFail("FRAME/payload/content")
            ELSE IF ~Has(e.pids, Head(q).id) THEN FFail("FRAME/payload/order")
            ELSE LET h == have - Hdr - Head(q).len
                     k == SrcRule(e, h) IN
                 IF k # "" THEN FFail(k)
                 ELSE q' = Tail(q) /\ have' = h /\ UNCHANGED <<unfed, sv, fbad>>
  ELSE FFail("FRAME/harness/unknown-event")

FNotBad == fbad = ""
=============================================================================
