---------------------------- MODULE FrameMonTrace ----------------------------
EXTENDS FrameMon, Json, IOUtils, TLC

Trace == ndJsonDeserialize(IOEnv.TRACE)

VARIABLES l, skip

TraceInit == FMonInit /\ l = 1 /\ skip = FALSE

TraceNext ==
  /\ l <= Len(Trace)
  /\ l' = l + 1
  /\ LET e == Trace[l] IN
     IF e.ev # "New" /\ skip THEN UNCHANGED fmonvars /\ skip' = TRUE
     ELSE /\ FObs(e)
          /\ skip' = (fbad' # "")
          /\ (fbad' # "" => PrintT(<<"BAD", e.sid, e.i, fbad'>>))

TraceSpec == TraceInit /\ [][TraceNext]_<<fmonvars, l, skip>>
TraceAccepted == TLCGet("stats").diameter = Len(Trace) + 1
=============================================================================
