SPECIFICATION Spec
CONSTANTS
  Lens = {0, 2}
  NF = 2
  IdMod = 4
  PreSaves = {0}
  Direct = FALSE
  Hostile = FALSE
  UserCommit = TRUE
  MaxHist = 40
  BUG_EagerConsume = FALSE
  BUG_StaleReset = FALSE
INVARIANTS TypeOK Aligned
CONSTRAINT EmitLeaf
CHECK_DEADLOCK FALSE
