SPECIFICATION Spec
CONSTANTS
  Lens = {0, 2}
  NF = 2
  IdMod = 4
  PreSaves = {0}
  Direct = FALSE
  Hostile = FALSE
  UserCommit = TRUE
  MaxHist = 0
  BUG_EagerConsume = FALSE
  BUG_StaleReset = FALSE
INVARIANTS TypeOK Aligned
VIEW View
ACTION_CONSTRAINT EmitEdge
CHECK_DEADLOCK FALSE
