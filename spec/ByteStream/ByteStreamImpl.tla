---------------------------- MODULE ByteStreamImpl ----------------------------
(* Implementation-shaped model of the stream transfer machinery:              *)
(*   Kind = "conn": file.go (asyncRead / asyncReadNow / scheduleRead and the  *)
(*                  write twins, fileReadReactor.onRead / onWrite), used by   *)
(*                  conn.go for sonic.Dial and accepted connections;          *)
(*   Kind = "adp" : async_adapter.go (always deferred, re-arms after a        *)
(*                  partial transfer).                                        *)
(* One object, one raw peer, both directions interleaved.  The kernel is a    *)
(* pair of byte pipes of stream positions: RX [rxRead, rxSent) is what a read *)
(* syscall can take, TX holds txWr - txDr <= TxCap bytes the peer has not     *)
(* read yet.  One action per syscall / callback boundary:                     *)
(*   Start*   AsyncRead/ReadAll/Write/WriteAll: reactor.init, then inline     *)
(*            attempt while IO.Dispatched < limit (conn) or schedule          *)
(*   SysRead / SysWrite   one read(2)/write(2) and the decision taken on      *)
(*            (n, err, all)  [asyncReadNow/asyncWriteNow]                     *)
(*   Poll / PollW         one PollOne: read handler, then write handler of    *)
(*            the same epoll entry (interest re-evaluated in between)         *)
(*   Cancel / CancelW     cancelReads, then cancelWrites                      *)
(*   in a callback: start the next operation (nested, tail position) or Ret   *)
(* Every observable step is handed to ByteStreamMon.                          *)
EXTENDS Integers, Sequences, FiniteSets, TLC, Json

CONSTANTS Kind,        \* "conn" | "adp"
          RLen, WLen,  \* bound on the stream length per direction
          MaxBuf,      \* caller buffers have 1..MaxBuf bytes
          Limit,       \* inline completions allowed on the stack (MaxCallbackDispatch - preset)
          TxCap,       \* capacity of the TX pipe (send buffer + peer receive buffer)
          AnySplit,    \* TRUE: a syscall moves any 1..min(avail,want) bytes; FALSE: exactly the minimum (TCP)
          MaxFail,     \* per direction: completions with an error (EOF, reset, cancelled) after which no op is started
          MaxCancel,   \* Cancel calls per scenario
          MaxHist,     \* generation: forced End when the history is this long (0 = unbounded)
          SampleK,     \* generation: print one transition in SampleK (seeded), 1 = all
          BUG_ShortAll \* TRUE: file.go before the repair (a partial transfer without error
                       \* completes a ReadAll/WriteAll successfully with a short count)

VARIABLES rxSent, rxRead, rxFin, rst,   \* RX pipe; rst: "no" | "pending" (sk_err not reported yet) | "seen"
          txWr, txDr,                   \* TX pipe
          op,                           \* d -> [st: idle|run|park, all, len, sofar]
          nfail,                        \* d -> completions with an error
          pc,                           \* top | sysR | sysW | cb | pollW | cancelW
          ret,                          \* where the stack unwinds to
          wrap,                         \* running op completes through the Dispatched++ wrapper
          disp,                         \* IO.Dispatched - preset
          bout,                         \* EPOLLOUT bit of the fetched epoll entry
          ncancel,
          mkind, sent, got, wacc, wslack, pgot, alive, mop, bad,   \* monitor
          hist, done

kernvars == <<rxSent, rxRead, rxFin, rst, txWr, txDr>>
implvars == <<rxSent, rxRead, rxFin, rst, txWr, txDr, op, nfail, pc, ret, wrap, disp, bout, ncancel>>
monvars  == <<mkind, sent, got, wacc, wslack, pgot, alive, mop, bad>>
vars     == <<implvars, monvars, hist, done>>

Mon == INSTANCE ByteStreamMon

Min(a, b) == IF a < b THEN a ELSE b
Dirs == {"R", "W"}
IdleOp == [st |-> "idle", all |-> 0, len |-> 0, sofar |-> 0]

Ev(ev, d, all, len, n, lo, ok, filled, err, ctx) ==
  [ev |-> ev, kind |-> Kind, d |-> d, op |-> 0, all |-> all, len |-> len, n |-> n, lo |-> lo,
   ok |-> ok, filled |-> filled, err |-> err, ctx |-> ctx]

Plain(ev) == Ev(ev, "", 0, 0, 0, 0, 0, 0, "", "top")
SysEv(d, n, err) == Ev("Sys", d, op[d].all, op[d].len, n, 0, 0, 0, err, "")

\* hand the last event to the monitor, append all of them to the history
Emit(evs) == /\ Mon!Obs(evs[Len(evs)])
             /\ hist' = hist \o evs
Quiet(evs) == /\ UNCHANGED monvars
              /\ hist' = hist \o evs

Readable == rxRead < rxSent \/ rxFin \/ rst # "no"
Writable == txWr - txDr < TxCap \/ rst # "no"
Split(av, want) == IF AnySplit THEN 1..Min(av, want) ELSE {Min(av, want)}

Init ==
  /\ rxSent = 0 /\ rxRead = 0 /\ rxFin = FALSE /\ rst = "no" /\ txWr = 0 /\ txDr = 0
  /\ op = [d \in Dirs |-> IdleOp] /\ nfail = [d \in Dirs |-> 0]
  /\ pc = "top" /\ ret = "top" /\ wrap = FALSE /\ disp = 0 /\ bout = FALSE /\ ncancel = 0
  /\ mkind = Kind /\ sent = 0 /\ got = 0 /\ wacc = 0 /\ wslack = 0 /\ pgot = 0 /\ alive = TRUE
  /\ mop = [R |-> Mon!Idle, W |-> Mon!Idle] /\ bad = ""
  /\ hist = << [Plain("Reset") EXCEPT !.n = Limit, !.len = TxCap] >>
  /\ done = FALSE

\* the stack of completion callbacks returns
Unwind == /\ pc' = ret /\ ret' = "top" /\ disp' = 0

---------------------------------------------------------------------------
\* AsyncRead / AsyncReadAll / AsyncWrite / AsyncWriteAll, at top level or as the
\* last thing a completion callback does
Start(d, all, len) ==
  LET ctx  == IF pc = "top" THEN "top" ELSE "cb"
      inl  == Kind = "conn" /\ disp < Limit
      lo   == IF d = "W" THEN txWr ELSE rxRead
  IN
  /\ pc \in {"top", "cb"}
  /\ op[d].st = "idle" /\ nfail[d] < MaxFail
  /\ d = "W" => txWr + len <= WLen
  /\ d = "R" => RLen > 0
  /\ op' = [op EXCEPT ![d] = [st |-> IF inl THEN "run" ELSE "park", all |-> all, len |-> len, sofar |-> 0]]
  /\ IF inl THEN /\ pc' = IF d = "R" THEN "sysR" ELSE "sysW"
                 /\ wrap' = TRUE /\ UNCHANGED <<ret, disp>>
     ELSE IF pc = "top" THEN UNCHANGED <<pc, ret, disp, wrap>>
     ELSE Unwind /\ UNCHANGED wrap
  /\ Emit(<<Ev("Call", d, all, len, 0, lo, 0, 0, "", ctx)>>)
  /\ UNCHANGED <<kernvars, nfail, bout, ncancel>>

\* completion callback of op[d] with (err, n); `moved` bytes went in/out of the
\* caller's buffer, which starts at stream position lo (pipes read after the syscall)
Complete(d, err, n, moved, pre, wrapped) ==
  LET o  == op[d]
      lo == (IF d = "R" THEN rxRead' ELSE txWr') - moved
      cb == Ev("Cb", d, o.all, o.len, n, lo, 1, IF d = "R" THEN moved ELSE 0, err, "")
  IN
  /\ op' = [op EXCEPT ![d] = IdleOp]
  /\ nfail' = IF err = "nil" THEN nfail ELSE [nfail EXCEPT ![d] = @ + 1]
  /\ disp' = IF wrapped THEN disp + 1 ELSE disp
  /\ pc' = "cb"
  /\ Emit(pre \o <<cb>>)

Park(d, sofar) == op' = [op EXCEPT ![d].st = "park", ![d].sofar = sofar]

\* file.asyncReadNow / AsyncAdapter.asyncReadNow: one read(2) and the decision
SysRead ==
  LET o == op["R"]  want == o.len - o.sofar  av == rxSent - rxRead IN
  /\ pc = "sysR"
  /\ UNCHANGED <<rxSent, rxFin, txWr, txDr, wrap, bout, ncancel>>
  /\ IF av > 0 THEN
        \E n \in Split(av, want) :
          LET sf == o.sofar + n IN
          /\ rxRead' = rxRead + n /\ UNCHANGED rst
          /\ IF o.all = 0 \/ sf = o.len \/ (BUG_ShortAll /\ Kind = "conn")
               THEN Complete("R", "nil", sf, sf, <<SysEv("R", n, "nil")>>, wrap) /\ UNCHANGED ret
             ELSE IF Kind = "conn"
               THEN \* repaired file.go: keep reading
                    /\ op' = [op EXCEPT !["R"].sofar = sf]
                    /\ UNCHANGED <<pc, ret, disp, nfail>>
                    /\ Quiet(<<SysEv("R", n, "nil")>>)
             ELSE \* adapter: scheduleRead(readBytes)
                    /\ Park("R", sf) /\ Unwind /\ UNCHANGED nfail
                    /\ Quiet(<<SysEv("R", n, "nil")>>)
     ELSE IF rst = "pending" /\ ~rxFin THEN
        /\ rst' = "seen" /\ UNCHANGED <<rxRead, ret>>
        /\ Complete("R", "errno:ECONNRESET", o.sofar, o.sofar, <<SysEv("R", -2, "errno:ECONNRESET")>>, wrap)
     ELSE IF rxFin \/ rst = "seen" THEN  \* after a FIN (SOCK_DONE) a read reports EOF whatever came later
        /\ UNCHANGED <<rxRead, rst, ret>>
        /\ Complete("R", "eof", o.sofar, o.sofar, <<SysEv("R", 0, "eof")>>, wrap)
     ELSE \* EAGAIN -> scheduleRead(readSoFar)
        /\ Park("R", o.sofar) /\ Unwind /\ UNCHANGED <<rxRead, rst, nfail>>
        /\ Quiet(<<SysEv("R", -1, "wouldblock")>>)

SysWrite ==
  LET o == op["W"]  want == o.len - o.sofar  space == TxCap - (txWr - txDr) IN
  /\ pc = "sysW"
  /\ UNCHANGED <<rxSent, rxRead, rxFin, txDr, wrap, bout, ncancel>>
  /\ IF rst = "pending" THEN  \* a reset in CLOSE_WAIT (FIN came first) is reported as EPIPE
        LET en == IF rxFin THEN "errno:EPIPE" ELSE "errno:ECONNRESET" IN
        /\ rst' = "seen" /\ UNCHANGED <<txWr, ret>>
        /\ Complete("W", en, o.sofar, o.sofar, <<SysEv("W", -2, en)>>, wrap)
     ELSE IF rst = "seen" THEN
        /\ UNCHANGED <<txWr, rst, ret>>
        /\ Complete("W", "errno:EPIPE", o.sofar, o.sofar, <<SysEv("W", -2, "errno:EPIPE")>>, wrap)
     ELSE IF space > 0 THEN
        \E n \in Split(space, want) :
          LET sf == o.sofar + n IN
          /\ txWr' = txWr + n /\ UNCHANGED rst
          /\ IF o.all = 0 \/ sf = o.len \/ (BUG_ShortAll /\ Kind = "conn")
               THEN Complete("W", "nil", sf, sf, <<SysEv("W", n, "nil")>>, wrap) /\ UNCHANGED ret
             ELSE IF Kind = "conn"
               THEN /\ op' = [op EXCEPT !["W"].sofar = sf]
                    /\ UNCHANGED <<pc, ret, disp, nfail>>
                    /\ Quiet(<<SysEv("W", n, "nil")>>)
             ELSE   /\ Park("W", sf) /\ Unwind /\ UNCHANGED nfail
                    /\ Quiet(<<SysEv("W", n, "nil")>>)
     ELSE
        /\ Park("W", o.sofar) /\ Unwind /\ UNCHANGED <<txWr, rst, nfail>>
        /\ Quiet(<<SysEv("W", -1, "wouldblock")>>)

\* the callback returns without starting anything
Return ==
  /\ pc = "cb"
  /\ Unwind
  /\ Quiet(<<Plain("Ret")>>)
  /\ UNCHANGED <<kernvars, op, nfail, wrap, bout, ncancel>>

\* PollOne with something to dispatch: the read handler of the entry ...
Poll ==
  /\ pc = "top"
  /\ (op["R"].st = "park" /\ Readable) \/ (op["W"].st = "park" /\ Writable)
  /\ bout' = (op["W"].st = "park" /\ Writable)  \* epoll reports OUT only if it was asked for at wait time
  /\ Quiet(<<Plain("Poll")>>)
  /\ IF op["R"].st = "park" /\ Readable
       THEN /\ op' = [op EXCEPT !["R"].st = "run"]
            /\ wrap' = FALSE /\ ret' = "pollW" /\ pc' = "sysR"
       ELSE /\ pc' = "pollW" /\ UNCHANGED <<op, wrap, ret>>
  /\ UNCHANGED <<kernvars, nfail, disp, ncancel>>

\* ... then its write handler, if OUT was reported and the write interest is still set
PollW ==
  /\ pc = "pollW"
  /\ IF bout /\ op["W"].st = "park"
       THEN /\ op' = [op EXCEPT !["W"].st = "run"]
            /\ wrap' = FALSE /\ ret' = "top" /\ pc' = "sysW"
       ELSE /\ pc' = "top" /\ UNCHANGED <<op, wrap, ret>>
  /\ UNCHANGED <<kernvars, nfail, disp, bout, ncancel, monvars, hist>>

\* Cancel(): cancelReads ...
Cancel ==
  /\ pc = "top" /\ (ncancel % 100) < MaxCancel
  /\ op["R"].st = "park" \/ op["W"].st = "park"
  \* ghost in the hundreds and thousands (nothing reads it): did the cancelled operations have progress to report?
  \* A reactor that keeps that progress and a reactor that was vacated at progress 0 are the same model state,
  \* so without it the operations after a Cancel are only ever generated behind a Cancel at progress 0.
  /\ ncancel' = ncancel + 1 + (IF op["R"].st = "park" /\ op["R"].sofar > 0 THEN 100 ELSE 0)
                            + (IF op["W"].st = "park" /\ op["W"].sofar > 0 THEN 1000 ELSE 0)
  /\ UNCHANGED <<kernvars, wrap, bout>>
  /\ IF op["R"].st = "park"
       THEN /\ Complete("R", "cancelled", op["R"].sofar, op["R"].sofar, <<Plain("Cancel")>>, FALSE)
            /\ ret' = "cancelW"
       ELSE /\ pc' = "cancelW" /\ Quiet(<<Plain("Cancel")>>)
            /\ UNCHANGED <<op, nfail, disp, ret>>

\* ... then cancelWrites
CancelW ==
  /\ pc = "cancelW"
  /\ UNCHANGED <<kernvars, wrap, bout, ncancel>>
  /\ IF op["W"].st = "park"
       THEN /\ Complete("W", "cancelled", op["W"].sofar, op["W"].sofar, <<>>, FALSE)
            /\ ret' = "top"
       ELSE /\ pc' = "top" /\ UNCHANGED <<op, nfail, disp, ret, monvars, hist>>

---------------------------------------------------------------------------
\* environment (raw peer), driven from the loop goroutine between library calls
EnvUnch == UNCHANGED <<op, nfail, pc, ret, wrap, disp, bout, ncancel>>

PeerSend(k) ==
  /\ pc = "top" /\ rst = "no" /\ ~rxFin /\ rxSent + k <= RLen
  /\ rxSent' = rxSent + k
  /\ Emit(<<Ev("Send", "", 0, 0, k, rxSent, 1, 0, "", "top")>>)
  /\ EnvUnch /\ UNCHANGED <<rxRead, rxFin, rst, txWr, txDr>>

PeerShutWr ==
  /\ pc = "top" /\ rst = "no" /\ ~rxFin
  /\ rxFin' = TRUE
  /\ Emit(<<Plain("ShutWr")>>)
  /\ EnvUnch /\ UNCHANGED <<rxSent, rxRead, rst, txWr, txDr>>

PeerReset ==
  /\ pc = "top" /\ rst = "no"
  /\ rst' = "pending"
  /\ Emit(<<Plain("Rst")>>)
  /\ EnvUnch /\ UNCHANGED <<rxSent, rxRead, rxFin, txWr, txDr>>

PeerDrain(k) ==
  /\ pc = "top" /\ rst = "no" /\ k <= txWr - txDr
  /\ txDr' = txDr + k
  /\ Emit(<<Ev("Got", "", 0, 0, k, txDr, 1, 0, "", "top")>>)
  /\ EnvUnch /\ UNCHANGED <<rxSent, rxRead, rxFin, rst, txWr>>

\* end of the scenario (the driver drains the peer and polls before it logs End)
End ==
  /\ pc = "top" /\ ~done
  /\ done' = TRUE
  /\ Emit(<<[Plain("End") EXCEPT !.ok = IF rst = "no" /\ op["W"].st = "idle" /\ txWr = txDr THEN 1 ELSE 0]>>)
  /\ UNCHANGED implvars

Step ==
  \/ \E d \in Dirs, all \in {0, 1}, len \in 1..MaxBuf : Start(d, all, len)
  \/ SysRead \/ SysWrite \/ Return \/ Poll \/ PollW \/ Cancel \/ CancelW
  \/ \E k \in 1..RLen : PeerSend(k)
  \/ \E k \in 1..WLen : PeerDrain(k)
  \/ PeerShutWr \/ PeerReset

\* generation only: a rejected history is complete, too
Finish == /\ ~done /\ done' = TRUE /\ UNCHANGED <<implvars, monvars, hist>>

Next ==
  IF done THEN FALSE
  ELSE IF bad # "" THEN MaxHist > 0 /\ Finish
  ELSE IF MaxHist > 0 /\ Len(hist) >= MaxHist /\ pc = "top" THEN End
  ELSE (Step /\ UNCHANGED done) \/ (MaxHist = 0 /\ End)

Spec == Init /\ [][Next]_vars

---------------------------------------------------------------------------
NotBad == bad = ""

TypeOK ==
  /\ 0 <= rxRead /\ rxRead <= rxSent /\ rxSent <= RLen
  /\ 0 <= txDr /\ txDr <= txWr /\ txWr <= WLen /\ txWr - txDr <= TxCap
  /\ \A d \in Dirs : op[d].sofar <= op[d].len /\ (op[d].st = "idle" => op[d] = IdleOp)
  /\ disp >= 0 /\ disp <= Limit
  /\ (pc = "top" => ret = "top" /\ disp = 0)
  /\ \A d \in Dirs : op[d].st = "run" <=> pc = (IF d = "R" THEN "sysR" ELSE "sysW")

\* the monitor's ledger and the pipes agree
Agree ==
  /\ sent = rxSent /\ pgot = txDr
  /\ bad = "" => got = rxRead - op["R"].sofar
  /\ (bad = "" /\ op["W"].st = "idle") => wacc = txWr

View == <<implvars, monvars, done>>

EmitEdge == /\ (SampleK = 1 \/ RandomElement(1..SampleK) = 1) => PrintT(<<"EDGE", ToJson(hist')>>)
            /\ (bad' # "" => PrintT(<<"MODELBAD", bad', ToJson(hist')>>))

EmitLeaf == done => PrintT(<<"EDGE", ToJson(hist)>>)
=============================================================================
