SPECIFICATION Spec
CONSTANTS
  Kind = "conn"
  RLen = 6
  WLen = 0
  MaxBuf = 4
  Limit = 2
  TxCap = 2
  AnySplit = TRUE
  MaxFail = 2
  MaxCancel = 1
  SampleK = 1
  MaxHist = 0
  BUG_ShortAll = FALSE
INVARIANTS NotBad TypeOK Agree
VIEW View
CHECK_DEADLOCK FALSE
