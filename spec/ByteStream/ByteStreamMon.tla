---------------------------- MODULE ByteStreamMon ----------------------------
(* Property monitor for C02 (byte-stream fidelity, ReadAll/WriteAll contract). *)
(*                                                                            *)
(* Observes API-level events only.  One sonic stream object (TCP conn got by  *)
(* sonic.Dial, TCP conn accepted through sonic.Listen, or AsyncAdapter over a *)
(* net.Conn) talks to a raw peer socket.  Payload bytes come from a position  *)
(* tagged generator; the Go projection turns real bytes back into intervals   *)
(* [lo, lo+n) of stream positions (ok = 0 when some byte is not the           *)
(* generator's byte for its position).  So "got is a prefix of sent" becomes  *)
(* arithmetic on positions, at any scale.                                     *)
(*                                                                            *)
(* RX direction = peer -> object (object reads), TX = object -> peer.         *)
(*                                                                            *)
(* Events (record fields always present: ev, kind, d, op, all, len, n, lo,    *)
(* ok, filled, err):                                                          *)
(*   Reset  kind                       new scenario, object kind              *)
(*   Send   n, lo                      peer committed [lo,lo+n) to RX         *)
(*   Call   d, op, all, len, lo        AsyncRead/ReadAll/Write/WriteAll call; *)
(*                                     for writes the buffer holds [lo,lo+len)*)
(*   Cb     d, op, err, n, lo, ok,     completion callback; reads: the caller *)
(*          filled                     buffer holds `filled` bytes that are   *)
(*                                     not the sentinel, they are [lo,lo+..)  *)
(*   Got    n, lo, ok                  raw peer read n bytes of TX            *)
(*   Rst                               peer reset the connection              *)
(*   End    ok (=1: peer drained everything and nothing is in flight)         *)
(*   ShutWr Poll Sys Ret Cancel        carry no obligation for this property  *)
(*                                                                            *)
(* Rule keys:                                                                 *)
(*   C02/all-short-success/<conn|adapter>-<read|write>                        *)
(*   C02/count-mismatch/<read|write|read-range|write-range>                   *)
(*   C02/error-count/read          error completion reporting more than moved *)
(*   C02/stream-order/<read|write> loss, duplication, reordering              *)
(*   C02/stream-invented/<read|write>  bytes nobody sent                      *)
(*   C02/content/<read|write>      bytes that are not the generator's         *)
(*   C02/write-lost                accepted bytes never reached the peer      *)
(*   C02/double-completion/<read|write>                                       *)
(*   C02/harness/...               driver inconsistency (never the library)   *)
EXTENDS Integers, Sequences

VARIABLES mkind,   \* "dial" | "acc" | "adp" | "adn"
          sent,    \* RX positions committed by the peer
          got,     \* RX positions found in caller buffers
          wacc,    \* TX positions reported as moved by write completions
          wslack,  \* TX positions that may have been moved without being reported (error completions)
          pgot,    \* TX positions read by the raw peer
          alive,   \* peer has not reset the connection
          mop,     \* d -> [active, all, len, lo]
          bad

monvars == <<mkind, sent, got, wacc, wslack, pgot, alive, mop, bad>>

Idle == [active |-> FALSE, all |-> 0, len |-> 0, lo |-> 0]

MonInit ==
  /\ mkind = "" /\ sent = 0 /\ got = 0 /\ wacc = 0 /\ wslack = 0 /\ pgot = 0
  /\ alive = TRUE /\ mop = [R |-> Idle, W |-> Idle] /\ bad = ""

Fail(key) == /\ bad' = key
             /\ UNCHANGED <<mkind, sent, got, wacc, wslack, pgot, alive, mop>>

Path == IF mkind \in {"adp", "adn"} THEN "adapter" ELSE "conn"

ObsReset(e) ==
  /\ mkind' = e.kind /\ sent' = 0 /\ got' = 0 /\ wacc' = 0 /\ wslack' = 0 /\ pgot' = 0
  /\ alive' = TRUE /\ mop' = [R |-> Idle, W |-> Idle] /\ bad' = ""

ObsSend(e) ==
  IF e.lo # sent \/ e.n < 0 THEN Fail("C02/harness/send-position")
  ELSE /\ sent' = sent + e.n
       /\ UNCHANGED <<mkind, got, wacc, wslack, pgot, alive, mop, bad>>

ObsCall(e) ==
  IF e.d \notin {"R", "W"} \/ e.len < 1 THEN Fail("C02/harness/call")
  ELSE IF mop[e.d].active THEN Fail("C02/harness/overlapping-ops")
  ELSE IF e.d = "W" /\ wslack = 0 /\ e.lo # wacc THEN Fail("C02/harness/write-position")
  ELSE /\ mop' = [mop EXCEPT ![e.d] = [active |-> TRUE, all |-> e.all, len |-> e.len, lo |-> e.lo]]
       /\ UNCHANGED <<mkind, sent, got, wacc, wslack, pgot, alive, bad>>

ObsCbRead(e) ==
  LET o == mop["R"] IN
  IF ~o.active THEN Fail("C02/double-completion/read")
  ELSE IF e.n < 0 \/ e.n > o.len THEN Fail("C02/count-mismatch/read-range")
  ELSE IF e.err = "nil" /\ e.filled # e.n THEN Fail("C02/count-mismatch/read")
  ELSE IF e.err # "nil" /\ e.n > e.filled THEN Fail("C02/error-count/read")
  ELSE IF e.err = "nil" /\ o.all = 1 /\ e.n < o.len THEN Fail("C02/all-short-success/" \o Path \o "-read")
  ELSE IF e.filled > 0 /\ e.ok # 1 THEN Fail("C02/content/read")
  ELSE IF e.filled > 0 /\ e.lo # got THEN Fail("C02/stream-order/read")
  ELSE IF e.filled > 0 /\ e.lo + e.filled > sent THEN Fail("C02/stream-invented/read")
  ELSE /\ got' = got + e.filled
       /\ mop' = [mop EXCEPT !["R"] = Idle]
       /\ UNCHANGED <<mkind, sent, wacc, wslack, pgot, alive, bad>>

ObsCbWrite(e) ==
  LET o == mop["W"] IN
  IF ~o.active THEN Fail("C02/double-completion/write")
  ELSE IF e.n < 0 \/ e.n > o.len THEN Fail("C02/count-mismatch/write-range")
  ELSE IF e.err = "nil" /\ o.all = 1 /\ e.n < o.len THEN Fail("C02/all-short-success/" \o Path \o "-write")
  ELSE /\ wacc' = wacc + e.n
       /\ wslack' = IF e.err = "nil" THEN wslack ELSE wslack + (o.len - e.n)
       /\ mop' = [mop EXCEPT !["W"] = Idle]
       /\ UNCHANGED <<mkind, sent, got, pgot, alive, bad>>

\* What the raw peer reads must continue its stream, and must have been handed
\* to a write operation.  After an error completion that may have moved more
\* than it reported (the statement allows that) later buffers start at a
\* position the peer may already have: order is no longer decidable and only
\* content is checked.
ObsGot(e) ==
  LET inflight == IF mop["W"].active THEN mop["W"].len ELSE 0 IN
  IF e.n < 1 THEN Fail("C02/harness/got")
  ELSE IF e.ok # 1 THEN Fail("C02/content/write")
  ELSE IF wslack = 0 /\ e.lo # pgot THEN Fail("C02/stream-order/write")
  ELSE IF wslack = 0 /\ e.lo + e.n > wacc + inflight THEN Fail("C02/stream-invented/write")
  ELSE /\ pgot' = pgot + e.n
       /\ UNCHANGED <<mkind, sent, got, wacc, wslack, alive, mop, bad>>

ObsRst(e) == /\ alive' = FALSE
             /\ UNCHANGED <<mkind, sent, got, wacc, wslack, pgot, mop, bad>>

\* End of a scenario.  e.ok = 1: the peer is alive, was drained until it had
\* nothing more to read, and no write is in flight.
ObsEnd(e) ==
  IF e.ok = 1 /\ alive /\ ~mop["W"].active THEN
     IF pgot < wacc THEN Fail("C02/write-lost")
     ELSE IF pgot > wacc + wslack THEN Fail("C02/count-mismatch/write")
     ELSE UNCHANGED monvars
  ELSE UNCHANGED monvars

Obs(e) ==
  CASE e.ev = "Reset"  -> ObsReset(e)
    [] e.ev = "Send"   -> ObsSend(e)
    [] e.ev = "Call"   -> ObsCall(e)
    [] e.ev = "Cb" /\ e.d = "R" -> ObsCbRead(e)
    [] e.ev = "Cb" /\ e.d = "W" -> ObsCbWrite(e)
    [] e.ev = "Cb" /\ e.d \notin {"R", "W"} -> Fail("C02/harness/cb")
    [] e.ev = "Got"    -> ObsGot(e)
    [] e.ev = "Rst"    -> ObsRst(e)
    [] e.ev = "Panic"  -> Fail("C02/panic")      \* the library panicked in a call or in a handler: the transfer is lost
    [] e.ev = "End"    -> ObsEnd(e)
    [] e.ev \in {"ShutWr", "Poll", "Sys", "Ret", "Cancel", "Note"} -> UNCHANGED monvars
    [] OTHER           -> Fail("C02/harness/unknown-event")

NotBad == bad = ""
=============================================================================
