SPECIFICATION Spec
CONSTANTS
  Kind = "conn"
  RLen = 6
  WLen = 6
  MaxBuf = 4
  Limit = 2
  TxCap = 2
  AnySplit = TRUE
  MaxFail = 2
  MaxCancel = 1
  SampleK = 1
  MaxHist = 30
  BUG_ShortAll = FALSE
INVARIANTS TypeOK Agree
CONSTRAINT EmitLeaf
CHECK_DEADLOCK FALSE
