SPECIFICATION Spec
CONSTANTS
  Kind = "conn"
  RLen = 4
  WLen = 4
  MaxBuf = 4
  Limit = 2
  TxCap = 2
  AnySplit = TRUE
  MaxFail = 2
  MaxCancel = 1
  SampleK = 1
  MaxHist = 0
  BUG_ShortAll = FALSE
INVARIANTS TypeOK Agree
VIEW View
ACTION_CONSTRAINT EmitEdge
CHECK_DEADLOCK FALSE
