--------------------------- MODULE ReactorMonTrace ---------------------------
(* Validates ndjson traces recorded from the real event loop against         *)
(* ReactorMon.  Scenarios are concatenated; each starts with "Reset".  The   *)
(* properties in focus come from the environment (FOCUS_Cnn = "1").          *)
EXTENDS ReactorMon, Json, IOUtils

Trace == ndJsonDeserialize(IOEnv.TRACE)

FocusFromEnv ==
  {"har"} \cup (IF IOEnv.FOCUS_C01 = "1" THEN {"C01"} ELSE {})
          \cup (IF IOEnv.FOCUS_C03 = "1" THEN {"C03"} ELSE {})
          \cup (IF IOEnv.FOCUS_C04 = "1" THEN {"C04"} ELSE {})
          \cup (IF IOEnv.FOCUS_C05 = "1" THEN {"C05"} ELSE {})
          \cup (IF IOEnv.FOCUS_C14 = "1" THEN {"C14"} ELSE {})

VARIABLES l, skip

TraceInit == MonInit /\ l = 1 /\ skip = FALSE

TraceNext ==
  /\ l <= Len(Trace)
  /\ l' = l + 1
  /\ LET e == Trace[l] IN
     IF e.ev = "Reset" THEN ObsReset(e) /\ skip' = FALSE
     ELSE IF skip THEN UNCHANGED monvars /\ skip' = TRUE
     ELSE /\ Obs(e)
          /\ skip' = (bad' # "")
          /\ (bad' # "" => PrintT(<<"BAD", e.sid, e.i, bad'>>))

TraceSpec == TraceInit /\ [][TraceNext]_<<monvars, l, skip>>

TraceAccepted == TLCGet("stats").diameter = Len(Trace) + 1
=============================================================================
