----------------------------- MODULE ReactorMon -----------------------------
(* Property monitor for the event loop: C01 (exactly-once completion), C03  *)
(* (Pending() accounting, PollOne result), C04 (timers), C14 (nesting depth) *)
(* and the single-threaded part of C05 (posted handlers run once).           *)
(*                                                                           *)
(* It sees API-level events only: start/return of every asynchronous call,   *)
(* begin/end of every user callback (with the nesting depth the harness      *)
(* counts), Cancel/Close calls, PollOne results, getters sampled at top      *)
(* level, timer calls with monotonic microsecond stamps.  It is total: a     *)
(* forbidden observation sets `bad` to a rule key, nothing ever blocks.      *)
EXTENDS Integers, Sequences, FiniteSets, TLC

CONSTANT Focus     \* set of property ids ("C01", ...) whose rules are enforced; "har" = harness sanity rules

VARIABLES kinds,    \* Seq of object kinds ("sock","pipeR","pipeW","lst","pkt","reg",...)
          cls,      \* scenario class: "gen" | "chain"
          lim,      \* effective dispatch limit of the scenario
          base,     \* value of IO.Dispatched at top level (preset by the driver)
          ost,      \* object -> "open" | "closing" | "closed"
          ops,      \* op id -> [o, st : "run"|"done", ret : start call returned, err]
          csnap,    \* stack of Cancel calls in progress: Seq([o, ids])
          tm,       \* timer -> [st : "idle"|"once"|"rep"|"closed", d, t0, why, att, attd, attts, attrep, infire]
          posted,   \* set of posted handler ids not yet run
          ranp,     \* did a handler run during the PollOne in progress? ("" outside a poll, "n"/"y" inside)
          anomaly,  \* class of the last anomaly seen (used to key accounting rejections)
          rnext,    \* object -> token of the next unit a read/accept/datagram read must deliver
          bad


MonInit ==
  /\ kinds = <<>> /\ cls = "" /\ lim = 0 /\ base = 0
  /\ ost = <<>> /\ ops = <<>> /\ csnap = <<>> /\ tm = <<>> /\ posted = {} /\ ranp = ""
  /\ anomaly = "" /\ rnext = <<>> /\ bad = ""

monvars == <<kinds, cls, lim, base, ost, ops, csnap, tm, posted, ranp, anomaly, rnext, bad>>

\* a rule outside the focus is not enforced: the event is ignored
Fail(key) == IF SubSeq(key, 1, 3) \in Focus
               THEN bad' = key /\ UNCHANGED <<kinds, cls, lim, base, ost, ops, csnap, tm, posted, ranp, anomaly, rnext>>
               ELSE UNCHANGED monvars

Kind(o) == IF o \in DOMAIN kinds THEN kinds[o] ELSE "unknown"

\* open: the Schedule* calls on this timer that have begun and not returned yet, innermost first (a zero-delay
\* ScheduleOnce runs its callback inside the call, and that callback may schedule again); sn: which call's closure
\* is the accepted one (e.h numbers the calls of a scenario)
IdleTimer == [st |-> "idle", d |-> 0, t0 |-> 0, why |-> "new", infire |-> 0, sn |-> 0, open |-> <<>>]   \* infire: callbacks of this timer on the stack

ObsReset(e) ==
  /\ kinds' = e.kinds /\ cls' = e.cls /\ lim' = e.lim /\ base' = e.dispatched
  /\ ost' = [o \in DOMAIN e.kinds |-> "open"]
  /\ ops' = <<>> /\ csnap' = <<>>
  /\ tm' = [t \in 1..e.n |-> IdleTimer]
  /\ posted' = {} /\ ranp' = "" /\ anomaly' = "" /\ bad' = ""
  /\ rnext' = [o \in DOMAIN e.kinds |-> 1]

\* ---- asynchronous operations (C01, C14) ----
ObsCall(e) ==
  IF e.op \in DOMAIN ops THEN Fail("har/op-id-reused")
  \* (late: the operation was started on an object whose Close had already begun - its error
  \*  completion is not "a callback after Close" in the sense of the statement)
  ELSE /\ ops' = ops @@ (e.op :> [o |-> e.o, dir |-> e.dir, st |-> "run", ret |-> FALSE, err |-> "",
                                   late |-> (e.o \in DOMAIN ost /\ ost[e.o] # "open"),
                                   all |-> e.api = "readall",    \* one operation that moves e.n units
                                   big |-> e.api \in {"writetobig", "readfromempty", "acceptbad"}]) \* a datagram too large to send / a read that meets an empty datagram: fails at once
       /\ UNCHANGED <<kinds, cls, lim, base, ost, csnap, tm, posted, ranp, anomaly, rnext, bad>>

ObsRet(e) ==
  IF e.op \notin DOMAIN ops THEN Fail("har/unknown-op")
  ELSE /\ ops' = [ops EXCEPT ![e.op].ret = TRUE]
       /\ UNCHANGED <<kinds, cls, lim, base, ost, csnap, tm, posted, ranp, anomaly, rnext, bad>>

IsErrno(s) == s = "errno"

ObsCbB(e) ==
  IF e.op \notin DOMAIN ops THEN Fail("har/unknown-op")
  ELSE LET r == ops[e.op] IN
    IF r.st = "done" THEN Fail("C01/double-completion/" \o Kind(r.o))
    ELSE IF ost[r.o] = "closed" /\ ~r.late THEN Fail("C01/callback-after-close/" \o Kind(r.o))
    ELSE IF cls = "chain" /\ e.depth > lim + 1 THEN Fail("C14/depth/" \o Kind(r.o))
    ELSE IF cls = "chain" /\ ~r.big /\ e.err # "nil" THEN Fail("C14/deferred-result/" \o Kind(r.o))
    \* an operation that fails at once is an immediate completion too: inline or deferred, its result is the error
    ELSE IF cls = "chain" /\ r.big /\ e.err = "nil" THEN Fail("C14/deferred-result/" \o Kind(r.o) \o ":no-error")
    \* a successful read / accept / datagram read delivers the oldest unit the peer queued (tokens count up
    \* per object); in a chain this is "the result it would have had inline"
    ELSE IF r.dir = "R" /\ e.err = "nil" /\ e.n > 0 /\ e.tok # rnext[r.o] /\ cls = "chain" /\ "C14" \in Focus
            /\ anomaly # "datagram-lost"     \* (a datagram the environment sent never showed up at the socket)
         THEN Fail("C14/deferred-result/" \o Kind(r.o) \o ":wrong-unit")
    ELSE /\ rnext' = IF r.dir = "R" /\ e.err = "nil" /\ e.n > 0 THEN [rnext EXCEPT ![r.o] = e.tok + (IF r.all THEN e.n ELSE 1)] ELSE rnext
         /\ ops' = [ops EXCEPT ![e.op].st = "done", ![e.op].err = e.err]
         /\ ranp' = IF ranp = "" THEN "" ELSE "y"
         /\ anomaly' = IF anomaly \in {"descriptor-replaced", "datagram-lost"} THEN anomaly
                       ELSE IF IsErrno(e.err) /\ ~r.ret THEN "failed-registration:" \o Kind(r.o)
                       ELSE IF IsErrno(e.err) THEN "errno-completion:" \o Kind(r.o) ELSE anomaly
         /\ UNCHANGED <<kinds, cls, lim, base, ost, csnap, tm, posted, bad>>

ObsCancelB(e) ==
  /\ csnap' = <<[o |-> e.o,
                 ids |-> {id \in DOMAIN ops : ops[id].o = e.o /\ ops[id].st = "run" /\ ops[id].ret}]>> \o csnap
  /\ UNCHANGED <<kinds, cls, lim, base, ost, ops, tm, posted, ranp, anomaly, rnext, bad>>

ObsCancelE(e) ==
  IF csnap = <<>> \/ csnap[1].o # e.o THEN Fail("har/cancel-nesting")
  \* (an object closed by a callback that ran during this Cancel is exempt: after
  \*  Close no callback may run, so its remaining operations are dropped)
  ELSE IF ost[e.o] = "open" /\ \E id \in csnap[1].ids : ops[id].st # "done"
       THEN Fail("C01/cancel-incomplete/" \o Kind(e.o))
  \* (once the program has replaced a descriptor underneath its object the poller's own error may be what
  \*  Cancel reports: the statements do not speak about that situation)
  ELSE IF (\E id \in csnap[1].ids : ops[id].st = "done" /\ ops[id].err # "cancelled") /\ anomaly # "descriptor-replaced"
       THEN Fail("C01/cancel-wrong-error/" \o Kind(e.o))
  ELSE /\ csnap' = Tail(csnap)
       /\ UNCHANGED <<kinds, cls, lim, base, ost, ops, tm, posted, ranp, anomaly, rnext, bad>>

ObsCloseB(e) ==
  /\ ost' = [ost EXCEPT ![e.o] = IF @ = "open" THEN "closing" ELSE @]
  /\ UNCHANGED <<kinds, cls, lim, base, ops, csnap, tm, posted, ranp, anomaly, rnext, bad>>

ObsCloseE(e) ==
  /\ ost' = [ost EXCEPT ![e.o] = "closed"]
  /\ UNCHANGED <<kinds, cls, lim, base, ops, csnap, tm, posted, ranp, anomaly, rnext, bad>>

\* ---- PollOne (C03) ----
ObsPollB(e) ==
  /\ ranp' = "n"
  /\ UNCHANGED <<kinds, cls, lim, base, ost, ops, csnap, tm, posted, anomaly, rnext, bad>>

ObsPollE(e) ==
  IF ranp = "y" /\ (e.n <= 0 \/ e.err # "nil") THEN Fail("C03/pollone-count/ran-but-not-reported")
  ELSE IF e.err = "nil" /\ e.n <= 0 THEN Fail("C03/pollone-count/zero-success")
  ELSE IF e.err # "nil" /\ e.err # "timeout" THEN Fail("C03/pollone-error/" \o e.err)
  ELSE /\ ranp' = ""
       /\ UNCHANGED <<kinds, cls, lim, base, ost, ops, csnap, tm, posted, anomaly, rnext, bad>>

\* ---- accounting sampled at top level (C03, C14, C04) ----
InFlight == {id \in DOMAIN ops : ops[id].st = "run" /\ ost[ops[id].o] = "open"}
Armed    == {t \in DOMAIN tm : tm[t].st \in {"once", "rep"}}
Ledger   == Cardinality(InFlight) + Cardinality(Armed) + Cardinality(posted)

ObsSample(e) ==
  IF e.pending # Ledger THEN Fail("C03/pending-ledger/" \o (IF anomaly = "" THEN "plain" ELSE anomaly))
  ELSE IF e.posted # Cardinality(posted) THEN Fail("C05/ledger/posted")
  ELSE IF e.dispatched # base THEN Fail("C14/dispatched-nonzero")
  ELSE IF \E t \in DOMAIN tm : e.sched[t] # (IF tm[t].st \in {"once", "rep"} THEN 1 ELSE 0)
       THEN Fail("C04/scheduled-lies")
  ELSE UNCHANGED monvars

\* ---- timers (C04) ----
ObsTSchedB(e) ==
  /\ tm' = [tm EXCEPT ![e.t].open = <<[d |-> e.d, ts |-> e.ts, rep |-> e.n, sn |-> e.h, fired |-> FALSE]>> \o @]
  /\ UNCHANGED <<kinds, cls, lim, base, ost, ops, csnap, posted, ranp, anomaly, rnext, bad>>

ObsTSchedE(e) ==
  LET r == tm[e.t] IN
  IF r.open = <<>> THEN Fail("har/tsched-nesting")
  ELSE LET a == Head(r.open)
           r1 == [r EXCEPT !.open = Tail(@)] IN
  IF e.err # "nil" THEN
       /\ tm' = [tm EXCEPT ![e.t] = r1]
       /\ UNCHANGED <<kinds, cls, lim, base, ost, ops, csnap, posted, ranp, anomaly, rnext, bad>>
  ELSE IF a.d <= 0 /\ a.fired THEN
       \* the callback ran inside the call (whatever it did to the timer), this call leaves nothing due
       /\ tm' = [tm EXCEPT ![e.t] = r1]
       /\ UNCHANGED <<kinds, cls, lim, base, ost, ops, csnap, posted, ranp, anomaly, rnext, bad>>
  ELSE IF r.st = "closed" THEN Fail("C04/revived")
  ELSE IF r.st \in {"once", "rep"} /\ r.infire = 0 THEN Fail("C04/double-schedule")
  ELSE /\ tm' = [tm EXCEPT ![e.t] =
                   IF FALSE
                     THEN r1
                     \* (a zero-delay schedule whose callback has not run inside the call is due at once)
                     ELSE [r1 EXCEPT !.st = IF a.rep = 1 THEN "rep" ELSE "once",
                                     !.d = IF a.d <= 0 THEN 0 ELSE a.d, !.t0 = a.ts, !.why = "sched", !.sn = a.sn]]
       /\ UNCHANGED <<kinds, cls, lim, base, ost, ops, csnap, posted, ranp, anomaly, rnext, bad>>

ObsTFireB(e) ==
  LET r == tm[e.t] IN
  IF r.open # <<>> /\ Head(r.open).sn = e.h /\ Head(r.open).d <= 0 /\ ~Head(r.open).fired
       /\ (r.st \notin {"once", "rep"} \/ r.infire > 0) THEN   \* ScheduleOnce(<= 0): the callback runs inside the call
                                                          \* (a timer is free again while its own callback runs)
       /\ tm' = [tm EXCEPT ![e.t].open = <<[Head(r.open) EXCEPT !.fired = TRUE]>> \o Tail(r.open),
                          ![e.t].infire = @ + 1]
       /\ ranp' = IF ranp = "" THEN "" ELSE "y"
       /\ UNCHANGED <<kinds, cls, lim, base, ost, ops, csnap, posted, anomaly, rnext, bad>>
  ELSE IF r.st = "closed" THEN Fail("C04/after-close")
  ELSE IF r.st = "idle" THEN
       Fail(IF r.why = "fired" THEN "C04/double-fire"
            ELSE IF r.why = "cancelled" THEN "C04/after-cancel" ELSE "C04/unscheduled-fire")
  ELSE IF e.ts - r.t0 < r.d THEN Fail("C04/early/" \o r.st)
  ELSE IF e.h # r.sn THEN Fail("C04/wrong-callback/" \o r.st)   \* the callback of another (rejected, cancelled, older) Schedule* call
  ELSE /\ tm' = [tm EXCEPT ![e.t] =
                   IF r.st = "once" THEN [r EXCEPT !.st = "idle", !.why = "fired", !.infire = @ + 1]
                                    ELSE [r EXCEPT !.t0 = e.ts, !.infire = @ + 1]]
       /\ ranp' = IF ranp = "" THEN "" ELSE "y"
       /\ UNCHANGED <<kinds, cls, lim, base, ost, ops, csnap, posted, anomaly, rnext, bad>>

ObsTFireE(e) ==
  /\ tm' = [tm EXCEPT ![e.t].infire = IF @ > 0 THEN @ - 1 ELSE 0]
  /\ UNCHANGED <<kinds, cls, lim, base, ost, ops, csnap, posted, ranp, anomaly, rnext, bad>>

ObsTCancelE(e) ==
  /\ tm' = [tm EXCEPT ![e.t] = IF e.err = "nil" /\ @.st \in {"once", "rep"}
                                  THEN [@ EXCEPT !.st = "idle", !.why = "cancelled"] ELSE @]
  /\ UNCHANGED <<kinds, cls, lim, base, ost, ops, csnap, posted, ranp, anomaly, rnext, bad>>

ObsTCloseE(e) ==
  /\ tm' = [tm EXCEPT ![e.t] = IF e.err = "nil" THEN [@ EXCEPT !.st = "closed", !.why = "closed"] ELSE @]
  /\ UNCHANGED <<kinds, cls, lim, base, ost, ops, csnap, posted, ranp, anomaly, rnext, bad>>

\* ---- posted handlers, single-threaded part (C05) ----
ObsPostE(e) ==
  /\ posted' = IF e.err = "nil" THEN posted \cup {e.h} ELSE posted
  /\ UNCHANGED <<kinds, cls, lim, base, ost, ops, csnap, tm, ranp, anomaly, rnext, bad>>

ObsPostRunB(e) ==
  IF e.h \notin posted THEN Fail("C05/run-twice")
  ELSE /\ posted' = posted \ {e.h}
       /\ ranp' = IF ranp = "" THEN "" ELSE "y"
       /\ UNCHANGED <<kinds, cls, lim, base, ost, ops, csnap, tm, anomaly, rnext, bad>>

\* ---- RunPending (C03) ----
\* the driver made every parked operation completable before the call
ObsRunPendE(e) ==
  IF Ledger > 0 THEN Fail("C03/runpending-early")
  ELSE IF e.err # "nil" THEN Fail("C03/runpending-error")
  ELSE UNCHANGED monvars

ObsStuck(e) ==
  IF e.api = "RunPending" THEN
     (IF Ledger = 0 THEN Fail("C03/runpending-stuck/" \o (IF anomaly = "" THEN "plain" ELSE anomaly))
      ELSE Fail("C03/runpending-stuck/in-flight"))
  ELSE Fail("har/stuck/" \o e.api)

\* ---- end of scenario, after the drain phase ----
\* the driver made every parked operation completable, polled until its own
\* ledger was empty or a generous budget expired, and waited out due timers
ObsEnd(e) ==
  IF cls = "signal" /\ InFlight # {} /\ "C03" \in Focus THEN Fail("C03/event-lost-after-signal")
  \* (an operation parked on a descriptor that the program replaced underneath the object waits for ever:
  \*  the kernel dropped the registration with the old file)
  ELSE IF InFlight # {} /\ anomaly # "descriptor-replaced" THEN
     LET id == CHOOSE id \in InFlight : TRUE IN Fail("C01/never-completed/" \o Kind(ops[id].o))
  ELSE IF \E t \in DOMAIN tm : tm[t].st = "once" THEN Fail("C04/not-fired")
  ELSE IF posted # {} THEN Fail("C05/not-run")
  ELSE UNCHANGED monvars

Skip == UNCHANGED monvars

Obs(e) ==
  CASE e.ev = "Reset"    -> ObsReset(e)
    [] e.ev = "Call"     -> ObsCall(e)
    [] e.ev = "Ret"      -> ObsRet(e)
    [] e.ev = "CbB"      -> ObsCbB(e)
    [] e.ev = "CbE"      -> Skip
    [] e.ev = "CancelB"  -> ObsCancelB(e)
    [] e.ev = "CancelE"  -> ObsCancelE(e)
    [] e.ev = "CloseB"   -> ObsCloseB(e)
    [] e.ev = "CloseE"   -> ObsCloseE(e)
    [] e.ev = "Env"      -> IF e.api = "send-lost" /\ anomaly = ""
                              THEN /\ anomaly' = "datagram-lost"
                                   /\ UNCHANGED <<kinds, cls, lim, base, ost, ops, csnap, tm, posted, ranp, rnext, bad>>
                              ELSE IF e.api = "yank" /\ anomaly = ""
                              THEN /\ anomaly' = "descriptor-replaced"
                                   /\ UNCHANGED <<kinds, cls, lim, base, ost, ops, csnap, tm, posted, ranp, rnext, bad>>
                              ELSE Skip
    [] e.ev = "TNew"     -> Skip      \* a timer is created in mid-scenario
    [] e.ev = "Open"     -> Skip      \* an object is created in mid-scenario (nothing of it was observable before)
    [] e.ev = "PollB"    -> ObsPollB(e)
    [] e.ev = "PollE"    -> ObsPollE(e)
    [] e.ev = "Sample"   -> ObsSample(e)
    [] e.ev = "TSchedB"  -> ObsTSchedB(e)
    [] e.ev = "TSchedE"  -> ObsTSchedE(e)
    [] e.ev = "TFireB"   -> ObsTFireB(e)
    [] e.ev = "TFireE"   -> ObsTFireE(e)
    [] e.ev = "TCancelE" -> ObsTCancelE(e)
    [] e.ev = "TCloseE"  -> ObsTCloseE(e)
    [] e.ev = "PostE"    -> ObsPostE(e)
    [] e.ev = "PostRunB" -> ObsPostRunB(e)
    [] e.ev = "PostRunE" -> Skip
    [] e.ev = "WaitB"    -> Skip
    [] e.ev = "WaitE"    -> (IF e.err \notin {"nil", "timeout"} THEN Fail("C03/eintr-surfaced") ELSE Skip)
    [] e.ev = "RunPendB" -> Skip
    [] e.ev = "RunPendE" -> ObsRunPendE(e)
    [] e.ev = "Stuck"    -> ObsStuck(e)
    [] e.ev = "End"      -> ObsEnd(e)
    [] OTHER             -> Fail("har/unknown-event")

NotBad == bad = ""
=============================================================================
